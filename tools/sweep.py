#!/usr/bin/env python3
"""Mutation sweep (development aid, not a registered check).

  tools/sweep.py gen                 enumerate single-point mutants of /repo's root package (tunnelvet mutgen)
  tools/sweep.py scan [-j N]         apply each to a scratch copy, run `tunnelvet scan` (all properties, one process)
  tools/sweep.py test [-j N]         for mutants that load and that no rule reports: run the repository's test suite
  tools/sweep.py report              survivors of both = candidates for triage (outside every property, or a gap)

Scratch state lives in $SWEEP_DIR (default /tmp/sweep) and is never needed by a registered command."""
import json, os, subprocess, sys, shutil, concurrent.futures as cf, collections

D = os.environ.get("SWEEP_DIR", "/tmp/sweep")
TV = "/verif/bin/tunnelvet"
ENV = dict(os.environ, GOFLAGS="-mod=mod", GOPROXY="off", GOSUMDB="off", GOTOOLCHAIN="local",
           PATH="/opt/veriftools/go1.26.8/bin:" + os.environ["PATH"])
TENV = dict(os.environ, GOFLAGS="-mod=mod", GOPROXY="off")


def load(name):
    p = os.path.join(D, name)
    return [json.loads(l) for l in open(p)] if os.path.exists(p) else []


import threading
_plock = threading.Lock()


def pristine():
    p = os.path.join(D, "pristine")
    with _plock:
        if not os.path.exists(p):
            os.makedirs(p + ".tmp", exist_ok=True)
            subprocess.run("git -C /repo archive HEAD | tar -x -C " + p + ".tmp", shell=True, check=True)
            os.rename(p + ".tmp", p)
    return p


def workdir(k):
    w = os.path.join(D, "w%d" % k)
    subprocess.run(["rsync", "-a", "--delete", pristine() + "/", w + "/"], check=True)
    return w


def apply(m, w):
    p = os.path.join(w, m["file"])
    b = open(p, "rb").read()
    b = b[:m["start"]] + m["new"].encode() + b[m["end"]:]
    open(p, "wb").write(b)


def scan_one(args):
    k, m = args
    w = workdir(k)
    apply(m, w)
    r = subprocess.run([TV, "scan", "-repo", w], env=ENV, capture_output=True, text=True)
    out = r.stdout.strip().splitlines()
    line = out[-1] if out else "CRASH " + r.stderr[-300:]
    return dict(id=m["id"], scan=line)


def test_one(args):
    k, m = args
    w = workdir(100 + k)
    apply(m, w)
    try:
        r = subprocess.run(["go", "test", "-vet=off", "-count=1", "-failfast", "."], cwd=w, env=TENV, capture_output=True, text=True, timeout=150)
        verdict = "pass" if r.returncode == 0 else "fail"
        tail = (r.stdout + r.stderr)[-400:] if verdict == "fail" else ""
    except subprocess.TimeoutExpired:
        verdict, tail = "timeout", ""
    return dict(id=m["id"], test=verdict, tail=tail)


def run(phase, fn, todo, j):
    out = open(os.path.join(D, phase + ".jsonl"), "a")
    slots = list(range(j))
    with cf.ThreadPoolExecutor(j) as ex:
        pending = {}
        it = iter(todo)
        done = 0

        def submit():
            try:
                m = next(it)
            except StopIteration:
                return False
            k = slots.pop()
            pending[ex.submit(fn, (k, m))] = k
            return True
        while len(pending) < j and submit():
            pass
        while pending:
            for f in cf.as_completed(list(pending)):
                k = pending.pop(f)
                slots.append(k)
                out.write(json.dumps(f.result()) + "\n")
                out.flush()
                done += 1
                if done % 50 == 0:
                    print(phase, done, "/", len(todo), flush=True)
                submit()
                break


def main():
    cmd = sys.argv[1]
    j = int(sys.argv[sys.argv.index("-j") + 1]) if "-j" in sys.argv else 8
    os.makedirs(D, exist_ok=True)
    if cmd == "gen":
        with open(os.path.join(D, "mutants.jsonl"), "w") as f:
            subprocess.run([TV, "mutgen", "-repo", "/repo"], env=ENV, stdout=f, check=True)
        return
    ms = load("mutants.jsonl")
    if cmd == "scan":
        seen = {r["id"] for r in load("scan.jsonl")}
        run("scan", scan_one, [m for m in ms if m["id"] not in seen], j)
    elif cmd == "rescan":
        # after rules were added: scan again what no rule reported before; the newest verdict wins
        sc = {}
        for r in load("scan.jsonl"):
            sc[r["id"]] = r["scan"]
        run("scan", scan_one, [m for m in ms if sc.get(m["id"], "").strip() == "FIRED"], j)
    elif cmd == "test":
        sc = {r["id"]: r["scan"] for r in load("scan.jsonl")}  # later lines override earlier ones
        seen = {r["id"] for r in load("test.jsonl")}
        todo = [m for m in ms if sc.get(m["id"], "").strip() == "FIRED" and m["id"] not in seen]
        print(len(todo), "to test")
        run("test", test_one, todo, j)
    elif cmd == "report":
        sc = {r["id"]: r["scan"] for r in load("scan.jsonl")}
        ts = {r["id"]: r["test"] for r in load("test.jsonl")}
        c = collections.Counter()
        for m in ms:
            s = sc.get(m["id"])
            if s is None:
                c["unscanned"] += 1
            elif s.startswith("LOADERROR") or s.startswith("CRASH"):
                c["does not build"] += 1
            elif s.strip() != "FIRED":
                c["reported by a rule"] += 1
            elif ts.get(m["id"]) is None:
                c["untested"] += 1
            elif ts[m["id"]] != "pass":
                c["only the suite notices"] += 1
            else:
                c["survivor"] += 1
                if "-v" in sys.argv:
                    print("%s %s:%d %s [%s] %r -> %r" % (m["id"], m["file"], m["line"], m["func"], m["op"], m["orig"][:90], m["new"][:60]))
        print(dict(c))


main()
