#!/usr/bin/env python3
"""Developer helper (not part of any check): apply one textual edit to a scratch copy of /repo,
make sure it still compiles, run tunnelvet for the given properties on the copy, print the result, remove the copy.
usage: trymut.py FILE OLD NEW PROP [PROP...]   (OLD/NEW are literal strings; use $'..' for newlines)
       trymut.py --patch FILE.diff PROP [PROP...]
"""
import os, shutil, subprocess, sys, tempfile
env = dict(os.environ, GOFLAGS='-mod=mod', GOPROXY='off', GOSUMDB='off', GOTOOLCHAIN='local',
           PATH='/opt/veriftools/go1.26.8/bin:' + os.environ['PATH'])
args = sys.argv[1:]
d = tempfile.mkdtemp(prefix='tvmut.')
try:
    dst = os.path.join(d, 'repo')
    shutil.copytree('/repo', dst, ignore=shutil.ignore_patterns('.git'))
    if args[0] == '--patch':
        subprocess.run(['patch', '-p1', '-s', '-i', os.path.abspath(args[1])], cwd=dst, check=True)
        props = args[2:]
    else:
        f, old, new = args[0], args[1], args[2]
        props = args[3:]
        p = os.path.join(dst, f)
        s = open(p).read()
        if s.count(old) != 1:
            print('OLD occurs %d times' % s.count(old)); sys.exit(3)
        open(p, 'w').write(s.replace(old, new))
    r = subprocess.run(['go', 'build', './...'], cwd=dst, env=env, capture_output=True, text=True)
    if r.returncode != 0:
        print('DOES NOT COMPILE:\n' + r.stderr); sys.exit(4)
    tv = os.environ.get('TV', '/tmp/tv')
    for prop in props:
        r = subprocess.run([tv, 'check', '-prop', prop, '-repo', dst, '-verif', '/verif', '-no-evidence'], env=env, capture_output=True, text=True)
        out = r.stdout.replace(dst + '/', '')
        print('== %s exit=%d' % (prop, r.returncode))
        print(out.strip())
        if r.stderr.strip(): print(r.stderr.strip())
finally:
    shutil.rmtree(d, ignore_errors=True)
