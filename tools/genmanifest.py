#!/usr/bin/env python3
"""Regenerates MANIFEST.json from tools/manifest_src.json (claimed properties + text) so the file stays valid."""
import json, sys
src = json.load(open('/verif/tools/manifest_src.json'))
props = [json.loads(l) for l in open('/verif/properties.jsonl')]
checks, na = [], []
for p in props:
    pid = p['id']
    s = src['claimed'].get(pid)
    if s is None:
        na.append({"property_id": pid, "reason": src['not_claimed'].get(pid, "check not built yet (work in progress); no claim is made")})
        continue
    checks.append({
        "property_id": pid,
        "quick_cmd": "./check %s quick" % pid,
        "thorough_cmd": "./check %s thorough" % pid,
        "evidence_file": "/verif/evidence/%s.json" % pid,
        "replay_cmd_template": "./check %s --explain {path}" % pid,
        "engine": "tunnelvet",
        "level_claimed": {"category": "other", "text": s['text'], "design_ref": s.get('design_ref', 'DESIGN.md §5 ' + pid)},
        "level_note": s['note'],
        "technique": s['technique'],
    })
m = {
    "version": 1,
    "setup_cmd": "./check --build",
    "hooks": {
        "guard": "verif",
        "enable": "no hooks exist: the analyser reads /repo's sources and never builds or runs them; thorough runs additionally load the tree with -tags verif so that a future guarded file would be analysed too",
        "baseline_off_cmd": "cd /repo && GOFLAGS=-mod=mod GOPROXY=off go test -vet=off -count=1 ./...",
        "source_commits": [],
        "add_only": True,
    },
    "engines": [{"name": "tunnelvet", "path": "/verif/tunnelvet", "serves_properties": [c['property_id'] for c in checks],
                 "kind_free_text": "repository-specific static analyser (Go; go/packages + go/ssa + VTA call graph, x/tools v0.50.0 vendored): dominance/path rules, lockset analysis, emit-site and field-access tables, guard facts; decides structural necessary conditions of each property on /repo's current working tree without executing it"}],
    "checks": checks,
    "notes": src['notes'],
    "not_applicable": na,
}
json.dump(m, open('/verif/MANIFEST.json', 'w'), indent=1)
open('/verif/MANIFEST.json', 'a').write('\n')
print(len(checks), 'claimed;', len(na), 'not claimed')
