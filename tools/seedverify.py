#!/usr/bin/env python3
"""Developer helper (not part of any check): confirm a sub-agent's seeded change myself, in a scratch
worktree of /repo outside /repo and /verif, then run every tunnelvet property against the changed tree.

  seedverify.py <out-dir>/mutant<k> [--race] [--keep-as <seed-id> --property Cnn]

Confirms: patch applies to /repo HEAD; go build + go vet pass; the unchanged suite passes with the change;
the demo FAILS with the change and PASSES without it. Prints which properties' checks report a violation.
With --keep-as it writes /verif/seeded/<seed-id>/{patch.diff,demo_test.go,notes.md,meta.json}.
"""
import json, os, re, shutil, subprocess, sys, tempfile, time

ENV = dict(os.environ, GOFLAGS='-mod=mod', GOPROXY='off', GOSUMDB='off', GOTOOLCHAIN='local',
           PATH='/opt/veriftools/go1.26.8/bin:' + os.environ['PATH'])
TV = '/verif/bin/tunnelvet'
PROPS = ['C%02d' % i for i in range(1, 19)]

def run(cmd, cwd, timeout=600):
    t0 = time.time()
    try:
        r = subprocess.run(cmd, cwd=cwd, env=ENV, capture_output=True, text=True, timeout=timeout)
        return r.returncode, (r.stdout + r.stderr), time.time() - t0
    except subprocess.TimeoutExpired as e:
        return 124, 'TIMEOUT after %ds\n%s' % (timeout, (e.stdout or b'').decode(errors='replace')[-2000:] if isinstance(e.stdout, bytes) else str(e.stdout)[-2000:]), time.time() - t0

def main():
    args = sys.argv[1:]
    src = os.path.abspath(args[0])
    race = '--race' in args
    keep = args[args.index('--keep-as') + 1] if '--keep-as' in args else None
    prop = args[args.index('--property') + 1] if '--property' in args else None
    skip_suite = '--skip-suite' in args
    patch = os.path.join(src, 'patch.diff')
    demo = os.path.join(src, 'demo_test.go')
    res = {'source': src}
    tmp = tempfile.mkdtemp(prefix='seedverify.')
    wt = os.path.join(tmp, 'wt')
    try:
        subprocess.run(['git', '-C', '/repo', 'worktree', 'add', '-q', '--detach', wt, 'HEAD'], check=True)
        head = subprocess.run(['git', '-C', '/repo', 'rev-parse', '--short', 'HEAD'], capture_output=True, text=True).stdout.strip()
        res['repo_head'] = head
        rc, out, _ = run(['git', 'apply', '--check', patch], wt)
        res['applies'] = rc == 0
        if rc != 0:
            res['error'] = out[-800:]
            print(json.dumps(res, indent=1)); return 1
        tests = re.findall(r'^func (Test\w+)\(', open(demo).read(), re.M)
        pat = '^(' + '|'.join(tests) + ')$'
        demo_cmd = ['go', 'test', '-vet=off', '-count=1', '-run', pat] + (['-race'] if race else []) + ['.']
        # 1. demo on pristine
        shutil.copy(demo, os.path.join(wt, 'zz_seed_demo_test.go'))
        rc, out, dt = run(demo_cmd, wt, 400)
        res['demo_pristine'] = {'rc': rc, 's': round(dt, 1), 'tail': out[-600:]}
        # 2. apply
        run(['git', 'apply', patch], wt)
        rc, out, _ = run(['go', 'build', './...'], wt)
        rc2, out2, _ = run(['go', 'vet', '.'], wt)
        res['build_vet'] = rc == 0 and rc2 == 0
        if not res['build_vet']:
            res['error'] = (out + out2)[-800:]
        # 3. demo with change
        rc, out, dt = run(demo_cmd, wt, 400)
        res['demo_mutant'] = {'rc': rc, 's': round(dt, 1), 'tail': out[-1200:]}
        # 4. suite with change (demo file removed)
        os.remove(os.path.join(wt, 'zz_seed_demo_test.go'))
        if not skip_suite:
            rc, out, dt = run(['go', 'test', '-vet=off', '-count=1', '.'], wt, 900)
            res['suite_mutant'] = {'rc': rc, 's': round(dt, 1), 'tail': out[-400:]}
        # 5. my checks on the changed tree
        fired = {}
        for p in PROPS:
            r = subprocess.run([TV, 'check', '-prop', p, '-repo', wt, '-verif', '/verif', '-no-evidence', '-json'], env=ENV, capture_output=True, text=True)
            rules = []
            for line in r.stdout.splitlines():
                if line.startswith('{'):
                    o = json.loads(line)
                    rules.append(o['rule'] + ' @ ' + o['construct'])
            if r.returncode == 2:
                rules.append('ANALYSER-ERROR: ' + r.stderr[-300:])
            if rules:
                fired[p] = rules
        res['fired'] = fired
        ok = res['applies'] and res['build_vet'] and res['demo_pristine']['rc'] == 0 and res['demo_mutant']['rc'] != 0 and (skip_suite or res['suite_mutant']['rc'] == 0)
        res['confirmed'] = ok
        if keep and ok:
            d = os.path.join('/verif/seeded', keep)
            os.makedirs(d, exist_ok=True)
            if os.path.abspath(d) != src:
                shutil.copy(patch, os.path.join(d, 'patch.diff'))
                shutil.copy(demo, os.path.join(d, 'demo_test.go'))
                if os.path.exists(os.path.join(src, 'notes.md')):
                    shutil.copy(os.path.join(src, 'notes.md'), os.path.join(d, 'notes.md'))
            prev = {}
            if os.path.exists(os.path.join(d, 'meta.json')):
                prev = json.load(open(os.path.join(d, 'meta.json')))
            meta = {
                'id': keep, 'property': prop, 'repo_head': head,
                'needs': prev.get('needs', ''), 'what': prev.get('what', ''),
                'confirmed_by_me': {
                    'cmds': ['git apply patch.diff', 'go build ./... && go vet .', ' '.join(demo_cmd) + '  (copy demo_test.go into the package first)', 'go test -vet=off -count=1 .'],
                    'demo_on_pristine_rc': res['demo_pristine']['rc'], 'demo_with_change_rc': res['demo_mutant']['rc'],
                    'suite_with_change_rc': None if skip_suite else res['suite_mutant']['rc'],
                    'race_detector': race,
                },
                'detected_by_properties': sorted(fired.keys()),
                'rules_fired': fired,
            }
            json.dump(meta, open(os.path.join(d, 'meta.json'), 'w'), indent=1)
        print(json.dumps(res, indent=1))
        return 0 if ok else 1
    finally:
        subprocess.run(['git', '-C', '/repo', 'worktree', 'remove', '--force', wt])
        shutil.rmtree(tmp, ignore_errors=True)

sys.exit(main())
