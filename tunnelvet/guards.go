package main

// guards.go: A5 guard facts about struct fields and values, A7 once-guard typestate,
// A8 nil-ness of one value at one point.

import (
	"go/token"
	"go/types"
	"strings"

	"golang.org/x/tools/go/ssa"
)

// boolFactsAt: the set of (value, polarity) facts dominating `in`, after normalising NOT.
// Includes facts on captured variables translated to their bindings in the parent.
type BoolFact struct {
	V    ssa.Value // origin-resolved
	True bool
	Raw  EdgeFact
}

func boolFactsAt(in ssa.Instruction) []BoolFact { return boolFactsOf(factsAt(in)) }

func boolFactsOf(facts []EdgeFact) []BoolFact {
	var out []BoolFact
	for _, f := range facts {
		v := origin(f.Cond)
		pol := f.True
		// look through NOT after origin resolution as well
		for {
			u, ok := v.(*ssa.UnOp)
			if ok && u.Op == token.NOT {
				v = origin(u.X)
				pol = !pol
				continue
			}
			break
		}
		out = append(out, BoolFact{v, pol, f})
	}
	return out
}

// fieldFlagFact: is there a dominating fact that bool field `fr` (of any base) was loaded and found == want?
// Returns the load instruction establishing it.
func fieldFlagFact(in ssa.Instruction, fr FieldRef, want bool) *ssa.UnOp {
	return fieldFlagFactDepth(in, fr, want, 0)
}

func fieldFlagFactDepth(in ssa.Instruction, fr FieldRef, want bool, depth int) *ssa.UnOp {
	for _, f := range boolFactsAt(in) {
		if f.True != want {
			continue
		}
		if u, ok := f.V.(*ssa.UnOp); ok && u.Op == token.MUL {
			if r, _, ok := fieldOfAddr(u.X); ok && r == fr {
				return u
			}
		}
	}
	if depth > 1 {
		return nil
	}
	// "helper(...) returned a nil error" implies what holds at every nil-error return of that helper (a validation step
	// split off into a helper that tests the flag and reports an error)
	for _, f := range factsAt(in) {
		x, op, y, ok := cmpFact(f)
		if !ok || op != token.EQL || !isNilConst(y) {
			continue
		}
		var call *ssa.Call
		idx := 0
		switch v := stripConv(x).(type) {
		case *ssa.Call:
			call = v
		case *ssa.Extract:
			call, _ = v.Tuple.(*ssa.Call)
			idx = v.Index
		}
		if call == nil {
			continue
		}
		h := helperCallee(call)
		if h == nil || idx != h.Signature.Results().Len()-1 || types.TypeString(h.Signature.Results().At(idx).Type(), nil) != "error" {
			continue
		}
		var found *ssa.UnOp
		okAll, n := true, 0
		allInstrsLocal(h, func(x ssa.Instruction) {
			ret, isR := x.(*ssa.Return)
			if !isR || idx >= len(ret.Results) || !isNilConst(ret.Results[idx]) {
				return
			}
			n++
			if u := fieldFlagFactDepth(ret, fr, want, depth+1); u != nil {
				found = u
			} else {
				okAll = false
			}
		})
		if okAll && n > 0 && found != nil {
			return found
		}
	}
	return nil
}

// storesToField lists the Store instructions in fn writing field fr, with the stored value.
func storesToField(fn *ssa.Function, fr FieldRef) []*ssa.Store {
	var out []*ssa.Store
	allInstrs(fn, func(in ssa.Instruction) {
		if st, ok := in.(*ssa.Store); ok {
			if r, _, ok := fieldOfAddr(st.Addr); ok && r == fr {
				out = append(out, st)
			}
		}
	})
	return out
}

func isConstBool(v ssa.Value, want bool) bool {
	c, ok := v.(*ssa.Const)
	if !ok || c.Value == nil {
		return false
	}
	return c.Value.ExactString() == map[bool]string{true: "true", false: "false"}[want]
}

// loadsOfField lists loads of field fr in fn.
func loadsOfField(fn *ssa.Function, fr FieldRef) []*ssa.UnOp {
	var out []*ssa.UnOp
	allInstrs(fn, func(in ssa.Instruction) {
		if u, ok := in.(*ssa.UnOp); ok && u.Op == token.MUL {
			if r, _, ok := fieldOfAddr(u.X); ok && r == fr {
				out = append(out, u)
			}
		}
	})
	return out
}

// boolFields returns the bool-typed fields of a named struct.
func boolFields(nt *types.Named) []FieldRef {
	var out []FieldRef
	if nt == nil {
		return nil
	}
	for _, f := range flatFields(nt) {
		if b, ok := f.Type.Underlying().(*types.Basic); ok && b.Kind() == types.Bool {
			out = append(out, FieldRef{nt.Obj().Name(), f.Name})
		}
	}
	return out
}

type flatField struct {
	Name string // dotted through uniquely embedded sub-structs
	Type types.Type
}

// flatFields lists the fields of a struct type, looking into uniquely embedded sub-structs (whose fields count as the
// outer struct's, see uniqueEmbedding).
func flatFields(nt *types.Named) []flatField {
	var out []flatField
	var walk func(st *types.Struct, prefix string, depth int)
	walk = func(st *types.Struct, prefix string, depth int) {
		for i := 0; i < st.NumFields(); i++ {
			f := st.Field(i)
			if n, ok := types.Unalias(f.Type()).(*types.Named); ok && depth < 3 {
				if _, uniq := uniqueEmbedding[typeNameOf(n)]; uniq {
					if inner, isS := n.Underlying().(*types.Struct); isS {
						walk(inner, prefix+f.Name()+".", depth+1)
						continue
					}
				}
			}
			out = append(out, flatField{prefix + f.Name(), f.Type()})
		}
	}
	if st, ok := nt.Underlying().(*types.Struct); ok {
		walk(st, "", 0)
	}
	return out
}

// everyPathSets: every CFG path from just after `from` to a function exit passes a store of `true`
// into field fr (so the flag is set before the enclosing critical section can end). If the store
// happens before `from` but after the establishing load, that is accepted too (afterLoad).
func flagSetAround(fn *ssa.Function, from ssa.Instruction, load ssa.Instruction, fr FieldRef) (bool, string) {
	isSet := func(in ssa.Instruction) bool {
		if st, ok := in.(*ssa.Store); ok {
			if r, _, ok := fieldOfAddr(st.Addr); ok && r == fr && isConstBool(st.Val, true) {
				return true
			}
		}
		return false
	}
	// store between load and from on every path?
	// the effect may sit in a private helper used only here (`st.halfClosed = true; return st.sendHalfClose()`): paths are
	// followed through the helper's only call site
	root := regionRoot(fn)
	if load != nil && regionRoot(load.Parent()) == root {
		if pathAvoiding(root, load, func(in ssa.Instruction) bool { return in == from }, isSet) == nil {
			return true, "flag set on every path between the test and the effect"
		}
	}
	if esc := pathAvoiding(root, from, isExit, isSet); esc != nil {
		return false, "a path from the effect reaches a function exit without setting the flag"
	}
	return true, "flag set on every path from the effect to the end of the critical section"
}

// ---------- A8 nil-ness ----------

// nonNilError: is v (an error-typed value) provably non-nil at its use?
func nonNilError(v ssa.Value, at ssa.Instruction, depth int) (bool, string) {
	if depth > 8 {
		return false, "too deep"
	}
	v = stripConv(v)
	if at != nil {
		for _, f := range factsAt(at) {
			if x, op, y, ok := cmpFact(f); ok {
				if op == token.NEQ && ((stripConv(x) == v && isNilConst(y)) || (stripConv(y) == v && isNilConst(x))) {
					return true, "guarded by != nil"
				}
			}
		}
	}
	switch x := v.(type) {
	case *ssa.Const:
		if x.Value == nil {
			return false, "constant nil"
		}
	case *ssa.Call:
		// ctx.Err() after a completed receive from the same context's Done(): non-nil by the context contract
		if x.Call.IsInvoke() && x.Call.Method.Name() == "Err" && at != nil {
			cd := desc(x.Call.Value)
			if recvDominates(at, func(ch ssa.Value) bool {
				dc, ok := origin(ch).(*ssa.Call)
				return ok && dc.Call.IsInvoke() && dc.Call.Method.Name() == "Done" && desc(dc.Call.Value) == cd
			}) {
				return true, "ctx.Err() after <-ctx.Done()"
			}
		}
		n := calleeName(x)
		switch n {
		case "errors.New", "fmt.Errorf", "google.golang.org/grpc/status.Errorf", "google.golang.org/grpc/status.Error":
			if strings.HasPrefix(n, "google.golang.org/grpc/status.") {
				// non-nil unless the code is OK (0)
				if c, ok := constInt(x.Call.Args[0]); ok && c != 0 {
					return true, n + " with non-OK code"
				}
				return false, n + " with a code that is not a non-zero constant"
			}
			return true, n
		}
		// status.FromContextError(err).Err() with err non-nil: FromContextError maps every non-nil error to a non-OK status
		// (Canceled, DeadlineExceeded, else Unknown)
		if strings.HasSuffix(n, "status.Status).Err") && len(x.Call.Args) == 1 {
			if fc, ok := stripConv(x.Call.Args[0]).(*ssa.Call); ok && calleeName(fc) == "google.golang.org/grpc/status.FromContextError" && len(fc.Call.Args) == 1 {
				if nn, _ := nonNilError(fc.Call.Args[0], at, depth+1); nn {
					return true, "status.FromContextError(non-nil).Err()"
				}
				// tested non-nil on the way
				if at != nil {
					for _, f := range factsAt(at) {
						if fx, op, y, okc := cmpFact(f); okc && op == token.NEQ && isNilConst(y) && (stripConv(fx) == stripConv(fc.Call.Args[0]) || origin(fx) == origin(fc.Call.Args[0])) {
							return true, "status.FromContextError(err).Err() under err != nil"
						}
					}
				}
			}
		}
		return false, "result of " + n
	case *ssa.UnOp:
		if x.Op == token.MUL {
			if g, ok := x.X.(*ssa.Global); ok {
				// package-level error variables of well-known packages
				if g.Pkg != nil {
					switch g.Pkg.Pkg.Path() + "." + g.Name() {
					case "io.EOF", "context.Canceled", "context.DeadlineExceeded", "io.ErrUnexpectedEOF":
						return true, "package-level error " + g.Name()
					}
					if g.Pkg.Pkg.Path() == rootPath {
						return true, "package-level error " + g.Name() + " (initialised once)"
					}
				}
			}
			// load of a spilled local: single store
			if a, ok := x.X.(*ssa.Alloc); ok {
				if s := singleStore(a); s != nil {
					return nonNilError(s, at, depth+1)
				}
			}
		}
	case *ssa.Phi:
		for _, e := range x.Edges {
			if e == x {
				continue
			}
			ok, why := nonNilError(e, at, depth+1)
			if !ok {
				// the edge may be guarded: value e flows in only from a block dominated by e != nil
				return false, "phi edge: " + why
			}
		}
		return true, "phi of non-nil values"
	}
	// guarded by a dominating v != nil fact
	if at != nil {
		for _, f := range factsAt(at) {
			if x, op, y, ok := cmpFact(f); ok {
				if op == token.NEQ && ((stripConv(x) == v && isNilConst(y)) || (stripConv(y) == v && isNilConst(x))) {
					return true, "guarded by != nil"
				}
			}
		}
	}
	return false, "value " + desc(v) + " is not provably non-nil"
}

// nonNilOnEdges: for a phi, check each incoming edge with the guard facts of the predecessor edge.
func nonNilErrorPhiAware(v ssa.Value, at ssa.Instruction) (bool, string) {
	v = stripConv(v)
	if phi, ok := v.(*ssa.Phi); ok {
		for i, e := range phi.Edges {
			if e == phi {
				continue
			}
			pred := phi.Block().Preds[i]
			ok, why := nonNilErrorPhiAware(e, pred.Instrs[len(pred.Instrs)-1])
			if !ok {
				// edge fact pred->block
				if ef, has := edgeFact(pred, phi.Block()); has {
					if x, op, y, ok2 := cmpFact(ef); ok2 && op == token.NEQ {
						if (stripConv(x) == stripConv(e) && isNilConst(y)) || (stripConv(y) == stripConv(e) && isNilConst(x)) {
							continue
						}
					}
				}
				return false, "phi edge from block " + pred.String() + ": " + why
			}
		}
		return true, "every incoming value is non-nil"
	}
	if ok, why := nonNilError(v, at, 0); ok {
		return true, why
	}
	// result of a private helper: every value it can return, under the facts at that return
	if cases := valueCases(v, 0); len(cases) > 1 || (len(cases) == 1 && cases[0].Val != v) {
		for _, vc := range cases {
			if ok, _ := nonNilError(vc.Val, nil, 0); ok {
				continue
			}
			guarded := false
			for _, f := range vc.Facts {
				if x, op, y, ok2 := cmpFact(f); ok2 && op == token.NEQ {
					if (origin(x) == origin(vc.Val) && isNilConst(y)) || (origin(y) == origin(vc.Val) && isNilConst(x)) {
						guarded = true
					}
				}
			}
			if !guarded {
				return false, "the helper can return " + desc(vc.Val) + ", which is not provably non-nil"
			}
		}
		return true, "every value the helper returns is non-nil"
	}
	return nonNilError(v, at, 0)
}
