package main

import (
	"encoding/json"
	"flag"
	"fmt"
	"os"
	"path/filepath"
	"runtime/debug"
	"sort"
	"strconv"
	"strings"
	"time"
)

type propDef struct {
	Run        func(*Ctx)
	Explain    string
	Assume     []string
	NotDecided []string
}

var props = map[string]*propDef{}

func register(id string, p *propDef) { props[id] = p }

type config struct{ goarch, tags string }

func (c config) String() string {
	a := c.goarch
	if a == "" {
		a = "amd64"
	}
	s := "linux/" + a
	if c.tags != "" {
		s += " tags=" + c.tags
	}
	return s
}

// runProp loads the tree in one configuration and runs the property's rules.
func runProp(repo, prop string, cfg config) (ctx *Ctx, w *World, err error) {
	w, err = loadWorld(repo, cfg.goarch, cfg.tags)
	if err != nil {
		return nil, nil, err
	}
	ctx = newCtx(w, prop)
	func() {
		defer func() {
			if r := recover(); r != nil {
				// a rule met a shape it cannot handle: undecided counts as not established (exit 1), with the
				// obligations decided so far kept; the stack goes to stderr for diagnosis
				stack := string(debug.Stack())
				where := ""
				for _, l := range strings.Split(stack, "\n") {
					if strings.Contains(l, "/tunnelvet/rules_") || strings.Contains(l, "/tunnelvet/prop_") {
						where = strings.TrimSpace(l)
						break
					}
				}
				fmt.Fprintf(os.Stderr, "tunnelvet: internal error while evaluating %s: %v\n%s\n", prop, r, stack)
				ctx.fail(prop+".internal", "rules of "+prop+" could be evaluated on this tree", "-", fmt.Sprintf("a rule of %s could not be evaluated on this tree (unexpected code shape; internal error: %v at %s): the property is NOT established", prop, r, where))
			}
		}()
		// resolve anchors and roles on the raw tree first; afterwards value identity looks through private helpers
		crossWorld, paramBindings = nil, nil
		w.Anchors()
		w.Roles()
		crossWorld = w
		props[prop].Run(ctx)
	}()
	if err != nil {
		return nil, nil, err
	}
	sortObls(ctx.Obls)
	return ctx, w, nil
}

func checkCmd(args []string) int {
	fs := flag.NewFlagSet("check", flag.ExitOnError)
	prop := fs.String("prop", "", "property id")
	tier := fs.String("tier", "quick", "quick|thorough")
	repo := fs.String("repo", "/repo", "")
	verif := fs.String("verif", "/verif", "")
	explain := fs.String("explain", "", "replay file to explain")
	noEvidence := fs.Bool("no-evidence", false, "do not write evidence/replay files (used for self-validation on scratch trees)")
	jsonOut := fs.Bool("json", false, "print violated obligations as JSON lines (self-validation)")
	verbose := fs.Bool("v", false, "print every obligation")
	fs.Parse(args)
	t0 := time.Now()
	pd := props[*prop]
	if pd == nil {
		fmt.Fprintf(os.Stderr, "unknown property %q\n", *prop)
		return 2
	}
	seed := int64(1)
	if s := os.Getenv("VERIF_SEED"); s != "" {
		if v, err := strconv.ParseInt(s, 10, 64); err == nil {
			seed = v
		}
	}
	if *explain != "" {
		return explainCmd(*repo, *verif, *prop, *explain)
	}
	cfgs := []config{{}}
	if *tier == "thorough" {
		// (GOARCH=386 is not a configuration of this repository: it does not type-check there — math.MaxUint32
		// is passed as an untyped constant to a ...any parameter, i.e. as int — so 32-bit targets were never supported.)
		cfgs = append(cfgs, config{goarch: "arm64"}, config{tags: "verif"}, config{goarch: "arm64", tags: "verif"})
	}
	res := &runResult{Prop: *prop, Tier: *tier, Seed: seed, Explain: pd.Explain, Assume: pd.Assume, NotDecided: pd.NotDecided}
	var w0 *World
	merged := map[string]*Obligation{}
	for i, cfg := range cfgs {
		tc := time.Now()
		ctx, w, err := runProp(*repo, *prop, cfg)
		if err != nil {
			fmt.Fprintf(os.Stderr, "tunnelvet: cannot analyse %s (%s): %v\n", *repo, cfg, err)
			return 2
		}
		if i == 0 {
			w0 = w
			res.Rules, res.RuleOrder = ctx.Rules, ctx.order
		}
		nv := 0
		for _, o := range ctx.Obls {
			k := o.Rule + "|" + o.Key + "|" + o.Pos + "|" + o.Status
			if _, dup := merged[k]; dup {
				continue
			}
			if i > 0 {
				// only obligations that differ from the default configuration are added
				o.Config = cfg.String()
			}
			merged[k] = o
			res.Obls = append(res.Obls, o)
			if o.Status == "violated" {
				nv++
			}
		}
		res.Configs = append(res.Configs, map[string]any{"config": cfg.String(), "obligations": len(ctx.Obls), "root_functions": len(w.Funcs), "wall_s": time.Since(tc).Seconds()})
	}
	sortObls(res.Obls)
	// known findings
	known, err := loadKnown(filepath.Join(*verif, "known_findings.json"))
	if err != nil {
		fmt.Fprintln(os.Stderr, "tunnelvet: cannot read known_findings.json:", err)
		return 2
	}
	for _, o := range res.Obls {
		if o.Status != "violated" {
			continue
		}
		for _, k := range known {
			if k.Status == "known" && k.Property == *prop && k.Rule == o.Rule && k.Key == o.Key {
				o.Status = "known-finding"
				o.Msg = o.Msg + " [known finding: " + k.What + "]"
			}
		}
	}
	if *tier == "thorough" && !*noEvidence {
		res.Selftest = selfValidate(*repo, *verif, *prop)
	}
	if !*noEvidence {
		cleanReplays(*verif, *prop)
	}
	exit := 0
	k := 0
	if *verbose {
		for _, o := range res.Obls {
			fmt.Printf("[%s] %s %s @%s: %s\n", o.Status, o.Rule, o.Key, o.Pos, o.Msg)
		}
	}
	for _, o := range res.Obls {
		switch o.Status {
		case "known-finding":
			fmt.Printf("KNOWN-FINDING: property=%s rule=%s %s (%s): %s\n", *prop, o.Rule, o.Key, o.Pos, firstLine(o.Msg))
		case "violated":
			exit = 1
			k++
			if *jsonOut {
				b, _ := json.Marshal(o)
				fmt.Println(string(b))
				continue
			}
			path := "-"
			if !*noEvidence {
				p, err := writeReplay(*verif, *prop, k, o, res.Rules[o.Rule])
				if err == nil {
					path = p
				}
			}
			fmt.Printf("VIOLATION property=%s replay=%s\n", *prop, path)
			fmt.Printf("  rule %s: %s\n  construct: %s\n  at: %s%s\n  why: %s\n", o.Rule, res.Rules[o.Rule], o.Key, o.Pos, cfgSuffix(o.Config), o.Msg)
		}
	}
	res.Wall = time.Since(t0).Seconds()
	if !*noEvidence {
		if err := writeEvidence(*verif, res, w0); err != nil {
			fmt.Fprintln(os.Stderr, "tunnelvet: cannot write evidence:", err)
			return 2
		}
	}
	if !*jsonOut {
		nd, ne, nk := 0, 0, 0
		for _, o := range res.Obls {
			switch o.Status {
			case "discharged":
				nd++
			case "exception":
				ne++
			case "known-finding":
				nk++
			}
		}
		fmt.Printf("%s %s: %d rules, %d obligations: %d discharged, %d by exception, %d known finding(s), %d violated; %d configuration(s); %.1fs\n",
			*prop, *tier, len(res.RuleOrder), len(res.Obls), nd, ne, nk, k, len(cfgs), res.Wall)
	}
	return exit
}

func cfgSuffix(c string) string {
	if c == "" {
		return ""
	}
	return " [" + c + "]"
}

func firstLine(s string) string {
	if i := strings.Index(s, "\n"); i >= 0 {
		return s[:i]
	}
	return s
}

func explainCmd(repo, verif, prop, path string) int {
	if !filepath.IsAbs(path) {
		path = filepath.Join(verif, path)
	}
	b, err := os.ReadFile(path)
	if err != nil {
		fmt.Fprintln(os.Stderr, err)
		return 2
	}
	var rp struct {
		Rule, Construct, Pos, Detail, Statement string
	}
	if err := json.Unmarshal(b, &rp); err != nil {
		fmt.Fprintln(os.Stderr, err)
		return 2
	}
	fmt.Printf("replay of %s rule %s\n  statement: %s\n  construct: %s\n  recorded at: %s\n  recorded detail: %s\n\nre-running rule on the current tree:\n", prop, rp.Rule, rp.Statement, rp.Construct, rp.Pos, rp.Detail)
	ctx, _, err := runProp(repo, prop, config{})
	if err != nil {
		fmt.Fprintln(os.Stderr, err)
		return 2
	}
	found := false
	exit := 0
	var same []*Obligation
	for _, o := range ctx.Obls {
		if o.Rule == rp.Rule {
			same = append(same, o)
		}
	}
	sort.SliceStable(same, func(i, j int) bool { return same[i].Key < same[j].Key })
	for _, o := range same {
		mark := " "
		if o.Key == rp.Construct {
			mark = "*"
			found = true
			if o.Status == "violated" {
				exit = 1
			}
		}
		fmt.Printf(" %s [%s] %s @%s: %s\n", mark, o.Status, o.Key, o.Pos, o.Msg)
	}
	if !found {
		fmt.Println("  (the construct is no longer reported by this rule on the current tree)")
	}
	return exit
}
