package main

// rules_reasm.go: reassembly (C01.4), no data => non-nil error (C01.5), receive-side routing (C01.6).

import (
	"fmt"
	"go/token"
	"strings"

	"golang.org/x/tools/go/ssa"
)

// fieldChain: v is a load of root.F1.F2... -> (root, [F1,F2,...]).
func fieldChain(v ssa.Value) (ssa.Value, []string) {
	var names []string
	for {
		v = origin(v)
		u, ok := v.(*ssa.UnOp)
		if !ok || u.Op != token.MUL {
			break
		}
		fa, ok := u.X.(*ssa.FieldAddr)
		if !ok {
			break
		}
		names = append([]string{fieldName(fa.X.Type(), fa.Field)}, names...)
		v = fa.X
	}
	return v, names
}

// returnTuple: values returned by a Return, resolving spilled result cells to the last store in the
// returning block (go/ssa spills named results when a deferred closure exists).
func returnTuple(ret *ssa.Return) []ssa.Value {
	out := make([]ssa.Value, len(ret.Results))
	for i, r := range ret.Results {
		out[i] = r
		if u, ok := r.(*ssa.UnOp); ok && u.Op == token.MUL {
			if a, ok := u.X.(*ssa.Alloc); ok {
				var last ssa.Value
				for _, in := range ret.Block().Instrs {
					if st, ok := in.(*ssa.Store); ok && st.Addr == ssa.Value(a) {
						last = st.Val
					}
				}
				out[i] = last // nil if not stored in this block
			}
		}
	}
	return out
}

func returnsOf(fn *ssa.Function) []*ssa.Return {
	var out []*ssa.Return
	for _, b := range fn.Blocks {
		if fn.Recover != nil && b == fn.Recover {
			continue
		}
		if r := blockReturn(b); r != nil {
			out = append(out, r)
		}
	}
	return out
}

type reasmShape struct {
	fn      *ssa.Function
	deq     *ssa.Call
	item    ssa.Value // extract #0
	ok      ssa.Value // extract #1
	bPhi    *ssa.Phi
	lPhi    *ssa.Phi
	problem string
}

func analyseReasm(fn *ssa.Function) *reasmShape {
	s := &reasmShape{fn: fn}
	allInstrs(fn, func(in ssa.Instruction) {
		if call, ok := in.(*ssa.Call); ok && call.Call.IsInvoke() && ifaceMethodRole(call.Call.Method) == "dequeue" {
			s.deq = call
		}
	})
	if s.deq == nil {
		s.problem = "no dequeue call"
		return s
	}
	s.item, s.ok = extractOf(s.deq, 0), extractOf(s.deq, 1)
	if s.item == nil || s.ok == nil {
		s.problem = "dequeue results not both used"
		return s
	}
	// the loop header: nearest dominating block with phis of []byte and int
	for b := s.deq.Block(); b != nil; b = b.Idom() {
		for _, in := range b.Instrs {
			phi, ok := in.(*ssa.Phi)
			if !ok {
				break
			}
			switch phi.Type().Underlying().String() {
			case "[]byte":
				s.bPhi = phi
			case "int":
				s.lPhi = phi
			}
		}
		if s.bPhi != nil && s.lPhi != nil {
			break
		}
	}
	if s.bPhi == nil || s.lPhi == nil || s.bPhi.Block() != s.lPhi.Block() {
		s.problem = "cannot find the loop-carried accumulator ([]byte) and expected length (int)"
	}
	return s
}

// classifyAccumulator: is (nb, nl) a legal next state, and under which facts at `at`?
func (s *reasmShape) classify(w *World, nb, nl ssa.Value, at ssa.Instruction) (string, string) {
	// envelope: nb = item.(Msg).XMessage.Data ; nl = int(item.(Msg).XMessage.Size)
	root, chain := fieldChain(nb)
	if len(chain) == 2 && chain[1] == "Data" && strings.HasSuffix(chain[0], "Message") {
		if !s.isAssertOfItem(w, root, "Message") {
			return "", "the message data does not come from the frame just dequeued"
		}
		cv, ok := nl.(*ssa.Convert)
		if !ok {
			return "", "expected length is " + desc(nl) + ", not int(envelope.Size)"
		}
		r2, ch2 := fieldChain(cv.X)
		if len(ch2) != 2 || ch2[1] != "Size" || ch2[0] != chain[0] || r2 != root {
			return "", "expected length is " + desc(nl) + ", not the Size of the same envelope"
		}
		// precondition: no message in progress
		if !hasCmpFact(at, s.lPhi, token.EQL, -1) {
			return "", "an envelope is accepted while a message is partially assembled (no dominating check that the expected length is still -1): two messages would be merged"
		}
		return "envelope", ""
	}
	// continuation: nb = append(B, item.(More).MoreXData...) ; nl = L
	if call, ok := nb.(*ssa.Call); ok && calleeName(call) == "builtin.append" && len(call.Call.Args) == 2 {
		if call.Call.Args[0] != ssa.Value(s.bPhi) {
			return "", "continuation data is appended to " + desc(call.Call.Args[0]) + ", not to the accumulator"
		}
		r2, ch2 := fieldChain(call.Call.Args[1])
		if len(ch2) != 1 || !strings.HasPrefix(ch2[0], "More") || !s.isAssertOfItem(w, r2, "More") {
			return "", "appended bytes are " + desc(call.Call.Args[1]) + ", not the continuation frame just dequeued"
		}
		if nl != ssa.Value(s.lPhi) {
			return "", "the expected length changes on a continuation frame"
		}
		if !hasCmpFact(at, s.lPhi, token.NEQ, -1) {
			return "", "a continuation is accepted without an envelope (no dominating check that the expected length is not -1)"
		}
		return "continuation", ""
	}
	return "", "accumulator becomes " + desc(nb) + " (neither the envelope's data nor append(accumulator, continuation...))"
}

func (s *reasmShape) isAssertOfItem(w *World, v ssa.Value, kindPart string) bool {
	ex, ok := v.(*ssa.Extract)
	var ta *ssa.TypeAssert
	if ok {
		ta, _ = ex.Tuple.(*ssa.TypeAssert)
	} else {
		ta, _ = v.(*ssa.TypeAssert)
	}
	if ta == nil || ta.X != s.item {
		return false
	}
	k, ok := w.pbNamed(ta.AssertedType)
	if !ok {
		return false
	}
	if kindPart == "Message" {
		return strings.HasSuffix(k, "_RequestMessage") || strings.HasSuffix(k, "_ResponseMessage")
	}
	return strings.Contains(k, "_More")
}

// hasCmpFact: a dominating fact `v op k` (k constant) at `at`.
func hasCmpFact(at ssa.Instruction, v ssa.Value, op token.Token, k int64) bool {
	for _, f := range factsAt(at) {
		x, o, y, ok := cmpFact(f)
		if !ok {
			continue
		}
		if kk, isK := constInt(y); isK && x == v && kk == k && o == op {
			return true
		}
		if kk, isK := constInt(x); isK && y == v && kk == k && o == flipCmp(op) {
			return true
		}
	}
	return false
}

// lenRelFact: is there a dominating fact relating len(b) and l: returns the set of ops known.
func lenRelFacts(at ssa.Instruction, b, l ssa.Value) map[token.Token]bool {
	out := map[token.Token]bool{}
	for _, f := range factsAt(at) {
		x, o, y, ok := cmpFact(f)
		if !ok {
			continue
		}
		isLen := func(v ssa.Value) bool {
			call, ok := v.(*ssa.Call)
			return ok && calleeName(call) == "builtin.len" && call.Call.Args[0] == b
		}
		if isLen(x) && y == l {
			out[o] = true
		} else if isLen(y) && x == l {
			out[flipCmp(o)] = true
		}
	}
	return out
}

// ruleReassembly (C01.4), applied to both siblings.
func ruleReassembly(c *Ctx, rule string) {
	c.rule(rule, "reassembly: the accumulator only ever becomes the envelope's data (when no message is in progress) or append(accumulator, continuation) (when one is); the loop continues only while len < expected; a message is returned with a nil error only on len == expected; every other frame or size relation returns a non-nil error")
	w := c.W
	a := w.Anchors()
	type sib struct {
		name string
		fn   *ssa.Function
	}
	sibs := []sib{{"client", a.ClientReasm}, {"server", a.ServerReasm}}
	summary := map[string][]string{}
	for _, sb := range sibs {
		if !c.need(rule, sb.name+" reassembly function", sb.fn) {
			continue
		}
		fn := sb.fn
		name := w.Short(fn)
		s := analyseReasm(fn)
		if s.problem != "" {
			c.fail(rule, name+": recognised reassembly loop", w.Pos(fn.Pos()), s.problem)
			continue
		}
		c.ok(rule, name+": recognised reassembly loop", w.At(s.deq), "accumulator "+s.bPhi.Comment+", expected length "+s.lPhi.Comment)
		header := s.bPhi.Block()
		// loop entry / back edges
		for i, pred := range header.Preds {
			nb, nl := s.bPhi.Edges[i], s.lPhi.Edges[i]
			at := pred.Instrs[len(pred.Instrs)-1]
			key := fmt.Sprintf("%s: loop edge from block %d", name, pred.Index)
			if !header.Dominates(pred) {
				kk, isK := constInt(nl)
				c.check(isNilConst(nb) && isK && kk == -1, rule, name+": initial state", w.At(s.deq), "accumulator nil, expected length -1", "initial accumulator/length are "+desc(nb)+"/"+desc(nl))
				continue
			}
			if nb == ssa.Value(s.bPhi) && nl == ssa.Value(s.lPhi) {
				// iteration that consumed nothing relevant (e.g. `continue`): must not have dequeued... accept only if dequeue not executed
				if s.deq.Block().Dominates(pred) {
					c.fail(rule, key, w.At(at), "an iteration dequeues a frame and continues without recording it: the frame is silently dropped")
				} else {
					c.ok(rule, key, w.At(at), "iteration without dequeue leaves the state unchanged")
				}
				continue
			}
			kinds, why := s.classifyMerged(w, nb, nl, at)
			if len(kinds) == 0 {
				c.fail(rule, key, w.At(at), why)
				continue
			}
			kind := strings.Join(kinds, "|")
			for _, k := range kinds {
				summary[sb.name] = append(summary[sb.name], k+"-continue")
			}
			// facts on the edge: len(nb) <= nl and len(nb) != nl
			rel := lenRelFacts(at, nb, nl)
			if ef, has := edgeFact(pred, header); has {
				if x, o, y, ok := cmpFact(ef); ok {
					if call, isC := x.(*ssa.Call); isC && calleeName(call) == "builtin.len" && call.Call.Args[0] == nb && y == nl {
						rel[o] = true
					}
				}
			}
			c.check(rel[token.LEQ] || rel[token.LSS], rule, key+" ("+kind+"): overrun rejected", w.At(at), "continues only with len(b) <= expected", "the loop continues although more data than the envelope announced may have arrived (no len(b) > expected rejection on this path): messages are merged or never completed")
			c.check(rel[token.NEQ] || rel[token.LSS], rule, key+" ("+kind+"): completion detected", w.At(at), "continues only with len(b) != expected", "the loop continues even when the message is complete")
		}
		// returns
		nOK := 0
		for _, ret := range returnsOf(fn) {
			t := returnTuple(ret)
			if len(t) != 3 {
				continue
			}
			data, errv := t[0], t[2]
			key := fmt.Sprintf("%s: return in block %d", name, ret.Block().Index)
			if errv == nil {
				c.fail(rule, key, w.At(ret), "cannot determine the returned error (result cell not assigned in the returning block): unrecognised shape")
				continue
			}
			if isNilConst(errv) {
				// success: data must be a legal accumulator with len == expected
				if data == nil {
					c.fail(rule, key, w.At(ret), "nil error returned with undetermined data")
					continue
				}
				// which (nb, nl)?
				var nl ssa.Value
				if _, ch := fieldChain(data); len(ch) == 2 {
					// envelope arm: expected = conv(Size) – find the Convert of the same envelope's Size
					root, _ := fieldChain(data)
					allInstrs(fn, func(in ssa.Instruction) {
						if cv, ok := in.(*ssa.Convert); ok {
							if r2, ch2 := fieldChain(cv.X); len(ch2) == 2 && ch2[1] == "Size" && r2 == root {
								nl = cv
							}
						}
					})
				} else {
					nl = s.lPhi
				}
				if nl == nil {
					c.fail(rule, key, w.At(ret), "message returned but no expected length for it")
					continue
				}
				kinds, why := s.classifyMerged(w, data, nl, ret)
				if len(kinds) == 0 && nl == ssa.Value(s.lPhi) {
					// a tail shared by both arms: the expected length is the value merged alongside the accumulator
					if dp, isP := data.(*ssa.Phi); isP && dp != s.bPhi {
						for _, in := range dp.Block().Instrs {
							if lp, isL := in.(*ssa.Phi); isL && lp != dp && lp.Type() == s.lPhi.Type() {
								if ks, _ := s.classifyMerged(w, data, lp, ret); len(ks) > 0 {
									kinds, nl = ks, lp
								}
							}
						}
					}
				}
				if len(kinds) == 0 {
					c.fail(rule, key, w.At(ret), "a message is returned with a nil error but "+why)
					continue
				}
				kind := strings.Join(kinds, "|")
				rel := lenRelFacts(ret, data, nl)
				c.check(rel[token.EQL], rule, key+" ("+kind+"): complete message only", w.At(ret), "returned under len(b) == expected", "a message is returned with a nil error without a dominating len(b) == expected check ("+fmt.Sprint(relList(rel))+"): truncated or over-long messages are delivered")
				nOK += len(kinds)
				for _, k := range kinds {
					summary[sb.name] = append(summary[sb.name], k+"-return")
				}
				continue
			}
			// error return: data must be nil
			c.check(data == nil || isNilConst(data), rule, key+": no data with an error", w.At(ret), "error returns carry no data", "an error is returned together with data "+desc(data))
		}
		c.check(nOK == 2, rule, name+": two success exits (envelope-complete, continuation-complete)", w.Pos(fn.Pos()), "2", fmt.Sprintf("%d nil-error returns", nOK))
		// unknown frame type -> error: the default arm (both type asserts failed) must not reach the loop header
		// (covered: every back edge is classified envelope/continuation).
	}
	// A12 sibling agreement
	if len(summary["client"]) > 0 && len(summary["server"]) > 0 {
		cs, ss := fmt.Sprint(sortedCopy(summary["client"])), fmt.Sprint(sortedCopy(summary["server"]))
		c.check(cs == ss, rule, "sibling agreement client/server reassembly", "-", "both siblings: "+cs, "client reassembly has "+cs+" but server has "+ss)
	}
}

func relList(m map[token.Token]bool) []string {
	var o []string
	for k := range m {
		o = append(o, k.String())
	}
	return sortedCopy(o)
}

func sortedCopy(s []string) []string {
	o := append([]string(nil), s...)
	for i := 1; i < len(o); i++ {
		for j := i; j > 0 && o[j] < o[j-1]; j-- {
			o[j], o[j-1] = o[j-1], o[j]
		}
	}
	return o
}

// markerStoresNonNil: every value ever installed in the atomic marker wraps a provably non-nil error.
func (c *Ctx) markerStoresNonNil(marker FieldRef) (bool, string) {
	w := c.W
	n := 0
	okAll, why := true, ""
	for _, fn := range w.Funcs {
		allInstrs(fn, func(in ssa.Instruction) {
			call, ok := in.(*ssa.Call)
			if !ok {
				return
			}
			name := calleeName(call)
			if !(strings.HasSuffix(name, ".CompareAndSwap") || strings.HasSuffix(name, ".Store") || strings.HasSuffix(name, ".Swap")) || len(call.Call.Args) == 0 {
				return
			}
			fr, _, ok := fieldOfAddr(call.Call.Args[0])
			if !ok || fr != marker {
				return
			}
			n++
			nv := call.Call.Args[len(call.Call.Args)-1]
			al, ok := nv.(*ssa.Alloc)
			if !ok {
				okAll, why = false, "marker set to "+desc(nv)+" at "+w.At(call)
				return
			}
			st := storesInto(al)
			var ev ssa.Value
			for _, v := range st {
				ev = v
			}
			if ev == nil {
				okAll, why = false, "marker holder built without an error at "+w.At(call)
				return
			}
			if good, reason := nonNilErrorPhiAware(ev, call); !good {
				okAll, why = false, "marker may wrap a nil error at "+w.At(call)+": "+reason
			}
		})
	}
	if n == 0 {
		return false, "no writes to the marker found"
	}
	return okAll, why
}

// ruleNoDataMeansError (C01.5).
func ruleNoDataMeansError(c *Ctx, rule string) {
	c.rule(rule, "no data => non-nil error: on the path where dequeue reports no more data, the reassembly function returns a provably non-nil error (locally, or because every wake-up of the receiver is preceded by setting the terminal marker, which always wraps a non-nil error)")
	w := c.W
	a := w.Anchors()
	for _, side := range []struct {
		name   string
		fn     *ssa.Function
		marker FieldRef
	}{{"client", a.ClientReasm, a.CSDone}, {"server", a.ServerReasm, a.SSHalfClosed}} {
		if !c.need(rule, side.name+" reassembly function", side.fn) {
			continue
		}
		fn := side.fn
		name := w.Short(fn)
		s := analyseReasm(fn)
		if s.deq == nil || s.ok == nil {
			c.fail(rule, name+": dequeue", w.Pos(fn.Pos()), "no dequeue call with a tested ok result")
			continue
		}
		mOK, mWhy := c.markerStoresNonNil(side.marker)
		n := 0
		for _, ret := range returnsOf(fn) {
			// on the !ok path?
			onPath := false
			for _, f := range boolFactsAt(ret) {
				if f.V == s.ok && !f.True {
					onPath = true
				}
			}
			if !onPath {
				continue
			}
			n++
			t := returnTuple(ret)
			key := fmt.Sprintf("%s: no-more-data return in block %d", name, ret.Block().Index)
			errv := t[len(t)-1]
			if errv == nil {
				c.fail(rule, key, w.At(ret), "returned error undetermined")
				continue
			}
			good, why := c.nonNilWithMarker(errv, ret, side.marker, mOK)
			if good {
				c.ok(rule, key, w.At(ret), why)
				continue
			}
			// marker-before-wake argument: error is the marker's error (possibly via a loader helper)
			if c.isMarkerErrorOrNil(errv, side.marker) {
				if !mOK {
					c.fail(rule, key, w.At(ret), "the returned error is the terminal marker's, but "+mWhy)
					continue
				}
				bad := c.wakeBeforeMarker(side.marker, recvNamed(fn).Obj().Name())
				if bad == "" {
					c.ok(rule, key, w.At(ret), "returns the terminal marker's error; every close/cancel of this receiver is dominated by the marker CAS, and every marker wraps a non-nil error")
				} else {
					c.fail(rule, key, w.At(ret), "returns the terminal marker's error (nil when unset), but "+bad+": a reader woken there gets (no data, nil error) and hands the application an empty message that was never sent")
				}
				continue
			}
			c.fail(rule, key, w.At(ret), "the error returned when no data is available may be nil ("+why+"): the caller would unmarshal zero bytes and deliver a fabricated empty message")
		}
		c.floor(rule, n, 1, "no-more-data returns in "+name)
		// End-of-stream must not be reported for a cancelled receiver: cancel() discards queued messages.
		// If some cancel of this stream type's receiver is not guarded by the marker CAS (a context watcher),
		// the marker's error (possibly io.EOF) may be returned on the no-more-data path only under a
		// ctx.Err() == nil test performed AFTER the dequeue.
		if unguarded := c.unguardedReceiverCancel(side.marker, recvNamed(fn).Obj().Name()); unguarded != "" {
			nM := 0
			for _, ret := range returnsOf(fn) {
				onPath := false
				for _, f := range boolFactsAt(ret) {
					if f.V == s.ok && !f.True {
						onPath = true
					}
				}
				if !onPath {
					continue
				}
				t := returnTuple(ret)
				errv := t[len(t)-1]
				if errv == nil || !c.isMarkerErrorOrNil(errv, side.marker) {
					continue
				}
				nM++
				okCtx := false
				for _, f := range factsAt(ret) {
					x, op, y, isCmp := cmpFact(f)
					if !isCmp || !isNilConst(y) || op != token.EQL {
						continue
					}
					if call, isCall := stripConv(x).(*ssa.Call); isCall && call.Call.IsInvoke() && call.Call.Method.Name() == "Err" && dominates(s.deq, call) {
						okCtx = true
					}
				}
				c.check(okCtx, rule, fmt.Sprintf("%s: end-of-stream only for a receiver that was not cancelled (block %d)", name, ret.Block().Index), w.At(ret), "marker error returned only under ctx.Err() == nil tested after the dequeue", "the half-close marker's error (io.EOF after a client half-close) is returned on the no-more-data path without first re-testing the context after the dequeue, although "+unguarded+": when the RPC's context ends, queued messages are discarded and the handler is told the stream ended normally with an incomplete sequence")
			}
			c.floor(rule, nM, 1, "marker-error returns on the no-more-data path of "+name)
		}
	}
}

// unguardedReceiverCancel: a receiver.cancel() call on streams of the given type that is not dominated by
// the success edge of the marker CAS ("" if none).
func (c *Ctx) unguardedReceiverCancel(marker FieldRef, streamType string) string {
	w := c.W
	out := ""
	for _, fn := range w.Funcs {
		if isGenericTemplate(fn) {
			continue
		}
		allInstrs(fn, func(in ssa.Instruction) {
			call, ok := in.(ssa.CallInstruction)
			if !ok || !call.Common().IsInvoke() || call.Common().Method.Name() != w.mName("cancel") {
				return
			}
			if fr, _, ok := loadedField(call.Common().Value); !ok || fr.Type != streamType {
				return
			}
			if g, _ := c.casGuard(in, marker, 0); !g {
				out = "receiver.cancel() in " + w.Short(fn) + " (" + w.At(in) + ") runs without the terminal marker being set"
			}
		})
	}
	return out
}

// nonNilWithMarker extends A8 with: load of the marker holder's error under holder != nil.
func (c *Ctx) nonNilWithMarker(v ssa.Value, at ssa.Instruction, marker FieldRef, markerOK bool) (bool, string) {
	v = stripConv(v)
	if phi, ok := v.(*ssa.Phi); ok {
		for i, e := range phi.Edges {
			pred := phi.Block().Preds[i]
			good, why := c.nonNilWithMarker(e, pred.Instrs[len(pred.Instrs)-1], marker, markerOK)
			if !good {
				if ef, has := edgeFact(pred, phi.Block()); has {
					if x, op, y, ok2 := cmpFact(ef); ok2 && op == token.NEQ && ((stripConv(x) == stripConv(e) && isNilConst(y)) || (stripConv(y) == stripConv(e) && isNilConst(x))) {
						continue
					}
				}
				return false, why
			}
		}
		return true, "every incoming value is non-nil"
	}
	root, chain := fieldChain(v)
	if len(chain) == 1 {
		if call, ok := root.(*ssa.Call); ok && strings.HasSuffix(calleeName(call), ".Load") {
			if fr, _, ok := fieldOfAddr(call.Call.Args[0]); ok && fr == marker {
				// guarded by call != nil
				for _, f := range factsAt(at) {
					if x, op, y, ok := cmpFact(f); ok && op == token.NEQ && x == ssa.Value(call) && isNilConst(y) {
						if markerOK {
							return true, "marker's error under marker != nil (markers always wrap a non-nil error)"
						}
						return false, "marker may wrap nil"
					}
				}
			}
		}
	}
	return nonNilError(v, at, 0)
}

// isMarkerErrorOrNil: v is marker.error-or-nil: directly, or the result of a root helper that returns it.
func (c *Ctx) isMarkerErrorOrNil(v ssa.Value, marker FieldRef) bool {
	v = stripConv(v)
	if call, ok := v.(*ssa.Call); ok {
		if f := staticCallee(call); f != nil && c.W.inRoot(f) {
			all := true
			n := 0
			forEachReturnValue(f, 0, func(rv ssa.Value, at ssa.Instruction) {
				n++
				if isNilConst(rv) {
					return
				}
				root, chain := fieldChain(rv)
				ld, ok := root.(*ssa.Call)
				if len(chain) != 1 || !ok || !strings.HasSuffix(calleeName(ld), ".Load") {
					all = false
					return
				}
				if fr, _, ok := fieldOfAddr(ld.Call.Args[0]); !ok || fr != marker {
					all = false
				}
			})
			return all && n > 0
		}
	}
	if phi, ok := v.(*ssa.Phi); ok {
		for _, e := range phi.Edges {
			if !isNilConst(e) && !c.isMarkerErrorOrNil(e, marker) {
				return false
			}
		}
		return true
	}
	root, chain := fieldChain(v)
	if ld, ok := root.(*ssa.Call); ok && len(chain) == 1 && strings.HasSuffix(calleeName(ld), ".Load") {
		if fr, _, ok := fieldOfAddr(ld.Call.Args[0]); ok && fr == marker {
			return true
		}
	}
	return false
}

// wakeBeforeMarker: returns a description of a receiver close/cancel call on streams of the given type
// that is not dominated by the success edge of the marker CAS ("" if none).
func (c *Ctx) wakeBeforeMarker(marker FieldRef, streamType string) string {
	w := c.W
	bad := ""
	n := 0
	for _, fn := range w.Funcs {
		if isGenericTemplate(fn) {
			continue
		}
		allInstrs(fn, func(in ssa.Instruction) {
			call, ok := in.(ssa.CallInstruction)
			if !ok || !call.Common().IsInvoke() {
				return
			}
			m := call.Common().Method.Name()
			if m != w.mName("close") && m != w.mName("cancel") {
				return
			}
			if fr, _, ok := loadedField(call.Common().Value); !ok || fr.Type != streamType {
				return
			}
			n++
			if g, _ := c.casGuard(in, marker, 0); !g {
				bad = "receiver." + m + "() in " + w.Short(fn) + " at " + w.At(in) + " is not dominated by the success edge of the CAS on " + marker.String()
			}
		})
	}
	if n == 0 {
		return "no receiver close/cancel call sites found for " + streamType
	}
	return bad
}

// ruleRouting (C01.6 receive side).
func ruleRouting(c *Ctx, rule string) {
	c.rule(rule, "routing: in each receive loop the stream whose accept method is invoked is the result of looking up the stream table with the received frame's own StreamId, the accepted frame is that same frame's payload, and the lookup returns the table entry for exactly the id it was given")
	w := c.W
	a := w.Anchors()
	for _, side := range []struct {
		loop, lookup, accept *ssa.Function
		table                FieldRef
	}{{a.ClientLoop, a.ClientLookup, a.ClientAccept, a.ChStreams}, {a.ServerLoop, a.ServerLookup, a.ServerAccept, a.SvStreams}} {
		if !c.need(rule, "receive loop", side.loop) || !c.need(rule, "lookup function", side.lookup) || !c.need(rule, "accept method", side.accept) {
			continue
		}
		name := w.Short(side.loop)
		var acc *ssa.Call
		n := 0
		allInstrs(side.loop, func(in ssa.Instruction) {
			if call, ok := in.(*ssa.Call); ok && staticCallee(call) == side.accept {
				acc = call
				n++
			}
		})
		if acc == nil || n != 1 {
			c.fail(rule, name+": one accept call", w.Pos(side.loop.Pos()), fmt.Sprintf("%d calls of the accept method in the loop", n))
			continue
		}
		// receiver = extract#0 of lookup(frame.StreamId)
		okRoute := false
		var why string
		if ex, ok := origin(acc.Call.Args[0]).(*ssa.Extract); ok && ex.Index == 0 {
			if lk, ok := ex.Tuple.(*ssa.Call); ok && staticCallee(lk) == side.lookup {
				idRoot, idChain := fieldChain(lk.Call.Args[1])
				frRoot, frChain := fieldChain(acc.Call.Args[1])
				if len(idChain) == 1 && idChain[0] == "StreamId" && len(frChain) == 1 && frChain[0] == "Frame" && idRoot == frRoot {
					if rex, ok := idRoot.(*ssa.Extract); ok {
						if rc, ok := rex.Tuple.(*ssa.Call); ok {
							if k, ok := w.carrierOp(rc); ok && k == "carrier-recv" && inLoop(rc.Block()) && dominates(rc, acc) {
								okRoute = true
							}
						}
					}
					if !okRoute {
						why = "the frame is not the result of the loop's own Recv"
					}
				} else {
					why = "lookup key is " + desc(lk.Call.Args[1]) + " and accepted payload is " + desc(acc.Call.Args[1]) + " (must be StreamId and Frame of the same received frame)"
				}
			} else {
				why = "accept receiver is not the result of the lookup function"
			}
		} else {
			why = "accept receiver is " + desc(acc.Call.Args[0])
		}
		c.check(okRoute, rule, name+": frame routed by its own id", w.At(acc), "lookup(in.StreamId).accept(in.Frame) on the frame just received", why+": a frame could be delivered to a different RPC")
		// lookup returns table[id]
		okLk := false
		allInstrs(side.lookup, func(in ssa.Instruction) {
			if l, ok := in.(*ssa.Lookup); ok {
				if fr, _, ok := loadedField(l.X); ok && fr == side.table && stripConv(l.Index) == ssa.Value(side.lookup.Params[1]) {
					// returned stream is extract #0 of this lookup
					forEachReturnValue(side.lookup, 0, func(v ssa.Value, at ssa.Instruction) {
						if ex, ok := v.(*ssa.Extract); ok && ex.Tuple == ssa.Value(l) && ex.Index == 0 {
							okLk = true
						}
					})
				}
			}
		})
		c.check(okLk, rule, w.Short(side.lookup)+": returns the entry for the given id", w.Pos(side.lookup.Pos()), "returns table[id]", "the lookup function does not return the table entry indexed by exactly its id parameter")
	}
}

// ruleDecodeResets (C01.10): received bytes are decoded into a RESET message.
func ruleDecodeResets(c *Ctx, rule string) {
	c.rule(rule, "each RecvMsg decodes the reassembled bytes with proto.Unmarshal (which resets the destination) or with UnmarshalOptions whose Merge field is never set: an application that reuses one message value across receives must not see fields of an earlier message")
	w := c.W
	// any store of a non-false value to UnmarshalOptions.Merge anywhere in the package (incl. package initialisers)
	var mergeStore ssa.Instruction
	for _, fn := range w.Funcs {
		allInstrs(fn, func(in ssa.Instruction) {
			st, ok := in.(*ssa.Store)
			if !ok {
				return
			}
			fa, ok := st.Addr.(*ssa.FieldAddr)
			if !ok {
				return
			}
			n := namedOf(fa.X.Type())
			if n == nil || n.Obj().Name() != "UnmarshalOptions" || fieldName(fa.X.Type(), fa.Field) != "Merge" {
				return
			}
			if k, isK := st.Val.(*ssa.Const); isK && k.Value != nil && k.Value.String() == "false" {
				return
			}
			mergeStore = st
		})
	}
	n := 0
	for _, fn := range w.Funcs {
		if isGenericTemplate(fn) {
			continue
		}
		allInstrs(fn, func(in ssa.Instruction) {
			ci, ok := in.(ssa.CallInstruction)
			if !ok {
				return
			}
			name := calleeName(ci)
			switch {
			case name == "google.golang.org/protobuf/proto.Unmarshal":
				n++
				c.ok(rule, w.Short(fn)+": decode resets the destination", w.At(in), "proto.Unmarshal")
			case strings.HasPrefix(name, "(google.golang.org/protobuf/proto.UnmarshalOptions)."):
				n++
				c.check(mergeStore == nil, rule, w.Short(fn)+": decode resets the destination", w.At(in), "UnmarshalOptions with Merge never set", "received bytes are decoded with UnmarshalOptions and the package sets Merge ("+posOfInstr(w, mergeStore)+"): the destination is not reset, so a caller that reuses a message value gets fields of the previous message merged into the next one (repeated fields appended, unset scalars retained)")
			case strings.HasSuffix(name, "proto.Merge"):
				n++
				c.fail(rule, w.Short(fn)+": decode resets the destination", w.At(in), "proto.Merge into the caller's message")
			}
		})
	}
	c.floor(rule, n, 1, "decode calls")
	// both receive methods reach a decode call (their own, or one in a helper they share)
	a := w.Anchors()
	reach := 0
	for _, recv := range []*ssa.Function{a.ClientRecv, a.ServerRecv} {
		if recv == nil {
			continue
		}
		found := false
		w.instrsThroughHelpers(recv, func(in ssa.Instruction) {
			if ci, ok := in.(ssa.CallInstruction); ok {
				name := calleeName(ci)
				if name == "google.golang.org/protobuf/proto.Unmarshal" || strings.HasPrefix(name, "(google.golang.org/protobuf/proto.UnmarshalOptions).") {
					found = true
				}
			}
		})
		if found {
			reach++
		}
	}
	c.floor(rule, reach, 2, "receive methods that reach a decode call (client and server RecvMsg)")
}

// classifyMerged classifies a new (accumulator, expected length) pair; when both arms of the frame switch share one tail, the
// pair is a pair of phis merging the arms: then every edge is classified, under the facts at the end of its predecessor.
func (s *reasmShape) classifyMerged(w *World, nb, nl ssa.Value, at ssa.Instruction) ([]string, string) {
	if k, why := s.classify(w, nb, nl, at); k != "" {
		return []string{k}, ""
	} else if bp, isP := nb.(*ssa.Phi); !isP || bp == s.bPhi {
		return nil, why
	}
	bp := nb.(*ssa.Phi)
	var kinds []string
	for i, e := range bp.Edges {
		pred := bp.Block().Preds[i]
		el := nl
		if lp, isL := nl.(*ssa.Phi); isL && lp != s.lPhi && lp.Block() == bp.Block() {
			el = lp.Edges[i]
		}
		k, why := s.classify(w, e, el, pred.Instrs[len(pred.Instrs)-1])
		if k == "" {
			return nil, "on the path through block " + fmt.Sprint(pred.Index) + " " + why
		}
		kinds = append(kinds, k)
	}
	return sortedCopy(kinds), ""
}
