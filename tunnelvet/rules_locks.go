package main

// rules_locks.go: lock balance. Every function releases on every path to a return exactly the locks it acquired
// (directly or by defer), and releases nothing it does not hold. A lock left held wedges every later user of that mutex —
// for the per-stream and per-tunnel mutexes that is the receive loop, i.e. every RPC on the tunnel; a release of a mutex
// that is not held is a fatal runtime error. The suite exercises one configuration, so a missing release on a path only
// another configuration takes (the plain receiver after close) compiles and passes.
//
// The walk is path-sensitive in the one correlation that matters: which deferred unlocks are pending is part of the state
// (a `return` before the `Lock(); defer Unlock()` pair and one after it share an exit block in SSA).

import (
	"fmt"
	"go/types"
	"sort"
	"strings"

	"golang.org/x/tools/go/ssa"
)

type balState struct {
	held     []string // acquired by this function, not yet released (sorted)
	borrowed []string // held by every caller, released here, not yet re-acquired (sorted)
	deferred []string // pending deferred operations, in registration order: "unlock X" / "lock X"
}

func (s balState) key() string {
	return strings.Join(s.held, ",") + "|" + strings.Join(s.borrowed, ",") + "|" + strings.Join(s.deferred, ",")
}

func withOut(xs []string, x string) ([]string, bool) {
	for i, y := range xs {
		if y == x {
			return append(append([]string{}, xs[:i]...), xs[i+1:]...), true
		}
	}
	return xs, false
}

func withIn(xs []string, x string) []string {
	out := append(append([]string{}, xs...), x)
	sort.Strings(out)
	return out
}

// lockOpsOfDeferred: the lock operations a deferred call performs: the call itself, or those in the body of a deferred
// function literal (in order).
func lockOpsOfDeferred(d *ssa.Defer) []lockOp {
	if op, ok := lockOpOf(d); ok {
		return []lockOp{op}
	}
	var out []lockOp
	if mc, ok := d.Call.Value.(*ssa.MakeClosure); ok {
		if f, isF := mc.Fn.(*ssa.Function); isF {
			allInstrsLocal(f, func(in ssa.Instruction) {
				if ci, isC := in.(*ssa.Call); isC {
					if op, isOp := lockOpOf(ci); isOp {
						out = append(out, op)
					}
				}
			})
		}
	}
	return out
}

func opID(op lockOp) string {
	if op.kind == "rlock" || op.kind == "runlock" {
		return op.id + ":R"
	}
	return op.id
}

func ruleLockBalance(c *Ctx, rule string) {
	c.rule(rule, "lock balance: in every function of the package each return is reached with no lock of that function's own acquiring still held and no caller's lock released (explicit unlock or deferred unlock on every path), and every unlock releases a lock the function, or every one of its callers, holds")
	w := c.W
	lf := w.Locks()
	nAcq, nRet := 0, 0
	for _, fn := range w.Funcs {
		if isGenericTemplate(fn) || len(fn.Blocks) == 0 {
			continue
		}
		name := w.Short(fn)
		acquires := false
		allInstrsLocal(fn, func(in ssa.Instruction) {
			if ci, ok := in.(ssa.CallInstruction); ok {
				if _, isGo := in.(*ssa.Go); isGo {
					return
				}
				if op, isOp := lockOpOf(ci); isOp && op.kind != "trylock" {
					acquires = true
					if op.kind == "lock" || op.kind == "rlock" {
						nAcq++
					}
				} else if d, isD := in.(*ssa.Defer); isD && len(lockOpsOfDeferred(d)) > 0 {
					acquires = true
				}
			}
		})
		if !acquires {
			continue
		}
		entry := lf.EntryMust[fn]
		type item struct {
			b  *ssa.BasicBlock
			st balState
		}
		seen := map[string]bool{}
		work := []item{{fn.Blocks[0], balState{}}}
		badRet := map[*ssa.Return]string{}
		badRel := map[ssa.Instruction]string{}
		okRet := map[*ssa.Return]bool{}
		okRel := map[ssa.Instruction]bool{}
		apply := func(st balState, op lockOp, at ssa.Instruction) balState {
			id := opID(op)
			switch op.kind {
			case "lock", "rlock":
				if nb, was := withOut(st.borrowed, id); was {
					st.borrowed = nb
				} else {
					st.held = withIn(st.held, id)
				}
			case "unlock", "runlock":
				if nh, was := withOut(st.held, id); was {
					st.held = nh
					okRel[at] = true
				} else if entry.has(id) {
					st.borrowed = withIn(st.borrowed, id)
					okRel[at] = true
				} else {
					badRel[at] = id
				}
			}
			return st
		}
		for steps := 0; len(work) > 0 && steps < 20000; steps++ {
			it := work[len(work)-1]
			work = work[:len(work)-1]
			k := fmt.Sprintf("%d|%s", it.b.Index, it.st.key())
			if seen[k] {
				continue
			}
			seen[k] = true
			st := it.st
			for _, in := range it.b.Instrs {
				switch x := in.(type) {
				case *ssa.Call:
					if op, ok := lockOpOf(x); ok {
						st = apply(st, op, in)
					}
				case *ssa.Defer:
					for _, op := range lockOpsOfDeferred(x) {
						st.deferred = append(append([]string{}, st.deferred...), op.kind+" "+op.id)
					}
				case *ssa.RunDefers:
					for i := len(st.deferred) - 1; i >= 0; i-- {
						parts := strings.SplitN(st.deferred[i], " ", 2)
						st = apply(st, lockOp{parts[0], parts[1]}, in)
					}
					st.deferred = nil
				case *ssa.Return:
					if len(st.held) > 0 || len(st.borrowed) > 0 {
						msg := ""
						if len(st.held) > 0 {
							msg = fmt.Sprintf("%v still held", st.held)
						}
						if len(st.borrowed) > 0 {
							if msg != "" {
								msg += " and "
							}
							msg += fmt.Sprintf("the callers' %v released", st.borrowed)
						}
						badRet[x] = msg
					} else {
						okRet[x] = true
					}
				}
			}
			for _, s := range it.b.Succs {
				work = append(work, item{s, st})
			}
		}
		for _, ret := range returnsOf(fn) {
			if !okRet[ret] && badRet[ret] == "" {
				continue // unreachable
			}
			nRet++
			c.check(badRet[ret] == "", rule, fmt.Sprintf("%s: return in block %d leaves the locks as it found them", name, ret.Block().Index), w.At(ret), "every acquisition released, explicitly or by defer, on every path", "this return can be reached with "+badRet[ret]+" (no unlock, explicit or deferred, on some path from the acquisition): every later user of that mutex blocks forever")
		}
		var rels []ssa.Instruction
		for in := range okRel {
			rels = append(rels, in)
		}
		for in := range badRel {
			if !okRel[in] {
				rels = append(rels, in)
			}
		}
		sort.Slice(rels, func(i, j int) bool { return rels[i].Pos() < rels[j].Pos() })
		for i, in := range rels {
			if _, isRD := in.(*ssa.RunDefers); isRD && badRel[in] == "" {
				continue
			}
			c.check(badRel[in] == "", rule, fmt.Sprintf("%s: release #%d releases a held lock", name, i+1), w.At(in), "held by this function or by every caller", "on some path this releases "+badRel[in]+" while neither this function nor all of its callers hold it: unlocking an unlocked mutex is a fatal runtime error")
		}
	}
	c.floor(rule, nAcq, 40, "lock acquisitions")
	c.floor(rule, nRet, 40, "returns of lock-acquiring functions")
}

// ruleNoWriteAfterHandOff (C15.12): an object built in a function is complete when a goroutine is started with it.
func ruleNoWriteAfterHandOff(c *Ctx, rule string) {
	c.rule(rule, "no write after hand-off: once a function has started a goroutine with an object it allocated itself (as receiver, argument or captured variable of the go statement), it does not store into that object's fields any more, except under a mutex — the goroutine would read a half-built object (data race), e.g. a handler started before its context carries the transport stream")
	w := c.W
	lf := w.Locks()
	nGo, nObj := 0, 0
	for _, fn := range w.Funcs {
		if isGenericTemplate(fn) {
			continue
		}
		allInstrsLocal(fn, func(in ssa.Instruction) {
			g, ok := in.(*ssa.Go)
			if !ok {
				return
			}
			nGo++
			var handed []*ssa.Alloc
			add := func(v ssa.Value) {
				if al, isAl := origin(v).(*ssa.Alloc); isAl && al.Parent() == fn && al.Heap {
					if pt, isP := al.Type().(*types.Pointer); isP {
						if _, isS := pt.Elem().Underlying().(*types.Struct); isS {
							handed = append(handed, al)
						}
					}
				}
			}
			for _, a := range g.Call.Args {
				add(a)
			}
			if mc, isMC := g.Call.Value.(*ssa.MakeClosure); isMC {
				for _, b := range mc.Bindings {
					add(b)
					// a captured variable holding the pointer
					if cell, isCell := b.(*ssa.Alloc); isCell {
						for _, r := range *cell.Referrers() {
							if st, isSt := r.(*ssa.Store); isSt && st.Addr == ssa.Value(cell) {
								add(st.Val)
							}
						}
					}
				}
			}
			for _, obj := range handed {
				nObj++
				var late ssa.Instruction
				allInstrsLocal(fn, func(x ssa.Instruction) {
					st, isSt := x.(*ssa.Store)
					if !isSt {
						return
					}
					fb := fieldBase(st.Addr)
					if fb == nil || origin(fb) != ssa.Value(obj) {
						return
					}
					after := (x.Block() == g.Block() && instrIndex(x) > instrIndex(g)) || (x.Block() != g.Block() && reaches(g, x))
					if !after {
						return
					}
					own := typeNameOf(obj.Type())
					for l := range lf.MustAt(x) {
						if strings.HasPrefix(l, own+".") {
							return // under a mutex of the object itself (the goroutine's accesses are judged by the guarded-by rule)
						}
					}
					late = x
				})
				at := w.At(g)
				if late != nil {
					at = w.At(late)
				}
				c.check(late == nil, rule, fmt.Sprintf("%s: object handed to the goroutine started in block %d is complete", w.Short(fn), g.Block().Index), at, "no field store after the go statement", "a field of the object is stored after the goroutine that uses the object was started, and not under a mutex: the goroutine can run with the old value (data race) — for the server stream: a handler whose context lacks the transport stream, so grpc.SetHeader / SendHeader / SetTrailer fail")
			}
		})
	}
	c.floor(rule, nGo, 8, "go statements")
	c.floor(rule, nObj, 1, "objects handed to goroutines by the function that built them")
}
