package main

// effects.go: F5 effect table (what a function may do that blocks or is observable) and
// A2 same-goroutine reachability over resolved call edges minus `go` sites.

import (
	"go/token"
	"go/types"
	"sort"
	"strings"

	"golang.org/x/tools/go/ssa"
)

type Effect struct {
	Kind   string // carrier-send, carrier-recv, carrier-closesend, carrier-header, chan-send, chan-recv, select-blocking, select-nonblocking, cond-wait, wg-wait, lock, callback, go, close, cond-signal
	Detail string
	Instr  ssa.Instruction
}

type FuncEffects struct {
	Fn      *ssa.Function
	Effects []Effect
}

// isCarrierType: t is (or embeds) an interface/wrapper over the tunnel's carrier stream.
func (w *World) isCarrierType(t types.Type) bool {
	t = types.Unalias(t)
	ms := types.NewMethodSet(t)
	for i := 0; i < ms.Len(); i++ {
		m := ms.At(i).Obj().(*types.Func)
		if m.Name() != "Send" && m.Name() != "Recv" {
			continue
		}
		sig := m.Type().(*types.Signature)
		var tt types.Type
		if m.Name() == "Send" && sig.Params().Len() == 1 {
			tt = sig.Params().At(0).Type()
		} else if m.Name() == "Recv" && sig.Results().Len() == 2 {
			tt = sig.Results().At(0).Type()
		}
		if tt == nil {
			continue
		}
		if n := namedOf(tt); n != nil && n.Obj().Pkg() != nil && n.Obj().Pkg().Path() == pbPath {
			if n.Obj().Name() == "ClientToServer" || n.Obj().Name() == "ServerToClient" {
				return true
			}
		}
	}
	return false
}

// carrierOp classifies a call as an operation on the carrier stream.
func (w *World) carrierOp(c ssa.CallInstruction) (string, bool) {
	cc := c.Common()
	var recvT types.Type
	var name string
	if cc.IsInvoke() {
		recvT = cc.Value.Type()
		name = cc.Method.Name()
	} else if f := staticCallee(c); f != nil && f.Signature.Recv() != nil {
		if w.inRoot(f) && f.Blocks != nil {
			return "", false // root wrapper: descended into, its inner invoke is the op
		}
		recvT = f.Signature.Recv().Type()
		name = f.Name()
	} else {
		return "", false
	}
	if !w.isCarrierType(recvT) {
		return "", false
	}
	switch name {
	case "Send", "SendMsg":
		return "carrier-send", true
	case "Recv", "RecvMsg":
		return "carrier-recv", true
	case "CloseSend":
		return "carrier-closesend", true
	case "Header":
		return "carrier-header", true
	case "SendHeader":
		return "carrier-sendheader", true
	}
	return "", false
}

var userCallbackIfaces = map[string]bool{
	"google.golang.org/grpc/credentials.PerRPCCredentials": true,
}

// directEffects lists the effects performed directly by fn's own instructions.
func (w *World) directEffects(fn *ssa.Function) *FuncEffects {
	if fe, ok := w.effCache[fn]; ok {
		return fe
	}
	fe := &FuncEffects{Fn: fn}
	w.effCache[fn] = fe
	add := func(kind, detail string, in ssa.Instruction) {
		fe.Effects = append(fe.Effects, Effect{kind, detail, in})
	}
	allInstrsLocal(fn, func(in ssa.Instruction) {
		switch x := in.(type) {
		case *ssa.Send:
			add("chan-send", desc(x.Chan), in)
		case *ssa.UnOp:
			if x.Op == token.ARROW {
				add("chan-recv", desc(x.X), in)
			}
		case *ssa.Select:
			var cs []string
			for _, st := range x.States {
				d := "recv "
				if st.Dir == types.SendOnly {
					d = "send "
				}
				cs = append(cs, d+desc(st.Chan))
			}
			if x.Blocking {
				add("select-blocking", strings.Join(cs, "; "), in)
			} else {
				add("select-nonblocking", strings.Join(cs, "; "), in)
			}
		case *ssa.Go:
			add("go", calleeDesc(w, x), in)
		case ssa.CallInstruction:
			if _, isDefer := in.(*ssa.Defer); isDefer {
				// the deferred call's effect happens at rundefers in the same function; classify the same way
			}
			if k, ok := w.carrierOp(x); ok {
				add(k, calleeName(x), in)
				return
			}
			if op, ok := lockOpOf(x); ok {
				if op.kind == "lock" || op.kind == "rlock" {
					add("lock", op.id, in)
				}
				return
			}
			n := calleeName(x)
			switch n {
			case "(*sync.Cond).Wait":
				add("cond-wait", desc(x.Common().Args[0]), in)
				return
			case "(*sync.Cond).Signal", "(*sync.Cond).Broadcast":
				add("cond-signal", n, in)
				return
			case "(*sync.WaitGroup).Wait":
				add("wg-wait", desc(x.Common().Args[0]), in)
				return
			case "builtin.close":
				add("close", desc(x.Common().Args[0]), in)
				return
			case "time.Sleep":
				add("sleep", "", in)
				return
			}
			cc := x.Common()
			if cc.IsInvoke() {
				if nt := namedOf(cc.Value.Type()); nt != nil && nt.Obj().Pkg() != nil {
					full := nt.Obj().Pkg().Path() + "." + nt.Obj().Name()
					if userCallbackIfaces[full] {
						add("callback", full+"."+cc.Method.Name(), in)
						return
					}
				}
				return
			}
			if staticCallee(x) == nil {
				// dynamic call of a func value: user callback unless it resolves to root closures
				if len(w.rootCalleesThroughWrappers(x)) == 0 {
					if _, isBuiltin := cc.Value.(*ssa.Builtin); !isBuiltin {
						// context.CancelFunc values are non-blocking library closures
						if isCancelFunc(cc.Value.Type()) {
							return
						}
						add("callback", desc(cc.Value), in)
					}
				}
			}
		}
	})
	return fe
}

func isCancelFunc(t types.Type) bool {
	if n, ok := types.Unalias(t).(*types.Named); ok {
		return n.Obj().Pkg() != nil && n.Obj().Pkg().Path() == "context" && (n.Obj().Name() == "CancelFunc" || n.Obj().Name() == "CancelCauseFunc")
	}
	return false
}

func calleeDesc(w *World, c ssa.CallInstruction) string {
	if f := staticCallee(c); f != nil {
		return w.Short(f)
	}
	var ns []string
	for _, f := range w.rootCalleesThroughWrappers(c) {
		ns = append(ns, w.Short(f))
	}
	if len(ns) > 0 {
		return strings.Join(ns, "|")
	}
	if n := calleeName(c); n != "" {
		return n
	}
	return "dyn:" + desc(c.Common().Value)
}

// ReachPath: how a function is reached on the same goroutine from a root.
type ReachPath struct {
	Fn   *ssa.Function
	Via  ssa.CallInstruction // site in the caller
	Prev *ReachPath
}

func (p *ReachPath) chain(w *World) string {
	var parts []string
	for x := p; x != nil; x = x.Prev {
		s := w.Short(x.Fn)
		if x.Via != nil {
			s = s + " (called at " + w.At(x.Via) + ")"
		}
		parts = append([]string{s}, parts...)
	}
	return strings.Join(parts, " -> ")
}

// sameGoroutineReach: functions reachable from root without crossing a `go` site. siteOK filters
// which call sites of the *root function itself* are followed (used for "in-loop" restriction).
func (w *World) sameGoroutineReach(root *ssa.Function, siteOK func(ssa.CallInstruction) bool) map[*ssa.Function]*ReachPath {
	out := map[*ssa.Function]*ReachPath{}
	start := &ReachPath{Fn: root}
	out[root] = start
	work := []*ReachPath{start}
	for len(work) > 0 {
		p := work[0]
		work = work[1:]
		allInstrsLocal(p.Fn, func(in ssa.Instruction) {
			c, ok := in.(ssa.CallInstruction)
			if !ok {
				return
			}
			if _, isGo := in.(*ssa.Go); isGo {
				return
			}
			// the filter applies to the root and to the private helpers that are part of it (virtual inlining); the call of
			// such a helper is itself transparent, its own call sites are filtered
			if (p.Fn == root || regionRoot(p.Fn) == root) && siteOK != nil && !siteOK(c) {
				// ... unless it is the call of a private helper that holds accepted sites itself (the loop split off)
				h := inlinedCallee(in)
				if h == nil || !mayExecute(h, func(x ssa.Instruction) bool {
					ci, isCI := x.(ssa.CallInstruction)
					return isCI && siteOK(ci)
				}, 1) {
					return
				}
			}
			for _, callee := range w.rootCalleesThroughWrappers(c) {
				if _, seen := out[callee]; !seen {
					np := &ReachPath{Fn: callee, Via: c, Prev: p}
					out[callee] = np
					work = append(work, np)
				}
			}
		})
	}
	return out
}

func sortedFuncs(w *World, m map[*ssa.Function]*ReachPath) []*ssa.Function {
	var fs []*ssa.Function
	for f := range m {
		fs = append(fs, f)
	}
	sort.Slice(fs, func(i, j int) bool {
		if fs[i].Pos() != fs[j].Pos() {
			return fs[i].Pos() < fs[j].Pos()
		}
		return fs[i].String() < fs[j].String()
	})
	return fs
}
