package main

// rules_flow.go: rules about the chunking senders and the per-stream receivers
// (C01.1, C01.2, C01.7, C01.8, C05.*, C06.*).

import (
	"fmt"
	"go/token"
	"go/types"
	"sort"
	"strings"

	"golang.org/x/tools/go/ssa"
)

// ---------- A6: clamp / min recogniser ----------

// minBounds returns descriptors of values that v is known to be <= (including itself),
// recognising `if v > B { v = B }`, `v := B; if x < v { v = x }` (both are phis of a comparison) and min().
func minBounds(v ssa.Value, depth int) map[string]bool {
	out := map[string]bool{}
	if v == nil || depth > 6 {
		return out
	}
	out[desc(v)] = true
	if k, ok := constInt(v); ok {
		out[fmt.Sprintf("const:%d", k)] = true
	}
	if o := origin(v); o != v {
		// e.g. the chunk length computed by a private helper: the bounds of the value it returns
		for k := range minBounds(o, depth+1) {
			out[k] = true
		}
	}
	switch x := v.(type) {
	case *ssa.Convert:
		// widening/narrowing between unsigned types of a value already known to fit: keep the operand's bounds
		// only for same-signedness integer conversions (uint32(uint) after a bound is not assumed).
	case *ssa.Call:
		if calleeName(x) == "builtin.min" {
			for _, a := range x.Call.Args {
				for k := range minBounds(a, depth+1) {
					out[k] = true
				}
			}
		}
		// a clamp helper of the package (possibly shared by both senders): what every value it returns is bounded by, with
		// its parameters standing for this call's arguments
		if h := helperCallee(x); h != nil && h.Signature.Results().Len() == 1 && len(h.Blocks) > 0 {
			saved := paramBindings
			paramBindings = map[*ssa.Parameter]ssa.Value{}
			for k, b := range saved {
				paramBindings[k] = b
			}
			for k, p := range h.Params {
				if k < len(x.Call.Args) {
					paramBindings[p] = x.Call.Args[k]
				}
			}
			var common map[string]bool
			forEachReturnValue(h, 0, func(rv ssa.Value, at ssa.Instruction) {
				mb := minBounds(rv, depth+1)
				if common == nil {
					common = mb
					return
				}
				for k := range common {
					if !mb[k] {
						delete(common, k)
					}
				}
			})
			paramBindings = saved
			for k := range common {
				out[k] = true
			}
		}
	case *ssa.Phi:
		if len(x.Edges) != 2 {
			return out
		}
		b := x.Block()
		id := b.Idom()
		if id == nil {
			return out
		}
		ifi, ok := id.Instrs[len(id.Instrs)-1].(*ssa.If)
		if !ok {
			return out
		}
		cmp, ok := ifi.Cond.(*ssa.BinOp)
		if !ok {
			return out
		}
		tSucc := id.Succs[0]
		var vt, vf ssa.Value
		for i, p := range b.Preds {
			onTrue := (p == tSucc || tSucc.Dominates(p)) && tSucc != b
			if p == id {
				// direct edge from the If block: which successor is b?
				onTrue = id.Succs[0] == b
			}
			if onTrue {
				vt = x.Edges[i]
			} else {
				vf = x.Edges[i]
			}
		}
		if vt == nil || vf == nil {
			return out
		}
		p, q := cmp.X, cmp.Y
		isMin := false
		switch cmp.Op {
		case token.GTR, token.GEQ: // p > q ? q : p
			isMin = desc(vt) == desc(q) && desc(vf) == desc(p)
		case token.LSS, token.LEQ: // p < q ? p : q
			isMin = desc(vt) == desc(p) && desc(vf) == desc(q)
		}
		if isMin {
			for _, e := range []ssa.Value{vt, vf} {
				for k := range minBounds(e, depth+1) {
					out[k] = true
				}
			}
		}
	}
	return out
}

// ---------- sender analysis ----------

type senderShape struct {
	fn      *ssa.Function
	cb      *ssa.Call // call of the send callback
	data    ssa.Value // running buffer D (phi or param)
	n       ssa.Value // chunk length N (High of the slice passed)
	size    ssa.Value // size argument
	first   ssa.Value // first argument
	param   *ssa.Parameter
	problem string
}

func analyseSender(fn *ssa.Function) *senderShape {
	s := &senderShape{fn: fn}
	if len(fn.Params) < 2 {
		s.problem = "send method has no data parameter"
		return s
	}
	s.param = fn.Params[1]
	var cbs []*ssa.Call
	allInstrs(fn, func(in ssa.Instruction) {
		if c, ok := in.(*ssa.Call); ok && staticCallee(c) == nil && !c.Call.IsInvoke() {
			if _, isB := c.Call.Value.(*ssa.Builtin); isB {
				return
			}
			if sig, ok := c.Call.Value.Type().Underlying().(*types.Signature); ok && sig.Params().Len() == 3 {
				cbs = append(cbs, c)
			}
		}
	})
	if len(cbs) != 1 {
		s.problem = fmt.Sprintf("expected exactly one call of the (data, size, first) callback in the sender, found %d", len(cbs))
		return s
	}
	s.cb = cbs[0]
	sl, ok := s.cb.Call.Args[0].(*ssa.Slice)
	if !ok || sl.Low != nil || sl.High == nil || sl.Max != nil {
		s.problem = "the callback's data argument is not a prefix slice d[:n] of the running buffer"
		return s
	}
	s.data, s.n = sl.X, sl.High
	s.size, s.first = s.cb.Call.Args[1], s.cb.Call.Args[2]
	return s
}

func lenOfDesc(d ssa.Value) []string {
	return []string{
		"conv<uint32>(builtin.len(" + desc(d) + "))",
		"builtin.len(" + desc(d) + ")",
	}
}

// ruleChunkAccounting (C01.1).
func ruleChunkAccounting(c *Ctx, rule string) {
	c.rule(rule, "in every sender the loop slices one running buffer d: each callback call passes d[:n], the next iteration's buffer is d[n:] with the same n, an iteration without a send leaves d and first unchanged, a callback error is returned, and nil is returned only on n == len(d) after a successful callback")
	w := c.W
	impls := c.senderCores()
	c.floor(rule, len(impls), 2, "sender implementations (send methods)")
	for _, fn := range impls {
		name := w.Short(fn)
		s := analyseSender(fn)
		if s.problem != "" {
			c.fail(rule, name+": recognised chunk loop", w.Pos(fn.Pos()), s.problem)
			continue
		}
		cb := s.cb
		c.ok(rule, name+": recognised chunk loop", w.At(cb), "callback called with "+desc(cb.Call.Args[0]))
		// running buffer is a phi: entry edge = data parameter, iteration edges as required
		phi, isPhi := s.data.(*ssa.Phi)
		if !isPhi {
			// degenerate: no loop (single chunk): then n must equal len(data)
			c.fail(rule, name+": running buffer", w.At(cb), "the buffer passed to the callback is not a loop-carried value; unrecognised sender shape")
			continue
		}
		firstPhi, _ := s.first.(*ssa.Phi)
		okBuf, okFirst := true, firstPhi != nil && firstPhi.Block() == phi.Block()
		var why []string
		for i, e := range phi.Edges {
			pred := phi.Block().Preds[i]
			sent := cb.Block() == pred || cb.Block().Dominates(pred)
			inLoopEdge := phi.Block().Dominates(pred)
			var fe ssa.Value
			if okFirst {
				fe = firstPhi.Edges[i]
			}
			switch {
			case !inLoopEdge:
				if stripConv(e) != ssa.Value(s.param) && origin(e) != ssa.Value(s.param) {
					okBuf = false
					why = append(why, "entry edge of the buffer is "+desc(e)+", not the data parameter")
				}
				if okFirst && !isConstBool(fe, true) {
					okFirst = false
					why = append(why, "first is not true on entry")
				}
			case sent:
				sl, ok := e.(*ssa.Slice)
				if !ok || sl.X != ssa.Value(phi) || sl.High != nil || sl.Low == nil || sl.Low != s.n {
					okBuf = false
					why = append(why, "after a send the next buffer is "+desc(e)+", expected d[n:] with the n that was just sent ("+desc(s.n)+")")
				}
				if okFirst && !isConstBool(fe, false) {
					okFirst = false
					why = append(why, "first is not false after a send")
				}
			default:
				if e != ssa.Value(phi) {
					okBuf = false
					why = append(why, "an iteration without a send changes the buffer to "+desc(e))
				}
				if okFirst && fe != ssa.Value(firstPhi) {
					okFirst = false
					why = append(why, "an iteration without a send changes first")
				}
			}
		}
		c.check(okBuf, rule, name+": buffer advances by exactly what was sent", w.At(cb), "d = data on entry; d = d[n:] after each send; unchanged otherwise", strings.Join(why, "; "))
		c.check(okFirst, rule, name+": first flag true exactly for the first chunk", w.At(cb), "first = true on entry, false after every send, unchanged otherwise", "first-chunk flag: "+strings.Join(why, "; "))
		// size = len(param) taken outside the loop
		sz := desc(s.size)
		okSize := false
		for _, want := range lenOfDesc(s.param) {
			if sz == want {
				okSize = true
			}
		}
		if si, ok := s.size.(ssa.Instruction); ok && okSize {
			okSize = si.Block().Dominates(phi.Block()) && si.Block() != phi.Block()
		}
		c.check(okSize, rule, name+": size argument is the whole message length", w.At(cb), "size = "+sz+" computed before the loop", "size argument is "+sz+" (must be len of the data parameter, taken once before the loop): the envelope would state a wrong total")
		// callback error returned
		errRet := false
		for _, r := range *cb.Referrers() {
			if b, ok := r.(*ssa.BinOp); ok && b.Op == token.NEQ && isNilConst(b.Y) {
				for _, rr := range *b.Referrers() {
					if ifi, ok := rr.(*ssa.If); ok {
						tb := ifi.Block().Succs[0]
						// the true branch returns the callback's error
						if ret := blockReturn(tb); ret != nil && returnsValue(ret, cb, 0) {
							errRet = true
						}
					}
				}
			}
		}
		c.check(errRet, rule, name+": callback error returned", w.At(cb), "err != nil edge returns the callback's error", "a failing callback is not reported to the caller (chunk lost silently)")
		// nil returned only after success with n == len(d)
		okNil, nNil := true, 0
		var whyNil string
		forEachReturnValue(fn, 0, func(v ssa.Value, at ssa.Instruction) {
			if !isNilConst(v) {
				return
			}
			nNil++
			if !(cb.Block().Dominates(at.Block()) || cb.Block() == at.Block()) {
				okNil, whyNil = false, "nil returned at "+w.At(at)+" without a preceding send"
				return
			}
			lastFact, errFact := false, false
			for _, f := range factsAt(at) {
				x, op, y, ok := cmpFact(f)
				if !ok {
					continue
				}
				if op == token.EQL {
					dx, dy := desc(x), desc(y)
					for _, want := range lenOfDesc(phi) {
						if (x == s.n && dy == want) || (y == s.n && dx == want) {
							lastFact = true
						}
					}
				}
				if op == token.EQL && ((stripConv(x) == ssa.Value(cb) && isNilConst(y)) || (stripConv(y) == ssa.Value(cb) && isNilConst(x))) {
					errFact = true
				}
			}
			if !lastFact {
				okNil, whyNil = false, "nil returned at "+w.At(at)+" not under n == len(d) for the n just sent"
			}
			if !errFact {
				okNil, whyNil = false, "nil returned at "+w.At(at)+" not under callback error == nil"
			}
		})
		c.check(okNil && nNil > 0, rule, name+": success only when the whole message was handed over", w.At(cb), "every nil return is dominated by a successful callback and n == len(d)", whyNil+" (bytes dropped or sent twice)")
		// once the last chunk is sent the loop must not continue: on n == len(d) after success, no path back to cb
		// (covered by: back edge carries d[n:], and nil return exists on that edge)
	}
}

func blockReturn(b *ssa.BasicBlock) *ssa.Return {
	if len(b.Instrs) == 0 {
		return nil
	}
	r, _ := b.Instrs[len(b.Instrs)-1].(*ssa.Return)
	return r
}

// returnsValue: does the Return return v at result index idx (looking through the spilled result cell)?
func returnsValue(ret *ssa.Return, v ssa.Value, idx int) bool {
	if idx >= len(ret.Results) {
		return false
	}
	r := ret.Results[idx]
	if stripConv(r) == v {
		return true
	}
	if u, ok := r.(*ssa.UnOp); ok && u.Op == token.MUL {
		if a, ok := u.X.(*ssa.Alloc); ok {
			// last store into the cell in this block
			var last ssa.Value
			for _, in := range ret.Block().Instrs {
				if st, ok := in.(*ssa.Store); ok && st.Addr == a {
					last = st.Val
				}
			}
			return last != nil && stripConv(last) == v
		}
	}
	return false
}

// forEachReturnValue visits every value that can be returned at result index idx, with the point
// where it is determined (the Return, or the Store into the spilled result cell).
func forEachReturnValue(fn *ssa.Function, idx int, f func(v ssa.Value, at ssa.Instruction)) {
	cells := map[*ssa.Alloc]bool{}
	allInstrs(fn, func(in ssa.Instruction) {
		ret, ok := in.(*ssa.Return)
		if !ok || idx >= len(ret.Results) {
			return
		}
		r := ret.Results[idx]
		if u, ok := r.(*ssa.UnOp); ok && u.Op == token.MUL {
			if a, ok := u.X.(*ssa.Alloc); ok {
				// a local kept in memory (captured by a function literal): the value it holds at this return
				if v := cellValueAt(a, u); v != nil {
					f(v, ret)
					return
				}
				cells[a] = true
				return
			}
		}
		f(r, ret)
	})
	for a := range cells {
		for _, r := range *a.Referrers() {
			if st, ok := r.(*ssa.Store); ok && st.Addr == a {
				f(st.Val, st)
			}
		}
	}
}

// ---------- C06.1 / C06.2 ----------

func ruleReserveBeforeSend(c *Ctx, rule string) {
	c.rule(rule, "the flow-controlled sender reserves before it sends: each callback call is dominated by the success edge of CAS(w, w-n) on the window, with w the value loaded in the same iteration, w > 0, and n clamped to <= w, <= len(d) and <= 16384; the plain sender clamps n <= 16384 and <= len(d)")
	w := c.W
	nFC, nPlain := 0, 0
	for _, fn := range c.senderImpls() {
		name := w.Short(fn)
		s := analyseSender(fn)
		if s.problem != "" {
			c.fail(rule, name+": recognised chunk loop", w.Pos(fn.Pos()), s.problem)
			continue
		}
		bounds := minBounds(s.n, 0)
		hasLen := false
		for _, want := range lenOfDesc(s.data) {
			if bounds[want] {
				hasLen = true
			}
		}
		c.check(bounds["const:16384"], rule, name+": chunk <= 16384", w.At(s.cb), "n = "+desc(s.n), "the chunk length "+desc(s.n)+" is not clamped to the 16 KiB maximum frame payload")
		c.check(hasLen, rule, name+": chunk <= remaining", w.At(s.cb), "n bounded by len(d)", "the chunk length "+desc(s.n)+" is not clamped to the remaining data: slice out of range or bytes re-sent")
		// flow-controlled? has an atomic window field
		var cas *ssa.Call
		allInstrs(fn, func(in ssa.Instruction) {
			if call, ok := in.(*ssa.Call); ok && strings.HasSuffix(calleeName(call), ".CompareAndSwap") {
				cas = call
			}
		})
		if cas == nil {
			nPlain++
			// plain sender must not have a window at all; nothing more to check
			continue
		}
		nFC++
		// CAS(addr, W, W-N) with W a Load of the same field in the same loop iteration
		wv := cas.Call.Args[1]
		load, isLoad := wv.(*ssa.Call)
		okLoad := isLoad && strings.HasSuffix(calleeName(load), ".Load") && desc(load.Call.Args[0]) == desc(cas.Call.Args[0])
		c.check(okLoad, rule, name+": CAS expects the loaded window", w.At(cas), "old = "+desc(wv), "the CAS's expected value "+desc(wv)+" is not a Load of the same window field")
		sub, isSub := cas.Call.Args[2].(*ssa.BinOp)
		okSub := isSub && sub.Op == token.SUB && sub.X == wv && (sub.Y == s.n || origin(sub.Y) == origin(s.n))
		c.check(okSub, rule, name+": CAS reserves exactly the chunk", w.At(cas), "new = w - n", "the CAS's new value "+desc(cas.Call.Args[2])+" is not (loaded window - chunk length actually sent)")
		// callback dominated by CAS success
		dom := false
		for _, f := range boolFactsAt(s.cb) {
			if f.V == ssa.Value(cas) && f.True {
				dom = true
			}
		}
		if !dom {
			// the reservation loop may live in a private helper that returns (n, nil) only on the CAS success edge, the
			// callback then being reached only with that helper's error == nil
			if ex, isEx := stripConv(s.n).(*ssa.Extract); isEx {
				if hc, isC := ex.Tuple.(*ssa.Call); isC {
					if h := helperCallee(hc); h != nil && cas.Parent() == h {
						errIdx := h.Signature.Results().Len() - 1
						okRet, nRet := true, 0
						allInstrsLocal(h, func(in ssa.Instruction) {
							ret, isR := in.(*ssa.Return)
							if !isR || len(ret.Results) <= errIdx || !isNilConst(ret.Results[errIdx]) {
								return
							}
							nRet++
							good := false
							for _, f := range boolFactsAt(ret) {
								if f.V == ssa.Value(cas) && f.True {
									good = true
								}
							}
							if !good {
								okRet = false
							}
						})
						errOK := false
						for _, f := range factsAt(s.cb) {
							x, op, y, isCmp := cmpFact(f)
							if isCmp && op == token.EQL && isNilConst(y) {
								if e2, isE := stripConv(x).(*ssa.Extract); isE && e2.Tuple == ssa.Value(hc) && e2.Index == errIdx {
									errOK = true
								}
							}
						}
						dom = okRet && nRet > 0 && errOK
					}
				}
			}
		}
		c.check(dom, rule, name+": send only after a successful reservation", w.At(s.cb), "callback dominated by the CAS success edge", "the callback is not dominated by the success edge of the reservation CAS: bytes can be sent without credit (or credit reserved twice)")
		// failure edge retries (reaches the load again, not the callback)
		if okLoad {
			retry := false
			if ifi := ifOn(cas); ifi != nil {
				fb := ifi.Block().Succs[1]
				retry = fb == load.Block() || pathAvoiding(fn, fb.Instrs[0], func(in ssa.Instruction) bool { return in == ssa.Instruction(load) }, func(in ssa.Instruction) bool { return in == ssa.Instruction(s.cb) }) != nil || fb.Instrs[0] == ssa.Instruction(load)
				if pathAvoiding(fn, fb.Instrs[0], func(in ssa.Instruction) bool { return in == ssa.Instruction(s.cb) }, func(in ssa.Instruction) bool { return in == ssa.Instruction(load) }) != nil {
					retry = false
				}
			}
			c.check(retry, rule, name+": failed reservation reloads the window", w.At(cas), "CAS failure edge leads back to the Load", "after a failed CAS the sender does not reload the window before sending")
		}
		c.check(bounds[desc(wv)], rule, name+": chunk <= window", w.At(s.cb), "n bounded by the loaded window", "the chunk length "+desc(s.n)+" is not clamped to the loaded window: the window would underflow and the sender exceed its credit")
		// w > 0 at the CAS
		pos := false
		for _, f := range factsAt(cas) {
			if x, op, y, ok := cmpFact(f); ok {
				k, isK := constInt(y)
				if x == wv && isK && k == 0 && (op == token.NEQ || op == token.GTR) {
					pos = true
				}
			}
		}
		c.check(pos, rule, name+": window known positive", w.At(cas), "dominated by w != 0", "no dominating fact w != 0: a zero-length chunk could be sent forever (livelock) or an empty continuation emitted")
	}
	c.floor(rule, nFC, 1, "flow-controlled senders")
	c.floor(rule, nPlain, 1, "plain senders")
}

func ifOn(v ssa.Value) *ssa.If {
	for _, r := range *v.Referrers() {
		if ifi, ok := r.(*ssa.If); ok {
			return ifi
		}
	}
	return nil
}

// ruleConstants (C06.2 spec table).
func ruleConstants(c *Ctx, rule string) {
	c.rule(rule, "the protocol constants match tunnel.proto: maximum frame payload 16384, initial window 65536, and the window advertised in new_stream / settings is the one the local receiver is constructed with")
	w := c.W
	// maximum frame payload: the constant every sender clamps its chunk with (found by use, not by name)
	nS := 0
	for _, fn := range c.senderImpls() {
		s := analyseSender(fn)
		if s.problem != "" {
			c.fail(rule, w.Short(fn)+": recognised chunk loop", w.Pos(fn.Pos()), s.problem)
			continue
		}
		nS++
		var consts []string
		for b := range minBounds(s.n, 0) {
			if strings.HasPrefix(b, "const:") {
				consts = append(consts, strings.TrimPrefix(b, "const:"))
			}
		}
		sort.Strings(consts)
		c.check(len(consts) == 1 && consts[0] == "16384", rule, w.Short(fn)+": maximum frame payload constant", w.At(s.cb), "chunk clamped with the constant 16384", "the sender clamps its chunk with the constant(s) "+strings.Join(consts, ", ")+"; the protocol's maximum frame payload is 16384")
	}
	c.floor(rule, nS, 2, "senders (flow-controlled, plain)")
	// advertised == enforced
	a := w.Anchors()
	n := 0
	for _, e := range c.emitSeq() {
		var adv ssa.Value
		var where *ssa.Function
		switch e.Kind {
		case "ClientToServer_NewStream":
			adv, where = e.Payload["NewStream.InitialWindowSize"], a.Allocate
		case "ServerToClient_Settings":
			adv, where = e.Payload["Settings.InitialWindowSize"], a.Create
		default:
			continue
		}
		n++
		k, ok := constInt(adv)
		if adv == nil || !ok {
			c.fail(rule, emitKey(w, e)+": advertised window is the constant", w.At(e.Alloc), "advertised window is "+desc(adv)+", not a constant")
			continue
		}
		c.check(k == 65536, rule, emitKey(w, e)+": advertised window is the protocol's initial window", w.At(e.Alloc), "65536", fmt.Sprintf("this end advertises an initial window of %d; the protocol's initial window is 65536", k))
		// local receiver constructor's window argument in `where`
		found := false
		if where != nil {
			allInstrs(where, func(in ssa.Instruction) {
				call, ok := in.(*ssa.Call)
				if !ok {
					return
				}
				f := staticCallee(call)
				if f == nil || !w.inRoot(f) {
					return
				}
				// the flow-controlled receiver constructor: returns receiver[T] and takes a uint32 window as last arg
				if w.sameFn(f, w.roleFunc("newReceiver")) && len(call.Call.Args) == 3 {
					found = true
					k2, ok2 := constInt(call.Call.Args[2])
					c.check(ok2 && k2 == k, rule, emitKey(w, e)+": advertised == enforced", w.At(call), fmt.Sprintf("advertised %d, receiver constructed with %d", k, k2), fmt.Sprintf("this end advertises a window of %d but constructs its receiver with %s: a conforming peer is rejected, or the bound is not enforced", k, desc(call.Call.Args[2])))
				}
			})
		}
		if !found {
			c.fail(rule, emitKey(w, e)+": advertised == enforced", w.At(e.Alloc), "no flow-controlled receiver construction found on this end")
		}
	}
	c.floor(rule, n, 2, "window advertisements (new_stream, settings)")
	// senders constructed with the peer's advertised value
	for _, fn := range []*ssa.Function{a.Allocate, a.Create} {
		if fn == nil {
			continue
		}
		allInstrs(fn, func(in ssa.Instruction) {
			call, ok := in.(*ssa.Call)
			if !ok {
				return
			}
			f := staticCallee(call)
			if f == nil || !w.inRoot(f) || !w.sameFn(f, w.roleFunc("newSender")) {
				return
			}
			d := desc(call.Call.Args[1])
			c.check(strings.HasSuffix(d, ".InitialWindowSize") && !strings.HasPrefix(d, "const"), rule, w.Short(fn)+": sender uses the peer's advertised window", w.At(call), "initial window = "+d, "the sender's initial window is "+d+", expected the InitialWindowSize received from the peer")
		})
	}
}

// ---------- receivers ----------

type recvImpls struct {
	fc, plain       *types.Named
	accept, dequeue []*ssa.Function // of fc (instantiations)
	closeFn, cancel []*ssa.Function
	handle          []*ssa.Function
	pAccept, pDeq   []*ssa.Function
	pClose          []*ssa.Function
	pCancel         []*ssa.Function
}

func (c *Ctx) receivers() *recvImpls {
	w := c.W
	r := &recvImpls{}
	for _, nt := range w.rootStructs() {
		hasDeq := false
		for _, fn := range w.Funcs {
			if fn.Parent() == nil && fn.Name() == w.mName("dequeue") {
				if n := recvNamed(fn); n != nil && n.Obj() == nt.Obj() {
					hasDeq = true
				}
			}
		}
		if !hasDeq {
			continue
		}
		st := nt.Underlying().(*types.Struct)
		isFC := false
		for i := 0; i < st.NumFields(); i++ {
			if n := namedOf(st.Field(i).Type()); n != nil && n.Obj().Pkg() != nil && n.Obj().Pkg().Path() == "sync" && n.Obj().Name() == "Cond" {
				isFC = true
			}
		}
		if isFC {
			r.fc = nt
		} else {
			r.plain = nt
		}
	}
	for _, fn := range w.Funcs {
		if isGenericTemplate(fn) || fn.Parent() != nil {
			continue
		}
		n := recvNamed(fn)
		if n == nil {
			continue
		}
		if r.fc != nil && n.Obj() == r.fc.Obj() {
			switch fn.Name() {
			case w.mName("accept"):
				r.accept = append(r.accept, fn)
			case w.mName("dequeue"):
				r.dequeue = append(r.dequeue, fn)
			case w.mName("close"):
				r.closeFn = append(r.closeFn, fn)
			case w.mName("cancel"):
				r.cancel = append(r.cancel, fn)
			default:
				r.handle = append(r.handle, fn)
			}
		}
		if r.plain != nil && n.Obj() == r.plain.Obj() {
			switch fn.Name() {
			case w.mName("accept"):
				r.pAccept = append(r.pAccept, fn)
			case w.mName("dequeue"):
				r.pDeq = append(r.pDeq, fn)
			case w.mName("close"):
				r.pClose = append(r.pClose, fn)
			case w.mName("cancel"):
				r.pCancel = append(r.pCancel, fn)
			}
		}
	}
	return r
}

// measureCall: the dynamic call of the `measure` callback field in fn.
func measureCalls(fn *ssa.Function) []*ssa.Call {
	var out []*ssa.Call
	allInstrs(fn, func(in ssa.Instruction) {
		if call, ok := in.(*ssa.Call); ok && staticCallee(call) == nil && !call.Call.IsInvoke() {
			if fr, _, ok := loadedField(call.Call.Value); ok && fr.Field != "" {
				if sig, ok := call.Call.Value.Type().Underlying().(*types.Signature); ok && sig.Params().Len() == 1 && sig.Results().Len() == 1 {
					out = append(out, call)
				}
			}
		}
	})
	return out
}

func windowField(nt *types.Named) (FieldRef, bool) {
	st := nt.Underlying().(*types.Struct)
	for i := 0; i < st.NumFields(); i++ {
		if b, ok := st.Field(i).Type().Underlying().(*types.Basic); ok && b.Kind() == types.Uint32 {
			return FieldRef{nt.Obj().Name(), st.Field(i).Name()}, true
		}
	}
	return FieldRef{}, false
}

func listCalls(fn *ssa.Function, method string) []*ssa.Call {
	var out []*ssa.Call
	allInstrs(fn, func(in ssa.Instruction) {
		if call, ok := in.(*ssa.Call); ok && calleeName(call) == "(*container/list.List)."+method {
			out = append(out, call)
		}
	})
	return out
}

// ruleReceiverBound (C06.3).
func ruleReceiverBound(c *Ctx, rule string) {
	c.rule(rule, "the flow-controlled receiver enqueues an item only on the false edge of exactly measure(item) > window, subtracts exactly measure(item) from the window, and the error returned on the true edge has code ResourceExhausted")
	w := c.W
	r := c.receivers()
	if r.fc == nil {
		c.fail(rule, "flow-controlled receiver", "-", "no receiver type with a queue and a sync.Cond found")
		return
	}
	win, ok := windowField(r.fc)
	if !ok {
		c.fail(rule, "receiver window field", "-", "no uint32 window field in "+r.fc.Obj().Name())
		return
	}
	c.floor(rule, len(r.accept), 1, "flow-controlled accept methods (instantiations)")
	for _, fn := range r.accept {
		name := w.Short(fn)
		push := listCalls(fn, "PushBack")
		push = append(push, listCalls(fn, "PushFront")...)
		if len(push) != 1 {
			c.fail(rule, name+": single enqueue", w.Pos(fn.Pos()), fmt.Sprintf("%d enqueue calls", len(push)))
			continue
		}
		ms := measureCalls(fn)
		if len(ms) != 1 || stripConv(ms[0].Call.Args[0]) != ssa.Value(fn.Params[1]) {
			c.fail(rule, name+": measures the item", w.Pos(fn.Pos()), "accept does not call measure(item) exactly once on its own item")
			continue
		}
		m := ms[0]
		// enqueue dominated by !(m > conv(window))
		bound := false
		var cmpAt ssa.Instruction
		for _, f := range factsAt(push[0]) {
			x, op, y, ok := cmpFact(f)
			if !ok {
				continue
			}
			// normalise to m OP win
			if isWindowLoad(y, win) && stripToCall(x) == m {
			} else if isWindowLoad(x, win) && stripToCall(y) == m {
				op = flipCmp(op)
			} else {
				continue
			}
			cmpAt = f.Cond.(ssa.Instruction)
			if op == token.LEQ { // m <= window
				bound = true
			} else {
				c.fail(rule, name+": exact bound", w.At(cmpAt), "the enqueue is guarded by measure(item) "+op.String()+" window; a conforming sender fills the window exactly, so the guard must be exactly <= (reject only on >)")
			}
		}
		c.check(bound, rule, name+": enqueue bounded by the window", w.At(push[0]), "enqueue only when measure(item) <= window", "the enqueue is not dominated by the false edge of measure(item) > window: a peer can make this endpoint buffer without bound")
		// window -= m, exactly once, before the unlock
		okSub := false
		for _, st := range storesToField(fn, win) {
			if b, ok := st.Val.(*ssa.BinOp); ok && b.Op == token.SUB && isWindowLoad(b.X, win) && stripToCall(b.Y) == m {
				okSub = dominates(st, push[0]) || dominates(push[0], st)
			}
		}
		c.check(okSub && len(storesToField(fn, win)) == 1, rule, name+": window reduced by exactly the item's size", w.At(push[0]), "window -= measure(item)", "accept does not subtract exactly measure(item) from the window on the enqueue path")
		// error on the true edge is ResourceExhausted
		okErr := false
		forEachReturnValue(fn, 0, func(rv ssa.Value, at ssa.Instruction) {
			for _, vc := range valueCases(rv, 0) { // incl. what a private helper holding the enqueue returns
				v := vc.Val
				if isNilConst(v) {
					continue
				}
				if u, ok := stripConv(v).(*ssa.UnOp); ok {
					if g, ok := u.X.(*ssa.Global); ok {
						if code, ok := c.globalStatusCode(g); ok && code == 8 {
							okErr = true
						} else {
							c.fail(rule, name+": overrun error code", w.At(at), fmt.Sprintf("overrun returns %s whose status code is not ResourceExhausted", g.Name()))
						}
					}
				} else if call, ok := stripConv(v).(*ssa.Call); ok && len(call.Call.Args) > 0 {
					if k, ok := constInt(call.Call.Args[0]); ok && k == 8 {
						okErr = true
					}
				}
			}
		})
		c.check(okErr, rule, name+": overrun error code", w.Pos(fn.Pos()), "ResourceExhausted", "no ResourceExhausted error is returned on the overrun edge")
	}
}

func stripToCall(v ssa.Value) *ssa.Call {
	for {
		switch x := v.(type) {
		case *ssa.Convert:
			v = x.X
		case *ssa.ChangeType:
			v = x.X
		case *ssa.Call:
			return x
		case *ssa.Parameter:
			// handed to a private helper (e.g. the size measured before the lock is taken)
			a := crossParameter(x)
			if a == nil {
				return nil
			}
			v = a
		default:
			return nil
		}
	}
}

func isWindowLoad(v ssa.Value, win FieldRef) bool {
	for {
		if cv, ok := v.(*ssa.Convert); ok {
			v = cv.X
			continue
		}
		break
	}
	fr, _, ok := loadedField(v)
	return ok && fr == win
}

// globalStatusCode: package-level `var x = status.Errorf(code, ...)` -> code.
func (c *Ctx) globalStatusCode(g *ssa.Global) (int64, bool) {
	init := c.W.SRoot.Func("init")
	if init == nil {
		return 0, false
	}
	var code int64
	found := false
	allInstrs(init, func(in ssa.Instruction) {
		if st, ok := in.(*ssa.Store); ok && st.Addr == ssa.Value(g) {
			if call, ok := stripConv(st.Val).(*ssa.Call); ok && strings.HasPrefix(calleeName(call), "google.golang.org/grpc/status.") {
				if k, ok := constInt(call.Call.Args[0]); ok {
					code, found = k, true
				}
			}
		}
	})
	return code, found
}

// ruleCreditIdentity (C05.5 / C06.6).
func ruleCreditIdentity(c *Ctx, rule string) {
	c.rule(rule, "credit identity: dequeue adds back to the window, and passes to the window-update callback, exactly measure(item) of the item it removed; the measure closures return the length of exactly the data-bearing field of message and continuation frames and 0 otherwise")
	w := c.W
	r := c.receivers()
	if r.fc == nil {
		c.fail(rule, "flow-controlled receiver", "-", "not found")
		return
	}
	win, _ := windowField(r.fc)
	c.floor(rule, len(r.dequeue), 1, "flow-controlled dequeue methods (instantiations)")
	for _, outer := range r.dequeue {
		// the part that takes the item may have been split off into a helper: analyse the function that holds it
		fn := w.coreWith(outer, func(in ssa.Instruction) bool {
			ci, ok := in.(*ssa.Call)
			return ok && calleeName(ci) == "(*container/list.List).Remove"
		})
		name := w.Short(outer)
		rem := listCalls(fn, "Remove")
		ms := measureCalls(fn)
		if len(rem) != 1 || len(ms) != 1 {
			c.fail(rule, name+": removes and measures one item", w.Pos(fn.Pos()), fmt.Sprintf("%d Remove calls, %d measure calls", len(rem), len(ms)))
			continue
		}
		m := ms[0]
		// measured item is the removed one
		arg := m.Call.Args[0]
		okItem := false
		if ta, ok := stripConv(arg).(*ssa.TypeAssert); ok && ta.X == ssa.Value(rem[0]) {
			okItem = true
		}
		c.check(okItem, rule, name+": measures the removed item", w.At(m), "measure(Remove(front))", "the measured value is not the item that was just removed")
		// returned item is the removed one
		okRet := false
		forEachReturnValue(fn, 0, func(v ssa.Value, at ssa.Instruction) {
			if stripConv(v) == stripConv(arg) {
				okRet = true
			}
		})
		c.check(okRet, rule, name+": returns the removed item", w.At(rem[0]), "returned item = removed item", "dequeue does not return the item it removed")
		// window += m
		okAdd := false
		sts := storesToField(fn, win)
		for _, st := range sts {
			if b, ok := st.Val.(*ssa.BinOp); ok && b.Op == token.ADD && ((isWindowLoad(b.X, win) && stripToCall(b.Y) == m) || (isWindowLoad(b.Y, win) && stripToCall(b.X) == m)) {
				okAdd = true
			}
		}
		c.check(okAdd && len(sts) == 1, rule, name+": window restored by exactly the item's size", w.At(m), "window += measure(item)", "dequeue does not add exactly measure(item) back to the receiver's window")
		// the update callback gets exactly m: find the call of the updateWindow field (possibly in a deferred closure)
		var upd *ssa.Call
		var updFn *ssa.Function
		cands := []*ssa.Function{}
		for _, f := range w.helperClosure(outer) {
			cands = append(cands, f)
			cands = append(cands, f.AnonFuncs...)
			// methods deferred at exactly one place (the deferred literal turned into a method)
			allInstrsLocal(f, func(in ssa.Instruction) {
				if d, isD := in.(*ssa.Defer); isD {
					if g := staticCallee(d); g != nil && w.soleSite(g) == ssa.CallInstruction(d) {
						cands = append(cands, g)
					}
				}
			})
		}
		for _, f := range cands {
			allInstrs(f, func(in ssa.Instruction) {
				if call, ok := in.(*ssa.Call); ok && staticCallee(call) == nil && !call.Call.IsInvoke() {
					if sig, ok := call.Call.Value.Type().Underlying().(*types.Signature); ok && sig.Params().Len() == 1 && sig.Results().Len() == 0 {
						if _, _, isField := loadedField(call.Call.Value); isField {
							upd, updFn = call, f
						}
					}
				}
			})
		}
		if upd == nil {
			c.fail(rule, name+": window-update callback invoked", w.Pos(fn.Pos()), "dequeue never invokes the window-update callback: credit is never returned to the peer")
			continue
		}
		// argument = conv(cell) where cell receives only m (and zero init)
		okArg, why := creditArgIs(upd.Call.Args[0], m, fn)
		c.check(okArg, rule, name+": callback receives exactly the item's size", w.At(upd), "updateWindow(measure(item))", "the amount passed to the window-update callback is "+why)
		// callback skipped only when the amount is zero
		okGuard := true
		for _, f := range factsAt(upd) {
			x, op, y, ok := cmpFact(f)
			if !ok {
				continue
			}
			k, isK := constInt(y)
			if isK && k == 0 && (op == token.GTR || op == token.NEQ) {
				_ = x
				continue
			}
			okGuard = false
		}
		c.check(okGuard, rule, name+": callback not suppressed for positive credit", w.At(upd), "only guard: amount > 0", "the window-update callback is guarded by a condition other than amount > 0: some credit would never be returned")
		_ = updFn
		// ... and dequeue is the ONLY place that returns credit: no other method of the receiver invokes the callback or
		// increases the window (credit for data the application never consumed — e.g. for frames discarded by cancel —
		// lets the peer send a further window that nobody will read)
		inDeq := map[*ssa.Function]bool{}
		for _, f := range cands {
			inDeq[f] = true
		}
		var stray ssa.Instruction
		for _, f := range w.Funcs {
			if isGenericTemplate(f) || inDeq[f] || inDeq[regionRoot(f)] {
				continue
			}
			if rn := recvNamed(f); rn == nil || rn.Obj() != r.fc.Obj() {
				continue
			}
			if !w.sameTypeArgs(f, outer) {
				continue // another instantiation: judged with its own dequeue
			}
			allInstrsLocal(f, func(in ssa.Instruction) {
				if call, ok := in.(*ssa.Call); ok && staticCallee(call) == nil && !call.Call.IsInvoke() {
					if fr, _, isField := loadedField(call.Call.Value); isField {
						if ufr, _, isU := loadedField(upd.Call.Value); isU && fr == ufr {
							stray = in
						}
					}
				}
				if st, ok := in.(*ssa.Store); ok {
					if fr, _, isF := fieldOfAddr(st.Addr); isF && fr == win {
						if b, isB := st.Val.(*ssa.BinOp); isB && b.Op == token.ADD {
							stray = in
						}
					}
				}
			})
		}
		at := w.Pos(fn.Pos())
		if stray != nil {
			at = w.At(stray)
		}
		c.check(stray == nil, rule, name+": credit is returned only by dequeue", at, "no other method of the receiver invokes the update callback or adds to the window", "a method of the flow-controlled receiver other than dequeue returns credit (calls the window-update callback or increases the window): the peer is granted credit for data the application did not consume and may send a further window that is buffered and never read")
	}
	// measure closures
	n := 0
	a := w.Anchors()
	for _, parent := range []*ssa.Function{a.Allocate, a.Create} {
		if parent == nil {
			continue
		}
		allInstrs(parent, func(in ssa.Instruction) {
			call, ok := in.(*ssa.Call)
			if !ok {
				return
			}
			f := staticCallee(call)
			if f == nil || !w.inRoot(f) || !w.sameFn(f, w.roleFunc("newReceiver")) || len(call.Call.Args) != 3 {
				return
			}
			var mf *ssa.Function
			switch x := call.Call.Args[0].(type) {
			case *ssa.MakeClosure:
				mf, _ = x.Fn.(*ssa.Function)
			case *ssa.Function:
				mf = x
			}
			if mf == nil || !w.inRoot(mf) {
				c.fail(rule, w.Short(parent)+": measure closure", w.At(call), "the measure argument is not a function of this package: unrecognised shape")
				return
			}
			n++
			c.checkMeasureClosure(rule, mf)
		})
	}
	c.floor(rule, n, 2, "measure closures (one per end)")
}

func creditArgIs(v ssa.Value, m *ssa.Call, deq *ssa.Function) (bool, string) {
	for {
		if cv, ok := v.(*ssa.Convert); ok {
			v = cv.X
			continue
		}
		break
	}
	if stripToCall(v) == m {
		return true, ""
	}
	// result of the helper that took the item: every value it can return there is the measure or the constant 0
	if leaves, _, ok := returnLeavesOfCall(v); ok {
		sawM := false
		for _, l := range leaves {
			for {
				if cv, isCv := l.(*ssa.Convert); isCv {
					l = cv.X
					continue
				}
				break
			}
			if stripToCall(l) == m {
				sawM = true
				continue
			}
			if k, isK := constInt(l); isK && k == 0 {
				continue
			}
			return false, desc(l) + " (returned by the helper that dequeues)"
		}
		if sawM {
			return true, ""
		}
	}
	// load of a captured cell
	u, ok := v.(*ssa.UnOp)
	if !ok || u.Op != token.MUL {
		return false, desc(v)
	}
	var cell *ssa.Alloc
	switch b := u.X.(type) {
	case *ssa.Alloc:
		cell = b
	case *ssa.FreeVar:
		if a, ok := freeVarBinding(b).(*ssa.Alloc); ok {
			cell = a
		}
	case *ssa.Parameter:
		// the amount handed to a (deferred) private helper by address: dequeue's own variable
		if arg := crossParameter(b); arg != nil {
			if a, ok := stripConv(arg).(*ssa.Alloc); ok {
				cell = a
			}
		}
	}
	if cell == nil {
		return false, desc(v)
	}
	n := 0
	for _, r := range *cell.Referrers() {
		if st, ok := r.(*ssa.Store); ok && st.Addr == ssa.Value(cell) {
			n++
			if stripToCall(st.Val) != m {
				return false, "a cell that is also assigned " + desc(st.Val)
			}
		}
	}
	if n == 0 {
		return false, "a cell that is never assigned the measured size"
	}
	return true, ""
}

// checkMeasureClosure: returns len of the data field of the message kind, len of the continuation kind, else 0.
func (c *Ctx) checkMeasureClosure(rule string, fn *ssa.Function) {
	w := c.W
	name := w.Short(fn)
	type arm struct {
		kind string
		val  ssa.Value
		at   ssa.Instruction
	}
	var arms []arm
	forEachReturnValue(fn, 0, func(v ssa.Value, at ssa.Instruction) {
		kind := "default"
		for _, f := range boolFactsAt(at) {
			if ex, ok := f.V.(*ssa.Extract); ok && ex.Index == 1 && f.True {
				if ta, ok := ex.Tuple.(*ssa.TypeAssert); ok {
					if k, ok := w.pbNamed(ta.AssertedType); ok {
						kind = k
					}
				}
			}
		}
		arms = append(arms, arm{kind, v, at})
	})
	seen := map[string]bool{}
	for _, a := range arms {
		seen[a.kind] = true
		d := desc(a.val)
		key := name + ": arm " + a.kind
		switch {
		case strings.HasSuffix(a.kind, "_RequestMessage") || strings.HasSuffix(a.kind, "_ResponseMessage"):
			c.check(strings.HasPrefix(d, "conv<uint>(builtin.len(") && strings.HasSuffix(d, "Message.Data))"), rule, key, w.At(a.at), "returns "+d, "message frames are measured as "+d+", expected len of the frame's Data")
		case strings.HasSuffix(a.kind, "_MoreRequestData") || strings.HasSuffix(a.kind, "_MoreResponseData"):
			c.check(strings.HasPrefix(d, "conv<uint>(builtin.len(") && (strings.HasSuffix(d, ".MoreRequestData))") || strings.HasSuffix(d, ".MoreResponseData))")), rule, key, w.At(a.at), "returns "+d, "continuation frames are measured as "+d+", expected len of the frame's data")
		default:
			k, ok := constInt(a.val)
			c.check(ok && k == 0, rule, key, w.At(a.at), "returns 0", "non-data frames are measured as "+d+", expected 0")
		}
	}
	nData := 0
	for k := range seen {
		if k != "default" {
			nData++
		}
	}
	c.check(nData == 2 && seen["default"], rule, name+": covers message, continuation and default", w.Pos(fn.Pos()), "3 arms", fmt.Sprintf("measure closure has %d data arms (default arm: %v): a data-bearing frame kind would consume no window, or credit would be returned for frames that consumed none", nData, seen["default"]))
}

// ruleAcceptSignals (C05.8) + queue order (C01.7) + drain-before-EOF.
func ruleQueueDiscipline(c *Ctx, rule string) {
	c.rule(rule, "the per-stream queue is FIFO and drained before end-of-stream: accept enqueues at the back and wakes the consumer on the empty->non-empty transition (or always); dequeue takes from the front; its closed => no-more-data exit is taken only when the queue is empty; close() never empties the queue")
	w := c.W
	r := c.receivers()
	if r.fc == nil {
		c.fail(rule, "flow-controlled receiver", "-", "not found")
		return
	}
	for _, fn := range r.accept {
		name := w.Short(fn)
		c.check(len(listCalls(fn, "PushBack")) == 1 && len(listCalls(fn, "PushFront")) == 0, rule, name+": enqueue at the back", w.Pos(fn.Pos()), "PushBack", "accept does not enqueue with exactly one PushBack: messages would be reordered")
		// signal: a Signal/Broadcast call reachable after the push on the "was empty" edge, or unconditionally
		var sig []ssa.CallInstruction
		sig = callsNamed(fn, "(*sync.Cond).Signal", "(*sync.Cond).Broadcast")
		okSig := false
		var why string
		for _, s := range sig {
			fs := factsAt(s)
			if len(fs) <= lenFactsOfPush(fn) {
				// unconditional relative to the push
			}
			cond := false
			good := true
			for _, f := range fs {
				x, op, y, ok := cmpFact(f)
				if !ok {
					// closed-flag facts etc. that also guard the push are fine
					continue
				}
				if call, isCall := x.(*ssa.Call); isCall && calleeName(call) == "(*container/list.List).Len" {
					cond = true
					k, isK := constInt(y)
					push := listCalls(fn, "PushBack")
					switch {
					case isK && k == 0 && op == token.EQL:
						// "was empty": Len must be read before the push
						if len(push) == 1 && !dominates(call, push[0]) {
							good = false
							why = "queue length is compared with 0 after the enqueue"
						}
					case isK && k == 1 && op == token.EQL:
						// "has just become non-empty": Len must be read after the push
						if len(push) != 1 || !dominates(push[0], call) {
							good = false
							why = "queue length is compared with 1 before the enqueue"
						}
					default:
						good = false
						why = "the consumer is signalled only when Len() " + op.String() + " " + desc(y)
					}
				}
			}
			_ = cond
			if good {
				okSig = true
			}
		}
		c.check(okSig, rule, name+": wakes the consumer when the queue was empty", w.Pos(fn.Pos()), "Signal on the empty->non-empty transition (or unconditionally)", "accept does not wake a waiting consumer when it makes the queue non-empty ("+why+"): a blocked reader is never released (lost wake-up)")
	}
	for _, outer := range r.dequeue {
		fn := w.coreWith(outer, func(in ssa.Instruction) bool {
			ci, ok := in.(*ssa.Call)
			return ok && calleeName(ci) == "(*container/list.List).Front"
		})
		name := w.Short(outer)
		front := listCalls(fn, "Front")
		c.check(len(front) == 1 && len(listCalls(fn, "Back")) == 0, rule, name+": dequeue from the front", w.Pos(fn.Pos()), "Front", "dequeue does not take exactly the front element")
		if len(front) != 1 {
			continue
		}
		rem := listCalls(fn, "Remove")
		c.check(len(rem) == 1 && len(rem[0].Call.Args) == 2 && rem[0].Call.Args[1] == ssa.Value(front[0]), rule, name+": removes the front element", w.At(front[0]), "Remove(Front())", "the removed element is not the front element")
		// every return of (zero,false) that is not the cancelled exit must be under front == nil
		closedFlag, cancelFlag := c.closeCancelFlags(r)
		okDrain := true
		nExits := 0
		okIdx := 1 // the "an item is returned" result: the bool result, wherever a split-off helper puts it
		for i := 0; i < fn.Signature.Results().Len(); i++ {
			if b, isB := fn.Signature.Results().At(i).Type().Underlying().(*types.Basic); isB && b.Kind() == types.Bool {
				okIdx = i
			}
		}
		forEachReturnValue(fn, okIdx, func(v ssa.Value, at ssa.Instruction) {
			if !isConstBool(v, false) {
				return
			}
			nExits++
			if fieldFlagFact(at, cancelFlag, true) != nil {
				return // cancel discards queued data by design
			}
			empty := false
			for _, f := range factsAt(at) {
				x, op, y, ok := cmpFact(f)
				if ok && op == token.EQL && ((x == ssa.Value(front[0]) && isNilConst(y)) || (y == ssa.Value(front[0]) && isNilConst(x))) {
					empty = true
				}
			}
			if empty && fieldFlagFact(at, closedFlag, true) != nil {
				return // tested right here: closed, and nothing queued
			}
			// the condition-wait idiom (`for !cancelled && Len() == 0 && !closed { Wait() }` and the outcomes sorted out after
			// the loop): on every feasible path since the last wake-up, the stream is closed and the queue empty
			if !drainedOnEveryPath(fn, at, front[0], closedFlag, cancelFlag) {
				okDrain = false
			}
		})
		// nothing is handed out once the stream was cancelled (cancel discards what is queued; a frame that still arrives
		// afterwards must not be delivered behind that gap): every return of an item has tested cancelled == false since the
		// last wake-up
		okLive, nItem := true, 0
		// … and what is handed out is the element just removed from the front (never a zero value reported as an item)
		itemAt := map[ssa.Instruction]ssa.Value{}
		if fn.Signature.Results().Len() == 2 {
			forEachReturnValue(fn, 1-okIdx, func(v ssa.Value, at ssa.Instruction) { itemAt[at] = v })
		}
		okReal := true
		forEachReturnValue(fn, okIdx, func(v ssa.Value, at ssa.Instruction) {
			if isConstBool(v, false) {
				return
			}
			nItem++
			if !notCancelledOnEveryPath(fn, at, closedFlag, cancelFlag) {
				okLive = false
			}
			if iv, has := itemAt[at]; has && len(rem) == 1 {
				ta, isTA := stripConv(origin(iv)).(*ssa.TypeAssert)
				if !isTA {
					ta, isTA = stripConv(iv).(*ssa.TypeAssert)
				}
				if !isTA || ta.X != ssa.Value(rem[0]) {
					okReal = false
				}
			}
		})
		c.check(okReal, rule, name+": every item handed out is the removed front element", w.Pos(fn.Pos()), "item = Remove(Front()) on every return that reports an item", "dequeue reports an item on a return whose value is not the element it removed from the queue (a zero value delivered as a message)")
		c.check(okLive && nItem >= 1, rule, name+": no item handed out after cancel", w.Pos(fn.Pos()), "every item return follows a test that "+cancelFlag.Field+" is false", "dequeue can return an item although the stream was cancelled ("+cancelFlag.String()+" is not tested before the queue): cancel() discards the queued frames, a frame that arrives afterwards is delivered behind the gap — the application sees a message sequence with a hole")
		c.check(okDrain && nExits >= 1, rule, name+": queued data drained before end-of-stream", w.Pos(fn.Pos()), "the closed exit is taken only with an empty queue", "dequeue can report end-of-stream while items are still queued (closed tested before the queue): messages sent before half-close/close_stream are lost")
		// wait only when empty and not closed; loop re-tests after waking
		waits := callsNamed(fn, "(*sync.Cond).Wait")
		okWait := len(waits) == 1
		if okWait {
			okWait = inLoop(waits[0].Block()) && reaches(waits[0], front[0])
		}
		c.check(okWait, rule, name+": waits in a loop that re-tests the queue", w.Pos(fn.Pos()), "cond.Wait inside the loop; Front() re-evaluated after waking", "dequeue does not re-test the queue after cond.Wait returns (spurious or stale wake-ups would return garbage)")
		// ... and only while the stream is neither closed nor cancelled: both flags are tested (false) on the way to the wait
		if len(waits) == 1 {
			okFlags := fieldFlagFact(waits[0], cancelFlag, false) != nil && fieldFlagFact(waits[0], closedFlag, false) != nil
			c.check(okFlags, rule, name+": waits only while neither closed nor cancelled", w.At(waits[0]), "reached under !"+cancelFlag.Field+" && !"+closedFlag.Field, "dequeue goes (back) to sleep without having tested both "+cancelFlag.String()+" and "+closedFlag.String()+": the Broadcast of cancel() / close() wakes it, it finds the queue empty and waits again — a reader is never released by cancellation (deadline, client cancel) or by end-of-stream")
		}
	}
	closedFlag, cancelFlag := c.closeCancelFlags(r)
	// close() never empties the queue; cancel() may
	for _, fn := range r.closeFn {
		emptied := len(listCalls(fn, "Init")) > 0 || len(listCalls(fn, "Remove")) > 0
		c.check(!emptied, rule, w.Short(fn)+": close keeps queued items", w.Pos(fn.Pos()), "no Init/Remove in close()", "close() discards queued items: data that arrived before half-close/close_stream is lost")
		// close sets the closed flag (directly or via helper given &closed)
		c.check(c.setsFlag(fn, closedFlag), rule, w.Short(fn)+": close sets the closed flag", w.Pos(fn.Pos()), closedFlag.String()+" set", "close() does not set "+closedFlag.String())
	}
	for _, fn := range r.cancel {
		c.check(c.setsFlag(fn, cancelFlag), rule, w.Short(fn)+": cancel sets the cancelled flag", w.Pos(fn.Pos()), cancelFlag.String()+" set", "cancel() does not set "+cancelFlag.String()+": a blocked reader is not released by cancellation")
	}
	// wake-up on close/cancel: Broadcast when the queue is empty (waiters exist only then)
	for _, fn := range r.handle {
		bc := callsNamed(fn, "(*sync.Cond).Broadcast")
		if len(bc) == 0 {
			continue
		}
		ok := true
		var why string
		for _, f := range factsAt(bc[0]) {
			x, op, y, isCmp := cmpFact(f)
			if !isCmp {
				continue
			}
			if call, isCall := x.(*ssa.Call); isCall && calleeName(call) == "(*container/list.List).Len" {
				k, isK := constInt(y)
				if !(isK && k == 0 && op == token.EQL) {
					ok, why = false, "Broadcast only when Len() "+op.String()+" "+desc(y)
				}
			}
		}
		c.check(ok, rule, w.Short(fn)+": closure wakes waiters", w.At(bc[0]), "Broadcast whenever the queue is empty (the only state with waiters)", "close/cancel does not wake a reader blocked on an empty queue: "+why)
	}
	nb := 0
	for _, fn := range append(append([]*ssa.Function{}, r.handle...), append(r.closeFn, r.cancel...)...) {
		nb += len(callsNamed(fn, "(*sync.Cond).Broadcast"))
	}
	c.floor(rule, nb, 1, "Broadcast sites on close/cancel")
}

func lenFactsOfPush(fn *ssa.Function) int { return 0 }

// closeCancelFlags: the flag whose address close() passes/sets and the one cancel() passes/sets.
func (c *Ctx) closeCancelFlags(r *recvImpls) (FieldRef, FieldRef) {
	find := func(fns []*ssa.Function) FieldRef {
		for _, fn := range fns {
			var out FieldRef
			allInstrs(fn, func(in ssa.Instruction) {
				if fa, ok := in.(*ssa.FieldAddr); ok {
					fr := mkFieldRef(fa.X.Type(), fa.Field)
					st := structOf(fa.X.Type())
					if b, ok := st.Field(fa.Field).Type().Underlying().(*types.Basic); ok && b.Kind() == types.Bool {
						out = fr
					}
				}
			})
			if out.Field != "" {
				return out
			}
		}
		return FieldRef{}
	}
	return find(r.closeFn), find(r.cancel)
}

// setsFlag: fn stores true into the flag, or passes its address to a helper that stores true through the pointer.
func (c *Ctx) setsFlag(fn *ssa.Function, flag FieldRef) bool {
	ok := false
	for _, st := range storesToField(fn, flag) {
		if isConstBool(st.Val, true) {
			ok = true
		}
	}
	allInstrs(fn, func(in ssa.Instruction) {
		call, isCall := in.(*ssa.Call)
		if !isCall {
			return
		}
		callee := staticCallee(call)
		if callee == nil || !c.W.inRoot(callee) {
			return
		}
		for i, a := range call.Call.Args {
			if fr, _, isF := fieldOfAddr(a); isF && fr == flag && i < len(callee.Params) {
				p := callee.Params[i]
				allInstrs(callee, func(x ssa.Instruction) {
					if st, isSt := x.(*ssa.Store); isSt && st.Addr == ssa.Value(p) && isConstBool(st.Val, true) {
						ok = true
					}
				})
			}
		}
	})
	return ok
}

// ruleSingleConsumer (C01.8).
func ruleSingleConsumer(c *Ctx, rule string) {
	c.rule(rule, "single consumer: dequeue is reached only through the reassembly function, which runs only with the stream's read mutex held, so two readers can never interleave the chunks of one message")
	w := c.W
	a := w.Anchors()
	lf := w.Locks()
	n := 0
	for _, fn := range w.Funcs {
		if isGenericTemplate(fn) {
			continue
		}
		allInstrs(fn, func(in ssa.Instruction) {
			call, ok := in.(ssa.CallInstruction)
			if !ok || !call.Common().IsInvoke() || call.Common().Method.Name() != w.mName("dequeue") {
				return
			}
			n++
			key := "dequeue call in " + w.Short(fn)
			c.check(fn == a.ClientReasm || fn == a.ServerReasm, rule, key+": only from a reassembly function", w.At(in), "caller is a reassembly function", "dequeue is called from a function other than the two reassembly functions")
			rn := recvNamed(fn)
			locks := perStreamLocks(lf.MustAt(in), rn)
			c.check(len(locks) > 0, rule, key+": under the stream's read mutex", w.At(in), "held: "+strings.Join(locks, ", "), "no per-stream mutex is held while dequeuing (must-lockset "+lf.MustAt(in).String()+"): concurrent RecvMsg calls could split a message")
		})
	}
	c.floor(rule, n, 2, "dequeue call sites")
}

// ---------- C05: wake-up token protocol ----------

func ruleTokenProtocol(c *Ctx, rule1, rule2, rule3 string) {
	c.rule(rule1, "the sender's wake-up token channel has capacity >= 1, so a signal sent while the sender is between its load and its wait is not lost")
	c.rule(rule2, "the credit-adding method performs a non-blocking send on the token channel on every path on which the window was 0 before the add")
	c.rule(rule3, "the sender waits inside a loop that reloads the window after waking, and the wait has a context-done alternative that returns the context error")
	w := c.W
	// locate the flow-controlled sender: struct with atomic.Uint32 and a chan struct{} field
	var snd *types.Named
	var chanF, winF FieldRef
	for _, nt := range w.rootStructs() {
		st := nt.Underlying().(*types.Struct)
		var cf, wf string
		for i := 0; i < st.NumFields(); i++ {
			if ch, ok := st.Field(i).Type().Underlying().(*types.Chan); ok {
				if s, ok := ch.Elem().Underlying().(*types.Struct); ok && s.NumFields() == 0 {
					cf = st.Field(i).Name()
				}
			}
			if n := namedOf(st.Field(i).Type()); n != nil && n.Obj().Pkg() != nil && n.Obj().Pkg().Path() == "sync/atomic" && n.Obj().Name() == "Uint32" {
				wf = st.Field(i).Name()
			}
		}
		if cf != "" && wf != "" {
			snd = nt
			chanF, winF = FieldRef{nt.Obj().Name(), cf}, FieldRef{nt.Obj().Name(), wf}
		}
	}
	if snd == nil {
		c.fail(rule1, "flow-controlled sender", "-", "no struct with an atomic window and a token channel found")
		return
	}
	// C05.1 capacity
	nMake := 0
	for _, fn := range w.Funcs {
		allInstrs(fn, func(in ssa.Instruction) {
			st, ok := in.(*ssa.Store)
			if !ok {
				return
			}
			if fr, _, ok := fieldOfAddr(st.Addr); !ok || fr != chanF {
				return
			}
			nMake++
			mk, ok := st.Val.(*ssa.MakeChan)
			if !ok {
				c.fail(rule1, chanF.String()+" assigned in "+w.Short(fn), w.At(st), "token channel assigned from "+desc(st.Val)+", not a make(chan)")
				return
			}
			k, isK := constInt(mk.Size)
			c.check(isK && k >= 1, rule1, chanF.String()+" capacity", w.At(mk), fmt.Sprintf("make(chan struct{}, %d)", k), fmt.Sprintf("token channel capacity is %s: a window update that lands between the sender's load and its wait is lost and the sender sleeps forever", desc(mk.Size)))
		})
	}
	c.floor(rule1, nMake, 1, "token channel constructions")
	// C05.2 updateWindow
	upd := w.methodFn(snd, "updateWindow")
	if upd == nil {
		c.fail(rule2, "credit-adding method", "-", "no updateWindow method on "+snd.Obj().Name())
	} else {
		var add *ssa.Call
		allInstrs(upd, func(in ssa.Instruction) {
			if call, ok := in.(*ssa.Call); ok && strings.HasSuffix(calleeName(call), "Uint32).Add") {
				add = call
			}
		})
		name := w.Short(upd)
		if add == nil {
			c.fail(rule2, name+": atomic add", w.Pos(upd.Pos()), "the credit is not added with an atomic Add on the window")
		} else {
			fr, _, _ := fieldOfAddr(add.Call.Args[0])
			c.check(fr == winF && stripConv(add.Call.Args[1]) == ssa.Value(upd.Params[1]), rule2, name+": adds exactly the credit received", w.At(add), "window.Add(add)", "the atomic add does not add exactly the parameter to the window")
			// non-blocking send on the token channel
			var sel *ssa.Select
			allInstrs(upd, func(in ssa.Instruction) {
				if s, ok := in.(*ssa.Select); ok {
					sel = s
				}
			})
			if sel == nil || sel.Blocking || len(sel.States) != 1 || sel.States[0].Dir != types.SendOnly {
				c.fail(rule2, name+": non-blocking token send", w.Pos(upd.Pos()), "no non-blocking send (select with default) on the token channel: the receive loop could block, or no token is ever sent")
			} else {
				fr2, _, _ := loadedField(sel.States[0].Chan)
				c.check(fr2 == chanF, rule2, name+": non-blocking token send", w.At(sel), "select { case tokens <- {}: default: }", "the select sends on "+fr2.String()+", not the token channel")
				// guard forms accepted: none; prev == 0 with prev = Add(n) - n; new == n ; early return on add == 0
				okGuard := true
				var why string
				for _, f := range factsAt(sel) {
					x, op, y, ok := cmpFact(f)
					if !ok {
						okGuard, why = false, "guarded by a non-comparison condition"
						continue
					}
					dx, dy := desc(x), desc(y)
					addD := desc(add)
					pD := desc(upd.Params[1])
					switch {
					case op == token.NEQ && dx == pD && dy == "0": // add != 0 (early return on 0)
					case op == token.EQL && dx == "("+addD+" - "+pD+")" && dy == "0": // prev == 0
					case op == token.EQL && dx == addD && dy == pD: // new == add
					case op == token.LEQ && dx == addD && dy == pD: // new <= add (superset)
					default:
						okGuard, why = false, "guard "+dx+" "+op.String()+" "+dy+" does not cover every path on which the window was 0 before the add"
					}
				}
				c.check(okGuard, rule2, name+": token sent whenever the window was empty", w.At(sel), "guards accepted: add != 0 and (Add(add) - add) == 0", why+": a sender that found the window at 0 is never woken")
			}
		}
	}
	// C05.3 sender wait
	for _, fn := range c.senderImpls() {
		if n := recvNamed(fn); n == nil || n.Obj() != snd.Obj() {
			continue
		}
		name := w.Short(fn)
		var sel *ssa.Select
		allInstrs(fn, func(in ssa.Instruction) {
			if s, ok := in.(*ssa.Select); ok && s.Blocking {
				sel = s
			}
		})
		if sel == nil {
			c.fail(rule3, name+": blocking wait", w.Pos(fn.Pos()), "no blocking select found in the flow-controlled sender")
			continue
		}
		tokIdx, ctxIdx := -1, -1
		for i, st := range sel.States {
			if fr, _, ok := loadedField(st.Chan); ok && fr == chanF && st.Dir == types.RecvOnly {
				tokIdx = i
			}
			if call, ok := st.Chan.(*ssa.Call); ok && call.Call.IsInvoke() && call.Call.Method.Name() == "Done" {
				ctxIdx = i
			}
		}
		c.check(tokIdx >= 0, rule3, name+": waits on the token channel", w.At(sel), "case <-tokens", "the wait does not receive from the token channel")
		c.check(ctxIdx >= 0, rule3, name+": wait has a context-done alternative", w.At(sel), "case <-ctx.Done()", "the flow-control wait has no ctx.Done() alternative: a sender blocked on a full window cannot be released by cancellation, deadline or tunnel shutdown")
		// wait is entered only when the loaded window is 0
		var load *ssa.Call
		allInstrs(fn, func(in ssa.Instruction) {
			if call, ok := in.(*ssa.Call); ok && strings.HasSuffix(calleeName(call), "Uint32).Load") {
				load = call
			}
		})
		if load != nil {
			zero := false
			for _, f := range factsAt(sel) {
				x, op, y, ok := cmpFact(f)
				k, isK := constInt(y)
				if ok && x == ssa.Value(load) && isK && k == 0 && op == token.EQL {
					zero = true
				}
			}
			c.check(zero, rule3, name+": waits only when the window is empty", w.At(sel), "dominated by window == 0", "the sender waits in a state other than window == 0: it can block although credit is available, and no token will come")
			// after waking via the token, the path reaches the load again before any callback
			s := analyseSender(fn)
			if s.cb != nil {
				// index extract
				okRe := pathAvoiding(fn, sel, func(in ssa.Instruction) bool { return in == ssa.Instruction(s.cb) }, func(in ssa.Instruction) bool { return in == ssa.Instruction(load) }) == nil
				c.check(okRe && inLoop(sel.Block()), rule3, name+": reloads the window after waking", w.At(sel), "every path from the wait to a send passes the Load", "after waking the sender proceeds to send without reloading the window")
			}
			// ctx branch returns a non-nil error from ctx.Err()
			if ctxIdx >= 0 {
				retCtx := false
				forEachReturnValue(fn, 0, func(v ssa.Value, at ssa.Instruction) {
					if call, ok := stripConv(v).(*ssa.Call); ok && call.Call.IsInvoke() && call.Call.Method.Name() == "Err" {
						if sel.Block().Dominates(at.Block()) {
							retCtx = true
						}
					}
					// ... through any number of private helpers: some value the result can be is ctx.Err() evaluated after the wait
					for _, vc := range valueCases(v, 0) {
						if ec, isE := stripConv(vc.Val).(*ssa.Call); isE && ec.Call.IsInvoke() && ec.Call.Method.Name() == "Err" && ec.Parent() == sel.Parent() && dominates(sel, ec) {
							retCtx = true
						}
					}
					// the error of the private helper that holds the wait
					if ex, isEx := stripConv(v).(*ssa.Extract); isEx {
						if hc, isC := ex.Tuple.(*ssa.Call); isC {
							if h := helperCallee(hc); h != nil && sel.Parent() == h {
								allInstrsLocal(h, func(x ssa.Instruction) {
									ret, isR := x.(*ssa.Return)
									if !isR || ex.Index >= len(ret.Results) {
										return
									}
									if ec, isE := stripConv(ret.Results[ex.Index]).(*ssa.Call); isE && ec.Call.IsInvoke() && ec.Call.Method.Name() == "Err" && sel.Block().Dominates(ret.Block()) {
										retCtx = true
									}
								})
							}
						}
					}
				})
				c.check(retCtx, rule3, name+": context end returns the context error", w.At(sel), "returns ctx.Err()", "the context-done branch does not return ctx.Err()")
			}
		}
	}
}

// ruleUpdateOffLock (C05.6) and ruleUpdateOffLoop (C05.7).
func ruleUpdateOffLockAndLoop(c *Ctx, rule6, rule7 string) {
	c.rule(rule6, "the window-update callback is invoked with the receiver's own mutex not held (so the receive loop's accept never waits behind a carrier send)")
	c.rule(rule7, "window-update frames are never emitted on a receive loop's goroutine")
	w := c.W
	lf := w.Locks()
	r := c.receivers()
	if r.fc == nil {
		c.fail(rule6, "flow-controlled receiver", "-", "not found")
		return
	}
	n := 0
	for _, fn := range w.Funcs {
		if isGenericTemplate(fn) {
			continue
		}
		if nt := recvNamed(fn); nt == nil || nt.Obj() != r.fc.Obj() {
			continue
		}
		allInstrs(fn, func(in ssa.Instruction) {
			call, ok := in.(*ssa.Call)
			if !ok || staticCallee(call) != nil || call.Call.IsInvoke() {
				return
			}
			sig, ok := call.Call.Value.Type().Underlying().(*types.Signature)
			if !ok || sig.Params().Len() != 1 || sig.Results().Len() != 0 {
				return
			}
			if _, _, isField := loadedField(call.Call.Value); !isField {
				return
			}
			n++
			may := lf.MayAt(call)
			held := ""
			for _, l := range may.list() {
				if strings.HasPrefix(l, r.fc.Obj().Name()+".") {
					held = l
				}
			}
			c.check(held == "", rule6, "window-update callback call in "+w.Short(fn), w.At(call), "may-lockset "+may.String()+" does not contain the receiver's mutex", "the window-update callback (a carrier send) is invoked while "+held+" may be held: the receive loop's accept() blocks behind the transport")
		})
	}
	c.floor(rule6, n, 1, "window-update callback call sites")
	// C05.7
	a := w.Anchors()
	m := 0
	for _, loop := range []*ssa.Function{a.ClientLoop, a.ServerLoop} {
		if loop == nil {
			c.fail(rule7, "receive loop", "-", "receive loop not found")
			continue
		}
		reach := w.sameGoroutineReach(loop, nil)
		for _, e := range c.emitSeq() {
			if !strings.HasSuffix(e.Kind, "_WindowUpdate") {
				continue
			}
			m++
			p, reached := reach[e.Fn]
			key := emitKey(w, e) + ": not on " + w.Short(loop) + "'s goroutine"
			if reached {
				c.fail(rule7, key, w.At(e.Alloc), "reachable on the receive loop's goroutine: "+p.chain(w)+" — with a full transport the loop blocks and the tunnel deadlocks")
			} else {
				c.ok(rule7, key, w.At(e.Alloc), "not same-goroutine-reachable from the loop")
			}
		}
	}
	c.floor(rule7, m, 4, "window-update emit sites x receive loops")
}

// ruleUpdateCallbackGuards (C05.12, C05.13): the window-update callbacks return credit whenever asked.
func ruleUpdateCallbackGuards(c *Ctx, rule12, rule13 string) {
	c.rule(rule12, "the window-update callback emits the update unconditionally, except that it may skip it once the stream is half-closed or finished (no more data can arrive): any other condition makes the peer wait for credit that was consumed but never returned")
	c.rule(rule13, "the window-update callback does not take the stream's write mutex: that mutex is held by SendMsg while it waits for flow-control credit, so a reader returning credit would wait behind its own stream's sender (and the peer, which mirrors this, behind it)")
	w := c.W
	a := w.Anchors()
	lf := w.Locks()
	// the per-stream write locks: those held at the calls into the sender
	writeLocks := map[string]bool{}
	for _, s := range c.senderSendSites() {
		for _, nt := range []*types.Named{a.CS, a.SS} {
			for _, l := range perStreamLocks(lf.MustAt(s), nt) {
				writeLocks[l] = true
			}
		}
	}
	// marker accessors: functions that only load the half-close / terminal marker
	isMarkerRead := func(v ssa.Value) bool {
		v = origin(v)
		call, ok := v.(*ssa.Call)
		if !ok {
			return false
		}
		if strings.HasSuffix(calleeName(call), ").Load") && len(call.Call.Args) > 0 {
			if fr, _, okF := fieldOfAddr(call.Call.Args[0]); okF && (fr == a.SSHalfClosed || fr == a.CSDone) {
				return true
			}
		}
		if f := helperCallee(call); f != nil {
			reads := false
			allInstrsLocal(f, func(in ssa.Instruction) {
				if ci, isC := in.(*ssa.Call); isC && strings.HasSuffix(calleeName(ci), ").Load") && len(ci.Call.Args) > 0 {
					if fr, _, okF := fieldOfAddr(ci.Call.Args[0]); okF && (fr == a.SSHalfClosed || fr == a.CSDone) {
						reads = true
					}
				}
			})
			return reads
		}
		return false
	}
	n := 0
	for _, e := range c.emitSeq() {
		if !strings.HasSuffix(e.Kind, "_WindowUpdate") || e.Send == nil {
			continue
		}
		n++
		key := emitKey(w, e)
		bad := ""
		for _, f := range factsAt(e.Send) {
			x, _, y, isCmp := cmpFact(f)
			if isCmp && ((isNilConst(y) && isMarkerRead(x)) || (isNilConst(x) && isMarkerRead(y))) {
				continue
			}
			if e.Fn != f.Cond.Parent() && f.Cond.Parent() != nil && !w.ownedBy(e.Fn, f.Cond.Parent()) {
				continue
			}
			bad = desc(f.Cond) + fmt.Sprintf(" == %v", f.True)
		}
		c.check(bad == "", rule12, key+": credit returned unconditionally", w.At(e.Send), "only guard: stream half-closed / finished", "the window update is additionally conditional on "+bad+": when that condition fails the credit for data the application consumed is never returned and the peer's sender waits at window 0 forever (e.g. a single request larger than the window on a non-client-streaming method)")
		held := ""
		for _, l := range lf.MayAt(e.Send).list() {
			if writeLocks[strings.TrimSuffix(l, ":R")] {
				held = l
			}
		}
		c.check(held == "", rule13, key+": not under the stream's write mutex", w.At(e.Send), "may-lockset "+lf.MayAt(e.Send).String(), "the window update is sent while "+held+" may be held, the mutex SendMsg holds while it waits for credit: a goroutine that reads (and so returns credit) blocks behind the same stream's parked sender; with both directions busy the two ends wait for each other")
	}
	c.floor(rule12, n, 2, "window-update emit sites")
}

// drainedOnEveryPath: every feasible path from the function's entry, or from the return of a cond.Wait, to the exit `at`
// establishes either cancelled == true, or closed == true together with an empty queue. The lock is held on all of such a
// path, so repeated reads of one flag, Len() and Front() agree; a path is infeasible when its branch conditions disagree
// about one of the three atoms (cancelled, closed, empty). Stores to a flag and list mutations forget the atom.
func drainedOnEveryPath(fn *ssa.Function, at ssa.Instruction, front *ssa.Call, closedFlag, cancelFlag FieldRef) bool {
	return dequeuePathsEstablish(fn, at, closedFlag, cancelFlag, func(known map[string]bool) bool {
		return known["cancelled"] || (known["closed"] && known["empty"])
	})
}

// notCancelledOnEveryPath: every feasible path since the last wake-up to `at` has tested cancelled == false.
func notCancelledOnEveryPath(fn *ssa.Function, at ssa.Instruction, closedFlag, cancelFlag FieldRef) bool {
	return dequeuePathsEstablish(fn, at, closedFlag, cancelFlag, func(known map[string]bool) bool {
		tested, seen := known["cancelled?"]
		_ = tested
		return seen && !known["cancelled"]
	})
}

func dequeuePathsEstablish(fn *ssa.Function, at ssa.Instruction, closedFlag, cancelFlag FieldRef, holds func(known map[string]bool) bool) bool {
	type lits map[string]bool
	atomOf := func(f EdgeFact) (string, bool, bool) {
		f = normFact(f)
		if fr, _, ok := loadedField(f.Cond); ok {
			switch fr {
			case closedFlag:
				return "closed", f.True, true
			case cancelFlag:
				return "cancelled", f.True, true
			}
			return "", false, false
		}
		x, op, y, ok := cmpFact(f)
		if !ok {
			return "", false, false
		}
		if isNilConst(x) || func() bool { _, isK := constInt(x); return isK }() {
			x, y = y, x
			switch op {
			case token.LSS:
				op = token.GTR
			case token.GTR:
				op = token.LSS
			case token.LEQ:
				op = token.GEQ
			case token.GEQ:
				op = token.LEQ
			}
		}
		call, isCall := stripConv(x).(*ssa.Call)
		if !isCall {
			return "", false, false
		}
		switch calleeName(call) {
		case "(*container/list.List).Front":
			if isNilConst(y) {
				switch op {
				case token.EQL:
					return "empty", true, true
				case token.NEQ:
					return "empty", false, true
				}
			}
		case "(*container/list.List).Len":
			if k, isK := constInt(y); isK && k == 0 {
				switch op {
				case token.EQL, token.LEQ:
					return "empty", true, true
				case token.NEQ, token.GTR:
					return "empty", false, true
				}
			}
		}
		return "", false, false
	}
	okAll := true
	nPaths := 0
	var walk func(b *ssa.BasicBlock, from int, known lits, onPath map[*ssa.BasicBlock]bool)
	walk = func(b *ssa.BasicBlock, from int, known lits, onPath map[*ssa.BasicBlock]bool) {
		if !okAll || nPaths > 4096 {
			return
		}
		for i := from; i < len(b.Instrs); i++ {
			in := b.Instrs[i]
			if in == at {
				nPaths++
				if !holds(known) {
					okAll = false
				}
				return
			}
			switch x := in.(type) {
			case *ssa.Call:
				n := calleeName(x)
				if n == "(*sync.Cond).Wait" {
					return // continued from that wake-up as a path of its own
				}
				if strings.HasPrefix(n, "(*container/list.List).") && n != "(*container/list.List).Front" && n != "(*container/list.List).Len" {
					known = copyLits(known)
					delete(known, "empty")
					delete(known, "empty?")
				}
			case *ssa.Store:
				if fr, _, ok := fieldOfAddr(x.Addr); ok && (fr == closedFlag || fr == cancelFlag) {
					known = copyLits(known)
					if fr == closedFlag {
						delete(known, "closed")
						delete(known, "closed?")
					} else {
						delete(known, "cancelled")
						delete(known, "cancelled?")
					}
				}
			}
		}
		for _, succ := range b.Succs {
			if onPath[succ] {
				continue
			}
			next := known
			if ef, has := edgeFact(b, succ); has {
				if atom, val, isAtom := atomOf(ef); isAtom {
					if old, seen := known[atom+"?"]; seen && old != val {
						continue // contradicts an earlier test of the same atom: infeasible
					}
					next = copyLits(known)
					next[atom+"?"] = val
					next[atom] = val
				}
			}
			onPath[succ] = true
			walk(succ, 0, next, onPath)
			delete(onPath, succ)
		}
	}
	if len(fn.Blocks) == 0 {
		return false
	}
	walk(fn.Blocks[0], 0, lits{}, map[*ssa.BasicBlock]bool{fn.Blocks[0]: true})
	for _, wt := range callsNamed(fn, "(*sync.Cond).Wait") {
		if ci, ok := wt.(*ssa.Call); ok {
			walk(ci.Block(), instrIndex(ci)+1, lits{}, map[*ssa.BasicBlock]bool{})
		}
	}
	return okAll && nPaths > 0
}

func copyLits(m map[string]bool) map[string]bool {
	out := make(map[string]bool, len(m)+2)
	for k, v := range m {
		out[k] = v
	}
	return out
}
