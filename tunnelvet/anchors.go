package main

// anchors.go: locating the constructs the rules talk about by ROLE (type structure, interface
// conformance, what the function does), never by line and only as a last resort by name.

import (
	"go/types"
	"sort"
	"strings"

	"golang.org/x/tools/go/ssa"
)

type Anchors struct {
	w *World

	Ch, CS, SS, Sv *types.Named // channel, client stream, server stream, tunnel server
	ChStreams      FieldRef     // map[int64]*CS in Ch
	SvStreams      FieldRef     // map[int64]*SS in Sv
	CSDone         FieldRef     // atomic.Pointer terminal marker of CS
	SSHalfClosed   FieldRef     // atomic.Pointer half-close marker of SS

	ClientLoop                         *ssa.Function // (*Ch).recvLoop
	ServerLoop                         *ssa.Function // (*Sv).serve
	ClientFinish                       *ssa.Function // (*CS).finishStream
	ServerFinish                       *ssa.Function // (*SS).finishStream
	ServerHalf                         *ssa.Function // (*SS).halfClose
	Create                             *ssa.Function // (*Sv).createStream
	Allocate                           *ssa.Function // (*Ch).allocateStream
	NewStream                          *ssa.Function // (*Ch).newStream
	Dispatch                           *ssa.Function // (*SS).serveStream
	ClientReasm                        *ssa.Function // (*CS).readMsgLocked
	ServerReasm                        *ssa.Function // (*SS).readMsgLocked
	ClientReasmEntry, ServerReasmEntry *ssa.Function // what the read methods call (the reassembly function, or a wrapper split off it)
	ClientRead                         *ssa.Function // (*CS).readMsg
	ServerRead                         *ssa.Function // (*SS).readMsg
	ClientAccept                       *ssa.Function // (*CS).acceptServerFrame
	ServerAccept                       *ssa.Function // (*SS).acceptClientFrame
	CancelStream                       *ssa.Function // (*CS).cancelStream
	ChClose                            *ssa.Function // (*Ch).close
	ClientLookup                       *ssa.Function // (*Ch).getStream
	ServerLookup                       *ssa.Function // (*Sv).getStream
	ClientRemove                       *ssa.Function // (*Ch).removeStream
	ServerRemove                       *ssa.Function // (*Sv).removeStream
	TimeoutParse                       *ssa.Function
	ClientSend                         *ssa.Function // (*CS).SendMsg
	ServerSend                         *ssa.Function // (*SS).SendMsg
	ClientRecv                         *ssa.Function // (*CS).RecvMsg
	ServerRecv                         *ssa.Function // (*SS).RecvMsg
	HeadersLocked                      *ssa.Function // (*SS).sendHeadersLocked

	How     map[string]string // role -> how it was resolved
	Missing []string
}

func (w *World) grpcIface(name string) *types.Interface {
	for _, imp := range w.Root.Imports {
		if imp.PkgPath == "google.golang.org/grpc" {
			if o := imp.Types.Scope().Lookup(name); o != nil {
				if it, ok := o.Type().Underlying().(*types.Interface); ok {
					return it
				}
			}
		}
	}
	return nil
}

func (w *World) rootStructs() []*types.Named {
	var out []*types.Named
	sc := w.Root.Types.Scope()
	for _, n := range sc.Names() {
		if tn, ok := sc.Lookup(n).(*types.TypeName); ok && !tn.IsAlias() {
			if nt, ok := tn.Type().(*types.Named); ok {
				if _, ok := nt.Underlying().(*types.Struct); ok {
					out = append(out, nt)
				}
			}
		}
	}
	return out
}

func (w *World) methodFn(nt *types.Named, name string) *ssa.Function {
	if nt == nil {
		return nil
	}
	for _, recv := range []types.Type{types.NewPointer(nt), nt} {
		ms := w.Prog.MethodSets.MethodSet(recv)
		for i := 0; i < ms.Len(); i++ {
			if ms.At(i).Obj().Name() == name {
				if f := w.Prog.MethodValue(ms.At(i)); f != nil && f.Synthetic == "" {
					return f
				}
			}
		}
	}
	return nil
}

// methodsOf returns the declared methods (with bodies) of a root named type.
func (w *World) methodsOf(nt *types.Named) []*ssa.Function {
	var out []*ssa.Function
	if nt == nil {
		return nil
	}
	for _, fn := range w.Funcs {
		if fn.Parent() != nil || fn.Signature.Recv() == nil {
			continue
		}
		if n := namedOf(fn.Signature.Recv().Type()); n != nil && n.Obj() == nt.Obj() {
			out = append(out, fn)
		}
	}
	return out
}

func (w *World) Anchors() *Anchors {
	if w.anchors != nil {
		return w.anchors
	}
	a := &Anchors{w: w, How: map[string]string{}}
	w.anchors = a
	// --- types by interface conformance
	var tunnelChannelIface *types.Interface
	if o := w.Root.Types.Scope().Lookup("TunnelChannel"); o != nil {
		tunnelChannelIface, _ = o.Type().Underlying().(*types.Interface)
	}
	cstream, sstream := w.grpcIface("ClientStream"), w.grpcIface("ServerStream")
	for _, nt := range w.rootStructs() {
		p := types.NewPointer(nt)
		if tunnelChannelIface != nil && types.Implements(p, tunnelChannelIface) {
			a.Ch = nt
			a.How["Ch"] = "pointer implements exported TunnelChannel"
		}
		if cstream != nil && types.Implements(p, cstream) && a.CS == nil {
			a.CS = nt
			a.How["CS"] = "pointer implements grpc.ClientStream"
		}
		if sstream != nil && types.Implements(p, sstream) && a.SS == nil {
			// exclude carrier wrappers (they embed a generated stream)
			if !w.isCarrierType(p) {
				a.SS = nt
				a.How["SS"] = "pointer implements grpc.ServerStream (not a carrier wrapper)"
			}
		}
	}
	if a.CS != nil && w.isCarrierType(types.NewPointer(a.CS)) {
		// pick the non-carrier one
		a.CS = nil
		for _, nt := range w.rootStructs() {
			p := types.NewPointer(nt)
			if cstream != nil && types.Implements(p, cstream) && !w.isCarrierType(p) {
				a.CS = nt
			}
		}
	}
	mapField := func(owner *types.Named, elem *types.Named) (FieldRef, bool) {
		if owner == nil || elem == nil {
			return FieldRef{}, false
		}
		st := owner.Underlying().(*types.Struct)
		for i := 0; i < st.NumFields(); i++ {
			if m, ok := st.Field(i).Type().Underlying().(*types.Map); ok {
				if n := namedOf(m.Elem()); n != nil && n.Obj() == elem.Obj() {
					return FieldRef{owner.Obj().Name(), st.Field(i).Name()}, true
				}
			}
		}
		return FieldRef{}, false
	}
	if f, ok := mapField(a.Ch, a.CS); ok {
		a.ChStreams = f
	}
	for _, nt := range w.rootStructs() {
		if f, ok := mapField(nt, a.SS); ok {
			a.Sv, a.SvStreams = nt, f
			a.How["Sv"] = "struct holding map[int64]*SS"
		}
	}
	atomicPtrField := func(owner *types.Named) (FieldRef, bool) {
		if owner == nil {
			return FieldRef{}, false
		}
		st := owner.Underlying().(*types.Struct)
		for i := 0; i < st.NumFields(); i++ {
			if n := namedOf(st.Field(i).Type()); n != nil && n.Obj().Pkg() != nil && n.Obj().Pkg().Path() == "sync/atomic" && n.Obj().Name() == "Pointer" {
				return FieldRef{owner.Obj().Name(), st.Field(i).Name()}, true
			}
		}
		return FieldRef{}, false
	}
	a.CSDone, _ = atomicPtrField(a.CS)
	a.SSHalfClosed, _ = atomicPtrField(a.SS)

	// --- receive loops: root functions (not carrier wrappers) with a carrier Recv inside a loop
	for _, fn := range w.Funcs {
		if fn.Signature.Recv() != nil && w.isCarrierType(fn.Signature.Recv().Type()) {
			continue
		}
		for _, e := range w.directEffects(fn).Effects {
			if e.Kind == "carrier-recv" && inLoop(e.Instr.Block()) {
				if n := recvNamed(fn); n != nil && a.Ch != nil && n.Obj() == a.Ch.Obj() {
					a.ClientLoop = fn
					a.How["ClientLoop"] = "method of Ch with carrier Recv in a loop"
				} else if n != nil && a.Sv != nil && n.Obj() == a.Sv.Obj() {
					a.ServerLoop = fn
					a.How["ServerLoop"] = "method of Sv with carrier Recv in a loop"
				}
			}
		}
	}
	// --- functions by what they do
	for _, fn := range w.Funcs {
		if isGenericTemplate(fn) {
			continue
		}
		rn := recvNamed(fn)
		allInstrsLocal(fn, func(in ssa.Instruction) {
			switch x := in.(type) {
			case *ssa.MapUpdate:
				if fr, _, ok := loadedField(x.Map); ok {
					if fr == a.SvStreams && fn.Parent() == nil {
						a.Create = fn
						a.How["Create"] = "contains the insert into Sv's stream table"
					}
					if fr == a.ChStreams && fn.Parent() == nil {
						a.Allocate = fn
						a.How["Allocate"] = "contains the insert into Ch's stream table"
					}
				}
			case ssa.CallInstruction:
				n := calleeName(x)
				if strings.HasSuffix(n, ".CompareAndSwap") && len(x.Common().Args) > 0 {
					if fr, _, ok := fieldOfAddr(x.Common().Args[0]); ok {
						if fr == a.CSDone {
							a.ClientFinish = fn
							a.How["ClientFinish"] = "contains the CAS on CS's terminal marker"
						}
						if fr == a.SSHalfClosed {
							a.ServerHalf = fn
							a.How["ServerHalf"] = "contains the CAS on SS's half-close marker"
						}
					}
				}
				if x.Common().IsInvoke() {
					switch ifaceMethodRole(x.Common().Method) {
					case "dequeue":
						if rn != nil && a.CS != nil && rn.Obj() == a.CS.Obj() {
							a.ClientReasm = fn
						}
						if rn != nil && a.SS != nil && rn.Obj() == a.SS.Obj() {
							a.ServerReasm = fn
						}
					case "accept":
						if rn != nil && a.CS != nil && rn.Obj() == a.CS.Obj() {
							a.ClientAccept = fn
						}
						if rn != nil && a.SS != nil && rn.Obj() == a.SS.Obj() {
							a.ServerAccept = fn
						}
					}
				}
				if n == "builtin.delete" && len(x.Common().Args) > 0 {
					if fr, _, ok := loadedField(x.Common().Args[0]); ok {
						if fr == a.ChStreams && (a.ClientRemove == nil || callsCAS(a.ClientRemove)) {
							a.ClientRemove = fn
						}
						if fr == a.SvStreams {
							a.ServerRemove = fn
						}
					}
				}
			case *ssa.Lookup:
				if fr, _, ok := loadedField(x.X); ok && x.CommaOk {
					if fr == a.ChStreams && fn != a.Allocate && returnsNamed(fn, a.CS) {
						a.ClientLookup = fn
					}
					if fr == a.SvStreams && fn != a.Create && returnsNamed(fn, a.SS) {
						a.ServerLookup = fn
					}
				}
			}
		})
	}
	// anchors found by an operation they contain: when that operation was split off into a helper (one synchronous call
	// site, in a method of the same type), the anchor is the method that uses the helper. The pinned tree's own anchors
	// of this group all have several call sites, so this only moves after such a split.
	climbSame := func(fn *ssa.Function) *ssa.Function {
		for i := 0; fn != nil && i < 4; i++ {
			if fn.Parent() != nil {
				break
			}
			if obj := fn.Object(); obj == nil || obj.Exported() {
				break
			}
			sites := w.callSitesOf(fn)
			if len(sites) != 1 {
				break
			}
			call, isCall := sites[0].(*ssa.Call)
			if !isCall || staticCallee(call) == nil {
				break
			}
			up := call.Parent()
			r1, r2 := recvNamed(fn), recvNamed(up)
			if up.Parent() != nil || r1 == nil || r2 == nil || r1.Obj() != r2.Obj() {
				break
			}
			fn = up
		}
		return fn
	}
	a.ClientReasmEntry, a.ServerReasmEntry = climbSame(a.ClientReasm), climbSame(a.ServerReasm)
	// the receive loops: when the frame loop was split off the goroutine's function (recvLoop -> dispatchFrames), the
	// anchor is the function the loop belongs to (prologue, loop and exits are judged together)
	a.ClientLoop, a.ServerLoop = climbSame(a.ClientLoop), climbSame(a.ServerLoop)
	a.ClientFinish, a.ServerHalf = climbSame(a.ClientFinish), climbSame(a.ServerHalf)
	// accept anchors, refined top-down: the first method of the stream type on the call path from the receive loop to the
	// receiver's accept call (the frame switch may have been split into per-frame methods, the loop body into a helper)
	refineAccept := func(loop *ssa.Function, streamT *types.Named, cur *ssa.Function) *ssa.Function {
		if loop == nil || streamT == nil {
			return cur
		}
		var containsAccept func(fn *ssa.Function, depth int) bool
		containsAccept = func(fn *ssa.Function, depth int) bool {
			found := false
			allInstrsLocal(fn, func(in ssa.Instruction) {
				ci, ok := in.(*ssa.Call)
				if !ok || found {
					return
				}
				if ci.Call.IsInvoke() {
					if ifaceMethodRole(ci.Call.Method) == "accept" {
						found = true
					}
					return
				}
				if g := staticCallee(ci); g != nil && depth < 3 && g.Blocks != nil && w.inRoot(g) {
					if rn := recvNamed(g); rn != nil && rn.Obj() == streamT.Obj() && containsAccept(g, depth+1) {
						found = true
					}
				}
			})
			return found
		}
		var best *ssa.Function
		var walk func(fn *ssa.Function, depth int)
		walk = func(fn *ssa.Function, depth int) {
			allInstrsLocal(fn, func(in ssa.Instruction) {
				ci, ok := in.(*ssa.Call)
				if !ok || best != nil {
					return
				}
				g := staticCallee(ci)
				if g == nil || g.Blocks == nil || !w.inRoot(g) {
					return
				}
				rn := recvNamed(g)
				if rn != nil && rn.Obj() == streamT.Obj() {
					if containsAccept(g, 0) {
						best = g
					}
					return
				}
				// a helper of the loop's own type (loop body split off)
				if rn != nil && recvNamed(loop) != nil && rn.Obj() == recvNamed(loop).Obj() && depth < 2 && g.Object() != nil && !g.Object().Exported() {
					walk(g, depth+1)
				}
			})
		}
		walk(loop, 0)
		if best != nil {
			return best
		}
		return cur
	}
	a.ClientAccept = refineAccept(a.ClientLoop, a.CS, a.ClientAccept)
	a.ServerAccept = refineAccept(a.ServerLoop, a.SS, a.ServerAccept)
	// emit-site based anchors
	// the function an emit site belongs to: out of function literals, and out of unexported functions that are used at
	// exactly one place (a method started with `go`, an extracted helper) into the function that uses them
	climb := func(fn *ssa.Function) *ssa.Function {
		for i := 0; i < 6; i++ {
			if fn.Parent() != nil {
				fn = fn.Parent()
				continue
			}
			if obj := fn.Object(); obj == nil || obj.Exported() {
				break
			}
			sites := w.callSitesOf(fn)
			if len(sites) != 1 || staticCallee(sites[0]) == nil {
				break
			}
			fn = sites[0].Parent()
		}
		return fn
	}
	for _, e := range w.EmitSites() {
		top := climb(e.Fn)
		switch e.Kind {
		case "ClientToServer_NewStream":
			a.NewStream = top
			a.How["NewStream"] = "encloses the new_stream emit site"
		case "ClientToServer_Cancel":
			a.CancelStream = top
			a.How["CancelStream"] = "encloses the cancel emit site"
		case "ServerToClient_CloseStream":
			if rn := recvNamed(top); rn != nil && a.SS != nil && rn.Obj() == a.SS.Obj() {
				a.ServerFinish = top
				a.How["ServerFinish"] = "method of SS enclosing the close_stream emit site"
			}
		}
	}
	for _, e := range w.EmitSites() {
		if top := climb(e.Fn); e.Kind == "ServerToClient_ResponseHeaders" && e.Fn.Parent() == nil && top != a.ServerFinish && !(e.Send == nil && e.Via == nil) {
			a.HeadersLocked = top
		}
	}
	// dispatch = callee of the `go` in Create with a method-descriptor argument
	if a.Create != nil {
		allInstrsLocal(a.Create, func(in ssa.Instruction) {
			if g, ok := in.(*ssa.Go); ok {
				for _, f := range w.rootCalleesThroughWrappers(g) {
					if f.Parent() == nil {
						a.Dispatch = f
						a.How["Dispatch"] = "callee of the go statement in Create"
					}
				}
			}
			_ = in
		})
	}
	// the close function of Ch: the method that writes the `finished`-style flag and cancels all streams:
	// identified as the Ch method ranging over the stream table.
	for _, fn := range w.methodsOf(a.Ch) {
		allInstrsLocal(fn, func(in ssa.Instruction) {
			if r, ok := in.(*ssa.Range); ok {
				if fr, _, ok := loadedField(r.X); ok && fr == a.ChStreams {
					a.ChClose = fn
					a.How["ChClose"] = "method of Ch ranging over the stream table"
				}
			}
		})
	}
	// timeout parser: its result is the duration argument of context.WithTimeout in Create, or in a helper split off Create
	if a.Create != nil {
		scan := []*ssa.Function{a.Create}
		for d := 0; d < 2; d++ {
			for _, f := range append([]*ssa.Function{}, scan...) {
				allInstrsLocal(f, func(in ssa.Instruction) {
					ci, ok := in.(*ssa.Call)
					if !ok {
						return
					}
					g := staticCallee(ci)
					if g == nil || g.Blocks == nil || !w.inRoot(g) || g.Parent() != nil || (g.Object() != nil && g.Object().Exported()) || len(w.callSitesOf(g)) != 1 {
						return
					}
					for _, x := range scan {
						if x == g {
							return
						}
					}
					scan = append(scan, g)
				})
			}
		}
		for _, f := range scan {
			allInstrsLocal(f, func(in ssa.Instruction) {
				if c, ok := in.(*ssa.Call); ok && calleeName(c) == "context.WithTimeout" {
					if ex, ok := origin(c.Call.Args[1]).(*ssa.Extract); ok {
						if cc, ok := ex.Tuple.(*ssa.Call); ok {
							if g := staticCallee(cc); g != nil && w.inRoot(g) {
								a.TimeoutParse = g
								a.How["TimeoutParse"] = "its result is the duration argument of context.WithTimeout in (a helper of) Create"
							}
						}
					}
				}
			})
		}
	}
	a.ChClose = climbSame(a.ChClose) // the state transition may have been split off the close function
	// API methods by name (exported: cannot change without breaking the interface)
	a.ClientSend, a.ClientRecv = w.methodFn(a.CS, "SendMsg"), w.methodFn(a.CS, "RecvMsg")
	a.ServerSend, a.ServerRecv = w.methodFn(a.SS, "SendMsg"), w.methodFn(a.SS, "RecvMsg")
	// readMsg = caller of the reassembly function in the same type (not itself)
	a.ClientRead = soleRootCaller(w, a.ClientReasmEntry)
	a.ServerRead = soleRootCaller(w, a.ServerReasmEntry)

	req := map[string]any{
		"Ch": a.Ch, "CS": a.CS, "SS": a.SS, "Sv": a.Sv,
		"ClientLoop": a.ClientLoop, "ServerLoop": a.ServerLoop, "ClientFinish": a.ClientFinish, "ServerFinish": a.ServerFinish,
		"ServerHalf": a.ServerHalf, "Create": a.Create, "Allocate": a.Allocate, "NewStream": a.NewStream, "Dispatch": a.Dispatch,
		"ClientReasm": a.ClientReasm, "ServerReasm": a.ServerReasm, "ClientRead": a.ClientRead, "ServerRead": a.ServerRead,
		"ClientAccept": a.ClientAccept, "ServerAccept": a.ServerAccept, "CancelStream": a.CancelStream, "ChClose": a.ChClose,
		"ClientLookup": a.ClientLookup, "ServerLookup": a.ServerLookup, "ClientRemove": a.ClientRemove, "ServerRemove": a.ServerRemove,
		"TimeoutParse": a.TimeoutParse, "ClientSend": a.ClientSend, "ServerSend": a.ServerSend, "ClientRecv": a.ClientRecv, "ServerRecv": a.ServerRecv,
		"HeadersLocked": a.HeadersLocked,
	}
	for k, v := range req {
		missing := false
		switch x := v.(type) {
		case *types.Named:
			missing = x == nil
		case *ssa.Function:
			missing = x == nil
		}
		if missing {
			a.Missing = append(a.Missing, k)
		}
	}
	sort.Strings(a.Missing)
	return a
}

func recvNamed(fn *ssa.Function) *types.Named {
	f := fn
	for f.Parent() != nil {
		f = f.Parent()
	}
	if f.Signature.Recv() == nil {
		return nil
	}
	return namedOf(f.Signature.Recv().Type())
}

func returnsNamed(fn *ssa.Function, nt *types.Named) bool {
	if nt == nil {
		return false
	}
	res := fn.Signature.Results()
	for i := 0; i < res.Len(); i++ {
		if n := namedOf(res.At(i).Type()); n != nil && n.Obj() == nt.Obj() {
			return true
		}
	}
	return false
}

func soleRootCaller(w *World, fn *ssa.Function) *ssa.Function {
	if fn == nil {
		return nil
	}
	var callers []*ssa.Function
	seen := map[*ssa.Function]bool{}
	for _, s := range w.callSitesOf(fn) {
		p := s.Parent()
		if p != fn && !seen[p] {
			seen[p] = true
			callers = append(callers, p)
		}
	}
	// a caller that is itself used at exactly one place, by another of the callers, is part of that caller (the look-ahead
	// split off the read method)
	if len(callers) > 1 {
		var kept []*ssa.Function
		for _, p := range callers {
			sites := w.callSitesOf(p)
			if len(sites) == 1 && sites[0].Parent() != p && seen[sites[0].Parent()] {
				if obj := p.Object(); obj != nil && !obj.Exported() {
					continue
				}
			}
			kept = append(kept, p)
		}
		callers = kept
	}
	if len(callers) == 1 {
		return callers[0]
	}
	return nil
}

// need returns the anchor function or records a violation that the rule cannot be established.
func (c *Ctx) need(rule, role string, fn *ssa.Function) bool {
	if fn != nil {
		return true
	}
	c.fail(rule, "anchor "+role, "-", "the construct playing role '"+role+"' could not be located in the current tree, so this rule cannot be established")
	return false
}

// ifaceMethodRole classifies a method of the unexported sender/receiver interfaces by signature, so that the
// anchors do not depend on the method's name: (T) error -> accept; () (T, bool) -> dequeue; ([]byte) error -> send.
func ifaceMethodRole(m *types.Func) string {
	if m.Pkg() == nil || m.Pkg().Path() != rootPath {
		return ""
	}
	s := m.Type().(*types.Signature)
	// the declaring interface (receiver type of an interface method)
	var it *types.Interface
	if s.Recv() != nil {
		it, _ = s.Recv().Type().Underlying().(*types.Interface)
	}
	hasDequeue, hasSendLike := false, false
	if it != nil {
		for i := 0; i < it.NumMethods(); i++ {
			ms := it.Method(i).Type().(*types.Signature)
			if ms.Params().Len() == 0 && ms.Results().Len() == 2 {
				if b, ok := ms.Results().At(1).Type().Underlying().(*types.Basic); ok && b.Kind() == types.Bool {
					hasDequeue = true
				}
			}
			if ms.Params().Len() == 1 && ms.Results().Len() == 1 && types.TypeString(ms.Params().At(0).Type(), nil) == "[]byte" {
				hasSendLike = true
			}
		}
	}
	switch {
	case s.Params().Len() == 0 && s.Results().Len() == 2 && hasDequeue:
		if b, ok := s.Results().At(1).Type().Underlying().(*types.Basic); ok && b.Kind() == types.Bool {
			return "dequeue"
		}
	case s.Params().Len() == 1 && s.Results().Len() == 1 && types.TypeString(s.Results().At(0).Type(), nil) == "error":
		if types.TypeString(s.Params().At(0).Type(), nil) == "[]byte" && hasSendLike && it != nil && it.NumMethods() == 2 {
			return "send"
		}
		if hasDequeue {
			return "accept"
		}
	}
	return ""
}

// callsCAS: the function contains a CompareAndSwap (i.e. it is a finishing function, not a dedicated remover).
func callsCAS(fn *ssa.Function) bool {
	found := false
	allInstrsLocal(fn, func(in ssa.Instruction) {
		if ci, ok := in.(ssa.CallInstruction); ok && strings.HasSuffix(calleeName(ci), ".CompareAndSwap") {
			found = true
		}
	})
	return found
}
