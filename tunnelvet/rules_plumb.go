package main

// rules_plumb.go: configuration plumbing. Several properties depend on a value supplied when a tunnel is opened (the
// tunnel options, the shutting-down predicate, the tear-down callback, the opening metadata) reaching the code that
// consults it. Each link of that chain is a plain data flow that the type checker cannot protect: replacing one link by a
// fresh zero value, a constant or nil compiles, passes the suite (which runs one configuration) and silently disables the
// behaviour. These rules decide every link from the source.

import (
	"fmt"
	"go/types"
	"strings"

	"golang.org/x/tools/go/ssa"
)

type plumbClass struct {
	name   string
	match  func(w *World, t types.Type) bool
	effect string // what is lost when the link is broken
}

func plumbClasses(w *World) map[string]plumbClass {
	a := w.Anchors()
	optT := recvNamed(w.roleFunc("supportedRevisions"))
	return map[string]plumbClass{
		"options": {"tunnel options", func(w *World, t types.Type) bool {
			p, ok := types.Unalias(t).(*types.Pointer)
			if !ok || optT == nil {
				return false
			}
			n := namedOf(p.Elem())
			return n != nil && n.Obj() == optT.Obj()
		}, "the endpoint runs with default options: a disabled flow control is ignored and revision one is negotiated with a peer that must not get it"},
		"closing": {"shutting-down predicate", func(w *World, t types.Type) bool {
			s, ok := t.Underlying().(*types.Signature)
			if !ok || s.Params().Len() != 0 || s.Results().Len() != 1 {
				return false
			}
			b, isB := s.Results().At(0).Type().Underlying().(*types.Basic)
			return isB && b.Kind() == types.Bool
		}, "the endpoint never learns that shutdown began: new RPCs are accepted after GracefulStop / InitiateShutdown"},
		"teardown": {"tear-down callback", func(w *World, t types.Type) bool {
			s, ok := t.Underlying().(*types.Signature)
			if !ok || s.Params().Len() != 1 || s.Results().Len() != 0 || a.Ch == nil {
				return false
			}
			n := namedOf(s.Params().At(0).Type())
			return n != nil && n.Obj() == a.Ch.Obj()
		}, "closing the channel does not run the opener's tear-down: a closed reverse tunnel stays registered (and routable), a forward tunnel's carrier is never half-closed"},
		"metadata": {"opening metadata", func(w *World, t types.Type) bool {
			return typeIs(t, "grpc/metadata", "MD")
		}, "handlers and callers see other (or no) tunnel-opening metadata"},
	}
}

type plumbCtor struct {
	role string
	fn   *ssa.Function
	typ  *types.Named
}

// resolveArgSources follows a constructor argument back through forwarding functions (a function that passes its own
// parameter on: newReverseChannel -> newTunnelChannel) to the values supplied at the outermost call sites.
func (w *World) resolveArgSources(call ssa.CallInstruction, v ssa.Value, depth int) []plumbSource {
	o := origin(v)
	if p, ok := o.(*ssa.Parameter); ok && depth < 4 {
		fn := p.Parent()
		if fn.Parent() == nil {
			idx := -1
			for i, q := range fn.Params {
				if q == p {
					idx = i
				}
			}
			sites := w.callSitesOf(fn)
			if idx >= 0 && len(sites) > 0 {
				var out []plumbSource
				all := true
				for _, s := range sites {
					if staticCallee(s) == nil || idx >= len(s.Common().Args) {
						all = false
						break
					}
					out = append(out, w.resolveArgSources(s, s.Common().Args[idx], depth+1)...)
				}
				if all {
					return out
				}
			}
		}
	}
	return []plumbSource{{call, o}}
}

type plumbSource struct {
	Site ssa.CallInstruction
	Val  ssa.Value
}

func rulePlumbing(c *Ctx, rule, class string) {
	w := c.W
	a := w.Anchors()
	cl := plumbClasses(w)[class]
	c.rule(rule, "plumbing of the "+cl.name+": every endpoint constructor stores the parameter it is given in the endpoint (or hands it to the endpoint's serve method) and nothing else is ever assigned to that field; the field is what the consulting code reads; every constructor call site supplies the value of its own configuration (through forwarding functions) — never a fresh zero value, a constant or nil")
	ctors := []plumbCtor{{"serveTunnel", w.roleFunc("serveTunnel"), a.Sv}, {"newTunnelChannel", w.roleFunc("newTunnelChannel"), a.Ch}}
	kept := map[FieldRef]bool{}
	optionHolders := map[FieldRef]bool{}
	n := 0
	for _, ct := range ctors {
		if ct.fn == nil || ct.typ == nil {
			c.fail(rule, ct.role+": constructor", "-", "not found")
			continue
		}
		in, fr, handed, found := plumbKept(c, rule, ct, cl)
		if !found {
			continue // this endpoint takes no such input (or it was reported)
		}
		n++
		if fr == nil {
			_ = handed
			continue
		}
		kept[*fr] = true
		p := in.P
		// 3. the field is what the consulting code reads
		switch class {
		case "closing", "teardown":
			called := false
			for _, f := range w.Funcs {
				allInstrsLocal(f, func(in ssa.Instruction) {
					if ci, ok := in.(ssa.CallInstruction); ok && !ci.Common().IsInvoke() && staticCallee(ci) == nil {
						if r, _, isF := loadedField(origin(ci.Common().Value)); isF && r == *fr {
							called = true
						}
					}
				})
			}
			c.check(called, rule, ct.role+": "+fr.String()+" is called", posOf(w, ct.fn), "the stored function is invoked by the endpoint", "nothing ever calls the function stored in "+fr.String()+": "+cl.effect)
		}
		// 4. what the call sites supply
		for _, site := range w.callSitesOf(ct.fn) {
			if staticCallee(site) == nil {
				continue
			}
			arg := argAt(site, in)
			if arg == nil {
				c.fail(rule, fmt.Sprintf("%s <- %s: supplies its %s", ct.role, w.Short(topFn(site.Parent())), cl.name), w.At(site), "cannot determine what this call site supplies for "+in.Name)
				continue
			}
			_ = p
			for _, src := range w.resolveArgSources(site, arg, 0) {
				skey := fmt.Sprintf("%s <- %s: supplies its %s", ct.role, w.Short(topFn(src.Site.Parent())), cl.name)
				switch class {
				case "options":
					// &holder.G with G of the options struct type and holder the function's own receiver / configuration
					r, base, isF := fieldOfAddr(src.Val)
					okSrc := false
					if isF {
						if _, isAlloc := origin(base).(*ssa.Alloc); !isAlloc {
							okSrc = true
							optionHolders[r] = true
						}
					}
					c.check(okSrc, rule, skey, w.At(src.Site), "&"+r.String(), "the options handed to the endpoint are "+desc(src.Val)+", not the address of the options this tunnel client/server was configured with: "+cl.effect)
				case "teardown":
					okSrc := funcValueTarget(src.Val) != nil
					if _, isMC := src.Val.(*ssa.MakeClosure); isMC {
						okSrc = true
					}
					c.check(okSrc, rule, skey, w.At(src.Site), desc(src.Val), "the tear-down handed to the channel is "+desc(src.Val)+", not a function: "+cl.effect)
				case "closing":
					okSrc := funcValueTarget(src.Val) != nil
					if mc, isMC := src.Val.(*ssa.MakeClosure); isMC {
						okSrc = true
						// not a literal that ignores all state
						if f, isFn := mc.Fn.(*ssa.Function); isFn && len(mc.Bindings) == 0 && f.Synthetic == "" {
							okSrc = false
						}
					}
					if f, isFn := src.Val.(*ssa.Function); isFn && f.Signature.Recv() == nil && f.Parent() != nil && len(f.FreeVars) == 0 {
						okSrc = false // a function literal with no captured state cannot observe shutdown
					}
					c.check(okSrc, rule, skey, w.At(src.Site), desc(src.Val), "the shutting-down predicate handed to the tunnel server is "+desc(src.Val)+", which cannot observe this server's state: "+cl.effect)
				}
			}
		}
	}
	c.floor(rule, n, map[string]int{"options": 2, "closing": 1, "teardown": 1, "metadata": 2}[class], "endpoint constructors taking the "+cl.name)
	if class != "options" {
		return
	}
	// 3 (options). every use of the options by an endpoint reads the kept field
	sr := w.roleFunc("supportedRevisions")
	nUse := 0
	for _, site := range w.callSitesOf(sr) {
		if staticCallee(site) == nil || len(site.Common().Args) == 0 {
			continue
		}
		owner := recvNamed(topFn(site.Parent()))
		if owner == nil || (a.Sv != nil && owner.Obj() != a.Sv.Obj()) && (a.Ch != nil && owner.Obj() != a.Ch.Obj()) {
			continue
		}
		nUse++
		r, _, isF := loadedField(origin(site.Common().Args[0]))
		c.check(isF && kept[r], rule, w.Short(topFn(site.Parent()))+": revisions computed from the endpoint's options", w.At(site), r.String()+".supportedRevisions()", "the supported revisions are computed from "+desc(site.Common().Args[0])+", not from the options field the constructor filled: "+cl.effect)
	}
	c.floor(rule, nUse, 2, "endpoint uses of the supported-revisions function")
	// 5. each configuration holder fills its options from what the user supplied
	var holders []FieldRef
	for r := range optionHolders {
		holders = append(holders, r)
	}
	sortFieldRefs(holders)
	for _, g := range holders {
		filled := false
		where := "-"
		for _, f := range w.Funcs {
			if f.Parent() != nil || isGenericTemplate(f) {
				continue
			}
			allocs := false
			allInstrsLocal(f, func(in ssa.Instruction) {
				if al, ok := in.(*ssa.Alloc); ok {
					if pt, isP := types.Unalias(al.Type()).(*types.Pointer); isP {
						if nn, isN := types.Unalias(pt.Elem()).(*types.Named); isN && nn.Obj().Name() == g.Type {
							allocs = true
						}
					}
				}
			})
			if !allocs {
				continue
			}
			where = posOf(w, f)
			appliedTo := map[*ssa.Alloc]bool{}
			for pass := 0; pass < 2 && !filled; pass++ { // (the apply loop may come after the store in instruction order)
				w.instrsThroughHelpers(f, func(in ssa.Instruction) { // the loop may live in a helper shared by the constructors
					switch x := in.(type) {
					case *ssa.Call:
						// opt.apply(&holder.G) for every element of the option list parameter
						if !x.Call.IsInvoke() || len(x.Call.Args) != 1 {
							return
						}
						target := origin(x.Call.Args[0])
						tmp, isTmp := target.(*ssa.Alloc) // a local options value (returned and stored into the holder's field)
						if r, _, isF := fieldOfAddr(target); (!isF || r != g) && !isTmp {
							return
						}
						if !inLoop(x.Block()) {
							return
						}
						// the receiver is an element of a slice parameter of f
						el := origin(x.Call.Value)
						if u, isU := el.(*ssa.UnOp); isU {
							if ia, isIA := u.X.(*ssa.IndexAddr); isIA {
								if p, isP := origin(ia.X).(*ssa.Parameter); isP && p.Parent() == f {
									if isTmp {
										appliedTo[tmp] = true
									} else {
										filled = true
									}
								}
							}
						}
					case *ssa.Store:
						// holder.G.flag = options.Flag (checked in detail by the supported-revisions rule)
						if fa, isFA := x.Addr.(*ssa.FieldAddr); isFA {
							if r, _, isF := fieldOfAddr(fa.X); isF && r == g {
								if _, _, isL := loadedField(origin(x.Val)); isL {
									filled = true
								}
							}
						}
						// holder.G = optionsType{flag: options.Flag}: the nested literal is built in a local and copied (here, or in a
						// conversion helper whose result is stored: options.tunnelOpts()); or holder.G = collect(opts): a local
						// options value to which every element of the option list was applied
						if r, _, isF := fieldOfAddr(x.Addr); isF && r == g {
							var srcs []*ssa.Alloc // the local options value(s) the stored value is a copy of
							if u, isU := origin(x.Val).(*ssa.UnOp); isU {
								if tmp, isAl := u.X.(*ssa.Alloc); isAl {
									srcs = append(srcs, tmp)
								}
							}
							if hc, isHC := origin(x.Val).(*ssa.Call); isHC {
								if h := helperCallee(hc); h != nil {
									for _, hr := range returnsOf(h) {
										if len(hr.Results) == 0 {
											continue
										}
										if u, isU := stripConv(hr.Results[0]).(*ssa.UnOp); isU {
											if tmp, isAl := u.X.(*ssa.Alloc); isAl {
												srcs = append(srcs, tmp)
											}
										}
									}
								}
							}
							for _, tmp := range srcs {
								{
									if appliedTo[tmp] {
										filled = true
									}
									for _, ref := range *tmp.Referrers() {
										fa, isFA := ref.(*ssa.FieldAddr)
										if !isFA {
											continue
										}
										for _, ref2 := range *fa.Referrers() {
											if st2, isSt := ref2.(*ssa.Store); isSt && st2.Addr == ssa.Value(fa) {
												if _, _, isL := loadedField(origin(st2.Val)); isL {
													filled = true
												}
											}
										}
									}
								}
							}
						}
					}
				})
			}
		}
		c.check(filled, rule, g.String()+": filled from the caller's options", where, "every supplied option is applied to "+g.String(), "the constructor of "+g.Type+" does not apply the options it is given to "+g.String()+" (no apply call on each element of the option list with that field's address, no copy from its options struct): "+cl.effect)
	}
	c.floor(rule, len(holders), 3, "configuration holders of tunnel options")
	// 6. an option implemented as a function type applies itself: apply(opts) calls the function with opts, unconditionally
	nApply := 0
	optT := recvNamed(sr)
	for _, f := range w.Funcs {
		if f.Parent() != nil || f.Signature.Recv() == nil || len(f.Params) != 2 || isGenericTemplate(f) || f.Synthetic != "" {
			continue
		}
		if _, isFn := f.Params[0].Type().Underlying().(*types.Signature); !isFn {
			continue
		}
		pt, isP := types.Unalias(f.Params[1].Type()).(*types.Pointer)
		if !isP || optT == nil {
			continue
		}
		if n := namedOf(pt.Elem()); n == nil || n.Obj() != optT.Obj() {
			continue
		}
		nApply++
		okCall := false
		allInstrs(f, func(in ssa.Instruction) {
			call, isC := in.(*ssa.Call)
			if !isC || call.Call.IsInvoke() || len(call.Call.Args) != 1 {
				return
			}
			if origin(call.Call.Value) == ssa.Value(f.Params[0]) && origin(call.Call.Args[0]) == ssa.Value(f.Params[1]) && len(factsAt(call)) == 0 {
				okCall = true
			}
		})
		c.check(okCall, rule, w.Short(f)+": a function option applies itself", posOf(w, f), "t(opts)", "the apply method of the function-typed option does not (unconditionally) call the function with the options it is given: WithDisableFlowControl has no effect")
	}
	c.floor(rule, nApply, 1, "function-typed option implementations")
}

func sortFieldRefs(fs []FieldRef) {
	for i := range fs {
		for j := i + 1; j < len(fs); j++ {
			if strings.Compare(fs[j].String(), fs[i].String()) < 0 {
				fs[i], fs[j] = fs[j], fs[i]
			}
		}
	}
}

// ctorInput: one input of an endpoint constructor: a parameter, or one field of a parameter that bundles several inputs in
// a struct passed by value.
type ctorInput struct {
	P     *ssa.Parameter
	Idx   int
	Field int // -1: the parameter itself
	T     types.Type
	Name  string
}

func ctorInputs(fn *ssa.Function) []ctorInput {
	var out []ctorInput
	for i, p := range fn.Params {
		if n, ok := types.Unalias(p.Type()).(*types.Named); ok && n.Obj().Pkg() != nil && n.Obj().Pkg().Path() == rootPath {
			if st, isS := n.Underlying().(*types.Struct); isS {
				for j := 0; j < st.NumFields(); j++ {
					out = append(out, ctorInput{p, i, j, st.Field(j).Type(), p.Name() + "." + st.Field(j).Name()})
				}
				continue
			}
		}
		out = append(out, ctorInput{p, i, -1, p.Type(), p.Name()})
	}
	return out
}

// isWholeParam: v is the parameter p itself (directly, or reloaded from the slot it was spilled to).
func isWholeParam(v ssa.Value, p *ssa.Parameter) bool {
	o := origin(v)
	if o == ssa.Value(p) {
		return true
	}
	if u, ok := o.(*ssa.UnOp); ok {
		if al, isA := u.X.(*ssa.Alloc); isA {
			return isSpillOf(al, p)
		}
	}
	return false
}

func isSpillOf(al *ssa.Alloc, p *ssa.Parameter) bool {
	n := 0
	okAll := true
	for _, r := range *al.Referrers() {
		if st, isSt := r.(*ssa.Store); isSt && st.Addr == ssa.Value(al) {
			n++
			if st.Val != ssa.Value(p) {
				okAll = false
			}
		}
	}
	return n == 1 && okAll
}

func isInputValue(v ssa.Value, in ctorInput) bool {
	if in.Field < 0 {
		return isWholeParam(v, in.P)
	}
	switch x := origin(v).(type) {
	case *ssa.Field:
		return x.Field == in.Field && isWholeParam(x.X, in.P)
	case *ssa.UnOp:
		if fa, ok := x.X.(*ssa.FieldAddr); ok && fa.Field == in.Field {
			if al, isA := fa.X.(*ssa.Alloc); isA {
				return isSpillOf(al, in.P)
			}
		}
	}
	return false
}

// argAt: the value a call site supplies for a constructor input (for a bundled input: what the site stored in that field of
// the struct it passes).
func argAt(site ssa.CallInstruction, in ctorInput) ssa.Value {
	if in.Idx >= len(site.Common().Args) {
		return nil
	}
	a := site.Common().Args[in.Idx]
	if in.Field < 0 {
		return a
	}
	return localFieldValue(a, in.Field, site)
}

// plumbKept decides links 1 and 2 for the constructor's input of class cl: stored in the endpoint (or handed to one of its
// methods), and nothing else ever assigned to that field. found == false when the constructor has no such input.
func plumbKept(c *Ctx, rule string, ct plumbCtor, cl plumbClass) (in ctorInput, fr *FieldRef, handed string, found bool) {
	w := c.W
	var ins []ctorInput
	for _, x := range ctorInputs(ct.fn) {
		if cl.match(w, x.T) {
			ins = append(ins, x)
		}
	}
	if len(ins) == 0 {
		return in, nil, "", false
	}
	if len(ins) > 1 {
		c.fail(rule, ct.role+": "+cl.name+" input", posOf(w, ct.fn), fmt.Sprintf("%d inputs of that type: unrecognised constructor shape", len(ins)))
		return in, nil, "", false
	}
	in = ins[0]
	allInstrs(ct.fn, func(x ssa.Instruction) {
		switch x := x.(type) {
		case *ssa.Store:
			r, _, isF := fieldOfAddr(x.Addr)
			if !isF || r.Type != ct.typ.Obj().Name() {
				return
			}
			if isInputValue(x.Val, in) {
				r := r
				fr = &r
			}
			// the whole bundle stored in a sub-struct of the endpoint: the input lives in that sub-struct's field
			if in.Field >= 0 && isWholeParam(x.Val, in.P) {
				r := mkFieldRef(in.P.Type(), in.Field)
				fr = &r
			}
		case ssa.CallInstruction:
			g := staticCallee(x)
			if g == nil || recvNamed(g) == nil || recvNamed(g).Obj() != ct.typ.Obj() {
				return
			}
			for i, arg := range x.Common().Args {
				if i > 0 && isInputValue(arg, in) {
					// handed to a method of the endpoint: that method must use it
					if q := paramAt(g, i); q != nil && q.Referrers() != nil && len(*q.Referrers()) > 0 {
						handed = w.Short(g)
					}
				}
			}
		}
	})
	key := ct.role + ": keeps the " + cl.name
	if fr == nil && handed == "" {
		c.fail(rule, key, posOf(w, ct.fn), "the input "+in.Name+" is neither stored in the endpoint this function constructs nor handed to one of its methods (something else is): "+cl.effect)
		return in, nil, "", false
	}
	if fr == nil {
		c.ok(rule, key, posOf(w, ct.fn), in.Name+" handed to "+handed)
		return in, nil, handed, true
	}
	c.ok(rule, key, posOf(w, ct.fn), fr.String()+" = "+in.Name)
	okOnly := true
	at := posOf(w, ct.fn)
	for _, f := range w.Funcs {
		allInstrsLocal(f, func(x ssa.Instruction) {
			if st, ok := x.(*ssa.Store); ok {
				if r, base, isF := fieldOfAddr(st.Addr); isF && r == *fr && !isInputValue(st.Val, in) {
					if base != nil && typeNameOf(base.Type()) != ct.typ.Obj().Name() {
						return // a bundle value being filled in by a caller, not (part of) an endpoint
					}
					okOnly, at = false, w.At(x)
				}
			}
		})
	}
	c.check(okOnly, rule, ct.role+": "+fr.String()+" holds only that input", at, "single assignment from "+in.Name, fr.String()+" is also assigned something other than the constructor's input: "+cl.effect)
	return in, fr, "", true
}

// inputOf: the input of fn (a parameter, or a field of a struct parameter passed by value) that v is; nil if none.
func inputOf(fn *ssa.Function, v ssa.Value) *ctorInput {
	if fn == nil || v == nil {
		return nil
	}
	for _, in := range ctorInputs(fn) {
		if isInputValue(v, in) {
			in := in
			return &in
		}
	}
	return nil
}

// suppliedBy: the values supplied for input `in` of fn at the static call sites that lie in `entry`, following functions in
// between that merely pass one of their own inputs on (whole parameters, fields of bundles, or a whole bundle forwarded).
func (w *World) suppliedBy(fn *ssa.Function, in ctorInput, entry *ssa.Function, depth int) []ssa.Value {
	var out []ssa.Value
	if depth > 4 {
		return nil
	}
	for _, site := range w.callSitesOf(fn) {
		if staticCallee(site) == nil || in.Idx >= len(site.Common().Args) {
			continue
		}
		caller := topFn(site.Parent())
		arg := argAt(site, in)
		if arg == nil && in.Field >= 0 {
			// the whole bundle is the caller's own bundle, forwarded
			whole := site.Common().Args[in.Idx]
			for _, cin := range ctorInputs(caller) {
				if cin.Field == in.Field && isWholeParam(whole, cin.P) && types.Identical(cin.P.Type(), in.P.Type()) {
					if w.sameFn(caller, entry) {
						continue
					}
					out = append(out, w.suppliedBy(caller, cin, entry, depth+1)...)
				}
			}
			continue
		}
		if arg == nil {
			continue
		}
		if w.sameFn(caller, entry) {
			out = append(out, arg)
			continue
		}
		if cin := inputOf(caller, arg); cin != nil {
			out = append(out, w.suppliedBy(caller, *cin, entry, depth+1)...)
		}
	}
	return out
}
