package main

// rules_meta.go: status / metadata / outcome rules (C02.*, C07.*).

import (
	"fmt"
	"go/token"
	"go/types"
	"reflect"
	"strings"

	"golang.org/x/tools/go/ssa"
)

// chanFieldsReceivedIn: chan fields of the receiver's struct that fn receives from (select or <-).
func chanRecvFields(fn *ssa.Function) []FieldRef {
	var out []FieldRef
	allInstrs(fn, func(in ssa.Instruction) {
		switch x := in.(type) {
		case *ssa.Select:
			for _, st := range x.States {
				if st.Dir == types.RecvOnly {
					if fr, _, ok := loadedField(st.Chan); ok {
						out = append(out, fr)
					}
				}
			}
		case *ssa.UnOp:
			if x.Op == token.ARROW {
				if fr, _, ok := loadedField(x.X); ok {
					out = append(out, fr)
				}
			}
		case *ssa.Call:
			// a helper that reports whether a receive from its channel argument completed
			if ch, ok := recvPredicateCall(x); ok {
				if fr, _, ok := loadedField(ch); ok {
					out = append(out, fr)
				}
			}
		}
	})
	return out
}

// recvPredicateCall: call is a call of a function of the analysed package with one channel parameter and one bool result
// that returns true only after a receive from that parameter completed (e.g. a non-blocking "is it closed" probe).
// Returns the channel argument.
func recvPredicateCall(call *ssa.Call) (ssa.Value, bool) {
	ch, kind := recvResultCall(call)
	return ch, kind == "bool"
}

// recvResultCall generalises recvPredicateCall: the helper's result tells whether a receive completed — a bool that is true
// only after it ("bool"), or an error that is nil only after it ("error": `waitForSettings() error`). Returns the channel
// and the kind ("" when call is no such helper).
func recvResultCall(call *ssa.Call) (ssa.Value, string) {
	ch, ok, kind := recvResultCall1(call)
	if !ok {
		return nil, ""
	}
	return ch, kind
}

func recvResultCall1(call *ssa.Call) (ssa.Value, bool, string) {
	ch, ok := ssa.Value(nil), false
	kind := ""
	f := helperCallee(call)
	if f == nil || f.Signature.Results().Len() != 1 {
		return nil, false, ""
	}
	if b, isB := f.Signature.Results().At(0).Type().Underlying().(*types.Basic); isB && b.Kind() == types.Bool {
		kind = "bool"
	} else if types.TypeString(f.Signature.Results().At(0).Type(), nil) == "error" {
		kind = "error"
	} else {
		return nil, false, ""
	}
	negative := func(v ssa.Value) bool { // a result that does NOT promise a completed receive
		if kind == "bool" {
			return isConstBool(v, false)
		}
		return !isNilConst(v)
	}
	ch, ok = recvResultBody(call, f, negative)
	return ch, ok, kind
}

func recvResultBody(call *ssa.Call, f *ssa.Function, negative func(ssa.Value) bool) (ssa.Value, bool) {
	var chP *ssa.Parameter
	idx := -1
	for i, p := range f.Params {
		if _, isCh := p.Type().Underlying().(*types.Chan); isCh {
			if chP != nil {
				return nil, false
			}
			chP, idx = p, i
		}
	}
	if chP == nil {
		// no channel parameter: a probe of a channel FIELD of its receiver (st.isDone()); the channel is named by its field,
		// which is the same whoever calls
		var fields []ssa.Value
		allInstrsLocal(f, func(in ssa.Instruction) {
			switch x := in.(type) {
			case *ssa.Select:
				for _, st := range x.States {
					if st.Dir == types.RecvOnly {
						if _, _, isF := loadedField(st.Chan); isF {
							fields = append(fields, st.Chan)
						}
					}
				}
			case *ssa.UnOp:
				if x.Op == token.ARROW {
					if _, _, isF := loadedField(x.X); isF {
						fields = append(fields, x.X)
					}
				}
			}
		})
		if len(fields) == 0 {
			return nil, false
		}
		// one channel field (possibly probed more than once: non-blocking first, then blocking)
		for _, f := range fields[1:] {
			a, _, _ := loadedField(fields[0])
			b, _, _ := loadedField(f)
			if a != b {
				return nil, false
			}
		}
		if len(fields) == 0 {
			return nil, false
		}
		want, _, _ := loadedField(fields[0])
		okAll, n := true, 0
		forEachReturnValue(f, 0, func(v ssa.Value, at ssa.Instruction) {
			if negative(v) {
				return
			}
			n++
			if !recvDominates(at, func(ch ssa.Value) bool {
				fr, _, ok := loadedField(ch)
				return ok && fr == want
			}) {
				okAll = false
			}
		})
		if !okAll || n == 0 {
			return nil, false
		}
		return fields[0], true
	}
	if idx >= len(call.Call.Args) {
		return nil, false
	}
	okAll, n := true, 0
	forEachReturnValue(f, 0, func(v ssa.Value, at ssa.Instruction) {
		if negative(v) {
			return
		}
		n++
		if !recvDominates(at, func(ch ssa.Value) bool { return stripConv(ch) == ssa.Value(chP) }) {
			okAll = false
		}
	})
	if !okAll || n == 0 {
		return nil, false
	}
	return call.Call.Args[idx], true
}

// closeOfField: the close(ch) calls in fn whose channel is loaded from field fr.
func closesOfField(fn *ssa.Function, fr FieldRef) []*ssa.Call {
	var out []*ssa.Call
	allInstrs(fn, func(in ssa.Instruction) {
		if call, ok := in.(*ssa.Call); ok && calleeName(call) == "builtin.close" {
			if f, _, ok := loadedField(call.Call.Args[0]); ok && f == fr {
				out = append(out, call)
			}
		}
	})
	return out
}

// recvFromFieldDominates: every path to `in` passes a completed receive from the channel in field fr
// (a select case on it, or a plain receive).
func recvFromFieldDominates(in ssa.Instruction, fr FieldRef) bool {
	return recvDominates(in, func(ch ssa.Value) bool {
		f2, _, ok := loadedField(ch)
		return ok && f2 == fr
	})
}

// recvDominates: every path to `in` passes a completed receive from a channel accepted by match.
func recvDominates(in ssa.Instruction, match func(ch ssa.Value) bool) bool {
	if recvDominates1(in, match) {
		return true
	}
	fn := in.Parent()
	cuts := map[ssa.Instruction]bool{}
	cutEdges := map[[2]*ssa.BasicBlock]bool{}
	allInstrsLocal(fn, func(x ssa.Instruction) {
		switch y := x.(type) {
		case *ssa.UnOp:
			if y.Op == token.ARROW && match(y.X) {
				cuts[x] = true
			}
		case *ssa.If:
			// true result of a receive-predicate helper
			nf := normFact(EdgeFact{y.Cond, true})
			if call, isCall := origin(nf.Cond).(*ssa.Call); isCall {
				if ch, ok := recvPredicateCall(call); ok && match(ch) {
					succ := y.Block().Succs[0]
					if !nf.True {
						succ = y.Block().Succs[1]
					}
					cutEdges[[2]*ssa.BasicBlock{y.Block(), succ}] = true
				}
			}
			// if (extract #0 of select) == k, with state k receiving from the channel: the true edge means "received"
			b, ok := y.Cond.(*ssa.BinOp)
			if !ok || b.Op != token.EQL {
				return
			}
			ex, isEx := b.X.(*ssa.Extract)
			k, isK := constInt(b.Y)
			if !isEx || !isK || ex.Index != 0 {
				return
			}
			sel, isSel := ex.Tuple.(*ssa.Select)
			if !isSel || int(k) >= len(sel.States) || sel.States[k].Dir != types.RecvOnly {
				return
			}
			if match(sel.States[k].Chan) {
				cutEdges[[2]*ssa.BasicBlock{y.Block(), y.Block().Succs[0]}] = true
			}
		}
	})
	if len(cuts) == 0 && len(cutEdges) == 0 {
		return false
	}
	// is `in` reachable from entry without crossing a receive?
	seen := map[*ssa.BasicBlock]bool{fn.Blocks[0]: true}
	work := []*ssa.BasicBlock{fn.Blocks[0]}
	for len(work) > 0 {
		b := work[len(work)-1]
		work = work[:len(work)-1]
		stopped := false
		for _, x := range b.Instrs {
			if cuts[x] {
				stopped = true
				break
			}
			if x == in {
				return false
			}
		}
		if stopped {
			continue
		}
		for _, sc := range b.Succs {
			if cutEdges[[2]*ssa.BasicBlock{b, sc}] || seen[sc] {
				continue
			}
			seen[sc] = true
			work = append(work, sc)
		}
	}
	return true
}

func recvDominates1(in ssa.Instruction, match func(ch ssa.Value) bool) bool {
	// (a) select case index fact
	for _, f := range factsAt(in) {
		x, op, y, ok := cmpFact(f)
		if !ok || op != token.EQL {
			continue
		}
		ex, isEx := x.(*ssa.Extract)
		k, isK := constInt(y)
		if !isEx || !isK || ex.Index != 0 {
			continue
		}
		if sel, ok := ex.Tuple.(*ssa.Select); ok && int(k) < len(sel.States) {
			st := sel.States[k]
			if st.Dir == types.RecvOnly && match(st.Chan) {
				return true
			}
		}
	}
	// (a') true result of a receive-predicate helper
	for _, f := range boolFactsAt(in) {
		if call, isCall := f.V.(*ssa.Call); isCall && f.True {
			if ch, ok := recvPredicateCall(call); ok && match(ch) {
				return true
			}
		}
	}
	// (a'') nil result of a helper whose error is nil only after the receive completed
	for _, f := range factsAt(in) {
		x, op, y, ok := cmpFact(f)
		if !ok || op != token.EQL || !isNilConst(y) {
			continue
		}
		if call, isCall := origin(x).(*ssa.Call); isCall {
			if ch, kind := recvResultCall(call); kind == "error" && match(ch) {
				return true
			}
		}
	}
	// (b) plain receive dominating
	found := false
	allInstrsLocal(in.Parent(), func(x ssa.Instruction) {
		if u, ok := x.(*ssa.UnOp); ok && u.Op == token.ARROW {
			if match(u.X) && dominates(u, in) {
				found = true
			}
		}
	})
	return found
}

// doneSignalField: the chan field the client stream's Trailer() receives from.
func (c *Ctx) doneSignalField() (FieldRef, bool) {
	a := c.W.Anchors()
	tr := c.W.methodFn(a.CS, "Trailer")
	if tr == nil {
		return FieldRef{}, false
	}
	fs := chanRecvFields(tr)
	if len(fs) == 0 {
		return FieldRef{}, false
	}
	return fs[0], true
}

func (c *Ctx) headersSignalField() (FieldRef, bool) {
	a := c.W.Anchors()
	h := c.W.methodFn(a.CS, "Header")
	if h == nil {
		return FieldRef{}, false
	}
	for _, f := range chanRecvFields(h) {
		if a.CS != nil && f.Type == a.CS.Obj().Name() {
			return f, true
		}
	}
	return FieldRef{}, false
}

// mdFieldReturnedBy: the metadata.MD field of CS that method `name` returns.
func (c *Ctx) mdFieldReturnedBy(name string) (FieldRef, bool) {
	a := c.W.Anchors()
	fn := c.W.methodFn(a.CS, name)
	if fn == nil {
		return FieldRef{}, false
	}
	var out FieldRef
	ok := false
	forEachReturnValue(fn, 0, func(v ssa.Value, at ssa.Instruction) {
		if fr, _, isF := loadedField(v); isF {
			out, ok = fr, true
		}
	})
	return out, ok
}

// ruleSingleOutcome (C02.2 / C07.5).
func ruleSingleOutcome(c *Ctx, rule string) {
	c.rule(rule, "single outcome: the client's terminal marker is written only by CompareAndSwap(nil, x); the trailer store, the call-option target stores and close(doneSignal) are all dominated by its success edge")
	w := c.W
	a := w.Anchors()
	if !c.need(rule, "ClientFinish", a.ClientFinish) {
		return
	}
	n := 0
	for _, fn := range w.Funcs {
		allInstrs(fn, func(in ssa.Instruction) {
			call, ok := in.(*ssa.Call)
			if !ok || len(call.Call.Args) == 0 {
				return
			}
			fr, _, ok := fieldOfAddr(call.Call.Args[0])
			if !ok || fr != a.CSDone {
				return
			}
			name := calleeName(call)
			if strings.HasSuffix(name, ".Load") {
				return
			}
			n++
			key := "write of " + fr.String() + " in " + w.Short(fn)
			okCAS := strings.HasSuffix(name, ".CompareAndSwap") && isNilConst(call.Call.Args[1])
			c.check(okCAS, rule, key, w.At(call), "CompareAndSwap(nil, x): first writer wins", "the terminal marker is written with "+name+": a later outcome can overwrite the first one (caller may observe a mixture)")
		})
	}
	c.floor(rule, n, 1, "writes of the client terminal marker")
	fn := a.ClientFinish
	done, okD := c.doneSignalField()
	tr, okT := c.mdFieldReturnedBy("Trailer")
	if !okD || !okT {
		c.fail(rule, "doneSignal / trailers fields", "-", "cannot infer the done-signal channel or the trailers field from Trailer()")
		return
	}
	var pubs []ssa.Instruction
	for _, st := range storesToField(fn, tr) {
		pubs = append(pubs, st)
	}
	for _, cl := range closesOfField(fn, done) {
		pubs = append(pubs, cl)
	}
	pubs = append(pubs, c.targetStores(fn, c.W.Roles().TrailersTargets)...)
	c.floor(rule, len(pubs), 3, "publication instructions in the finishing function (trailer store, target store, close(doneSignal))")
	for _, p := range pubs {
		g, why := c.casGuard(p, a.CSDone, 0)
		c.check(g, rule, "publication in "+w.Short(fn)+": "+instrKind(p), w.At(p), why, "this publication step is not dominated by the success edge of the marker CAS: a losing finisher would overwrite trailers or close the signal twice (panic)")
	}
}

func instrKind(in ssa.Instruction) string {
	switch x := in.(type) {
	case *ssa.Store:
		return "store " + desc(x.Addr)
	case *ssa.Call:
		return calleeName(x) + "(" + desc(x.Call.Args[0]) + ")"
	}
	return fmt.Sprintf("%T", in)
}

// targetStores: stores through the elements of a []*metadata.MD field (call-option targets).
func (c *Ctx) targetStores(fn *ssa.Function, field string) []ssa.Instruction {
	var out []ssa.Instruction
	allInstrs(fn, func(in ssa.Instruction) {
		st, ok := in.(*ssa.Store)
		if !ok {
			return
		}
		// *(*slice[i]) = v  : Addr = load(IndexAddr(load(field), i))  or range value
		addr := st.Addr
		u, ok := addr.(*ssa.UnOp)
		if !ok || u.Op != token.MUL {
			return
		}
		if ia, ok := u.X.(*ssa.IndexAddr); ok {
			if fr, _, ok := loadedField(ia.X); ok && fr.Field == field {
				out = append(out, st)
			}
		}
	})
	return out
}

// rulePublishBeforeWake (C02.3 / C15.4).
func rulePublishBeforeWake(c *Ctx, rule string) {
	c.rule(rule, "publish before wake: in the client finishing function every operation that can release a reader with a terminal result (receiver close/cancel) executes after the trailer store, the grpc.Trailer target stores and close(doneSignal) on every path, and the function reports success only after that publication")
	w := c.W
	a := w.Anchors()
	if !c.need(rule, "ClientFinish", a.ClientFinish) {
		return
	}
	fn := a.ClientFinish
	done, okD := c.doneSignalField()
	tr, okT := c.mdFieldReturnedBy("Trailer")
	if !okD || !okT {
		c.fail(rule, "doneSignal / trailers fields", "-", "cannot infer the done-signal channel or the trailers field")
		return
	}
	closes := closesOfField(fn, done)
	if len(closes) != 1 {
		c.fail(rule, "close(doneSignal) in the finishing function", w.Pos(fn.Pos()), fmt.Sprintf("%d close sites", len(closes)))
		return
	}
	cd := closes[0]
	// publication stores precede the close and never follow it
	var pubs []ssa.Instruction
	for _, st := range storesToField(fn, tr) {
		pubs = append(pubs, st)
	}
	pubs = append(pubs, c.targetStores(fn, c.W.Roles().TrailersTargets)...)
	c.floor(rule, len(pubs), 2, "trailer publication stores")
	for _, p := range pubs {
		c.check(reaches(p, cd) && !reaches(cd, p), rule, "publication before the signal: "+instrKind(p), w.At(p), "executes before close(doneSignal), never after", "this trailer publication can execute after close(doneSignal): Trailer() / the grpc.Trailer target is read by the caller while it is still being written")
	}
	for _, st := range storesToField(fn, tr) {
		c.check(dominates(st, cd), rule, "trailers stored on every path to the signal", w.At(st), "store dominates close(doneSignal)", "close(doneSignal) can be reached without storing the trailers")
	}
	// wake-ups after the signal
	n := 0
	allInstrs(fn, func(in ssa.Instruction) {
		call, ok := in.(ssa.CallInstruction)
		if !ok || !call.Common().IsInvoke() {
			return
		}
		m := call.Common().Method.Name()
		if m != w.mName("close") && m != w.mName("cancel") {
			return
		}
		if fr, _, ok := loadedField(call.Common().Value); !ok || fr.Type != a.CS.Obj().Name() {
			return
		}
		n++
		esc := pathAvoiding(fn, nil, func(x ssa.Instruction) bool { return x == in }, func(x ssa.Instruction) bool { return x == ssa.Instruction(cd) })
		if _, isDefer := in.(*ssa.Defer); isDefer {
			esc = nil // deferred: runs at function exit, after everything
			if !dominates(in, cd) && !reaches(cd, in) {
				esc = in
			}
		}
		c.check(esc == nil, rule, "receiver."+m+"() in "+w.Short(fn)+" after publication", w.At(in), "every path to the wake-up passes close(doneSignal)", "receiver."+m+"() can run before the trailers are stored and doneSignal is closed: a reader woken here returns EOF/status to the caller, whose immediate Trailer() sees nil and whose grpc.Trailer target is written concurrently (data race)")
	})
	c.floor(rule, n, 1, "receiver wake-ups in the finishing function")
	// the stream context's cancel is a wake-up too (Header() and a sender waiting for credit select on it): it runs after the
	// publication — deferred after the marker was won, or called on paths that passed close(doneSignal)
	nCancel := 0
	allInstrs(fn, func(in ssa.Instruction) {
		call, ok := in.(ssa.CallInstruction)
		if !ok || call.Common().IsInvoke() || staticCallee(call) != nil {
			return
		}
		fr, _, isF := loadedField(call.Common().Value)
		if !isF || fr.Type != a.CS.Obj().Name() || !strings.HasSuffix(types.TypeString(call.Common().Value.Type(), nil), "context.CancelFunc") {
			return
		}
		nCancel++
		if _, isDefer := in.(*ssa.Defer); isDefer {
			c.ok(rule, "stream context cancelled after publication", w.At(in), "deferred: runs after close(doneSignal)")
			return
		}
		esc := pathAvoiding(fn, nil, func(x ssa.Instruction) bool { return x == in }, func(x ssa.Instruction) bool { return x == ssa.Instruction(cd) })
		c.check(esc == nil, rule, "stream context cancelled after publication", w.At(in), "every path to the cancel passes close(doneSignal)", "the stream's context is cancelled before headers/trailers are published and the done signal is closed: a caller blocked in Header() (or a sender waiting for credit) wakes on ctx.Done(), finds nothing published and reports the context error although the RPC completed")
	})
	c.floor(rule, nCancel, 1, "cancels of the stream context in the finishing function")
	// `true` is returned only after publication
	okRet, nTrue := true, 0
	forEachReturnValue(fn, 0, func(v ssa.Value, at ssa.Instruction) {
		if isConstBool(v, false) {
			return
		}
		nTrue++
		if !dominates(cd, at) {
			okRet = false
		}
	})
	c.check(okRet && nTrue > 0, rule, w.Short(fn)+": reports success only after publication", w.Pos(fn.Pos()), "every non-false return is dominated by close(doneSignal)", "the finishing function can return true before publication: its callers (cancel-stream) wake the reader next")
	// Trailer() reads the field only after receiving from doneSignal (C15.3 pattern)
	if trFn := w.methodFn(a.CS, "Trailer"); trFn != nil {
		for _, ld := range loadsOfField(trFn, tr) {
			c.check(recvFromFieldDominates(ld, done), rule, "Trailer(): read after the done signal", w.At(ld), "load dominated by a receive from "+done.String(), "Trailer() reads the trailers without first receiving from the done signal (no happens-before edge)")
		}
	}
}

// ruleHeaderPublication (C02.4).
func ruleHeaderPublication(c *Ctx, rule string) {
	c.rule(rule, "header publication: in the response_headers case the header store and the grpc.Header target stores precede close(gotHeadersSignal), under the metadata mutex and guarded by the got-headers flag; Header() reads the field only after receiving from that signal")
	w := c.W
	a := w.Anchors()
	if !c.need(rule, "ClientAccept", a.ClientAccept) {
		return
	}
	sig, ok1 := c.headersSignalField()
	hf, ok2 := c.mdFieldReturnedBy("Header")
	if !ok1 || !ok2 {
		c.fail(rule, "headers signal / headers field", "-", "cannot infer them from Header()")
		return
	}
	lf := w.Locks()
	nClose, nPub, nSettle := 0, 0, 0
	for _, fn := range []*ssa.Function{a.ClientAccept, a.ClientFinish} {
		if fn == nil {
			continue
		}
		// the closes the function performs itself, in its single-use helpers, and in helpers it shares with the other
		// function (`settleHeadersLocked()` called by both); `at` is where the function does it (the close, or its call of
		// the shared helper)
		type closeAt struct {
			cl *ssa.Call
			at ssa.Instruction
		}
		var closes []closeAt
		var visit func(g *ssa.Function, site ssa.Instruction, depth int)
		visit = func(g *ssa.Function, site ssa.Instruction, depth int) {
			allInstrs(g, func(in ssa.Instruction) {
				at := site
				if at == nil {
					at = in
				}
				call, ok := in.(*ssa.Call)
				if !ok {
					return
				}
				if calleeName(call) == "builtin.close" {
					if f, _, ok := loadedField(call.Call.Args[0]); ok && f == sig {
						closes = append(closes, closeAt{call, at})
					}
					return
				}
				if h := helperCallee(call); h != nil && h.Blocks != nil && inlinedCallee(call) == nil && depth < 3 {
					visit(h, at, depth+1)
				}
			})
		}
		visit(fn, nil, 0)
		if fn == a.ClientFinish {
			// the finishing function settles the headers: the done signal is closed only after the headers signal was closed,
			// here or earlier (the got-headers flag tested true) — Header() on a finished RPC answers from the headers signal
			if done, okD := c.doneSignalField(); okD {
				for _, cd := range closesOfField(fn, done) {
					isSettle := func(in ssa.Instruction) bool {
						for _, ca := range closes {
							if ca.at == in {
								return true
							}
						}
						return false
					}
					flagTrue := func(pred, succ *ssa.BasicBlock) bool {
						ef, has := edgeFact(pred, succ)
						if !has {
							return false
						}
						nf := normFact(ef)
						if fr, _, isF := loadedField(nf.Cond); isF && nf.True {
							for _, ca := range closes {
								if fl, okF := c.findOnceFlag(ca.cl, a.CS); okF && fl == fr {
									return true
								}
							}
						}
						return false
					}
					esc := pathAvoidingE(regionRoot(fn), nil, func(in ssa.Instruction) bool { return in == ssa.Instruction(cd) }, isSettle, flagTrue)
					c.check(esc == nil && len(closes) > 0, rule, w.Short(fn)+": settles the headers before the done signal", w.At(cd), "every path to close("+done.Field+") closes "+sig.Field+" or found it closed", "the finishing function can close the done signal without the headers signal ever being closed: Header() on an RPC that ended without a headers frame (no headers set and no message, a refusal, a cancellation) does not get the settled (empty) headers — it blocks, or reports the end of the RPC as an error of a successful call")
				}
			}
		}
		for _, ca := range closes {
			cl, at := ca.cl, ca.at
			nClose++
			key := "close(" + sig.Field + ") in " + w.Short(fn)
			if regionRoot(cl.Parent()) != regionRoot(fn) {
				key = "close(" + sig.Field + ") in " + w.Short(cl.Parent()) + " for " + w.Short(fn)
			}
			locks := perStreamLocks(lf.MustAt(cl), a.CS)
			if len(locks) == 0 {
				c.fail(rule, key+": under the metadata mutex", w.At(cl), "the headers signal is closed with no client-stream mutex held: double close (panic) when headers race with finish")
				continue
			}
			flag, okF := c.findOnceFlag(cl, a.CS)
			if !okF {
				c.fail(rule, key+": once-guarded", w.At(cl), "no bool flag is tested false before closing the headers signal: a second response_headers frame, or headers racing with the end of the stream, closes a closed channel (panic)")
				continue
			}
			c.onceGuardedByFlag(rule, key+": once-guarded", cl, flag, locks[0])
			if fn == a.ClientAccept {
				sts := storesToField(fn, hf)
				// a close on a path that neither follows nor precedes the header store is not the publication of a headers
				// frame: it settles the headers as empty when data arrives first (the protocol lets a server omit the frame)
				related := false
				for _, st := range sts {
					if reaches(st, at) || reaches(at, st) || dominates(st, at) {
						related = true
					}
				}
				if len(sts) >= 1 && !related {
					nSettle++
					c.ok(rule, key+": settles absent headers", w.At(cl), "close on a path without a headers frame (once-guarded, under the mutex)")
					continue
				}
				nPub++
				c.check(len(sts) >= 1, rule, key+": headers stored", w.At(cl), fmt.Sprintf("%d store(s)", len(sts)), "the response_headers case never stores the headers")
				for _, st := range sts {
					c.check(dominates(st, at) && !reaches(at, st), rule, key+": headers stored before the signal", w.At(st), "store dominates close", "headers are stored after (or not on every path before) the signal: Header() returns nil/stale metadata")
					// value = fromProto(frame.ResponseHeaders)
					d := desc(st.Val)
					c.check(w.isConvOfField(st.Val, "fromProto", "ResponseHeaders"), rule, key+": stores the frame's headers", w.At(st), d, "the stored headers are "+d+", expected fromProto(frame.ResponseHeaders)")
				}
				for _, ts := range c.targetStores(fn, w.Roles().HeadersTargets) {
					c.check(reaches(ts, at) && !reaches(at, ts), rule, key+": grpc.Header targets filled before the signal", w.At(ts), "target store precedes close", "a grpc.Header target is written after the signal")
				}
				c.floor(rule, len(c.targetStores(fn, w.Roles().HeadersTargets)), 1, "grpc.Header target stores")
			}
		}
	}
	c.floor(rule, nClose, 2, "close sites of the headers signal (headers frame, finish)")
	c.floor(rule, nPub, 1, "publication of a received headers frame")
	_ = nSettle
	if h := w.methodFn(a.CS, "Header"); h != nil {
		lds := loadsOfField(h, hf)
		for _, ld := range lds {
			c.check(recvFromFieldDominates(ld, sig), rule, "Header(): read after the headers signal", w.At(ld), "load dominated by a receive from "+sig.String(), "Header() reads the headers without first receiving from the headers signal")
		}
		c.floor(rule, len(lds), 1, "reads of the headers field in Header()")
	}
}

// ruleStatusFlow (C02.1).
func ruleStatusFlow(c *Ctx, rule string) {
	c.rule(rule, "status value flow: the server's close_stream carries status.FromError(e).Proto() of exactly the error the finishing function received, which is the handler's returned error (or the panic status) via the deferred call in the dispatch function; the client passes status.FromProto(frame.Status).Err() and fromProto(frame.ResponseTrailers) of the received close_stream to its finishing function, which installs exactly that error")
	w := c.W
	a := w.Anchors()
	if !c.need(rule, "ServerFinish", a.ServerFinish) || !c.need(rule, "Dispatch", a.Dispatch) || !c.need(rule, "ClientAccept", a.ClientAccept) || !c.need(rule, "ClientFinish", a.ClientFinish) {
		return
	}
	// server emit
	n := 0
	for _, e := range c.emitSeq() {
		if e.Kind != "ServerToClient_CloseStream" || !w.ownedBy(e.Fn, a.ServerFinish) {
			continue
		}
		n++
		key := emitKey(w, e)
		errArg, ok := statusProtoOfError(e.Payload["CloseStream.Status"])
		good := ok && origin(errArg) == ssa.Value(a.ServerFinish.Params[1])
		how := "Status = status.FromError(err).Proto() with err the finishing function's parameter"
		if ok && !good {
			// ... or the error latched by the FIRST call of the finishing function (CAS(nil, {err}) then Load)
			if cas, fr, isL := w.latchedFinishErr(a.ServerFinish, errArg); isL {
				good = true
				how = "Status = status.FromError(first).Proto() with first the parameter latched once in " + fr.String() + " at " + w.At(cas)
			}
		}
		c.check(good, rule, key+": Status is the finishing error's status", w.At(e.Alloc), how, "close_stream Status is "+desc(e.Payload["CloseStream.Status"])+": the caller would not see exactly the status the handler returned (code, message and details)")
		tv := e.Payload["CloseStream.ResponseTrailers"]
		okT := false
		if call, isCall := origin(tv).(*ssa.Call); isCall {
			if w.isRoleCall(call, "toProto") {
				if fr, _, isF := loadedField(origin(call.Call.Args[0])); isF && fr.Type == a.SS.Obj().Name() && strings.Contains(strings.ToLower(fr.Field), "trailer") {
					okT = true
				}
			}
		}
		c.check(okT, rule, key+": trailers are the stream's accumulated trailers", w.At(e.Alloc), "ResponseTrailers = toProto(st.trailers)", "close_stream ResponseTrailers is "+desc(tv))
	}
	c.floor(rule, n, 1, "close_stream emit sites in the finishing function")
	// dispatch: handler error -> err cell -> deferred finish
	var errCell *ssa.Alloc
	var finCall ssa.CallInstruction
	for _, af := range append([]*ssa.Function{a.Dispatch}, a.Dispatch.AnonFuncs...) {
		allInstrs(af, func(in ssa.Instruction) {
			call, ok := in.(ssa.CallInstruction)
			if !ok || staticCallee(call) != a.ServerFinish {
				return
			}
			finCall = call
			// the variable itself, or what a private helper makes of it (`st.finishStream(handlerOutcome(err, panicked))`:
			// the variable, or a status)
			var cell *ssa.Alloc
			okLeaves := true
			for _, vc := range valueCases(call.Common().Args[1], 0) {
				lv := stripConv(vc.Val)
				if p, isP := lv.(*ssa.Parameter); isP {
					if b := crossParameter(p); b != nil {
						lv = stripConv(b)
					}
				}
				if u, ok := lv.(*ssa.UnOp); ok && u.Op == token.MUL {
					switch b := u.X.(type) {
					case *ssa.Alloc:
						cell = b
						continue
					case *ssa.FreeVar:
						if al, ok := freeVarBinding(b).(*ssa.Alloc); ok {
							cell = al
							continue
						}
					}
				}
				if lc, isCall := lv.(*ssa.Call); isCall && strings.HasPrefix(calleeName(lc), "google.golang.org/grpc/status.") {
					continue
				}
				okLeaves = false
			}
			if okLeaves && cell != nil {
				errCell = cell
			}
		})
	}
	if finCall == nil || errCell == nil {
		c.fail(rule, w.Short(a.Dispatch)+": finishing function receives the handler's error", w.Pos(a.Dispatch.Pos()), "cannot find the (deferred) call of the finishing function with the dispatch function's error variable")
	} else {
		// every handler invocation's error is stored into errCell
		nh := 0
		allInstrs(a.Dispatch, func(in ssa.Instruction) {
			call, ok := in.(*ssa.Call)
			if !ok || staticCallee(call) != nil || call.Call.IsInvoke() {
				return
			}
			fr, _, isF := loadedField(call.Call.Value)
			if !isF || fr.Field != "Handler" {
				return
			}
			nh++
			var errVal ssa.Value = call
			if tup, ok := call.Type().(*types.Tuple); ok {
				errVal = extractOf(call, tup.Len()-1)
			}
			stored := false
			if errVal != nil {
				// stored directly, or returned by the private helper whose result is stored (every leaf considered)
				for _, r := range *errCell.Referrers() {
					if st, ok := r.(*ssa.Store); ok && st.Addr == ssa.Value(errCell) {
						for _, vc := range valueCases(st.Val, 0) {
							if stripConv(vc.Val) == errVal {
								stored = true
							}
						}
					}
				}
			}
			c.check(stored, rule, w.Short(a.Dispatch)+": "+fr.Type+".Handler error recorded", w.At(call), "handler error stored in the variable passed to the finishing function", "the error returned by the "+fr.Type+" handler is not stored in the variable the deferred finish reads: the RPC would complete with a different status")
		})
		c.floor(rule, nh, 2, "handler invocations (unary, streaming)")
		// the only other stores into the cell are: SendMsg result (unary), status errors
		for _, r := range *errCell.Referrers() {
			st, ok := r.(*ssa.Store)
			if !ok || st.Addr != ssa.Value(errCell) {
				continue
			}
			okSrc := true
			v := stripConv(st.Val)
			for _, vc := range valueCases(st.Val, 0) {
				v = stripConv(vc.Val)
				okLeaf := isNilConst(v)
				if call, isCall := v.(*ssa.Call); isCall {
					n := calleeName(call)
					okLeaf = strings.HasPrefix(n, "google.golang.org/grpc/status.") || staticCallee(call) == a.ServerSend || (staticCallee(call) == nil && !call.Call.IsInvoke())
				}
				if _, isEx := v.(*ssa.Extract); isEx {
					okLeaf = true
				}
				if !okLeaf {
					okSrc = false
					break
				}
			}
			c.check(okSrc, rule, "error variable of "+w.Short(st.Parent())+": assigned from a handler, a send, or a status", w.At(st), desc(v), "the dispatch function's error variable is overwritten with "+desc(v))
		}
	}
	// client side
	var fins []*ssa.Call
	allInstrs(a.ClientAccept, func(in ssa.Instruction) {
		if call, ok := in.(*ssa.Call); ok && staticCallee(call) == a.ClientFinish {
			fins = append(fins, call)
		}
	})
	okClose := false
	for _, call := range fins {
		if len(call.Call.Args) < 3 {
			c.fail(rule, w.Short(a.ClientAccept)+": close_stream case passes the frame's status and trailers", w.At(call), "the finishing function is not called with (status, trailers): the trailers of the close_stream frame no longer travel with the outcome that wins (unrecognised shape)")
			continue
		}
		d1, d2 := desc(call.Call.Args[1]), desc(call.Call.Args[2])
		if strings.Contains(d1, "status.FromProto(") {
			r1, ch1 := fieldChain(firstArgOfInner(call.Call.Args[1], "google.golang.org/grpc/status.FromProto"))
			var r2 ssa.Value
			var ch2 []string
			if c2, ok := origin(call.Call.Args[2]).(*ssa.Call); ok && w.isRoleCall(c2, "fromProto") {
				r2, ch2 = fieldChain(c2.Call.Args[0])
			}
			good := len(ch1) == 2 && ch1[0] == "CloseStream" && ch1[1] == "Status" && len(ch2) == 2 && ch2[0] == "CloseStream" && ch2[1] == "ResponseTrailers" && r1 == r2 && strings.Contains(d1, ").Err(")
			c.check(good, rule, w.Short(a.ClientAccept)+": close_stream case passes the frame's status and trailers", w.At(call), "finish(status.FromProto(f.Status).Err(), fromProto(f.ResponseTrailers))", "the close_stream case calls the finishing function with ("+d1+", "+d2+")")
			okClose = okClose || good
		}
	}
	c.check(okClose, rule, w.Short(a.ClientAccept)+": close_stream case exists", w.Pos(a.ClientAccept.Pos()), "found", "no call of the finishing function with the received close_stream's status")
	// finishing function stores exactly its (mapped) error: see C07.2 for the mapping table
	c.checkFinishMapping(rule)
}

// firstArgOfInner: v = f(g(x)) ... find the call named `name` inside v's expression and return its first arg.
func firstArgOfInner(v ssa.Value, name string) ssa.Value {
	for i := 0; i < 6; i++ {
		call, ok := origin(v).(*ssa.Call)
		if !ok {
			if ex, isEx := origin(v).(*ssa.Extract); isEx {
				v = ex.Tuple
				continue
			}
			return nil
		}
		if calleeName(call) == name {
			return call.Call.Args[0]
		}
		if len(call.Call.Args) == 0 {
			return nil
		}
		v = call.Call.Args[0]
	}
	return nil
}

// statusProtoOfError: v == status.FromError(e)#0.Proto()  -> e
func statusProtoOfError(v ssa.Value) (ssa.Value, bool) {
	if v == nil {
		return nil, false
	}
	call, ok := origin(v).(*ssa.Call)
	if !ok || !strings.HasSuffix(calleeName(call), "status.Status).Proto") {
		return nil, false
	}
	ex, ok := origin(call.Call.Args[0]).(*ssa.Extract)
	if !ok || ex.Index != 0 {
		return nil, false
	}
	fe, ok := ex.Tuple.(*ssa.Call)
	if !ok || calleeName(fe) != "google.golang.org/grpc/status.FromError" {
		return nil, false
	}
	return fe.Call.Args[0], true
}

// checkFinishMapping (C07.2): nil -> io.EOF, DeadlineExceeded -> codes.DeadlineExceeded, Canceled -> codes.Canceled, else unchanged.
func (c *Ctx) checkFinishMapping(rule string) {
	w := c.W
	a := w.Anchors()
	fn := a.ClientFinish
	var cas *ssa.Call
	allInstrs(fn, func(in ssa.Instruction) {
		if call, ok := in.(*ssa.Call); ok && strings.HasSuffix(calleeName(call), ".CompareAndSwap") {
			if fr, _, ok := fieldOfAddr(call.Call.Args[0]); ok && fr == a.CSDone {
				cas = call
			}
		}
	})
	if cas == nil {
		c.fail(rule, "marker CAS", w.Pos(fn.Pos()), "not found")
		return
	}
	al, ok := cas.Call.Args[2].(*ssa.Alloc)
	if !ok {
		c.fail(rule, "marker value", w.At(cas), "the marker's new value is not a fresh holder")
		return
	}
	var ev ssa.Value
	for _, v := range storesInto(al) {
		ev = v
	}
	errP := fn.Params[1]
	type arm struct{ guard, val string }
	var arms []arm
	classify := func(v ssa.Value, facts []EdgeFact) {
		g := "else"
		for _, f := range facts {
			x, op, y, ok := cmpFact(f)
			if !ok || op != token.EQL || origin(x) != ssa.Value(errP) {
				continue
			}
			if isNilConst(y) {
				g = "nil"
			} else if u, ok := y.(*ssa.UnOp); ok {
				if gl, ok := u.X.(*ssa.Global); ok {
					g = gl.Pkg.Pkg.Name() + "." + gl.Name()
				}
			}
		}
		val := desc(v)
		if call, ok := stripConv(v).(*ssa.Call); ok && calleeName(call) == "google.golang.org/grpc/status.Error" {
			k, _ := constInt(call.Call.Args[0])
			msg := desc(call.Call.Args[1])
			if mc, isC := call.Call.Args[1].(*ssa.Call); isC && mc.Call.IsInvoke() && mc.Call.Method.Name() == "Error" && origin(mc.Call.Value) == ssa.Value(errP) {
				msg = "err.Error()"
			}
			val = fmt.Sprintf("status.Error(code %d, %s)", k, msg)
		}
		if origin(v) == ssa.Value(errP) {
			val = "unchanged"
		}
		arms = append(arms, arm{g, val})
	}
	if cases := valueCases(ev, 0); ev != nil && len(cases) > 1 {
		for _, vc := range cases {
			classify(vc.Val, vc.Facts)
		}
	} else if ev != nil {
		arms = append(arms, arm{"always", desc(ev)})
	}
	want := map[string]string{
		"nil":                      "*global:EOF",
		"context.DeadlineExceeded": "status.Error(code 4, err.Error())",
		"context.Canceled":         "status.Error(code 1, err.Error())",
		"else":                     "unchanged",
	}
	got := map[string]string{}
	for _, ar := range arms {
		got[ar.guard] = ar.val
	}
	for g, wv := range want {
		c.check(got[g] == wv, rule, "outcome mapping: "+g, w.At(cas), g+" -> "+got[g], "the finishing function maps "+g+" to "+got[g]+", expected "+wv+" (gRPC's context-error to status-code mapping; nil means a clean end of stream)")
	}
	for g := range got {
		if _, ok := want[g]; !ok {
			c.fail(rule, "outcome mapping: unexpected arm "+g, w.At(cas), "the error is rewritten under "+g+" to "+got[g])
		}
	}
}

// ruleMetadataAccumulation (C02.6).
func ruleMetadataAccumulation(c *Ctx, rule string) {
	c.rule(rule, "metadata accumulation and conversion: SetHeader/SendHeader/SetTrailer store metadata.Join(old, md); emitted headers/trailers are toProto of those fields; toProto and fromProto copy every key with its whole value slice (no filtering, slicing or key rewriting); new_stream carries toProto of the call's outgoing metadata plus every per-RPC credentials pair; the server installs fromProto(frame.RequestHeaders) unconditionally with metadata.NewIncomingContext")
	w := c.W
	a := w.Anchors()
	// Join stores
	nJoin := 0
	for _, fn := range w.methodsOf(a.SS) {
		for _, call := range callsNamed(fn, "google.golang.org/grpc/metadata.Join") {
			nJoin++
			args := call.Common().Args
			// variadic slice: new [2]MD; stores
			ok := false
			var dst FieldRef
			if cv, isCall := call.(*ssa.Call); isCall {
				for _, r := range *cv.Referrers() {
					if st, isSt := r.(*ssa.Store); isSt {
						if fr, _, isF := fieldOfAddr(st.Addr); isF {
							dst = fr
						}
					}
				}
			}
			if sl, isSl := args[0].(*ssa.Slice); isSl {
				if arr, isAl := sl.X.(*ssa.Alloc); isAl {
					var elems [2]ssa.Value
					for _, r := range *arr.Referrers() {
						if ia, isIA := r.(*ssa.IndexAddr); isIA {
							idx, _ := constInt(ia.Index)
							for _, r2 := range *ia.Referrers() {
								if st, isSt := r2.(*ssa.Store); isSt && idx < 2 {
									elems[idx] = st.Val
								}
							}
						}
					}
					if elems[0] != nil && elems[1] != nil {
						fr0, _, isF := loadedField(elems[0])
						_, isParam := stripConv(elems[1]).(*ssa.Parameter)
						if !isParam {
							// through a helper's parameter, or a variable captured by a function literal run under the lock
							_, isParam = origin(elems[1]).(*ssa.Parameter)
						}
						ok = isF && fr0 == dst && isParam
					}
				}
			}
			c.check(ok, rule, "metadata.Join in "+w.Short(fn), w.At(call), dst.String()+" = Join("+dst.String()+", md)", "the accumulated metadata is not Join(previous value of the same field, the parameter): earlier SetHeader/SetTrailer calls would be lost or mixed")
		}
	}
	c.floor(rule, nJoin, 2, "metadata.Join sites (headers, trailers)")
	// SetTrailer/SetHeader must not assign the field from the parameter directly
	for _, fn := range w.methodsOf(a.SS) {
		allInstrs(fn, func(in ssa.Instruction) {
			st, ok := in.(*ssa.Store)
			if !ok {
				return
			}
			fr, _, ok := fieldOfAddr(st.Addr)
			if !ok || fr.Type != a.SS.Obj().Name() {
				return
			}
			if _, isParam := stripConv(st.Val).(*ssa.Parameter); isParam && strings.HasSuffix(types.TypeString(st.Val.Type(), nil), "metadata.MD") {
				c.fail(rule, "direct assignment of metadata in "+w.Short(fn), w.At(st), fr.String()+" is overwritten with the parameter instead of being joined with the previous value")
			}
		})
	}
	// emitted headers
	n := 0
	for _, e := range c.emitSeq() {
		if e.Kind != "ServerToClient_ResponseHeaders" {
			continue
		}
		n++
		v := e.Payload["ResponseHeaders"]
		ok := false
		if call, isCall := origin(v).(*ssa.Call); isCall && w.isRoleCall(call, "toProto") {
			if fr, _, isF := loadedField(origin(call.Call.Args[0])); isF && fr.Type == a.SS.Obj().Name() && strings.Contains(strings.ToLower(fr.Field), "header") {
				ok = true
			}
		}
		c.check(ok, rule, emitKey(w, e)+": carries the accumulated headers", w.At(e.Alloc), desc(v), "response_headers carries "+desc(v)+", expected toProto(st.headers)")
	}
	c.floor(rule, n, 2, "response_headers emit sites")
	// converters
	for _, name := range []string{"toProto", "fromProto"} {
		fn := w.roleFunc(name)
		if fn == nil {
			c.fail(rule, "converter "+name, "-", "not found")
			continue
		}
		c.checkConverter(rule, fn)
	}
	// request side: new_stream
	for _, e := range c.emitSeq() {
		if e.Kind != "ClientToServer_NewStream" {
			continue
		}
		v := e.Payload["NewStream.RequestHeaders"]
		ok := false
		if call, isCall := origin(v).(*ssa.Call); isCall && w.isRoleCall(call, "toProto") {
			if ex, isEx := origin(call.Call.Args[0]).(*ssa.Extract); isEx {
				if ac, isC := ex.Tuple.(*ssa.Call); isC && staticCallee(ac) == a.Allocate {
					ok = true
				}
			}
		}
		c.check(ok, rule, emitKey(w, e)+": carries the metadata assembled at allocation", w.At(e.Alloc), desc(v), "new_stream RequestHeaders is "+desc(v)+", expected toProto(<metadata returned by the allocation function>)")
		// the method name is the one the application passed to Invoke / NewStream: an input of the stream-creation function
		// for which both exported entry points supply their own method-name parameter
		okName := false
		mv := e.Payload["NewStream.MethodName"]
		if inp := inputOf(a.NewStream, mv); inp != nil {
			okName = true
			nEntries := 0
			for _, en := range []*ssa.Function{w.methodFn(a.Ch, "Invoke"), w.methodFn(a.Ch, "NewStream")} {
				if en == nil {
					continue
				}
				for _, sv := range w.suppliedBy(a.NewStream, *inp, en, 0) {
					nEntries++
					p, isP := origin(sv).(*ssa.Parameter)
					if !isP || p.Parent() != en || types.TypeString(p.Type(), nil) != "string" {
						okName = false
					}
				}
			}
			if nEntries < 2 {
				okName = false
			}
		}
		c.check(okName, rule, emitKey(w, e)+": names the requested method", w.At(e.Alloc), desc(mv), "new_stream MethodName is "+desc(mv)+", not the method the caller asked for")
	}
	if a.Allocate != nil {
		fn := a.Allocate
		// md = FromOutgoingContext(ctx param)
		var src *ssa.Call
		allInstrs(fn, func(in ssa.Instruction) {
			if call, ok := in.(*ssa.Call); ok && calleeName(call) == "google.golang.org/grpc/metadata.FromOutgoingContext" {
				src = call
			}
		})
		if src == nil {
			c.fail(rule, w.Short(fn)+": outgoing metadata read", w.Pos(fn.Pos()), "the allocation function never reads the call context's outgoing metadata")
		} else {
			c.check(origin(src.Call.Args[0]) == ssa.Value(fn.Params[1]), rule, w.Short(fn)+": outgoing metadata of the caller's context", w.At(src), "FromOutgoingContext(ctx)", "outgoing metadata is read from "+desc(src.Call.Args[0])+", not the caller's context")
			// returned md derives from it
			okRet := false
			forEachReturnValue(fn, 1, func(v ssa.Value, at ssa.Instruction) {
				if isNilConst(v) {
					return
				}
				if derivesFrom(v, extractOf(src, 0), 0) {
					okRet = true
				} else {
					okRet = false
				}
			})
			c.check(okRet, rule, w.Short(fn)+": returns that metadata", w.At(src), "returned md is the outgoing metadata (or a fresh map when nil)", "the metadata returned for new_stream does not derive from the caller's outgoing metadata")
		}
		// credentials: every pair appended
		var grm *ssa.Call
		allInstrs(fn, func(in ssa.Instruction) {
			if call, ok := in.(*ssa.Call); ok && call.Call.IsInvoke() && call.Call.Method.Name() == "GetRequestMetadata" {
				grm = call
			}
		})
		if grm == nil {
			c.fail(rule, w.Short(fn)+": per-RPC credentials consulted", w.Pos(fn.Pos()), "GetRequestMetadata is never called: credentials are not attached")
		} else {
			c.check(origin(grm.Call.Args[0]) == ssa.Value(fn.Params[1]), rule, w.Short(fn)+": credentials get the caller's context", w.At(grm), "GetRequestMetadata(ctx, …)", "credentials are asked with "+desc(grm.Call.Args[0])+" instead of the caller's context")
			okApp := false
			allInstrs(fn, func(in ssa.Instruction) {
				call, ok := in.(*ssa.Call)
				if !ok {
					return
				}
				n := calleeName(call)
				if n != "(google.golang.org/grpc/metadata.MD).Append" && n != "(google.golang.org/grpc/metadata.MD).Set" {
					return
				}
				// key and value come from ranging over the credentials map; loop body unconditional
				k, isK := call.Call.Args[1].(*ssa.Extract)
				if !isK {
					return
				}
				nx, isN := k.Tuple.(*ssa.Next)
				if !isN {
					return
				}
				rg, isR := nx.Iter.(*ssa.Range)
				if !isR || origin(rg.X) != ssa.Value(extractOf(grm, 0)) {
					return
				}
				// value: variadic slice containing extract #2
				okApp = strings.Contains(desc(call.Call.Args[2]), "") && n == "(google.golang.org/grpc/metadata.MD).Append" && loopBodyUnconditional(nx, call)
			})
			c.check(okApp, rule, w.Short(fn)+": every credentials pair appended", w.At(grm), "for k, v := range creds { md.Append(k, v) }", "not every key/value returned by GetRequestMetadata is appended (filtered, Set instead of Append, or missing): the handler would not see exactly the request metadata the caller attached")
		}
	}
	// server installs the request metadata
	if a.Create != nil {
		fn := a.Create
		var nic *ssa.Call
		allInstrs(fn, func(in ssa.Instruction) {
			if call, ok := in.(*ssa.Call); ok && calleeName(call) == "google.golang.org/grpc/metadata.NewIncomingContext" {
				nic = call
			}
		})
		ins := tableInsert(fn, a.SvStreams)
		if nic == nil || ins == nil {
			c.fail(rule, w.Short(fn)+": request metadata installed", w.Pos(fn.Pos()), "metadata.NewIncomingContext is never called in the creation function")
		} else {
			d := desc(nic.Call.Args[1])
			c.check(w.isConvOfField(nic.Call.Args[1], "fromProto", "RequestHeaders"), rule, w.Short(fn)+": installs the frame's request headers", w.At(nic), d, "NewIncomingContext is given "+d+", expected fromProto(frame.RequestHeaders)")
			c.check(dominates(nic, ins), rule, w.Short(fn)+": installed unconditionally", w.At(nic), "dominates the table insert", "the request metadata is installed only on some paths: an RPC without metadata would inherit the tunnel-opening call's incoming metadata")
		}
	}
}

func loopBodyUnconditional(nx *ssa.Next, call ssa.Instruction) bool {
	// the call's block is the range body reached directly from the `ok` test
	b := call.Block()
	for _, p := range b.Preds {
		if p == nx.Block() {
			return true
		}
	}
	return false
}

// derivesFrom: v is src, or a phi/cell whose every incoming value is src, an already visited phi,
// or a fresh empty map literal (and at least one is src).
func derivesFrom(v, src ssa.Value, depth int) bool {
	if src == nil {
		return false
	}
	some := false
	ok := derivesFromRec(v, src, map[ssa.Value]bool{}, &some)
	return ok && some
}

func derivesFromRec(v, src ssa.Value, seen map[ssa.Value]bool, some *bool) bool {
	v = stripConv(v)
	if v == src || origin(v) == src {
		*some = true
		return true
	}
	if seen[v] {
		return true
	}
	seen[v] = true
	if _, isMk := v.(*ssa.MakeMap); isMk {
		return true
	}
	if p, isP := v.(*ssa.Parameter); isP {
		if arg := crossParameter(p); arg != nil {
			return derivesFromRec(arg, src, seen, some)
		}
	}
	if u, ok := v.(*ssa.UnOp); ok && u.Op == token.MUL {
		if a, ok := u.X.(*ssa.Alloc); ok {
			n := 0
			for _, r := range *a.Referrers() {
				if st, ok := r.(*ssa.Store); ok && st.Addr == ssa.Value(a) {
					n++
					if isNilConst(st.Val) {
						continue
					}
					if !derivesFromRec(st.Val, src, seen, some) {
						return false
					}
				}
			}
			return n > 0
		}
	}
	if alts, ok := altEdges(v); ok { // a phi, or the result of a private helper
		for _, e := range alts {
			if _, isPhi := v.(*ssa.Phi); !isPhi && isNilConst(e) {
				continue // what a helper returns together with an error
			}
			if !derivesFromRec(e, src, seen, some) {
				return false
			}
		}
		return true
	}
	return false
}

// checkConverter: the function ranges over its whole input and stores, under the same key, a value
// built from the same slice; no branch inside the loop body; nil-tolerant.
func (c *Ctx) checkConverter(rule string, fn *ssa.Function) {
	w := c.W
	name := w.Short(fn)
	var rg *ssa.Range
	var mu *ssa.MapUpdate
	nR, nM := 0, 0
	allInstrs(fn, func(in ssa.Instruction) {
		switch x := in.(type) {
		case *ssa.Range:
			rg = x
			nR++
		case *ssa.MapUpdate:
			mu = x
			nM++
		}
	})
	if nR != 1 || nM != 1 {
		c.fail(rule, name+": one range, one map store", w.Pos(fn.Pos()), fmt.Sprintf("%d range loops, %d map stores: unrecognised converter shape", nR, nM))
		return
	}
	// range source: the parameter (toProto) or its map field (fromProto)
	src := origin(rg.X)
	okSrc := src == ssa.Value(fn.Params[0])
	if !okSrc {
		if r, ch := fieldChain(rg.X); len(ch) == 1 && r == ssa.Value(fn.Params[0]) {
			okSrc = true
		}
	}
	c.check(okSrc, rule, name+": ranges over its whole input", w.At(rg), "range "+desc(rg.X), "the converter ranges over "+desc(rg.X)+", not its input")
	// key = extract #1 of next; value from extract #2
	k, isK := mu.Key.(*ssa.Extract)
	okKey := isK && k.Index == 1
	var nx *ssa.Next
	if okKey {
		nx, _ = k.Tuple.(*ssa.Next)
		okKey = nx != nil && nx.Iter == ssa.Value(rg)
	}
	c.check(okKey, rule, name+": same key", w.At(mu), "vals[k] with k the ranged key", "the converted entry is stored under "+desc(mu.Key)+", not the original key: keys would be rewritten or merged")
	okVal := false
	valDesc := desc(mu.Value)
	if nx != nil {
		v2 := extractOf2(nx, 2)
		stored, elem := mu.Value, v2
		// out[k] = conv(v) with conv a function literal handed to a shared loop helper: what the literal makes of its
		// parameter
		if call, isCall := stripConv(mu.Value).(*ssa.Call); isCall && staticCallee(call) == nil && !call.Call.IsInvoke() && len(call.Call.Args) == 1 && call.Call.Args[0] == v2 {
			if lit := funcValueTarget(origin(call.Call.Value)); lit != nil && len(lit.Params) == 1 && len(lit.FreeVars) == 0 {
				if rets := returnsOf(lit); len(rets) == 1 && len(rets[0].Results) == 1 {
					stored, elem = rets[0].Results[0], lit.Params[0]
				}
			}
		}
		switch x := stripConv(stored).(type) {
		case *ssa.Alloc: // &Metadata_Values{Val: v}
			for _, sv := range storesInto(x) {
				if sv == elem {
					okVal = true
				}
			}
		default:
			// v.Val
			if r, ch := fieldChain(stored); len(ch) == 1 && r == elem {
				okVal = true
			}
		}
	}
	c.check(okVal, rule, name+": whole value slice", w.At(mu), valDesc, "the stored value is "+valDesc+", not the complete value list of that key: multi-valued keys would be truncated or altered")
	if nx != nil {
		c.check(loopBodyUnconditional(nx, mu), rule, name+": no filtering", w.At(mu), "the store is the unconditional loop body", "the map store is conditional inside the loop: some keys are dropped")
	}
	// result contains the built map
	okRet := false
	forEachReturnValue(fn, 0, func(v ssa.Value, at ssa.Instruction) {
		if isNilConst(v) {
			return
		}
		if origin(v) == origin(mu.Map) {
			okRet = true
		}
		if al, ok := stripConv(v).(*ssa.Alloc); ok {
			for _, sv := range storesInto(al) {
				if origin(sv) == origin(mu.Map) {
					okRet = true
				}
			}
		}
	})
	c.check(okRet, rule, name+": returns the converted map", w.Pos(fn.Pos()), "returned", "the converter does not return the map it filled")
}

func extractOf2(v ssa.Value, idx int) ssa.Value {
	for _, r := range *v.Referrers() {
		if ex, ok := r.(*ssa.Extract); ok && ex.Index == idx {
			return ex
		}
	}
	return nil
}

// nonNilMap: A8 for maps.
func nonNilMap(v ssa.Value, at ssa.Instruction, depth int) (bool, string) {
	if depth > 8 {
		return false, "too deep"
	}
	v = stripConv(v)
	switch x := v.(type) {
	case *ssa.MakeMap:
		return true, "map literal / make"
	case *ssa.Call:
		switch calleeName(x) {
		case "(google.golang.org/grpc/metadata.MD).Copy":
			// Copy of nil MD returns an empty non-nil map in current grpc-go; treat as non-nil
			return true, "MD.Copy"
		case "google.golang.org/grpc/metadata.Join", "google.golang.org/grpc/metadata.Pairs", "google.golang.org/grpc/metadata.New":
			return true, calleeName(x)
		}
		return false, "result of " + calleeName(x) + " may be nil"
	case *ssa.Extract:
		if call, ok := x.Tuple.(*ssa.Call); ok {
			return false, "result of " + calleeName(call) + " may be nil"
		}
	case *ssa.Phi:
		for i, e := range x.Edges {
			if e == ssa.Value(x) {
				continue
			}
			pred := x.Block().Preds[i]
			ok, why := nonNilMap(e, pred.Instrs[len(pred.Instrs)-1], depth+1)
			if ok {
				continue
			}
			// edge guarded by e != nil ?
			guarded := false
			facts := factsAt(pred.Instrs[len(pred.Instrs)-1])
			if ef, has := edgeFact(pred, x.Block()); has {
				facts = append(facts, ef)
			}
			for _, f := range facts {
				if a, op, b, isCmp := cmpFact(f); isCmp && op == token.NEQ && ((stripConv(a) == stripConv(e) && isNilConst(b)) || (stripConv(b) == stripConv(e) && isNilConst(a))) {
					guarded = true
				}
			}
			if !guarded {
				return false, why
			}
		}
		return true, "every incoming value is non-nil"
	}
	if at != nil {
		for _, f := range factsAt(at) {
			if a, op, b, ok := cmpFact(f); ok && op == token.NEQ && ((stripConv(a) == v && isNilConst(b)) || (stripConv(b) == v && isNilConst(a))) {
				return true, "guarded by != nil"
			}
		}
	}
	return false, desc(v) + " is not provably non-nil"
}

// ruleNilMapWrite (C02.7).
func ruleNilMapWrite(c *Ctx, rule string) {
	c.rule(rule, "no map that may be nil reaches a map-writing operation (MD.Append/MD.Set or an index assignment): results of metadata.FromOutgoingContext / FromIncomingContext may be nil")
	w := c.W
	n := 0
	for _, fn := range w.Funcs {
		if isGenericTemplate(fn) {
			continue
		}
		allInstrs(fn, func(in ssa.Instruction) {
			var m ssa.Value
			what := ""
			switch x := in.(type) {
			case *ssa.MapUpdate:
				m, what = x.Map, "index assignment"
			case *ssa.Call:
				nme := calleeName(x)
				if nme == "(google.golang.org/grpc/metadata.MD).Append" || nme == "(google.golang.org/grpc/metadata.MD).Set" {
					m, what = x.Call.Args[0], nme
				}
			}
			if m == nil {
				return
			}
			n++
			key := what + " in " + w.Short(fn)
			// a field-held map is judged by its initialisation discipline (C15); locals/params by A8
			if _, _, isField := loadedField(m); isField {
				c.ok(rule, key, w.At(in), "map held in a struct field (initialised at construction)")
				return
			}
			ok, why := nonNilMap(m, in, 0)
			c.check(ok, rule, key, w.At(in), why, "the map written here may be nil ("+why+"): panic 'assignment to entry in nil map' on that input")
		})
	}
	c.floor(rule, n, 6, "map-writing operations")
}

// ruleStringTaint (C02.8 / C03.6).
func ruleStringTaint(c *Ctx, rule string) {
	c.rule(rule, "application-controlled metadata values (which gRPC allows to be arbitrary bytes for -bin keys) must not reach a proto3 string field of an emitted frame without passing a UTF-8 validator or encoder")
	w := c.W
	fn := w.roleFunc("toProto")
	if fn == nil {
		c.fail(rule, "metadata converter", "-", "toProto not found")
		return
	}
	validated := false
	allInstrs(fn, func(in ssa.Instruction) {
		if call, ok := in.(ssa.CallInstruction); ok {
			n := calleeName(call)
			if strings.HasPrefix(n, "unicode/utf8.Valid") || n == "strings.ToValidUTF8" || strings.Contains(n, "encoding/base64") {
				validated = true
			}
		}
	})
	key := "toProto: metadata value -> tunnelpb.Metadata_Values.Val (proto3 string) without UTF-8 validation or encoding"
	c.check(validated, rule, key, w.Pos(fn.Pos()), "values are validated or encoded", "metadata values flow unmodified into a proto3 string field; a non-UTF-8 value (legal for '-bin' keys) makes the frame unmarshalable, grpc-go fails the carrier stream and the whole tunnel ends (every RPC on it is cancelled)")
	n := len(w.callSitesOf(fn))
	c.floor(rule, n, 2, "callers of the metadata converter (request metadata, response metadata)")
}

// ---------- C07 ----------

// ruleWatcher (C07.1).
func ruleWatcher(c *Ctx, rule string) {
	c.rule(rule, "on the success path of client stream creation a watcher goroutine is spawned whose body is: wait for the stream's own context, then call the cancel-stream method with that same context's error")
	w := c.W
	a := w.Anchors()
	if !c.need(rule, "NewStream", a.NewStream) || !c.need(rule, "CancelStream", a.CancelStream) {
		return
	}
	fn := a.NewStream
	var spawn *ssa.Go
	var body *ssa.Function
	allInstrs(fn, func(in ssa.Instruction) {
		g, ok := in.(*ssa.Go)
		if !ok {
			return
		}
		for _, f := range w.rootCalleesThroughWrappers(g) {
			for _, call := range callsIn(f, func(ci ssa.CallInstruction) bool { return staticCallee(ci) == a.CancelStream }) {
				_ = call
				spawn, body = g, f
			}
		}
	})
	if spawn == nil {
		c.fail(rule, w.Short(fn)+": watcher spawned", w.Pos(fn.Pos()), "no goroutine that calls the cancel-stream method is spawned by the stream-creation function: cancelling the RPC's context would not end the RPC")
		return
	}
	// every successful return is preceded by the spawn
	okAll := true
	for _, ret := range returnsOf(fn) {
		t := returnTuple(ret)
		if len(t) == 2 && t[1] != nil && isNilConst(t[1]) {
			if !dominates(spawn, ret) {
				okAll = false
			}
		}
	}
	c.check(okAll, rule, w.Short(fn)+": every successfully created stream is watched", w.At(spawn), "spawn dominates every nil-error return", "a stream can be returned to the caller without its context watcher")
	// body: <-X.Done(); cancelStream(X.Err()) with X the stream's ctx field of the created stream
	var wait *ssa.UnOp
	allInstrs(body, func(in ssa.Instruction) {
		if u, ok := in.(*ssa.UnOp); ok && u.Op == token.ARROW {
			wait = u
		}
	})
	call := callsIn(body, func(ci ssa.CallInstruction) bool { return staticCallee(ci) == a.CancelStream })[0]
	if wait == nil {
		c.fail(rule, w.Short(body)+": waits for the context", w.Pos(body.Pos()), "the watcher does not wait on a Done() channel")
		return
	}
	ctxOf := func(v ssa.Value, method string) ssa.Value {
		cl, ok := origin(v).(*ssa.Call)
		if !ok || !cl.Call.IsInvoke() || cl.Call.Method.Name() != method {
			return nil
		}
		return cl.Call.Value
	}
	c1, c2 := ctxOf(wait.X, "Done"), ctxOf(call.Common().Args[1], "Err")
	f1, b1, ok1 := loadedFieldOrNil(c1)
	f2, b2, ok2 := loadedFieldOrNil(c2)
	good := ok1 && ok2 && f1 == f2 && f1.Type == a.CS.Obj().Name() && origin(b1) == origin(b2) && origin(b1) == origin(call.Common().Args[0])
	c.check(good && dominates(wait, call), rule, w.Short(body)+": cancels with the error of the context it waited for", w.At(call), "<-str.ctx.Done(); str.cancelStream(str.ctx.Err())", "the watcher waits on "+desc(wait.X)+" but cancels with "+desc(call.Common().Args[1])+": when the stream's context ends for a reason the other context does not know (tunnel closed, stream finished) the RPC completes with a nil error, i.e. a clean end of stream")
}

func loadedFieldOrNil(v ssa.Value) (FieldRef, ssa.Value, bool) {
	if v == nil {
		return FieldRef{}, nil, false
	}
	return loadedField(v)
}

// ruleServerCancelPath (C07.4, C07.7).
func ruleServerCancel(c *Ctx, rule4, rule7 string) {
	c.rule(rule4, "the server's cancel case reaches the stream's context cancel on every path")
	c.rule(rule7, "cancel before lock: in the server finishing function the stream context is cancelled before the write mutex is acquired, so a handler blocked on its flow-control window (holding that mutex) is released instead of deadlocking the receive loop")
	w := c.W
	a := w.Anchors()
	if !c.need(rule4, "ServerAccept", a.ServerAccept) || !c.need(rule7, "ServerFinish", a.ServerFinish) {
		return
	}
	fin := a.ServerFinish
	// the stream's cancel: dynamic call of a context.CancelFunc field of SS
	isCancelNow := func(in ssa.Instruction) bool {
		if _, isDefer := in.(*ssa.Defer); isDefer {
			return false // a deferred cancel runs at function exit, i.e. after the lock was taken
		}
		return isCancelFieldCall(in, a.SS.Obj().Name())
	}
	isCancel := func(in ssa.Instruction) bool {
		ci, ok := in.(ssa.CallInstruction)
		if !ok || staticCallee(ci) != nil || ci.Common().IsInvoke() {
			return false
		}
		if !isCancelFunc(ci.Common().Value.Type()) {
			return false
		}
		fr, _, ok := loadedField(ci.Common().Value)
		return ok && fr.Type == a.SS.Obj().Name()
	}
	var cancels []ssa.Instruction
	allInstrs(fin, func(in ssa.Instruction) {
		if isCancel(in) {
			cancels = append(cancels, in)
		}
	})
	c.check(len(cancels) >= 1 && pathAvoiding(fin, nil, isExit, isCancel) == nil, rule4, w.Short(fin)+": cancels the stream context on every path", w.Pos(fin.Pos()), "every path calls st.cancel()", "a path through the server finishing function does not cancel the stream's context: the handler's blocked reads and writes are not released")
	// cancel case in accept
	var cancelArm *ssa.Call
	allInstrs(a.ServerAccept, func(in ssa.Instruction) {
		call, ok := in.(*ssa.Call)
		if !ok || staticCallee(call) != fin {
			return
		}
		for _, f := range boolFactsAt(call) {
			if ex, ok := f.V.(*ssa.Extract); ok && ex.Index == 1 && f.True {
				if ta, ok := ex.Tuple.(*ssa.TypeAssert); ok {
					if k, _ := w.pbNamed(ta.AssertedType); k == "ClientToServer_Cancel" {
						cancelArm = call
					}
				}
			}
		}
	})
	if cancelArm == nil {
		c.fail(rule4, w.Short(a.ServerAccept)+": cancel frame finishes the stream", w.Pos(a.ServerAccept.Pos()), "the cancel case does not call the finishing function: the handler's context is never cancelled when the caller cancels")
	} else {
		d := desc(cancelArm.Call.Args[1])
		c.check(d == "*global:Canceled", rule4, w.Short(a.ServerAccept)+": cancel frame finishes the stream with Canceled", w.At(cancelArm), "finish(context.Canceled)", "the cancel case finishes the stream with "+d)
	}
	// C07.7
	lf := w.Locks()
	var firstLock ssa.Instruction
	for _, b := range fin.Blocks {
		for _, in := range b.Instrs {
			if ci, ok := in.(*ssa.Call); ok {
				if op, ok := lockOpOf(ci); ok && op.kind == "lock" && strings.HasPrefix(op.id, a.SS.Obj().Name()+".") && firstLock == nil {
					firstLock = in
				}
			}
		}
	}
	if firstLock == nil {
		c.ok(rule7, w.Short(fin)+": cancel precedes the write mutex", w.Pos(fin.Pos()), "no stream mutex acquired")
	} else {
		okOrder := pathAvoiding(fin, nil, func(in ssa.Instruction) bool { return in == firstLock }, isCancelNow) == nil
		c.check(okOrder, rule7, w.Short(fin)+": cancel precedes the write mutex", w.At(firstLock), "every path to the Lock passes st.cancel()", "the server finishing function acquires the stream's write mutex before cancelling the stream context: when it runs on the receive loop (client cancel, bad frame, window overrun) while the handler holds that mutex blocked on its flow-control window, the loop waits for the handler and the handler waits for the loop (tunnel deadlock)")
	}
	// every callee invoked before the cancel must not take the write mutex either
	if len(cancels) > 0 {
		for _, b := range fin.Blocks {
			for _, in := range b.Instrs {
				if in == cancels[0] {
					goto done
				}
				if ci, ok := in.(*ssa.Call); ok {
					for _, f := range w.rootCalleesThroughWrappers(ci) {
						for l := range lf.EntryMay[f] {
							_ = l
						}
						for _, e := range w.directEffects(f).Effects {
							if e.Kind == "lock" && strings.HasPrefix(e.Detail, a.SS.Obj().Name()+".write") {
								c.fail(rule7, w.Short(fin)+": callee before cancel takes the write mutex", w.At(in), w.Short(f)+" acquires "+e.Detail+" before the stream context is cancelled")
							}
						}
					}
				}
			}
		}
	done:
	}
}

// latchedFinishErr: v is the error of the FIRST call of the finishing function. Accepted idioms:
//
//	A: F.CompareAndSwap(nil, &holder{err}); v = F.Load().<err>
//	B: h := &holder{err}; if !F.CompareAndSwap(nil, h) { h = F.Load() }; v = h.<err>
//	C: once.Do(func() { st.E = err }); v = st.E          (E written nowhere else)
//
// with F an atomic pointer field / once a sync.Once field of the receiver and err the function's error parameter.
// Returns the latching instruction (the CAS or the Do call).
func (w *World) latchedFinishErr(fin *ssa.Function, v ssa.Value) (ssa.Instruction, FieldRef, bool) {
	ld, ok := origin(v).(*ssa.UnOp)
	if !ok || ld.Op != token.MUL {
		return nil, FieldRef{}, false
	}
	fa, ok := ld.X.(*ssa.FieldAddr)
	if !ok {
		return nil, FieldRef{}, false
	}
	// the CAS calls of fin that latch the parameter
	type casInfo struct {
		call  *ssa.Call
		field FieldRef
		alloc *ssa.Alloc
	}
	var cass []casInfo
	allInstrs(fin, func(in ssa.Instruction) {
		cas, isC := in.(*ssa.Call)
		if !isC || !isAtomicPointerMethod(cas, "CompareAndSwap") || len(cas.Call.Args) != 3 || !isNilConst(cas.Call.Args[1]) {
			return
		}
		fr, _, ok2 := fieldOfAddr(cas.Call.Args[0])
		if !ok2 {
			return
		}
		al, isA := origin(cas.Call.Args[2]).(*ssa.Alloc)
		if !isA {
			return
		}
		holdsParam := false
		for _, r := range *al.Referrers() {
			if fad, isF := r.(*ssa.FieldAddr); isF {
				for _, r2 := range *fad.Referrers() {
					if st, isS := r2.(*ssa.Store); isS && st.Addr == ssa.Value(fad) && len(fin.Params) > 1 && paramAtEntry(fin, st.Val, st) && dominates(st, cas) {
						holdsParam = true
					}
				}
			}
		}
		if holdsParam {
			cass = append(cass, casInfo{cas, fr, al})
		}
	})
	isLoadOf := func(x ssa.Value, ci casInfo) bool {
		load, ok := x.(*ssa.Call)
		if !ok || !isAtomicPointerMethod(load, "Load") || len(load.Call.Args) < 1 || regionRoot(load.Parent()) != fin {
			return false
		}
		fr, _, ok := fieldOfAddr(load.Call.Args[0])
		return ok && fr == ci.field && dominates(ci.call, load)
	}
	for _, ci := range cass {
		// A
		if isLoadOf(fa.X, ci) {
			return ci.call, ci.field, true
		}
		// B
		if phi, isPhi := fa.X.(*ssa.Phi); isPhi {
			good := len(phi.Edges) > 0
			for i, e := range phi.Edges {
				pred := phi.Block().Preds[i]
				switch {
				case isLoadOf(e, ci):
				case e == ssa.Value(ci.alloc):
					// only on the edge where the compare-and-swap succeeded
					okEdge := false
					facts := []EdgeFact{}
					if ef, has := edgeFact(pred, phi.Block()); has {
						facts = append(facts, ef)
					}
					facts = append(facts, factsAt(pred.Instrs[len(pred.Instrs)-1])...)
					for _, f := range facts {
						if origin(f.Cond) == ssa.Value(ci.call) && f.True {
							okEdge = true
						}
					}
					if !okEdge {
						good = false
					}
				default:
					good = false
				}
			}
			if good {
				return ci.call, ci.field, true
			}
		}
	}
	// C: sync.Once
	fr, base, isF := fieldOfAddr(fa)
	if !isF || len(fin.Params) == 0 || origin(base) != ssa.Value(fin.Params[0]) {
		return nil, FieldRef{}, false
	}
	var do ssa.Instruction
	var body *ssa.Function
	allInstrs(fin, func(in ssa.Instruction) {
		call, isC := in.(*ssa.Call)
		if !isC || calleeName(call) != "(*sync.Once).Do" || len(call.Call.Args) != 2 || !dominates(call, ld) {
			return
		}
		mc, isM := call.Call.Args[1].(*ssa.MakeClosure)
		if !isM {
			return
		}
		cf := mc.Fn.(*ssa.Function)
		allInstrs(cf, func(x ssa.Instruction) {
			st, isS := x.(*ssa.Store)
			if !isS {
				return
			}
			if f2, _, ok2 := fieldOfAddr(st.Addr); ok2 && f2 == fr {
				if p, isP := origin(st.Val).(*ssa.Parameter); isP && len(fin.Params) > 1 && p == fin.Params[1] {
					do, body = call, cf
				}
				// the parameter captured by reference (it is reassigned after the latch): the only store to its
				// cell that can have happened before the Do call is the initial one
				if u, isU := stripConv(st.Val).(*ssa.UnOp); isU && u.Op == token.MUL {
					if fv, isFV := u.X.(*ssa.FreeVar); isFV {
						if cell, isCell := freeVarBinding(fv).(*ssa.Alloc); isCell && len(fin.Params) > 1 {
							n, good := 0, false
							for _, r := range *cell.Referrers() {
								if cs, isCS := r.(*ssa.Store); isCS && cs.Addr == ssa.Value(cell) {
									if dominates(call, cs) && !reaches(cs, call) {
										continue // strictly after the Do call
									}
									n++
									good = stripConv(cs.Val) == ssa.Value(fin.Params[1]) && dominates(cs, call)
								}
							}
							if n == 1 && good {
								do, body = call, cf
							}
						}
					}
				}
			}
		})
	})
	if do == nil {
		return nil, FieldRef{}, false
	}
	for _, fn := range w.Funcs {
		if fn == body {
			continue
		}
		other := false
		allInstrs(fn, func(x ssa.Instruction) {
			if st, isS := x.(*ssa.Store); isS {
				if f2, _, ok2 := fieldOfAddr(st.Addr); ok2 && f2 == fr {
					other = true
				}
			}
		})
		if other {
			return nil, FieldRef{}, false
		}
	}
	return do, fr, true
}

// paramAtEntry: v, read at `at`, is the finishing function's error parameter as passed by the caller.
func paramAtEntry(fin *ssa.Function, v ssa.Value, at ssa.Instruction) bool {
	v = stripConv(v)
	if v == ssa.Value(fin.Params[1]) {
		return true
	}
	// the parameter of a private helper of fin that receives fin's error parameter unchanged
	if p, isP := v.(*ssa.Parameter); isP && p.Parent() != fin && regionRoot(p.Parent()) == fin {
		if arg := crossParameter(p); arg != nil {
			if call := inlinedInto(p.Parent()); call != nil {
				return paramAtEntry(fin, arg, call)
			}
		}
	}
	// spilled parameter (reassigned later): the only store dominating `at` is the initial one
	if u, ok := v.(*ssa.UnOp); ok && u.Op == token.MUL {
		if cell, ok := u.X.(*ssa.Alloc); ok {
			var doms []*ssa.Store
			for _, r := range *cell.Referrers() {
				if st, ok := r.(*ssa.Store); ok && st.Addr == ssa.Value(cell) && st.Parent() == fin && dominates(st, u) {
					doms = append(doms, st)
				}
			}
			return len(doms) == 1 && stripConv(doms[0].Val) == ssa.Value(fin.Params[1])
		}
	}
	return false
}

func isAtomicPointerMethod(call *ssa.Call, method string) bool {
	n := calleeName(call)
	return strings.HasPrefix(n, "(*sync/atomic.Pointer[") && strings.HasSuffix(n, ")."+method)
}

// ruleOutcomeLatched (C06.9 / C02.1b): the outcome the server reports is that of the FIRST finishing call.
func ruleOutcomeLatched(c *Ctx, rule string) {
	c.rule(rule, "first cause wins: the server finishing function cancels the stream context before it can take the write mutex (rule 'cancel before lock'), and that cancel makes a handler blocked in SendMsg/RecvMsg return a context error and call the finishing function itself; so the status written to close_stream must be latched (compare-and-swap from nil) before the cancel, not taken from whichever call reaches the mutex first")
	w := c.W
	a := w.Anchors()
	if !c.need(rule, "ServerFinish", a.ServerFinish) {
		return
	}
	fin := a.ServerFinish
	var cancels []ssa.Instruction
	allInstrs(fin, func(in ssa.Instruction) {
		if _, isDefer := in.(*ssa.Defer); isDefer {
			return
		}
		if isCancelFieldCall(in, a.SS.Obj().Name()) {
			cancels = append(cancels, in)
		}
	})
	n := 0
	for _, e := range c.emitSeq() {
		if e.Kind != "ServerToClient_CloseStream" || !w.ownedBy(e.Fn, fin) {
			continue
		}
		n++
		key := emitKey(w, e) + ": status is the first finishing call's"
		errArg, ok := statusProtoOfError(e.Payload["CloseStream.Status"])
		if !ok {
			c.fail(rule, key, w.At(e.Alloc), "close_stream Status is "+desc(e.Payload["CloseStream.Status"])+", not the status of an error")
			continue
		}
		if len(cancels) == 0 {
			c.ok(rule, key, w.At(e.Alloc), "the context is not cancelled before the outcome is committed (no early cancel in the finishing function)")
			continue
		}
		cas, fr, isL := w.latchedFinishErr(fin, errArg)
		good := isL
		if isL {
			for _, cn := range cancels {
				if !dominates(cas, cn) {
					good = false
				}
			}
		}
		msg := "the finishing function cancels the stream context (" + w.At(cancels[0]) + ") and only then competes for the write mutex; the status it sends is its own parameter (" + desc(errArg) + "). A handler parked in SendMsg waiting for flow-control credit holds that mutex, wakes on the cancel, returns the context error and calls the finishing function itself, reaching the mutex first: the RPC that the receive loop failed (window overrun: ResourceExhausted; cancel frame: Canceled) is reported as Unknown 'context canceled'"
		if isL {
			msg = "the status is latched in " + fr.String() + " but not before every early cancel of the stream context"
		}
		c.check(good, rule, key, w.At(e.Alloc), "latched once in "+fr.String()+" ("+posOfInstr(w, cas)+") before the context is cancelled", msg)
	}
	c.floor(rule, n, 1, "close_stream emit sites in the finishing function")
}

func posOfInstr(w *World, in ssa.Instruction) string {
	if in == nil || reflect.ValueOf(in).IsNil() {
		return "-"
	}
	return w.At(in)
}
