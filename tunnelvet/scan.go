package main

// scan.go: development aid for mutation sweeps (tools/sweep.py): evaluates every registered property on one tree in one
// process (one load) and prints the rules that report a violation other than a listed known finding. It writes no evidence
// and is not part of any registered check.

import (
	"flag"
	"fmt"
	"path/filepath"
	"runtime/debug"
	"sort"
	"strings"
)

func scanCmd(args []string) int {
	fs := flag.NewFlagSet("scan", flag.ExitOnError)
	repo := fs.String("repo", "/repo", "")
	verif := fs.String("verif", "/verif", "")
	fs.Parse(args)
	w, err := loadWorld(*repo, "", "")
	if err != nil {
		fmt.Println("LOADERROR", strings.ReplaceAll(err.Error(), "\n", " | "))
		return 2
	}
	known, _ := loadKnown(filepath.Join(*verif, "known_findings.json"))
	var ids []string
	for id := range props {
		ids = append(ids, id)
	}
	sort.Strings(ids)
	fired := map[string]bool{}
	for _, prop := range ids {
		ctx := newCtx(w, prop)
		func() {
			defer func() {
				if r := recover(); r != nil {
					_ = debug.Stack()
					fired[prop+".internal"] = true
				}
			}()
			crossWorld, paramBindings = nil, nil
			w.Anchors()
			w.Roles()
			crossWorld = w
			props[prop].Run(ctx)
		}()
		for _, o := range ctx.Obls {
			if o.Status != "violated" {
				continue
			}
			isKnown := false
			for _, k := range known {
				if k.Status == "known" && k.Property == prop && k.Rule == o.Rule && k.Key == o.Key {
					isKnown = true
				}
			}
			if !isKnown {
				fired[o.Rule] = true
			}
		}
	}
	var out []string
	for r := range fired {
		out = append(out, r)
	}
	sort.Strings(out)
	fmt.Println("FIRED", strings.Join(out, " "))
	if len(out) > 0 {
		return 1
	}
	return 0
}
