package main

func init() {
	register("C13", &propDef{
		Run: func(c *Ctx) {
			ruleFrameKindFloor(c, "C13.0")
			ruleEmitIDs(c, "C13.1")
			ruleSettingsEmit(c, "C13.2")
			ruleNegotiationSymmetry(c, "C13.2b")
			ruleEnvelopeShape(c, "C13.3")
			ruleChunkAccounting(c, "C13.3b")
			ruleReserveBeforeSend(c, "C13.3c")
			ruleConstants(c, "C13.3d")
			ruleContiguity(c, "C13.4")
			ruleHeadersOnce(c, "C13.5")
			ruleHeadersBeforeData(c, "C13.5b")
			ruleHalfCloseOnce(c, "C13.6")
			ruleCancelOnce(c, "C13.7")
			ruleCloseOnce(c, "C13.8")
			ruleRejectClose(c, "C13.9")
			ruleNoDataAfterHalfClose(c, "C13.10")
			ruleClientIDs(c, "C13.11a", "C13.11b", "C13.11")
			ruleRevisionZeroFrames(c, "C13.12")
			ruleNothingAfterCloseDecision(c, "C13.13")
			ruleNoSendAfterFailedSend(c, "C13.14")
		},
		Explain:    "Static structural necessary conditions of protocol conformance, decided on the emit-site table of the current tree (every frame literal that reaches a carrier send): ids, settings guard, envelope/continuation shape, contiguity under a per-stream mutex, once-guards per frame kind, exactly-one close. All CFG paths and all call sites; no input or schedule bound. It decides the shape of the emitting code, not the bytes on the wire.",
		Assume:     []string{"lock identity is struct type + field", "the generated tunnelpb marshalling code is correct", "applications obey gRPC's one-sender-per-direction rule"},
		NotDecided: []string{"that settings is the first frame on the wire when the peer is not conforming (it is sent from a goroutine)", "conformance of bytes produced by generated code", "run-time frame counts"},
	})
}
