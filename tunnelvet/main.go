package main

import (
	"flag"
	"fmt"
	"os"
	"sort"
	"strings"

	"golang.org/x/tools/go/ssa"
)

func main() {
	if len(os.Args) < 2 {
		fmt.Fprintln(os.Stderr, "usage: tunnelvet check|dump|explain ...")
		os.Exit(2)
	}
	switch os.Args[1] {
	case "dump":
		dumpCmd(os.Args[2:])
	case "check":
		os.Exit(checkCmd(os.Args[2:]))
	case "list":
		var ids []string
		for id := range props {
			ids = append(ids, id)
		}
		sort.Strings(ids)
		fmt.Println(strings.Join(ids, "\n"))
	case "selftest":
		os.Exit(selftestCmd(os.Args[2:]))
	case "scan":
		os.Exit(scanCmd(os.Args[2:]))
	case "mutgen":
		os.Exit(mutgenCmd(os.Args[2:]))
	default:
		fmt.Fprintln(os.Stderr, "unknown subcommand", os.Args[1])
		os.Exit(2)
	}
}

func dumpCmd(args []string) {
	fs := flag.NewFlagSet("dump", flag.ExitOnError)
	repo := fs.String("repo", "/repo", "")
	what := fs.String("what", "funcs", "funcs|emit|spawns|fields|locks|effects|order|entry")
	fs.Parse(args)
	w, err := loadWorld(*repo, "", "")
	if err != nil {
		fmt.Fprintln(os.Stderr, err)
		os.Exit(2)
	}
	switch *what {
	case "funcs":
		for _, fn := range w.Funcs {
			fmt.Printf("%-70s %s tmpl=%v\n", w.Short(fn), w.Pos(fn.Pos()), isGenericTemplate(fn))
		}
	case "emit":
		lf := w.Locks()
		for _, e := range w.EmitSites() {
			send := "-"
			var must LockSet
			if e.Send != nil {
				send = w.At(e.Send)
				must = lf.MustAt(e.Send)
			}
			var pl []string
			for k, v := range e.Payload {
				pl = append(pl, k+"="+desc(v))
			}
			sort.Strings(pl)
			fmt.Printf("%s %s %-40s fn=%s id=%s send=%s must=%v\n    payload: %s\n", w.At(e.Alloc), e.Dir, e.Kind, w.Short(e.Fn), desc(e.StreamID), send, must, strings.Join(pl, "; "))
		}
	case "spawns":
		for _, s := range w.Spawns() {
			var cs []string
			for _, c := range s.Callees {
				cs = append(cs, w.Short(c))
			}
			fmt.Printf("%s in %s -> %s\n", w.At(s.Go), w.Short(s.Fn), strings.Join(cs, "|"))
		}
	case "fields":
		lf := w.Locks()
		for _, a := range w.FieldAccesses() {
			rw := "R"
			if a.Write {
				rw = "W"
			}
			fmt.Printf("%-45s %s %-14s %-45s %s constr=%v must=%v\n", a.Field, rw, a.Kind, w.Short(a.Fn), w.At(a.Instr), a.Constr, lf.MustAt(a.Instr))
		}
	case "entry":
		lf := w.Locks()
		fmt.Println("rounds", lf.Rounds)
		for _, fn := range w.Funcs {
			fmt.Printf("%-70s must=%v may=%v\n", w.Short(fn), lf.EntryMust[fn], lf.EntryMay[fn])
		}
	case "order":
		lf := w.Locks()
		var ks []string
		for k, v := range lf.Order {
			ks = append(ks, k[0]+" -> "+k[1]+"   "+v)
		}
		sort.Strings(ks)
		fmt.Println(strings.Join(ks, "\n"))
	case "effects":
		for _, fn := range w.Funcs {
			if isGenericTemplate(fn) {
				continue
			}
			fe := w.directEffects(fn)
			for _, e := range fe.Effects {
				fmt.Printf("%-60s %-20s %s  @%s\n", w.Short(fn), e.Kind, e.Detail, w.At(e.Instr))
			}
		}
	}
}

var _ ssa.Instruction
