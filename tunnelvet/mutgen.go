package main

// mutgen.go: development aid for mutation sweeps (tools/sweep.py). Enumerates single-point syntactic mutations of the root
// package's hand-written files as JSON lines {id, file, start, end, new, op, line, func, orig}; the sweep applies each to a
// scratch copy, asks `tunnelvet scan` and (for what no rule reports) the repository's test suite. Survivors of both are
// triaged by hand: they are either outside every property or a gap in the rules. Not part of any registered check.

import (
	"encoding/json"
	"flag"
	"fmt"
	"go/ast"
	"go/token"
	"go/types"
	"os"
	"path/filepath"
	"strconv"
	"strings"
)

type genMutant struct {
	ID    string `json:"id"`
	File  string `json:"file"`
	Start int    `json:"start"`
	End   int    `json:"end"`
	New   string `json:"new"`
	Op    string `json:"op"`
	Line  int    `json:"line"`
	Func  string `json:"func"`
	Orig  string `json:"orig"`
}

func zeroLit(t types.Type) string {
	switch u := t.Underlying().(type) {
	case *types.Basic:
		switch {
		case u.Info()&types.IsBoolean != 0:
			return "false"
		case u.Info()&types.IsNumeric != 0:
			return "0"
		case u.Info()&types.IsString != 0:
			return `""`
		case u.Kind() == types.UntypedNil:
			return "nil"
		}
	case *types.Pointer, *types.Signature, *types.Map, *types.Slice, *types.Chan, *types.Interface:
		return "nil"
	}
	return ""
}

func mutgenCmd(args []string) int {
	fs := flag.NewFlagSet("mutgen", flag.ExitOnError)
	repo := fs.String("repo", "/repo", "")
	fs.Parse(args)
	w, err := loadWorld(*repo, "", "")
	if err != nil {
		fmt.Fprintln(os.Stderr, err)
		return 2
	}
	info := w.Root.TypesInfo
	fset := w.Fset
	enc := json.NewEncoder(os.Stdout)
	n := 0
	for _, file := range w.Root.Syntax {
		fname := fset.Position(file.Pos()).Filename
		base := filepath.Base(fname)
		if strings.HasSuffix(base, "_test.go") || strings.HasSuffix(base, ".pb.go") || base == "doc.go" {
			continue
		}
		src, err := os.ReadFile(fname)
		if err != nil {
			fmt.Fprintln(os.Stderr, err)
			return 2
		}
		off := func(p token.Pos) int { return fset.Position(p).Offset }
		text := func(nd ast.Node) string { return string(src[off(nd.Pos()):off(nd.End())]) }
		curFunc := ""
		emit := func(nd ast.Node, op, repl string) {
			if repl == text(nd) {
				return
			}
			n++
			o := text(nd)
			if len(o) > 160 {
				o = o[:160] + "…"
			}
			enc.Encode(genMutant{ID: fmt.Sprintf("m%04d", n), File: base, Start: off(nd.Pos()), End: off(nd.End()), New: repl, Op: op,
				Line: fset.Position(nd.Pos()).Line, Func: curFunc, Orig: o})
		}
		inRoot := func(call *ast.CallExpr) *types.Func {
			var id *ast.Ident
			switch f := call.Fun.(type) {
			case *ast.Ident:
				id = f
			case *ast.SelectorExpr:
				id = f.Sel
			case *ast.IndexExpr:
				if x, ok := f.X.(*ast.Ident); ok {
					id = x
				}
			}
			if id == nil {
				return nil
			}
			fn, ok := info.Uses[id].(*types.Func)
			if !ok || fn.Pkg() == nil || fn.Pkg().Path() != rootPath {
				return nil
			}
			return fn
		}
		var ifConds = map[ast.Expr]bool{}
		ast.Inspect(file, func(nd ast.Node) bool {
			switch x := nd.(type) {
			case *ast.FuncDecl:
				curFunc = x.Name.Name
				if x.Recv != nil && len(x.Recv.List) > 0 {
					curFunc = strings.TrimPrefix(types.ExprString(x.Recv.List[0].Type), "*") + "." + curFunc
				}
			case *ast.IfStmt:
				ifConds[x.Cond] = true
				emit(x.Cond, "negate-if", "!("+text(x.Cond)+")")
			case *ast.ForStmt:
				if x.Cond != nil {
					ifConds[x.Cond] = true
					emit(x.Cond, "negate-for", "!("+text(x.Cond)+")")
				}
			case *ast.BinaryExpr:
				switch x.Op {
				case token.LAND, token.LOR:
					emit(x, "drop-right", text(x.X))
					emit(x, "drop-left", text(x.Y))
				case token.LSS:
					emit(x, "cmp-boundary", text(x.X)+" <= "+text(x.Y))
				case token.LEQ:
					emit(x, "cmp-boundary", text(x.X)+" < "+text(x.Y))
				case token.GTR:
					emit(x, "cmp-boundary", text(x.X)+" >= "+text(x.Y))
				case token.GEQ:
					emit(x, "cmp-boundary", text(x.X)+" > "+text(x.Y))
				case token.EQL:
					if !ifConds[x] {
						emit(x, "cmp-flip", text(x.X)+" != "+text(x.Y))
					}
				case token.NEQ:
					if !ifConds[x] {
						emit(x, "cmp-flip", text(x.X)+" == "+text(x.Y))
					}
				case token.ADD:
					if tv, ok := info.Types[x]; ok && tv.Type != nil {
						if b, isB := tv.Type.Underlying().(*types.Basic); isB && b.Info()&types.IsNumeric != 0 && tv.Value == nil {
							emit(x, "arith", text(x.X)+" - "+text(x.Y))
						}
					}
				case token.SUB:
					if tv, ok := info.Types[x]; ok && tv.Type != nil && tv.Value == nil {
						emit(x, "arith", text(x.X)+" + "+text(x.Y))
					}
				}
			case *ast.ExprStmt:
				if _, ok := x.X.(*ast.CallExpr); ok {
					emit(x, "del-call", "")
				} else if u, ok := x.X.(*ast.UnaryExpr); ok && u.Op == token.ARROW {
					emit(x, "del-recv", "")
				}
			case *ast.AssignStmt:
				if x.Tok != token.DEFINE {
					emit(x, "del-assign", "")
				}
			case *ast.IncDecStmt:
				emit(x, "del-incdec", "")
			case *ast.DeferStmt:
				emit(x, "del-defer", "")
			case *ast.GoStmt:
				emit(x, "del-go", "")
				emit(x, "go-to-call", strings.TrimPrefix(text(x), "go "))
			case *ast.SendStmt:
				emit(x, "del-send", "")
			case *ast.BranchStmt:
				if x.Label == nil {
					switch x.Tok {
					case token.BREAK:
						emit(x, "break-continue", "continue")
					case token.CONTINUE:
						emit(x, "break-continue", "break")
					}
				}
			case *ast.Ident:
				if obj, ok := info.Uses[x]; ok && obj.Pkg() == nil {
					if x.Name == "true" {
						emit(x, "bool-flip", "false")
					} else if x.Name == "false" {
						emit(x, "bool-flip", "true")
					}
				}
			case *ast.BasicLit:
				if x.Kind == token.INT {
					if v, err := strconv.ParseInt(x.Value, 0, 64); err == nil {
						emit(x, "int+1", strconv.FormatInt(v+1, 10))
						if v > 0 {
							emit(x, "int-1", strconv.FormatInt(v-1, 10))
						}
					}
				}
			case *ast.CompositeLit:
				tv, ok := info.Types[x]
				if !ok {
					return true
				}
				if _, isS := tv.Type.Underlying().(*types.Struct); !isS {
					return true
				}
				for _, el := range x.Elts {
					kv, ok := el.(*ast.KeyValueExpr)
					if !ok {
						continue
					}
					vt, ok := info.Types[kv.Value]
					if !ok || vt.Type == nil {
						continue
					}
					if z := zeroLit(vt.Type); z != "" {
						emit(kv.Value, "zero-field", z)
					}
					emit(kv, "del-field", "")
				}
			case *ast.CallExpr:
				fn := inRoot(x)
				if fn == nil {
					return true
				}
				sig := fn.Type().(*types.Signature)
				for i, a := range x.Args {
					if i >= sig.Params().Len() || (sig.Variadic() && i >= sig.Params().Len()-1) {
						break
					}
					if z := zeroLit(sig.Params().At(i).Type()); z != "" {
						emit(a, "zero-arg", z)
					}
					if i+1 < len(x.Args) && i+1 < sig.Params().Len() && !(sig.Variadic() && i+1 >= sig.Params().Len()-1) {
						if types.Identical(sig.Params().At(i).Type(), sig.Params().At(i+1).Type()) {
							n++
							enc.Encode(genMutant{ID: fmt.Sprintf("m%04d", n), File: base, Start: off(a.Pos()), End: off(x.Args[i+1].End()),
								New: text(x.Args[i+1]) + ", " + text(a), Op: "swap-args", Line: fset.Position(a.Pos()).Line, Func: curFunc, Orig: text(a) + ", " + text(x.Args[i+1])})
						}
					}
				}
			case *ast.ReturnStmt:
				if len(x.Results) == 0 {
					return true
				}
				last := x.Results[len(x.Results)-1]
				if tv, ok := info.Types[last]; ok && tv.Type != nil && types.TypeString(tv.Type, nil) == "error" {
					if id, isID := last.(*ast.Ident); !isID || id.Name != "nil" {
						emit(last, "nil-error", "nil")
					}
				}
			}
			return true
		})
	}
	fmt.Fprintf(os.Stderr, "%d mutants\n", n)
	return 0
}
