package main

// mutgen.go: development aid for mutation sweeps (tools/sweep.py). Enumerates single-point syntactic mutations of the root
// package's hand-written files as JSON lines {id, file, start, end, new, op, line, func, orig}; the sweep applies each to a
// scratch copy, asks `tunnelvet scan` and (for what no rule reports) the repository's test suite. Survivors of both are
// triaged by hand: they are either outside every property or a gap in the rules. Not part of any registered check.

import (
	"encoding/json"
	"flag"
	"fmt"
	"go/ast"
	"go/token"
	"go/types"
	"os"
	"path/filepath"
	"strconv"
	"strings"
)

type genMutant struct {
	ID    string `json:"id"`
	File  string `json:"file"`
	Start int    `json:"start"`
	End   int    `json:"end"`
	New   string `json:"new"`
	Op    string `json:"op"`
	Line  int    `json:"line"`
	Func  string `json:"func"`
	Orig  string `json:"orig"`
}

func zeroLit(t types.Type) string {
	switch u := t.Underlying().(type) {
	case *types.Basic:
		switch {
		case u.Info()&types.IsBoolean != 0:
			return "false"
		case u.Info()&types.IsNumeric != 0:
			return "0"
		case u.Info()&types.IsString != 0:
			return `""`
		case u.Kind() == types.UntypedNil:
			return "nil"
		}
	case *types.Pointer, *types.Signature, *types.Map, *types.Slice, *types.Chan, *types.Interface:
		return "nil"
	}
	return ""
}

func mutgenCmd(args []string) int {
	fs := flag.NewFlagSet("mutgen", flag.ExitOnError)
	repo := fs.String("repo", "/repo", "")
	gen := fs.Int("gen", 1, "operator generation: 1 = statement/condition/literal operators, 2 = confusions (sibling field, same-typed variable, status code, defer-to-call, if removal), 3 = order and logic (adjacent statements swapped, && <-> ||, dropped !, deleted select case, Lock <-> RLock, deleted bare return)")
	fs.Parse(args)
	w, err := loadWorld(*repo, "", "")
	if err != nil {
		fmt.Fprintln(os.Stderr, err)
		return 2
	}
	info := w.Root.TypesInfo
	fset := w.Fset
	enc := json.NewEncoder(os.Stdout)
	n := 0
	for _, file := range w.Root.Syntax {
		fname := fset.Position(file.Pos()).Filename
		base := filepath.Base(fname)
		if strings.HasSuffix(base, "_test.go") || strings.HasSuffix(base, ".pb.go") || base == "doc.go" {
			continue
		}
		src, err := os.ReadFile(fname)
		if err != nil {
			fmt.Fprintln(os.Stderr, err)
			return 2
		}
		off := func(p token.Pos) int { return fset.Position(p).Offset }
		text := func(nd ast.Node) string { return string(src[off(nd.Pos()):off(nd.End())]) }
		curFunc := ""
		gen2ops := map[string]bool{"sibling-field": true, "same-type-var": true, "status-code": true, "defer-to-call": true, "del-if": true, "del-else": true, "cas-swap": true}
		gen3ops := map[string]bool{"swap-stmts": true, "and-or": true, "drop-not": true, "del-select-case": true, "lock-kind": true, "del-return": true}
		opGen := func(op string) int {
			switch {
			case gen3ops[op]:
				return 3
			case gen2ops[op]:
				return 2
			}
			return 1
		}
		emit := func(nd ast.Node, op, repl string) {
			if repl == text(nd) {
				return
			}
			if opGen(op) != *gen {
				return
			}
			n++
			o := text(nd)
			if len(o) > 160 {
				o = o[:160] + "…"
			}
			enc.Encode(genMutant{ID: fmt.Sprintf("%s%04d", map[int]string{1: "m", 2: "g", 3: "h"}[*gen], n), File: base, Start: off(nd.Pos()), End: off(nd.End()), New: repl, Op: op,
				Line: fset.Position(nd.Pos()).Line, Func: curFunc, Orig: o})
		}
		inRoot := func(call *ast.CallExpr) *types.Func {
			var id *ast.Ident
			switch f := call.Fun.(type) {
			case *ast.Ident:
				id = f
			case *ast.SelectorExpr:
				id = f.Sel
			case *ast.IndexExpr:
				if x, ok := f.X.(*ast.Ident); ok {
					id = x
				}
			}
			if id == nil {
				return nil
			}
			fn, ok := info.Uses[id].(*types.Func)
			if !ok || fn.Pkg() == nil || fn.Pkg().Path() != rootPath {
				return nil
			}
			return fn
		}
		var ifConds = map[ast.Expr]bool{}
		lhsIdents := map[*ast.Ident]bool{}
		ast.Inspect(file, func(nd ast.Node) bool {
			if as, ok := nd.(*ast.AssignStmt); ok {
				for _, l := range as.Lhs {
					if id, isID := l.(*ast.Ident); isID {
						lhsIdents[id] = true
					}
				}
			}
			return true
		})
		ast.Inspect(file, func(nd ast.Node) bool {
			switch x := nd.(type) {
			case *ast.FuncDecl:
				curFunc = x.Name.Name
				if x.Recv != nil && len(x.Recv.List) > 0 {
					curFunc = strings.TrimPrefix(types.ExprString(x.Recv.List[0].Type), "*") + "." + curFunc
				}
			case *ast.BlockStmt:
				for i := 0; i+1 < len(x.List); i++ {
					a, b := x.List[i], x.List[i+1]
					if _, isDecl := a.(*ast.DeclStmt); isDecl {
						continue
					}
					if as, isAs := a.(*ast.AssignStmt); isAs && as.Tok == token.DEFINE {
						continue
					}
					if _, isRet := b.(*ast.ReturnStmt); isRet {
						continue
					}
					if _, isBr := b.(*ast.BranchStmt); isBr {
						continue
					}
					n++
					if *gen == 3 {
						o := text(a) + " ; " + text(b)
						if len(o) > 160 {
							o = o[:160] + "…"
						}
						enc.Encode(genMutant{ID: fmt.Sprintf("h%04d", n), File: base, Start: off(a.Pos()), End: off(b.End()),
							New: text(b) + "\n" + text(a), Op: "swap-stmts", Line: fset.Position(a.Pos()).Line, Func: curFunc, Orig: o})
					}
				}
			case *ast.UnaryExpr:
				if x.Op == token.NOT {
					emit(x, "drop-not", text(x.X))
				}
			case *ast.CommClause:
				if x.Comm != nil {
					emit(x, "del-select-case", "")
				}
			case *ast.IfStmt:
				ifConds[x.Cond] = true
				emit(x.Cond, "negate-if", "!("+text(x.Cond)+")")
				if x.Init == nil {
					if x.Else == nil {
						emit(x, "del-if", "")
					} else {
						emit(x, "del-else", string(src[off(x.Pos()):off(x.Body.End())]))
					}
				}
			case *ast.SelectorExpr:
				// status code confusion: codes.X -> another code
				if id, ok := x.X.(*ast.Ident); ok {
					if pn, isPkg := info.Uses[id].(*types.PkgName); isPkg && pn.Imported().Path() == "google.golang.org/grpc/codes" {
						alt := "Unknown"
						if x.Sel.Name == "Unknown" {
							alt = "Internal"
						}
						emit(x, "status-code", id.Name+"."+alt)
						return true
					}
				}
				if sel, ok := info.Selections[x]; ok && sel.Kind() == types.MethodVal && strings.HasSuffix(types.TypeString(sel.Recv(), nil), "sync.RWMutex") {
					if alt, has := map[string]string{"Lock": "RLock", "Unlock": "RUnlock", "RLock": "Lock", "RUnlock": "Unlock"}[x.Sel.Name]; has {
						emit(x.Sel, "lock-kind", alt)
					}
				}
				// sibling field of the same type
				if sel, ok := info.Selections[x]; ok && sel.Kind() == types.FieldVal {
					recv := sel.Recv()
					if p, isP := recv.Underlying().(*types.Pointer); isP {
						recv = p.Elem()
					}
					if st, isS := recv.Underlying().(*types.Struct); isS {
						done := 0
						for i := 0; i < st.NumFields() && done < 2; i++ {
							f := st.Field(i)
							if f.Name() != x.Sel.Name && !f.Embedded() && types.Identical(f.Type(), sel.Type()) {
								if named, isN := sel.Type().(*types.Named); isN && (named.Obj().Name() == "Mutex" || named.Obj().Name() == "RWMutex") {
									continue
								}
								emit(x.Sel, "sibling-field", f.Name())
								done++
							}
						}
					}
				}
			case *ast.DeferStmt:
				emit(x, "del-defer", "")
				emit(x, "defer-to-call", strings.TrimPrefix(text(x), "defer "))
				return true
			case *ast.ForStmt:
				if x.Cond != nil {
					ifConds[x.Cond] = true
					emit(x.Cond, "negate-for", "!("+text(x.Cond)+")")
				}
			case *ast.BinaryExpr:
				switch x.Op {
				case token.LAND, token.LOR:
					emit(x, "drop-right", text(x.X))
					emit(x, "drop-left", text(x.Y))
					emit(x, "and-or", text(x.X)+map[token.Token]string{token.LAND: " || ", token.LOR: " && "}[x.Op]+text(x.Y))
				case token.LSS:
					emit(x, "cmp-boundary", text(x.X)+" <= "+text(x.Y))
				case token.LEQ:
					emit(x, "cmp-boundary", text(x.X)+" < "+text(x.Y))
				case token.GTR:
					emit(x, "cmp-boundary", text(x.X)+" >= "+text(x.Y))
				case token.GEQ:
					emit(x, "cmp-boundary", text(x.X)+" > "+text(x.Y))
				case token.EQL:
					if !ifConds[x] {
						emit(x, "cmp-flip", text(x.X)+" != "+text(x.Y))
					}
				case token.NEQ:
					if !ifConds[x] {
						emit(x, "cmp-flip", text(x.X)+" == "+text(x.Y))
					}
				case token.ADD:
					if tv, ok := info.Types[x]; ok && tv.Type != nil {
						if b, isB := tv.Type.Underlying().(*types.Basic); isB && b.Info()&types.IsNumeric != 0 && tv.Value == nil {
							emit(x, "arith", text(x.X)+" - "+text(x.Y))
						}
					}
				case token.SUB:
					if tv, ok := info.Types[x]; ok && tv.Type != nil && tv.Value == nil {
						emit(x, "arith", text(x.X)+" + "+text(x.Y))
					}
				}
			case *ast.ExprStmt:
				if _, ok := x.X.(*ast.CallExpr); ok {
					emit(x, "del-call", "")
				} else if u, ok := x.X.(*ast.UnaryExpr); ok && u.Op == token.ARROW {
					emit(x, "del-recv", "")
				}
			case *ast.AssignStmt:
				if x.Tok != token.DEFINE {
					emit(x, "del-assign", "")
				}
			case *ast.IncDecStmt:
				emit(x, "del-incdec", "")
			case *ast.GoStmt:
				emit(x, "del-go", "")
				emit(x, "go-to-call", strings.TrimPrefix(text(x), "go "))
			case *ast.SendStmt:
				emit(x, "del-send", "")
			case *ast.BranchStmt:
				if x.Label == nil {
					switch x.Tok {
					case token.BREAK:
						emit(x, "break-continue", "continue")
					case token.CONTINUE:
						emit(x, "break-continue", "break")
					}
				}
			case *ast.Ident:
				if v, ok := info.Uses[x].(*types.Var); ok && *gen == 2 && !v.IsField() && v.Pkg() != nil && v.Parent() != nil && v.Parent() != v.Pkg().Scope() {
					// another local variable / parameter of the same type visible here (declared earlier in an enclosing scope)
					if _, isLHS := lhsIdents[x]; !isLHS {
						done := 0
						for sc := v.Parent(); sc != nil && sc != v.Pkg().Scope() && done < 2; sc = sc.Parent() {
							for _, name := range sc.Names() {
								o, isV := sc.Lookup(name).(*types.Var)
								if !isV || o == v || o.Name() == "_" || o.Pos() >= x.Pos() || !types.Identical(o.Type(), v.Type()) || done >= 2 {
									continue
								}
								if b, isB := v.Type().Underlying().(*types.Basic); isB && b.Kind() == types.Bool || types.TypeString(v.Type(), nil) == "error" || types.TypeString(v.Type(), nil) == "context.Context" {
									// bools, errors and contexts shadow each other all the time; too noisy
									if types.TypeString(v.Type(), nil) != "context.Context" {
										continue
									}
								}
								emit(x, "same-type-var", o.Name())
								done++
							}
						}
					}
				}
				if obj, ok := info.Uses[x]; ok && obj.Pkg() == nil {
					if x.Name == "true" {
						emit(x, "bool-flip", "false")
					} else if x.Name == "false" {
						emit(x, "bool-flip", "true")
					}
				}
			case *ast.BasicLit:
				if x.Kind == token.INT {
					if v, err := strconv.ParseInt(x.Value, 0, 64); err == nil {
						emit(x, "int+1", strconv.FormatInt(v+1, 10))
						if v > 0 {
							emit(x, "int-1", strconv.FormatInt(v-1, 10))
						}
					}
				}
			case *ast.CompositeLit:
				tv, ok := info.Types[x]
				if !ok {
					return true
				}
				if _, isS := tv.Type.Underlying().(*types.Struct); !isS {
					return true
				}
				for _, el := range x.Elts {
					kv, ok := el.(*ast.KeyValueExpr)
					if !ok {
						continue
					}
					vt, ok := info.Types[kv.Value]
					if !ok || vt.Type == nil {
						continue
					}
					if z := zeroLit(vt.Type); z != "" {
						emit(kv.Value, "zero-field", z)
					}
					emit(kv, "del-field", "")
				}
			case *ast.CallExpr:
				if se, ok := x.Fun.(*ast.SelectorExpr); ok && se.Sel.Name == "CompareAndSwap" && len(x.Args) == 2 {
					n++
					if *gen == 2 {
						enc.Encode(genMutant{ID: fmt.Sprintf("g%04d", n), File: base, Start: off(x.Args[0].Pos()), End: off(x.Args[1].End()),
							New: text(x.Args[1]) + ", " + text(x.Args[0]), Op: "cas-swap", Line: fset.Position(x.Pos()).Line, Func: curFunc, Orig: text(x.Args[0]) + ", " + text(x.Args[1])})
					}
				}
				fn := inRoot(x)
				if fn == nil {
					return true
				}
				sig := fn.Type().(*types.Signature)
				for i, a := range x.Args {
					if i >= sig.Params().Len() || (sig.Variadic() && i >= sig.Params().Len()-1) {
						break
					}
					if z := zeroLit(sig.Params().At(i).Type()); z != "" {
						emit(a, "zero-arg", z)
					}
					if i+1 < len(x.Args) && i+1 < sig.Params().Len() && !(sig.Variadic() && i+1 >= sig.Params().Len()-1) {
						if *gen == 1 && types.Identical(sig.Params().At(i).Type(), sig.Params().At(i+1).Type()) {
							n++
							enc.Encode(genMutant{ID: fmt.Sprintf("m%04d", n), File: base, Start: off(a.Pos()), End: off(x.Args[i+1].End()),
								New: text(x.Args[i+1]) + ", " + text(a), Op: "swap-args", Line: fset.Position(a.Pos()).Line, Func: curFunc, Orig: text(a) + ", " + text(x.Args[i+1])})
						}
					}
				}
			case *ast.ReturnStmt:
				if len(x.Results) == 0 {
					emit(x, "del-return", "")
					return true
				}
				last := x.Results[len(x.Results)-1]
				if tv, ok := info.Types[last]; ok && tv.Type != nil && types.TypeString(tv.Type, nil) == "error" {
					if id, isID := last.(*ast.Ident); !isID || id.Name != "nil" {
						emit(last, "nil-error", "nil")
					}
				}
			}
			return true
		})
	}
	fmt.Fprintf(os.Stderr, "%d mutants\n", n)
	return 0
}
