package main

// rules_c11.go: negotiation rules (C11.*) and registry rules (C12.*).

import (
	"fmt"
	"go/token"
	"go/types"
	"strings"

	"golang.org/x/tools/go/ssa"
)

const negotiateKey, negotiateVal = "\"grpctunnel-negotiate\"", "\"on\""

// ruleNegotiationSymmetry (C11.1).
func ruleNegotiationSymmetry(c *Ctx, rule string) {
	c.rule(rule, "negotiation symmetry: both opening paths attach the negotiate header to the request (client side) and to the response headers (server side), and all four detection sites compute 'first value of that key equals the agreed value' and hand exactly that to the tunnel endpoint they construct")
	w := c.W
	// detection sites
	n := 0
	roleOf := func(fn *ssa.Function) string { // legacy role label of an opening path
		for _, l := range []string{"(*pendingChannel).Start", "newReverseChannel", "(*TunnelServiceHandler).openTunnel", "(*ReverseTunnelServer).Serve"} {
			if w.sameFn(fn, w.roleFunc(l)) {
				return l
			}
		}
		return w.Short(fn)
	}
	want := map[string]string{ // opening path -> constructor that must receive the flag
		"(*pendingChannel).Start":            "newTunnelChannel",
		"newReverseChannel":                  "newTunnelChannel",
		"(*TunnelServiceHandler).openTunnel": "serveTunnel",
		"(*ReverseTunnelServer).Serve":       "serveTunnel",
	}
	seenFn := map[string]bool{}
	// one detection: the Get call cv in fn, evaluated for the opening path `user` (fn itself, or the caller of the
	// predicate helper fn at call site via, whose arguments the helper's parameters then stand for)
	detect := func(fn *ssa.Function, cv *ssa.Call, user *ssa.Function, via *ssa.Call) {
		n++
		name := roleOf(user)
		seenFn[name] = true
		// the metadata inspected must be what the PEER sent on the tunnel-opening call
		srcD := desc(cv.Call.Args[0])
		wantSrc := map[string]string{
			"(*pendingChannel).Start":            ".Header()#0",
			"(*ReverseTunnelServer).Serve":       ".Header()#0",
			"newReverseChannel":                  ".Context())#0",
			"(*TunnelServiceHandler).openTunnel": ".Context())#0",
		}[name]
		okSrc := wantSrc != "" && strings.HasSuffix(srcD, wantSrc)
		if strings.HasSuffix(wantSrc, ".Context())#0") {
			okSrc = okSrc && strings.Contains(srcD, "metadata.FromIncomingContext(")
		}
		if strings.HasPrefix(srcD, "*alloc:") && strings.Contains(srcD, ".Header()#0") {
			okSrc = okSrc || strings.Contains(wantSrc, "Header")
		}
		c.check(okSrc, rule, name+": inspects the peer's metadata", w.At(cv), srcD, "the negotiate header is looked up in "+srcD+", not in the metadata the peer sent ("+wantSrc+"): this end would see its own header and believe every peer negotiates — a legacy peer gets settings/window-update frames it does not understand")
		// flag = phi(false, vals[0] == "on") with the comparison under len(vals) > 0
		var eq *ssa.BinOp
		allInstrsLocal(fn, func(in ssa.Instruction) {
			b, ok := in.(*ssa.BinOp)
			if !ok || b.Op != token.EQL || desc(b.Y) != negotiateVal {
				return
			}
			if u, ok := b.X.(*ssa.UnOp); ok {
				if ia, ok := u.X.(*ssa.IndexAddr); ok && ia.X == ssa.Value(cv) {
					if k, isK := constInt(ia.Index); isK && k == 0 {
						eq = b
					}
				}
			}
		})
		if eq == nil {
			c.fail(rule, name+": detects the peer's negotiate header", w.At(cv), "the negotiate header is read but not compared as vals[0] == \"on\"")
			return
		}
		okLen := minLenAt(cv, eq) >= 1
		c.check(okLen, rule, name+": first value compared under a length check", w.At(eq), "len(vals) > 0 && vals[0] == \"on\"", "vals[0] is compared without a dominating len(vals) > 0")
		isFlag := func(v ssa.Value) bool { // false, or the comparison (when the length check held)
			phi, ok := v.(*ssa.Phi)
			if !ok {
				return false
			}
			hasEq, hasFalse := false, false
			for _, e := range phi.Edges {
				if e == ssa.Value(eq) {
					hasEq = true
				}
				if isConstBool(e, false) {
					hasFalse = true
				}
			}
			return hasEq && hasFalse && len(phi.Edges) == 2
		}
		if via != nil {
			// predicate helper: it returns exactly the flag ...
			okRet, nRet := true, 0
			forEachReturnValue(fn, 0, func(v ssa.Value, at ssa.Instruction) {
				nRet++
				if !isFlag(v) && !isConstBool(v, false) && v != ssa.Value(eq) {
					okRet = false
				}
			})
			c.check(okRet && nRet > 0, rule, name+": the detection helper returns the comparison", w.At(eq), w.Short(fn)+" returns false or vals[0] == \"on\"", "the helper "+w.Short(fn)+" does not return exactly the result of the negotiate-header comparison")
		}
		// flows into the constructor
		ctor := want[name]
		okFlow := false
		allInstrs(user, func(in ssa.Instruction) {
			call2, ok := in.(*ssa.Call)
			if !ok {
				return
			}
			if !w.isRoleCall(call2, ctor) {
				return
			}
			for _, a := range flatArgs(call2) {
				if via == nil && (isFlag(a) || isFlag(origin(a))) {
					okFlow = true
				}
				if via != nil && stripConv(a) == ssa.Value(via) {
					okFlow = true // ... and that result is what the endpoint receives
				}
			}
		})
		c.check(okFlow, rule, name+": the detected flag configures the endpoint", w.At(eq), "flag passed to "+ctor, "the result of the negotiate-header detection is not what is passed to "+ctor+" (constant, inverted or another value): settings/flow control would be used with a peer that did not negotiate, or not used with one that did")
	}
	for _, fn := range w.Funcs {
		if isGenericTemplate(fn) {
			continue
		}
		var gets []*ssa.Call
		allInstrsLocal(fn, func(in ssa.Instruction) {
			if cv, ok := in.(*ssa.Call); ok && calleeName(cv) == "(google.golang.org/grpc/metadata.MD).Get" && desc(cv.Call.Args[1]) == negotiateKey {
				gets = append(gets, cv)
			}
		})
		for _, cv := range gets {
			if _, isPath := want[roleOf(fn)]; isPath || !w.isPrivateHelper(fn) {
				detect(fn, cv, fn, nil)
				continue
			}
			if root := regionRoot(fn); root != fn {
				// part of an opening path that was split into helpers used at one place each
				detect(fn, cv, root, nil)
				continue
			}
			// a predicate helper shared by several opening paths: one detection per call site
			for _, site := range w.callSitesOf(fn) {
				via, ok := site.(*ssa.Call)
				if !ok {
					continue
				}
				saved := paramBindings
				paramBindings = map[*ssa.Parameter]ssa.Value{}
				for k, p := range fn.Params {
					if k < len(via.Call.Args) {
						paramBindings[p] = via.Call.Args[k]
					}
				}
				detect(fn, cv, via.Parent(), via)
				paramBindings = saved
			}
		}
	}
	c.floor(rule, n, 4, "negotiate-header detection sites")
	for name := range want {
		c.check(seenFn[name], rule, name+": has a detection site", "-", "found", "this opening path no longer inspects the peer's negotiate header")
	}
	// attach sites
	att := 0
	for _, name := range []string{"(*pendingChannel).Start", "(*ReverseTunnelServer).Serve"} {
		fn := w.roleFunc(name)
		if fn == nil {
			c.fail(rule, name, "-", "not found")
			continue
		}
		// the context the carrier is opened with is AppendToOutgoingContext(ctx, key, val), written here or in a helper
		ok := false
		w.instrsThroughHelpers(fn, func(in ssa.Instruction) {
			ci, isC := in.(*ssa.Call)
			if !isC || !ci.Call.IsInvoke() || !strings.HasPrefix(ci.Call.Method.Name(), "Open") || len(ci.Call.Args) == 0 {
				return
			}
			ac, isA := origin(ci.Call.Args[0]).(*ssa.Call)
			if !isA || calleeName(ac) != "google.golang.org/grpc/metadata.AppendToOutgoingContext" {
				c.fail(rule, name+": carrier opened with the negotiating context", w.At(ci), "the carrier stream is opened with "+desc(ci.Call.Args[0])+", a context that does not carry the negotiate header")
				return
			}
			if sl, isSl := ac.Call.Args[1].(*ssa.Slice); isSl {
				if arr, isAl := sl.X.(*ssa.Alloc); isAl {
					vals := arrayStores(arr)
					if len(vals) == 2 && desc(vals[0]) == negotiateKey && desc(vals[1]) == negotiateVal {
						ok = true
						att++
						c.ok(rule, name+": carrier opened with the negotiating context", w.At(ci), "stub.Open*(ctx with negotiate header)")
					}
				}
			}
		})
		c.check(ok, rule, name+": attaches the negotiate header to the request", posOf(w, fn), "AppendToOutgoingContext(ctx, key, val)", "the client side no longer advertises negotiation: flow control is silently never used")
	}
	for _, name := range []string{"(*TunnelServiceHandler).openTunnel", "(*TunnelServiceHandler).openReverseTunnel"} {
		fn := w.roleFunc(name)
		if fn == nil {
			c.fail(rule, name, "-", "not found")
			continue
		}
		ok := false
		w.instrsThroughHelpers(fn, func(in ssa.Instruction) {
			ci, isC := in.(*ssa.Call)
			if !isC {
				return
			}
			if k, isCarrier := w.carrierOpBound(ci); !isCarrier || k != "carrier-sendheader" {
				return
			}
			if pc, isP := origin(ci.Call.Args[0]).(*ssa.Call); isP && calleeName(pc) == "google.golang.org/grpc/metadata.Pairs" {
				if sl, isSl := pc.Call.Args[0].(*ssa.Slice); isSl {
					if arr, isAl := sl.X.(*ssa.Alloc); isAl {
						vals := arrayStores(arr)
						if len(vals) == 2 && desc(vals[0]) == negotiateKey && desc(vals[1]) == negotiateVal {
							ok = true
							att++
						}
					}
				}
			}
		})
		c.check(ok, rule, name+": attaches the negotiate header to the response", posOf(w, fn), "SendHeader(Pairs(key, val))", "the server side no longer advertises negotiation in its response headers")
	}
	c.floor(rule, att, 4, "negotiate-header attach sites")
	// the endpoint keeps what it was handed: the constructor's flag parameter is the only thing ever stored in a field of
	// the endpoint, and the endpoint's receive loop function branches on that field
	a := w.Anchors()
	for _, ep := range []struct {
		ctor string
		typ  *types.Named
		loop *ssa.Function
	}{{"serveTunnel", a.Sv, a.ServerLoop}, {"newTunnelChannel", a.Ch, a.ClientLoop}} {
		ctor := w.roleFunc(ep.ctor)
		if ctor == nil || ep.typ == nil || ep.loop == nil {
			c.fail(rule, ep.ctor+": keeps the negotiation flag", "-", "constructor, endpoint type or loop function not found")
			continue
		}
		flagClass := plumbClass{"negotiation flag", func(w *World, t types.Type) bool {
			bt, isB := t.Underlying().(*types.Basic)
			return isB && bt.Kind() == types.Bool
		}, "the result of the negotiate-header detection has no effect: the endpoint would use settings/flow control regardless of what the peer negotiated"}
		_, fr, _, found := plumbKept(c, rule, plumbCtor{ep.ctor, ctor, ep.typ}, flagClass)
		if !found || fr == nil {
			if !found {
				c.fail(rule, ep.ctor+": keeps the negotiation flag", posOf(w, ctor), "no (single) bool input stored in the endpoint: unrecognised constructor shape, or the flag is dropped")
			}
			continue
		}
		branches := false
		for _, ld := range loadsOfField(ep.loop, *fr) {
			if ifOn(ld) != nil {
				branches = true
			}
			for _, r := range *ld.Referrers() {
				if u, isU := r.(*ssa.UnOp); isU && u.Op == token.NOT && ifOn(u) != nil {
					branches = true
				}
			}
		}
		c.check(branches, rule, ep.ctor+": the endpoint's loop function branches on "+fr.String(), posOf(w, ep.loop), "if "+fr.String()+" { settings prologue }", "the receive loop function "+w.Short(ep.loop)+" does not branch on the field that holds the negotiation flag: the settings exchange is unconditional (or never happens)")
	}
}

func arrayStores(arr *ssa.Alloc) []ssa.Value {
	var out []ssa.Value
	m := map[int64]ssa.Value{}
	for _, r := range *arr.Referrers() {
		if ia, ok := r.(*ssa.IndexAddr); ok {
			k, _ := constInt(ia.Index)
			for _, r2 := range *ia.Referrers() {
				if st, ok := r2.(*ssa.Store); ok {
					m[k] = stripConv(st.Val)
				}
			}
		}
	}
	for i := int64(0); i < int64(len(m)); i++ {
		out = append(out, m[i])
	}
	return out
}

// membershipHelperOK: the package's own membership function really is one: it answers true only under `element == wanted`
// with the element read from the slice parameter and `wanted` the other parameter, and false only once the loop is done.
func membershipHelperOK(c *Ctx, rule string) {
	w := c.W
	role := w.roleFunc("inSlice")
	if role == nil {
		return // the standard library's slices.Contains is used instead (accepted by the selection rule)
	}
	n := 0
	for _, fn := range w.Funcs {
		if isGenericTemplate(fn) || !w.sameFn(fn, role) || len(fn.Params) != 2 {
			continue
		}
		n++
		var elemP, listP *ssa.Parameter
		for _, p := range fn.Params {
			if _, isSl := p.Type().Underlying().(*types.Slice); isSl {
				listP = p
			} else {
				elemP = p
			}
		}
		okTrue, okFalse, nTrue, nFalse := true, true, 0, 0
		isMatch := func(f EdgeFact) (bool, bool) { // (is the element comparison, polarity "equal")
			x, op, y, ok := cmpFact(f)
			if !ok || (op != token.EQL && op != token.NEQ) || elemP == nil || listP == nil {
				return false, false
			}
			if stripConv(y) != ssa.Value(elemP) {
				x, y = y, x
			}
			if stripConv(y) != ssa.Value(elemP) {
				return false, false
			}
			u, isU := stripConv(x).(*ssa.UnOp)
			if !isU {
				return false, false
			}
			ia, isIA := u.X.(*ssa.IndexAddr)
			if !isIA || stripConv(ia.X) != ssa.Value(listP) {
				return false, false
			}
			return true, op == token.EQL
		}
		forEachReturnValue(fn, 0, func(v ssa.Value, at ssa.Instruction) {
			switch {
			case isConstBool(v, true):
				nTrue++
				eq := false
				for _, f := range factsAt(at) {
					if m, pol := isMatch(f); m && pol {
						eq = true
					}
				}
				if !eq {
					okTrue = false
				}
			case isConstBool(v, false):
				nFalse++
				for _, f := range factsAt(at) {
					if m, pol := isMatch(f); m && pol {
						okFalse = false // "not found" answered on the branch where the element matched
					}
				}
				if inLoop(at.Block()) {
					okFalse = false // gives up before every element was looked at
				}
			default:
				okTrue = false
			}
		})
		c.check(okTrue && okFalse && nTrue >= 1 && nFalse >= 1, rule, w.Short(fn)+": is a membership test", posOf(w, fn), "true only under element == wanted; false only after the loop", "the membership helper does not answer 'true exactly when some element equals the wanted value': an unknown revision could be adopted, or a supported one refused")
	}
	c.floor(rule, n, 1, "instances of the membership helper")
}

// ruleRevisionSelection (C11.4, C11.7).
func ruleRevisionSelection(c *Ctx, r4, r7 string) {
	c.rule(r4, "max selection: the negotiated revision is stored only for a revision that is in the local supported list and greater than the current value (highest common revision)")
	c.rule(r7, "empty list = revision zero: when the settings frame lists no revisions the loop runs over a literal containing exactly revision zero instead of the empty list, so the prologue cannot reach the 'no common revision' error")
	membershipHelperOK(c, r4)
	w := c.W
	a := w.Anchors()
	if !c.need(r4, "ClientLoop", a.ClientLoop) {
		return
	}
	fn := a.ClientLoop
	rev := FieldRef{a.Ch.Obj().Name(), w.Roles().ChUseRevision}
	sts := storesToField(fn, rev)
	if len(sts) == 0 {
		// infer: field of the enum type
		c.fail(r4, w.Short(fn)+": negotiated revision stored", posOf(w, fn), "the receive loop never stores a negotiated revision")
		return
	}
	for _, st := range sts {
		member, greater := false, false
		for _, f := range boolFactsAt(st) {
			if call, ok := f.V.(*ssa.Call); ok && f.True {
				if w.isRoleCall(call, "inSlice") && call.Call.Args[0] == st.Val {
					if sc, ok := origin(call.Call.Args[1]).(*ssa.Call); ok && w.isRoleCall(sc, "supportedRevisions") {
						member = true
					}
				}
				// the standard library's membership test: slices.Contains(list, rev)
				if g := staticCallee(call); g != nil && len(call.Call.Args) == 2 {
					gp := g
					if gp.Origin() != nil {
						gp = gp.Origin()
					}
					if gp.Pkg != nil && gp.Pkg.Pkg.Path() == "slices" && gp.Name() == "Contains" && call.Call.Args[1] == st.Val {
						if sc, ok := origin(call.Call.Args[0]).(*ssa.Call); ok && w.isRoleCall(sc, "supportedRevisions") {
							member = true
						}
					}
				}
			}
		}
		for _, f := range factsAt(st) {
			x, op, y, ok := cmpFact(f)
			if ok && x == st.Val && op == token.GTR && isFieldLoad(y, rev) {
				greater = true
			}
			if ok && y == st.Val && op == token.LSS && isFieldLoad(x, rev) {
				greater = true
			}
		}
		c.check(member, r4, w.Short(fn)+": stored revision is locally supported", w.At(st), "dominated by inSlice(rev, supportedRevisions())", "a revision is adopted without checking that this end supports it (DisableFlowControl would be ignored, or an unknown revision used)")
		c.check(greater, r4, w.Short(fn)+": stored revision is greater than the current one", w.At(st), "dominated by rev > useRevision", "the adopted revision is not guarded by rev > current: the result would be the last or the lowest common revision, not the highest")
		// the value comes from ranging over the advertised list
		ok := false
		if u, isU := st.Val.(*ssa.UnOp); isU {
			if ia, isIA := u.X.(*ssa.IndexAddr); isIA {
				src := origin(ia.X) // the list may have been handed to a private helper
				// C11.7
				phi, isPhi := src.(*ssa.Phi)
				adv := false
				lit := false
				if isPhi {
					for i, e := range phi.Edges {
						if _, ch := fieldChain(e); len(ch) >= 1 && ch[len(ch)-1] == "SupportedProtocolRevisions" {
							adv = true
							continue
						}
						if sl, isSl := e.(*ssa.Slice); isSl {
							if arr, isAl := sl.X.(*ssa.Alloc); isAl {
								vals := arrayStores(arr)
								if len(vals) == 1 {
									if k, isK := constInt(vals[0]); isK && k == 0 {
										// edge taken under len(advertised) == 0
										pred := phi.Block().Preds[i]
										for _, f := range factsAt(pred.Instrs[len(pred.Instrs)-1]) {
											x, op, y, okc := cmpFact(f)
											if okc && op == token.EQL {
												if lc, isC := x.(*ssa.Call); isC && calleeName(lc) == "builtin.len" {
													// ... the length of the ADVERTISED list
													_, lch := fieldChain(origin(lc.Call.Args[0]))
													if k2, isK2 := constInt(y); isK2 && k2 == 0 && len(lch) >= 1 && lch[len(lch)-1] == "SupportedProtocolRevisions" {
														lit = true
													}
												}
											}
										}
									}
								}
							}
						}
					}
					ok = adv
				} else if _, ch := fieldChain(src); len(ch) >= 1 && ch[len(ch)-1] == "SupportedProtocolRevisions" {
					ok, adv = true, true
				}
				c.check(adv && lit, r7, w.Short(fn)+": empty advertised list replaced by [REVISION_ZERO]", w.At(st), "range over phi(advertised, [0] when len == 0)", "the loop ranges over the advertised list as is: a settings frame with no revisions leaves 'supported' false and the tunnel fails with a protocol error, although the protocol says an empty list means revision zero")
			}
		}
		c.check(ok, r4, w.Short(fn)+": candidates are the server's advertised revisions", w.At(st), "ranges over settings.SupportedProtocolRevisions", "the stored revision does not come from the settings frame's list")
	}
	// the "some common revision" flag is set only for a member
	var supPhi *ssa.Phi
	for _, call := range callsIn(fn, func(ci ssa.CallInstruction) bool { return staticCallee(ci) == a.ChClose }) {
		for _, f := range boolFactsAt(call) {
			if phi, ok := f.V.(*ssa.Phi); ok && !f.True && inLoopPhi(phi) {
				supPhi = phi
			}
			// the flag returned by the private helper that holds the selection loop
			if hc, ok := f.V.(*ssa.Call); ok && !f.True {
				if leaves, _, isH := returnLeavesOfCall(hc); isH {
					if h := helperCallee(hc); h != nil {
						forEachReturnValue(h, 0, func(rv ssa.Value, at ssa.Instruction) {
							if phi, isPhi := rv.(*ssa.Phi); isPhi && inLoopPhi(phi) {
								supPhi = phi
							}
						})
					}
					_ = leaves
				}
			}
		}
		// the prologue may return its errors to the loop function, which closes: the facts at each such return
		for _, vc := range valueCases(call.Common().Args[1], 0) {
			for _, f := range boolFactsOf(vc.Facts) {
				if phi, ok := f.V.(*ssa.Phi); ok && !f.True && inLoopPhi(phi) {
					supPhi = phi
				}
			}
		}
	}
	if supPhi == nil {
		c.fail(r4, w.Short(fn)+": no common revision detected", posOf(w, fn), "no channel close guarded by a loop-carried 'found a common revision' flag: a settings frame without a common revision is silently accepted")
	} else {
		okSup := true
		var whyS string
		nTrue := 0
		for i, e := range supPhi.Edges {
			if !isConstBool(e, true) {
				continue
			}
			nTrue++
			pred := supPhi.Block().Preds[i]
			member := false
			for _, f := range boolFactsAt(pred.Instrs[len(pred.Instrs)-1]) {
				if call, ok := f.V.(*ssa.Call); ok && f.True {
					if w.isRoleCall(call, "inSlice") {
						member = true
					}
					if g := staticCallee(call); g != nil {
						gp := g
						if gp.Origin() != nil {
							gp = gp.Origin()
						}
						if gp.Pkg != nil && gp.Pkg.Pkg.Path() == "slices" && gp.Name() == "Contains" {
							member = true
						}
					}
				}
			}
			if !member {
				okSup, whyS = false, fmt.Sprintf("the flag becomes true on the edge from block %d, which is not under inSlice(rev, supported) == true", pred.Index)
			}
		}
		c.check(okSup && nTrue >= 1, r4, w.Short(fn)+": 'common revision found' only for a supported revision", w.At(supPhi), "flag set true only under membership", whyS+": any non-empty list would count as compatible, the 'no common revision' error becomes unreachable and the tunnel silently proceeds")
	}
	// new_stream carries the negotiated revision
	if e := c.newStreamEmit(); e != nil {
		v := e.Payload["NewStream.ProtocolRevision"]
		c.check(v != nil && isFieldLoadThrough(v, rev), r4, emitKey(w, e)+": carries the negotiated revision", w.At(e.Alloc), desc(v), "new_stream ProtocolRevision is "+desc(v)+", not the revision negotiated for this tunnel")
	}
}

// ruleSupportedRevisions (C11.5).
func ruleSupportedRevisions(c *Ctx, rule string) {
	c.rule(rule, "supportedRevisions honours the option: with flow control disabled it returns exactly [REVISION_ZERO]; otherwise exactly [REVISION_ZERO, REVISION_ONE]")
	w := c.W
	fn := w.roleFunc("supportedRevisions")
	if fn == nil {
		c.fail(rule, "supported-revisions function", "-", "not found")
		return
	}
	got := map[string]string{}
	// the elements of a slice built from constants: a literal, or append(such a slice, constants...)
	var sliceConsts func(v ssa.Value, depth int) ([]string, bool)
	sliceConsts = func(v ssa.Value, depth int) ([]string, bool) {
		if depth > 4 {
			return nil, false
		}
		switch x := stripConv(v).(type) {
		case *ssa.Slice:
			if arr, ok := x.X.(*ssa.Alloc); ok && x.Low == nil && x.High == nil {
				var ks []string
				for _, e := range arrayStores(arr) {
					ks = append(ks, desc(e))
				}
				return ks, true
			}
		case *ssa.Call:
			if calleeName(x) == "builtin.append" && len(x.Call.Args) == 2 {
				a, okA := sliceConsts(x.Call.Args[0], depth+1)
				b, okB := sliceConsts(x.Call.Args[1], depth+1)
				if okA && okB {
					return append(append([]string{}, a...), b...), true
				}
			}
		}
		return nil, false
	}
	forEachReturnValue(fn, 0, func(v ssa.Value, at ssa.Instruction) {
		for _, vc := range valueCases(v, 4) { // the alternatives merged at the return (`if !disabled { revs = append(revs, ONE) }`)
			g := "unconditional"
			for _, f := range append(boolFactsOf(vc.Facts), boolFactsAt(at)...) {
				if fr, _, ok := loadedField(f.V); ok && fr.Field == w.Roles().DisableFlag {
					g = fmt.Sprintf("disabled=%v", f.True)
				}
			}
			val := desc(vc.Val)
			if ks, ok := sliceConsts(vc.Val, 0); ok {
				val = "[" + strings.Join(ks, " ") + "]"
			}
			if old, dup := got[g]; dup && old != val {
				val = old + " | " + val
			}
			got[g] = val
		}
	})
	c.check(got["disabled=true"] == "[0]", rule, w.Short(fn)+": disabled -> [ZERO]", posOf(w, fn), got["disabled=true"], "with flow control disabled the function returns "+got["disabled=true"]+", expected exactly [REVISION_ZERO]: a disabled endpoint would still negotiate flow control")
	c.check(got["disabled=false"] == "[0 1]", rule, w.Short(fn)+": enabled -> [ZERO ONE]", posOf(w, fn), got["disabled=false"], "with flow control enabled the function returns "+got["disabled=false"]+", expected [REVISION_ZERO REVISION_ONE]")
	// the option sets that flag
	okOpt := false
	setsFlag := func(f *ssa.Function) {
		allInstrs(f, func(in ssa.Instruction) {
			if st, ok := in.(*ssa.Store); ok && isConstBool(st.Val, true) {
				if fr, _, ok := fieldOfAddr(st.Addr); ok && fr.Field == w.Roles().DisableFlag {
					okOpt = true
				}
			}
		})
	}
	for _, f := range w.Funcs {
		if topFn(f).Name() == "WithDisableFlowControl" {
			setsFlag(f)
			// the option's function may be a named function instead of a literal
			allInstrsLocal(f, func(in ssa.Instruction) {
				var ops []*ssa.Value
				for _, op := range in.Operands(ops) {
					if g := funcValueTarget(*op); g != nil && g != f && w.inRoot(g) && g.Blocks != nil {
						setsFlag(g)
					}
				}
			})
		}
	}
	c.check(okOpt, rule, "WithDisableFlowControl sets the flag", "-", "sets disableFlowControl = true", "the option no longer sets the flag supportedRevisions reads")
	h := w.Func("NewTunnelServiceHandler")
	okH := false
	if h != nil {
		allInstrs(h, func(in ssa.Instruction) {
			if st, ok := in.(*ssa.Store); ok {
				if fr, _, ok := fieldOfAddr(st.Addr); ok && fr.Field == w.Roles().DisableFlag {
					if f2, _, ok := loadedField(st.Val); ok && f2.Field == "DisableFlowControl" {
						okH = true
					}
				}
			}
		})
	}
	c.check(okH, rule, "handler option DisableFlowControl reaches the flag", posOf(w, h), "tunnelOpts.disableFlowControl = options.DisableFlowControl", "TunnelServiceHandlerOptions.DisableFlowControl is not copied into the tunnel options")
}

// ruleRevisionZeroFrames (C11.6).
func ruleRevisionZeroFrames(c *Ctx, rule string) {
	c.rule(rule, "no revision-one frames towards a revision-zero stream: window-update emit sites exist only inside callbacks passed to the flow-controlled receiver constructor, and that constructor (with the flow-controlled sender) is called only when the stream's revision is not zero, the plain pair only when it is zero")
	w := c.W
	a := w.Anchors()
	n := 0
	for _, e := range c.emitSeq() {
		if !strings.HasSuffix(e.Kind, "_WindowUpdate") {
			continue
		}
		n++
		// every use of the emitting function as a value is as the update callback of the flow-controlled receiver
		// constructor (a function literal, or a method passed as a method value), and it is never called directly
		ok := false
		uses := w.usesOfFuncValue(e.Fn)
		if len(uses) > 0 {
			ok = true
			for _, call := range uses {
				f := staticCallee(call)
				if f == nil || !w.sameFn(f, w.roleFunc("newReceiver")) || len(call.Call.Args) != 3 || funcValueTarget(call.Call.Args[1]) != e.Fn {
					ok = false
				}
			}
			for _, s := range w.callSitesOf(e.Fn) {
				if staticCallee(s) == e.Fn && !strings.Contains(s.Parent().Synthetic, "bound method wrapper") {
					ok = false // also called directly from somewhere
				}
			}
		}
		c.check(ok, rule, emitKey(w, e)+": only as the flow-controlled receiver's update callback", w.At(e.Alloc), "closure passed to newReceiver", "a window_update frame is emitted from code that is not the update callback of a flow-controlled receiver: a revision-zero peer would receive a frame kind it does not know and end the tunnel")
	}
	c.floor(rule, n, 2, "window_update emit sites")
	for _, fn := range []*ssa.Function{a.Allocate, a.Create} {
		if fn == nil {
			continue
		}
		allInstrs(fn, func(in ssa.Instruction) {
			call, isC := in.(*ssa.Call)
			if !isC {
				return
			}
			f := staticCallee(call)
			if f == nil || !w.inRoot(f) {
				return
			}
			var wantZero *bool
			t, fl := true, false
			switch {
			case w.sameFn(f, w.roleFunc("newSender")) || w.sameFn(f, w.roleFunc("newReceiver")):
				wantZero = &fl
			case w.sameFn(f, w.roleFunc("newSenderWithoutFlowControl")) || w.sameFn(f, w.roleFunc("newReceiverWithoutFlowControl")):
				wantZero = &t
			default:
				return
			}
			// dominating fact: revision == 0 (true/false)
			var got *bool
			for _, ft := range factsAt(call) {
				x, op, y, ok := cmpFact(ft)
				if !ok {
					continue
				}
				k, isK := constInt(y)
				_, ch := fieldChain(x)
				isRev := len(ch) >= 1 && (ch[len(ch)-1] == w.Roles().ChUseRevision || ch[len(ch)-1] == "ProtocolRevision")
				if isRev && isK && k == 0 {
					v := op == token.EQL
					if op == token.EQL || op == token.NEQ {
						got = &v
					}
				}
			}
			// also via a bool variable noFlowControl := rev == 0
			for _, ft := range boolFactsAt(call) {
				if b, ok := ft.V.(*ssa.BinOp); ok && b.Op == token.EQL {
					_, ch := fieldChain(b.X)
					k, isK := constInt(b.Y)
					if len(ch) >= 1 && ch[len(ch)-1] == "ProtocolRevision" && isK && k == 0 {
						v := ft.True
						got = &v
					}
				}
			}
			key := w.Short(fn) + ": " + f.Name() + " chosen by the stream's revision"
			if got == nil {
				c.fail(rule, key, w.At(call), "the choice between flow-controlled and plain sender/receiver is not control-dependent on the stream's protocol revision being zero")
				return
			}
			c.check(*got == *wantZero, rule, key, w.At(call), fmt.Sprintf("revision==0 is %v here", *got), fmt.Sprintf("%s is constructed on the revision==0 is %v branch: flow control would be used towards a revision-zero peer (window updates it does not understand) or withheld from a revision-one peer", f.Name(), *got))
		})
	}
	// server: only known revisions accepted
	if a.Create != nil {
		known := 0
		for _, cr := range c.createReturns() {
			if cr.class != "stream-level" {
				continue
			}
			ne := map[int64]bool{}
			for _, ft := range factsAt(cr.ret) {
				x, op, y, ok := cmpFact(ft)
				if !ok {
					continue
				}
				_, ch := fieldChain(x)
				if len(ch) >= 1 && ch[len(ch)-1] == "ProtocolRevision" && op == token.NEQ {
					if k, isK := constInt(y); isK {
						ne[k] = true
					}
				}
			}
			if ne[0] && ne[1] {
				known++
			}
		}
		c.check(known >= 1, rule, w.Short(a.Create)+": unknown revisions rejected", posOf(w, a.Create), "a stream-level rejection exists under revision != ZERO && revision != ONE", "the server accepts a stream with a protocol revision it does not know")
	}
}

// ---------- C12 ----------

func ruleRegistryLocks(c *Ctx, rule string) {
	c.rule(rule, "registry lock discipline: every access to a registry's slice, cursor and latch is under its mutex, and every access to the by-key map under the handler's mutex")
	w := c.W
	lf := w.Locks()
	ro := w.Roles()
	regT, regMu := regNames(w)
	n := 0
	for _, acc := range w.FieldAccesses() {
		var lock string
		switch {
		case acc.Field.Type == regT && !isSyncType(fieldTypeOf(w, acc.Field)):
			lock = regMu
		case acc.Field.Type == "TunnelServiceHandler" && acc.Field.Field == ro.TSHByKey:
			lock = "TunnelServiceHandler.mu"
		default:
			continue
		}
		if acc.Constr {
			continue
		}
		n++
		held := lf.MustAt(acc.Instr).holds(lock, !acc.Write)
		rw := "read"
		if acc.Write {
			rw = "write"
		}
		c.check(held, rule, fmt.Sprintf("%s of %s in %s", rw, acc.Field, w.Short(acc.Fn)), w.At(acc.Instr), "under "+lock, fmt.Sprintf("%s of %s without %s (must-lockset %s): concurrent registration, routing and enumeration race on the registry", rw, acc.Field, lock, lf.MustAt(acc.Instr)))
	}
	c.floor(rule, n, 20, "registry field accesses")
}

func rulePick(c *Ctx, rule string) {
	c.rule(rule, "round-robin pick: under the registry mutex, with a non-empty list, the cursor is advanced by exactly one and wrapped to 0 when it reaches len, and the element returned is the one at the cursor; an empty registry yields nil, which both Invoke and NewStream turn into Unavailable")
	w := c.W
	fn := w.roleFunc("(*reverseChannels).pick")
	if fn == nil {
		c.fail(rule, "pick", "-", "not found")
		return
	}
	regT, regMu := regNames(w)
	idx := FieldRef{regT, w.Roles().RegIdx}
	chans := FieldRef{regT, w.Roles().RegChans}
	sts := storesToField(fn, idx)
	var inc, wrap *ssa.Store
	for _, st := range sts {
		if b, ok := st.Val.(*ssa.BinOp); ok && b.Op == token.ADD && isFieldLoad(b.X, idx) {
			if k, isK := constInt(b.Y); isK && k == 1 {
				inc = st
			}
		}
		if k, isK := constInt(st.Val); isK && k == 0 {
			wrap = st
		}
	}
	// local form: next := idx + 1; if next >= len(chans) { next = 0 }; idx = next; return chans[next]
	var nextPhi *ssa.Phi
	var nextStore *ssa.Store
	if len(sts) == 1 {
		if phi, isPhi := sts[0].Val.(*ssa.Phi); isPhi && len(phi.Edges) == 2 {
			var incV *ssa.BinOp
			incEdge, zeroEdge := -1, -1
			for i, e := range phi.Edges {
				if b, ok := e.(*ssa.BinOp); ok && b.Op == token.ADD && isFieldLoad(b.X, idx) {
					if k, isK := constInt(b.Y); isK && k == 1 {
						incV, incEdge = b, i
					}
				}
				if k, isK := constInt(e); isK && k == 0 {
					zeroEdge = i
				}
			}
			if incV != nil && zeroEdge >= 0 && incEdge >= 0 {
				edgeOK := func(i int, ops ...token.Token) bool {
					pred := phi.Block().Preds[i]
					facts := factsAt(pred.Instrs[len(pred.Instrs)-1])
					if ef, has := edgeFact(pred, phi.Block()); has {
						facts = append(facts, normFact(ef))
					}
					for _, f := range facts {
						x, op, y, ok := cmpFact(f)
						if !ok || x != ssa.Value(incV) {
							continue
						}
						if lc, isC := y.(*ssa.Call); isC && calleeName(lc) == "builtin.len" && isFieldLoad(lc.Call.Args[0], chans) {
							for _, o := range ops {
								if op == o {
									return true
								}
							}
						}
					}
					return false
				}
				if edgeOK(zeroEdge, token.GEQ) && edgeOK(incEdge, token.LSS) {
					nextPhi, nextStore = phi, sts[0]
				}
			}
		}
	}
	if nextPhi != nil {
		c.ok(rule, "cursor advanced by exactly one", posOf(w, fn), "next := idx + 1, stored once")
		c.ok(rule, "cursor wrapped to 0 at len", posOf(w, fn), "if next >= len(chans) { next = 0 } before the store")
		var ia *ssa.IndexAddr
		allInstrs(fn, func(in ssa.Instruction) {
			if x, ok := in.(*ssa.IndexAddr); ok && isFieldLoad(x.X, chans) {
				ia = x
			}
		})
		okIdx := ia != nil && (ia.Index == ssa.Value(nextPhi) || (isFieldLoad(ia.Index, idx) && dominates(nextStore, ia)))
		nonEmpty := false
		if ia != nil {
			for _, f := range factsAt(ia) {
				if x, op, y, ok := cmpFact(f); ok {
					if lc, isC := x.(*ssa.Call); isC && calleeName(lc) == "builtin.len" && isFieldLoad(lc.Call.Args[0], chans) {
						if k, isK := constInt(y); isK && k == 0 && (op == token.NEQ || op == token.GTR) {
							nonEmpty = true
						}
					}
				}
			}
		}
		c.check(okIdx && nonEmpty, rule, "returns the element at the cursor of a non-empty list", posOf(w, fn), "len(chans) != 0; return chans[next].ch", "the returned element is not chans[idx] read after the wrap on a list known to be non-empty: index out of range, or a tunnel skipped/repeated")
		if ia != nil {
			lf := w.Locks()
			c.check(lf.MustAt(ia).has(regMu) && lf.MustAt(nextStore).has(regMu), rule, "one critical section", w.At(ia), "advance and read under the registry mutex", "the cursor advance and the element read are not both under the registry mutex")
		}
		c.pickCallers(rule)
		return
	}
	c.check(inc != nil && len(sts) == 2, rule, "cursor advanced by exactly one", posOf(w, fn), "idx++", "the cursor is not advanced by exactly one per pick (n consecutive RPCs would not use each of n tunnels once)")
	// exclusive-branches form: if next := idx + 1; next < len(chans) { idx = next } else { idx = 0 } — the two stores sit on the
	// two edges of one test of the incremented value against len(chans); the keeping edge must know next < len
	exclusive := false
	if inc != nil && wrap != nil && inc.Block() != wrap.Block() && len(inc.Block().Preds) == 1 && len(wrap.Block().Preds) == 1 && inc.Block().Preds[0] == wrap.Block().Preds[0] &&
		len(inc.Block().Succs) == 1 && len(wrap.Block().Succs) == 1 && inc.Block().Succs[0] == wrap.Block().Succs[0] {
		for _, f := range factsAt(inc) {
			if x, op, y, ok := cmpFact(f); ok && x == inc.Val && op == token.LSS {
				if lc, isC := y.(*ssa.Call); isC && calleeName(lc) == "builtin.len" && isFieldLoad(lc.Call.Args[0], chans) {
					exclusive = true
				}
			}
		}
	}
	okWrap := false
	if wrap != nil {
		for _, f := range factsAt(wrap) {
			x, op, y, ok := cmpFact(f)
			if !ok {
				continue
			}
			if isFieldLoad(x, idx) || (exclusive && x == inc.Val) {
				if lc, isC := y.(*ssa.Call); isC && calleeName(lc) == "builtin.len" && isFieldLoad(lc.Call.Args[0], chans) {
					if op == token.GEQ {
						okWrap = true
					} else if op == token.EQL {
						// remove() shrinks the list without clamping the cursor, so idx can already be >= len when pick
						// runs: an equality test is stepped over and the element at idx > len is read
						c.fail(rule, "cursor wrap comparison", w.At(wrap), "the cursor is wrapped only when idx == len(chans); a tunnel leaving the pool while the cursor rests on the last slot leaves idx > len after the increment (remove does not clamp the cursor): index out of range in pick")
					} else {
						c.fail(rule, "cursor wrap comparison", w.At(wrap), "the cursor is wrapped when idx "+op.String()+" len(chans); it must wrap when idx >= len: with '>' the element at index len is read (panic after the last tunnel, or after a tunnel leaves)")
					}
				}
			}
		}
		if inc != nil && !dominates(inc, wrap) && !exclusive {
			okWrap = false
		}
	}
	c.check(okWrap, rule, "cursor wrapped to 0 at len", posOf(w, fn), "if idx >= len(chans) { idx = 0 } after the increment", "the cursor is not wrapped to 0 exactly when it reaches len(chans)")
	// returned element: chans[idx] after both stores, list non-empty
	var ia *ssa.IndexAddr
	allInstrs(fn, func(in ssa.Instruction) {
		if x, ok := in.(*ssa.IndexAddr); ok && isFieldLoad(x.X, chans) {
			ia = x
		}
	})
	okIdx := ia != nil && isFieldLoad(ia.Index, idx) && inc != nil && dominates(inc, ia)
	if !okIdx && exclusive && ia != nil && isFieldLoad(ia.Index, idx) {
		// the read follows the join of the two stores
		join := inc.Block().Succs[0]
		okIdx = join == ia.Block() || join.Dominates(ia.Block())
	}
	if okIdx && wrap != nil {
		// the load of idx used as index happens after the wrap block joins
		okIdx = !reaches(ia, wrap)
	}
	nonEmpty := false
	if ia != nil {
		for _, f := range factsAt(ia) {
			x, op, y, ok := cmpFact(f)
			if ok {
				if lc, isC := x.(*ssa.Call); isC && calleeName(lc) == "builtin.len" && isFieldLoad(lc.Call.Args[0], chans) {
					if k, isK := constInt(y); isK && k == 0 && (op == token.NEQ || op == token.GTR) {
						nonEmpty = true
					}
				}
			}
		}
	}
	c.check(okIdx && nonEmpty, rule, "returns the element at the cursor of a non-empty list", posOf(w, fn), "len(chans) != 0; return chans[idx].ch", "the returned element is not chans[idx] read after the wrap on a list known to be non-empty: index out of range, or a tunnel skipped/repeated")
	lf := w.Locks()
	if ia != nil && inc != nil {
		c.check(lf.MustAt(ia).has(regMu) && lf.MustAt(inc).has(regMu), rule, "one critical section", w.At(ia), "advance and read under the registry mutex", "the cursor advance and the element read are not both under the registry mutex")
	}
	c.pickCallers(rule)
}

// pickCallers: the callers of pick turn nil into Unavailable, pass their arguments through and try exactly one tunnel.
func (c *Ctx) pickCallers(rule string) {
	w := c.W
	// callers: nil -> Unavailable
	for _, name := range []string{"(multiChannel).Invoke", "(multiChannel).NewStream"} {
		m := w.roleFunc(name)
		if m == nil {
			c.fail(rule, name, "-", "not found")
			continue
		}
		okU := false
		forEachReturnValue(m, m.Signature.Results().Len()-1, func(rv ssa.Value, at ssa.Instruction) {
			// directly, or as the error of a helper shared by Invoke and NewStream that picks the tunnel
			cases := []valueCase{{rv, nil}}
			if leaves, h, isCall := returnLeavesOfCall(stripConv(rv)); isCall {
				cases = nil
				idx := h.Signature.Results().Len() - 1
				allInstrsLocal(h, func(in ssa.Instruction) {
					if ret, isR := in.(*ssa.Return); isR && idx < len(ret.Results) {
						cases = append(cases, valueCase{ret.Results[idx], factsAt(ret)})
					}
				})
				_ = leaves
			}
			for _, vc := range cases {
				if call, ok := stripConv(vc.Val).(*ssa.Call); ok && strings.HasPrefix(calleeName(call), "google.golang.org/grpc/status.") {
					if k, isK := constInt(call.Call.Args[0]); isK && k == 14 {
						for _, f := range append(append([]EdgeFact{}, vc.Facts...), factsAt(at)...) {
							if _, op, y, ok := cmpFact(f); ok && op == token.EQL && isNilConst(y) {
								okU = true
							}
						}
					}
				}
			}
		})
		c.check(okU, rule, name+": no tunnel -> Unavailable", posOf(w, m), "if ch == nil { return Unavailable }", "an empty registry is not reported as Unavailable (nil dereference or wrong code)")
		// pass-through of ctx, method, options (C17.4)
		okPass := false
		allInstrs(m, func(in ssa.Instruction) {
			call, ok := in.(*ssa.Call)
			if !ok || !call.Call.IsInvoke() || (call.Call.Method.Name() != "Invoke" && call.Call.Method.Name() != "NewStream") {
				return
			}
			all := true
			for i, arg := range call.Call.Args {
				if i+1 >= len(m.Params) || stripConv(arg) != ssa.Value(m.Params[i+1]) {
					all = false
				}
			}
			okPass = all && len(call.Call.Args) == len(m.Params)-1
		})
		// exactly one attempt on exactly one tunnel: one pick and one forwarded call, neither in a loop, and the call's
		// result returned as is (a retry on another tunnel would invoke the handler more than once)
		nPick, nFwd, looped, returned := 0, 0, false, false
		allInstrs(m, func(in ssa.Instruction) {
			call, ok := in.(*ssa.Call)
			if !ok {
				return
			}
			if call.Call.IsInvoke() && (call.Call.Method.Name() == "Invoke" || call.Call.Method.Name() == "NewStream") {
				nFwd++
				if inLoop(call.Block()) {
					looped = true
				}
				for _, r := range *call.Referrers() {
					switch x := r.(type) {
					case *ssa.Return:
						returned = true
					case *ssa.Extract:
						for _, r2 := range *x.Referrers() {
							if _, isRet := r2.(*ssa.Return); isRet {
								returned = true
							}
						}
					}
				}
				return
			}
			isPick := func(ci *ssa.Call) bool {
				if ci.Call.IsInvoke() || staticCallee(ci) != nil {
					return false
				}
				_, _, isF := loadedField(ci.Call.Value)
				return isF && ci.Call.Signature().Params().Len() == 0 && ci.Call.Signature().Results().Len() == 1
			}
			if isPick(call) {
				// dynamic call of the pick function field
				nPick++
				if inLoop(call.Block()) {
					looped = true
				}
			} else if h := helperCallee(call); h != nil {
				// a helper (shared by Invoke and NewStream) that makes the pick
				n := 0
				allInstrsLocal(h, func(x ssa.Instruction) {
					if hc, isC := x.(*ssa.Call); isC && isPick(hc) {
						n++
						if inLoop(hc.Block()) {
							looped = true
						}
					}
				})
				if n > 0 {
					nPick += n
					if inLoop(call.Block()) {
						looped = true
					}
				}
			}
		})
		c.check(nPick == 1 && nFwd == 1 && !looped && returned, rule, name+": one attempt on one tunnel", posOf(w, m), "one pick, one forwarded call, result returned as is", fmt.Sprintf("the pooled channel makes %d pick(s) and %d forwarded call(s) (in a loop: %v; result returned directly: %v): an RPC that is re-issued on another tunnel (retry, fail-over) enters the handler more than once", nPick, nFwd, looped, returned))
		c.check(okPass, rule, name+": arguments passed through unchanged", posOf(w, m), "ch."+strings.TrimPrefix(name, "(multiChannel).")+"(ctx, …, opts...)", "the pooled channel does not pass its context, method and call options unchanged to the picked tunnel (WithTunnelChannel / metadata / deadlines would be lost)")
	}
}

func ruleLatch(c *Ctx, rule string) {
	c.rule(rule, "readiness latch typestate: add closes the latch exactly on the 0 -> 1 transition (after the append), remove re-makes it exactly on the 1 -> 0 transition (after the delete), both under the registry mutex; waitForReady snapshots the latch under the mutex and waits with a context alternative; ready reports len > 0")
	w := c.W
	lf := w.Locks()
	add, rm, wfr, rdy := w.roleFunc("(*reverseChannels).add"), w.roleFunc("(*reverseChannels).remove"), w.roleFunc("(*reverseChannels).waitForReady"), w.roleFunc("(*reverseChannels).ready")
	if add == nil || rm == nil || wfr == nil || rdy == nil {
		c.fail(rule, "registry operations", "-", "add/remove/waitForReady/ready not all found")
		return
	}
	regT, regMu := regNames(w)
	chans, avail := FieldRef{regT, w.Roles().RegChans}, FieldRef{regT, w.Roles().RegAvail}
	// add
	var app *ssa.Store
	for _, st := range storesToField(add, chans) {
		if call, ok := st.Val.(*ssa.Call); ok && calleeName(call) == "builtin.append" {
			app = st
		}
	}
	cls := closesOfField(add, avail)
	okAdd := app != nil && len(cls) == 1 && dominates(app, cls[0]) && c.latchCloseOK(cls[0])
	c.check(okAdd, rule, "add: latch closed exactly on the first registration", posOf(w, add), "append; if len(chans) == 1 { close(avail) }", "the latch is not closed exactly when the first tunnel registers (after the append, under the mutex): WaitForReady never returns, or a second registration closes a closed channel (panic)")
	// the appended entry carries ch and key
	okEntry := false
	if app != nil {
		d := desc(app.Val)
		okEntry = strings.Contains(d, "builtin.append(")
		allInstrs(add, func(in ssa.Instruction) {
			if al, ok := in.(*ssa.Alloc); ok && namedOf(al.Type()) != nil && isRegEntry(w, al.Type()) && structOf(al.Type()) != nil {
				if _, isArr := derefType(al.Type()).Underlying().(*types.Array); isArr {
					return
				}
				st := storesInto(al)
				hasCh, hasKey := false, false
				for _, sv := range st {
					if stripConv(sv) == ssa.Value(add.Params[1]) {
						hasCh = true
					}
					if stripConv(sv) == paramAt(add, 2) {
						hasKey = true
					}
				}
				if hasCh && hasKey {
					okEntry = true
				} else {
					okEntry = false
				}
			}
		})
	}
	c.check(okEntry, rule, "add: entry records the channel and its key", posOf(w, add), "{ch: ch, key: key}", "the registered entry does not hold the given channel and key")
	// remove
	var mk *ssa.Store
	for _, st := range storesToField(rm, avail) {
		if _, ok := st.Val.(*ssa.MakeChan); ok {
			mk = st
		}
	}
	okRm := false
	if mk != nil && lf.MustAt(mk).has(regMu) {
		for _, f := range factsAt(mk) {
			x, op, y, ok := cmpFact(f)
			if ok {
				if lc, isC := x.(*ssa.Call); isC && calleeName(lc) == "builtin.len" && isFieldLoad(lc.Call.Args[0], chans) {
					if k, isK := constInt(y); isK && k == 0 && op == token.EQL {
						okRm = true
					}
				}
			}
		}
		// after the delete store
		del := storesToField(rm, chans)
		okRm = okRm && len(del) == 1 && dominates(del[0], mk)
	}
	c.check(okRm, rule, "remove: latch re-armed exactly when the last tunnel leaves", posOf(w, rm), "delete; if len(chans) == 0 { avail = make(chan) }", "the latch is not re-made exactly when the registry becomes empty (after the delete, under the mutex): Ready/WaitForReady would keep reporting ready with no tunnel, or a later add would close a closed channel")
	// remove deletes exactly the matching entry and returns its key
	okDel := false
	// the comparison selects with the right polarity: the deletion (or, where the search lives in a predicate literal or an
	// index helper, the return that reports a hit) happens where entry.ch == ch is known to HOLD
	matchHolds := func(point ssa.Instruction) bool {
		for _, f := range factsAt(point) {
			if x, op, y, ok := cmpFact(f); ok && op == token.EQL {
				if _, ch := fieldChain(x); len(ch) == 1 && origin(y) == ssa.Value(rm.Params[1]) {
					return true
				}
			}
		}
		return false
	}
	for _, scan := range append([]*ssa.Function{rm}, rm.AnonFuncs...) { // incl. a predicate literal given to slices.IndexFunc
		allInstrs(scan, func(in ssa.Instruction) {
			if b, ok := in.(*ssa.BinOp); ok && b.Op == token.EQL {
				if _, ch := fieldChain(b.X); len(ch) == 1 && origin(b.Y) == ssa.Value(rm.Params[1]) {
					g := b.Parent()
					if g == rm {
						for _, d := range storesToField(rm, chans) {
							if d.Parent() == rm && matchHolds(d) {
								okDel = true
							}
						}
						return
					}
					for _, ret := range returnsOf(g) {
						if len(ret.Results) == 0 {
							continue
						}
						r0 := stripConv(ret.Results[0])
						if k, isK := constInt(r0); isK && k < 0 {
							continue
						}
						if isConstBool(r0, false) {
							continue
						}
						if matchHolds(ret) || r0 == ssa.Value(b) {
							okDel = true // (a predicate that returns the comparison itself reports a hit exactly when it holds)
						}
					}
				}
			}
		})
	}
	c.check(okDel, rule, "remove: matches the entry by channel identity", posOf(w, rm), "chans[i].ch == ch", "remove does not select the entry whose channel is the one given")
	// ... and takes exactly that entry out of the list, shifting the rest down: one of the deletion idioms
	//   chans = append(chans[:i], chans[i+1:]...) | chans = slices.Delete(chans, i, i+1) |
	//   copy(chans[i:…], chans[i+1:]); chans[len-1] = zero; chans = chans[:len-1]
	// where a slot that is cleared afterwards is the LAST one (clearing slot i wipes the entry that was just moved there)
	okShape, whyShape := false, "unrecognised deletion shape"
	sameIdx := func(a, b ssa.Value) bool {
		return a != nil && b != nil && (stripConv(a) == stripConv(b) || origin(a) == origin(b))
	}
	isIdxPlus1 := func(v, i ssa.Value) bool {
		b, ok := stripConv(v).(*ssa.BinOp)
		if !ok || b.Op != token.ADD {
			return false
		}
		k, isK := constInt(b.Y)
		return isK && k == 1 && sameIdx(b.X, i)
	}
	for _, st := range storesToField(rm, chans) {
		switch x := stripConv(st.Val).(type) {
		case *ssa.Call:
			cn := calleeName(x)
			if cn == "builtin.append" && len(x.Call.Args) == 2 {
				s1, ok1 := stripConv(x.Call.Args[0]).(*ssa.Slice)
				s2, ok2 := stripConv(x.Call.Args[1]).(*ssa.Slice)
				if ok1 && ok2 && isFieldLoad(s1.X, chans) && isFieldLoad(s2.X, chans) && s1.Low == nil && s1.High != nil && s2.High == nil && isIdxPlus1(s2.Low, s1.High) {
					okShape = true
				} else {
					whyShape = "the list is rebuilt as " + desc(st.Val) + ", not append(chans[:i], chans[i+1:]...)"
				}
			}
			if g := staticCallee(x); g != nil && g.Pkg != nil && g.Pkg.Pkg.Path() == "slices" && strings.HasPrefix(g.Name(), "Delete") && len(x.Call.Args) == 3 {
				if isFieldLoad(x.Call.Args[0], chans) && isIdxPlus1(x.Call.Args[2], x.Call.Args[1]) {
					okShape = true
				}
			}
		case *ssa.Slice:
			// truncation after a copy that shifted the tail down
			if !isFieldLoad(x.X, chans) || x.Low != nil || x.High == nil {
				continue
			}
			var cp *ssa.Call
			allInstrs(rm, func(in ssa.Instruction) {
				if call, ok := in.(*ssa.Call); ok && calleeName(call) == "builtin.copy" && dominates(call, st) {
					cp = call
				}
			})
			if cp == nil {
				whyShape = "the list is truncated without the tail having been shifted down"
				continue
			}
			d, okD := stripConv(cp.Call.Args[0]).(*ssa.Slice)
			sr, okS := stripConv(cp.Call.Args[1]).(*ssa.Slice)
			if !okD || !okS || d.Low == nil || !isIdxPlus1(sr.Low, d.Low) {
				whyShape = "the copy is " + desc(cp) + ", not copy(chans[i:…], chans[i+1:])"
				continue
			}
			okShape = true
			// a cleared slot must be the last one
			allInstrs(rm, func(in ssa.Instruction) {
				z, ok := in.(*ssa.Store)
				if !ok {
					return
				}
				ia, isIA := z.Addr.(*ssa.IndexAddr)
				if !isIA || !isFieldLoad(ia.X, chans) {
					return
				}
				if sameIdx(ia.Index, d.Low) && !sameIdx(ia.Index, x.High) {
					okShape, whyShape = false, "after shifting the tail down the slot that is cleared is the one at the removed index — which now holds the NEXT tunnel — instead of the last slot"
				}
			})
		}
	}
	c.check(okShape, rule, "remove: deletes exactly the matched entry", posOf(w, rm), "append(chans[:i], chans[i+1:]...) / slices.Delete / copy+truncate", "remove does not take exactly the matched entry out of the list ("+whyShape+"): an open tunnel is lost from routing (or a nil entry is handed out by the round-robin pick) while the closed one may stay")
	// waitForReady
	var sel *ssa.Select
	allInstrs(wfr, func(in ssa.Instruction) {
		if s, ok := in.(*ssa.Select); ok && s.Blocking {
			sel = s
		}
	})
	okW := false
	if sel != nil {
		hasCtx, hasLatch := false, false
		for _, st := range sel.States {
			if call, ok := st.Chan.(*ssa.Call); ok && call.Call.IsInvoke() && call.Call.Method.Name() == "Done" {
				hasCtx = true
			}
			if ld, ok := st.Chan.(*ssa.UnOp); ok && isFieldLoad(ld, avail) && lf.MustAt(ld).has(regMu) && !lf.MustAt(sel).has(regMu) {
				hasLatch = true
			}
		}
		okW = hasCtx && hasLatch
	}
	c.check(okW, rule, "waitForReady: snapshot under the mutex, wait outside it with a context alternative", posOf(w, wfr), "avail read under mu; select { <-avail; <-ctx.Done() }", "waitForReady does not read the latch under the mutex and wait outside it with a ctx.Done() case")
	// ... and it reports "ready" (nil) only after receiving from the latch: every other return is a provably non-nil error
	if sel != nil && wfr.Signature.Results().Len() == 1 && isErrorType(wfr.Signature.Results().At(0).Type()) {
		okNil, nRet := true, 0
		forEachReturnValue(wfr, 0, func(v ssa.Value, at ssa.Instruction) {
			nRet++
			if recvDominates(at, func(ch ssa.Value) bool { return isFieldLoad(ch, avail) || isFieldLoad(origin(ch), avail) }) {
				return
			}
			if nn, _ := nonNilErrorPhiAware(v, at); !nn {
				okNil = false
			}
		})
		c.check(okNil && nRet >= 2, rule, "waitForReady: ready only after the latch", posOf(w, wfr), "nil only after <-avail; ctx.Err() after <-ctx.Done()", "waitForReady can return nil without having received from the latch (the context alternative reports success): a caller waiting for a tunnel is told one is ready when its context merely ended")
	}
	okR := false
	forEachReturnValue(rdy, 0, func(v ssa.Value, at ssa.Instruction) {
		if b, ok := v.(*ssa.BinOp); ok && b.Op == token.GTR {
			if lc, isC := b.X.(*ssa.Call); isC && calleeName(lc) == "builtin.len" && isFieldLoad(lc.Call.Args[0], chans) {
				if k, isK := constInt(b.Y); isK && k == 0 {
					okR = true
				}
			}
		}
	})
	c.check(okR, rule, "ready: len(chans) > 0", posOf(w, rdy), "return len(chans) > 0", "Ready() does not report whether the set of tunnels is non-empty")
}

func ruleUnregisterAndCallbacks(c *Ctx, r6, r7 string) {
	c.rule(r6, "unregister removes the channel from the global registry and, using the key returned by that removal, from the by-key registry; registration uses the key computed by the affinity function for this channel, in both registries")
	c.rule(r7, "callbacks: exactly one call site of the open callback, after both registrations; the close callback is deferred in the same function; neither is in a loop")
	w := c.W
	ro := w.Roles()
	un := w.roleFunc("(*TunnelServiceHandler).unregister")
	ort := w.roleFunc("(*TunnelServiceHandler).openReverseTunnel")
	rmF, addF := w.roleFunc("(*reverseChannels).remove"), w.roleFunc("(*reverseChannels).add")
	if un == nil || ort == nil || rmF == nil || addF == nil {
		c.fail(r6, "unregister / openReverseTunnel", "-", "not found")
		return
	}
	var rms []*ssa.Call
	allInstrs(un, func(in ssa.Instruction) {
		if call, ok := in.(*ssa.Call); ok && staticCallee(call) == rmF {
			rms = append(rms, call)
		}
	})
	ok6 := false
	if len(rms) == 2 {
		first, second := rms[0], rms[1]
		if !dominates(first, second) {
			first, second = second, first
		}
		fr1, _, _ := loadedField(first.Call.Args[0])
		// second's registry = reverseByKey[key returned by first]
		reg2 := origin(second.Call.Args[0])
		if ex, isEx := reg2.(*ssa.Extract); isEx && ex.Index == 0 {
			// rc, found := reverseByKey[k]
			if l, isL := ex.Tuple.(*ssa.Lookup); isL && l.CommaOk {
				reg2 = l
			}
		}
		if lk, isL := reg2.(*ssa.Lookup); isL {
			fr2, _, _ := loadedField(lk.X)
			if ex, isEx := origin(lk.Index).(*ssa.Extract); isEx && ex.Tuple == ssa.Value(first) && ex.Index == 0 {
				ok6 = fr1.Field == ro.TSHReverse && fr2.Field == ro.TSHByKey && stripConv(first.Call.Args[1]) == ssa.Value(un.Params[1]) && stripConv(second.Call.Args[1]) == ssa.Value(un.Params[1])
			}
		}
	}
	if ok6 {
		// the by-key removal must not depend on the value of the key: every key the affinity function can return (nil
		// included) is a legal registry key, so "already removed" may only be read off the removal's ok result
		first, second := rms[0], rms[1]
		if !dominates(first, second) {
			first, second = second, first
		}
		keyTest := ""
		for _, f := range factsAt(second) {
			x, _, y, ok := cmpFact(f)
			if !ok {
				continue
			}
			for _, v := range []ssa.Value{x, y} {
				if ex, isEx := origin(stripConv(v)).(*ssa.Extract); isEx && ex.Tuple == ssa.Value(first) && ex.Index == 0 {
					keyTest = desc(f.Cond)
				}
			}
		}
		c.check(keyTest == "", r6, w.Short(un)+": by-key removal for every key", w.At(second), "the by-key removal is not conditional on the key's value", "the by-key removal is conditional on the key returned by the first removal ("+keyTest+"): a tunnel whose affinity key has that value (nil is a legal key) is removed from the global list but stays routable through KeyAsChannel")
	}
	c.check(ok6, r6, w.Short(un)+": both registries, second keyed by the first removal's result", posOf(w, un), "k, ok := reverse.remove(ch); reverseByKey[k].remove(ch)", "unregister does not remove the channel from the global registry and then from the by-key registry selected by the key that removal returned: a closed tunnel stays routable through KeyAsChannel")
	// the channel's tear-down is this unregister
	okTD := false
	allInstrs(ort, func(in ssa.Instruction) {
		if call, ok := in.(*ssa.Call); ok {
			if w.isRoleCall(call, "newReverseChannel") {
				if mc, isMC := call.Call.Args[len(call.Call.Args)-1].(*ssa.MakeClosure); isMC {
					if bf, isF := mc.Fn.(*ssa.Function); isF {
						allInstrs(bf, func(x ssa.Instruction) {
							if ci, isC := x.(ssa.CallInstruction); isC && w.sameFn(staticCallee(ci), un) {
								okTD = true
							}
						})
					}
				}
			}
		}
	})
	c.check(okTD, r6, w.Short(ort)+": unregister is the channel's tear-down callback", posOf(w, ort), "newReverseChannel(…, s.unregister)", "the reverse channel is not created with unregister as its tear-down: closing it would leave it registered until the handler returns")
	// registration key
	var adds []*ssa.Call
	allInstrs(ort, func(in ssa.Instruction) {
		if call, ok := in.(*ssa.Call); ok && staticCallee(call) == addF {
			adds = append(adds, call)
		}
	})
	okKey := len(adds) == 2
	for _, ad := range adds {
		// key: phi(nil, affinityKey(ch))
		if len(ad.Call.Args) < 3 {
			okKey = false
			continue
		}
		cases := valueCases(ad.Call.Args[2], 0) // written here, or returned by a helper that holds the nil test
		if len(cases) < 2 {
			okKey = false
			continue
		}
		good := false
		for _, vc := range cases {
			if call, ok := vc.Val.(*ssa.Call); ok && staticCallee(call) == nil && !call.Call.IsInvoke() && len(call.Call.Args) > 0 {
				if fr, _, isF := loadedField(call.Call.Value); isF && fr.Field == ro.TSHAffinity && origin(call.Call.Args[0]) == origin(ad.Call.Args[1]) {
					good = true
				}
			}
		}
		if !good {
			okKey = false
		}
	}
	// by-key registry selected with the same key
	if okKey {
		okKey = false
		for _, ad := range adds {
			if call, ok := origin(ad.Call.Args[0]).(*ssa.Call); ok && w.isRoleCall(call, "(*TunnelServiceHandler).reverseChannelsForKey") {
				if call.Call.Args[1] == ad.Call.Args[2] {
					okKey = true
				}
			}
		}
	}
	c.check(okKey, r6, w.Short(ort)+": registered under the affinity key of this channel in both registries", posOf(w, ort), "key = affinityKey(ch); reverse.add(ch, key); reverseChannelsForKey(key).add(ch, key)", "the channel is not registered with the key its affinity function returned, in the global registry and in the registry for that same key: KeyAsChannel(k) would route to a tunnel with another key")
	// callbacks
	var open []*ssa.Call
	var closeD []*ssa.Defer
	// where the close callback is called: the deferred call itself, or the one call inside a private helper that is deferred
	// (`defer s.notifyReverseTunnelDisconnect(ch)` with the nil test inside)
	closeCall := map[*ssa.Defer]ssa.CallInstruction{}
	allInstrs(ort, func(in ssa.Instruction) {
		switch x := in.(type) {
		case *ssa.Call:
			if staticCallee(x) == nil && !x.Call.IsInvoke() {
				if fr, _, isF := loadedField(x.Call.Value); isF && fr.Field == ro.TSHOnConnect {
					open = append(open, x)
				}
			}
		case *ssa.Defer:
			if fr, _, isF := loadedField(x.Call.Value); isF && fr.Field == ro.TSHOnDisconnect {
				closeD = append(closeD, x)
				closeCall[x] = x
			} else if h := staticCallee(x); h != nil && w.isPrivateHelper(h) && w.soleSite(h) == ssa.CallInstruction(x) {
				var inner []*ssa.Call
				other := false
				allInstrs(h, func(y ssa.Instruction) {
					ci, isCI := y.(ssa.CallInstruction)
					if !isCI {
						return
					}
					if fr, _, isF := loadedField(ci.Common().Value); isF && fr.Field == ro.TSHOnDisconnect && staticCallee(ci) == nil {
						if yc, isCall := y.(*ssa.Call); isCall && !inLoop(yc.Block()) {
							inner = append(inner, yc)
						} else {
							other = true
						}
					}
				})
				if len(inner) == 1 && !other {
					closeD = append(closeD, x)
					closeCall[x] = inner[0]
				}
			}
		}
	})
	ok7 := len(open) == 1 && len(closeD) == 1 && !inLoop(open[0].Block()) && !inLoop(closeD[0].Block())
	if ok7 {
		for _, ad := range adds {
			if !dominates(ad, open[0]) {
				ok7 = false
			}
		}
		// each guarded only by its own != nil
		ok7 = ok7 && origin(open[0].Call.Args[0]) == origin(closeCall[closeD[0]].Common().Args[0])
	}
	if ok7 {
		// the open callback is guarded only by its own != nil: whatever else would skip it must skip the close callback too
		for _, f := range boolFactsAt(open[0]) {
			isOwn := false
			if b, isB := f.V.(*ssa.BinOp); isB && isNilConst(b.Y) {
				if fr, _, isF := loadedField(b.X); isF && fr.Field == ro.TSHOnConnect {
					isOwn = true
				}
			}
			if !isOwn {
				guardsClose := false
				for _, g := range boolFactsAt(closeCall[closeD[0]]) {
					if g.V == f.V && g.True == f.True {
						guardsClose = true
					}
				}
				if !guardsClose {
					ok7 = false
				}
			}
		}
	}
	if ok7 {
		// the deferred close callback is registered exactly when it is configured: the only test in front of it that the
		// open callback does not share is its own != nil
		for _, f := range boolFactsAt(closeCall[closeD[0]]) {
			isOwn := false
			if b, isB := f.V.(*ssa.BinOp); isB && isNilConst(b.Y) && b.Op == token.NEQ && f.True {
				if fr, _, isF := loadedField(b.X); isF && fr.Field == ro.TSHOnDisconnect {
					isOwn = true
				}
			}
			if b, isB := f.V.(*ssa.BinOp); isB && isNilConst(b.Y) && b.Op == token.EQL && !f.True {
				if fr, _, isF := loadedField(b.X); isF && fr.Field == ro.TSHOnDisconnect {
					isOwn = true
				}
			}
			if !isOwn {
				sharedWithOpen := false
				for _, g := range boolFactsAt(open[0]) {
					if g.V == f.V && g.True == f.True {
						sharedWithOpen = true
					}
				}
				if b, isB := f.V.(*ssa.BinOp); isB && isNilConst(b.Y) {
					if fr, _, isF := loadedField(b.X); isF && (fr.Field == ro.TSHOnConnect) {
						sharedWithOpen = false // the OTHER callback's nil test
					}
				}
				if !sharedWithOpen {
					ok7 = false
				}
			}
		}
		hasOwn := false
		for _, f := range boolFactsAt(closeCall[closeD[0]]) {
			if b, isB := f.V.(*ssa.BinOp); isB && isNilConst(b.Y) {
				if fr, _, isF := loadedField(b.X); isF && fr.Field == ro.TSHOnDisconnect {
					hasOwn = true
				}
			}
		}
		if !hasOwn {
			ok7 = false // a nil close callback would be deferred and panic
		}
	}
	c.check(ok7, r7, w.Short(ort)+": one open callback after registration, close callback deferred", posOf(w, ort), "open(ch) once after both adds; defer close(ch)", "the open/close callbacks are not 'exactly one open call after registration, and a deferred close call for the same channel', or one of them sits in a loop")
	// the fields consulted above hold what the user configured: each is assigned only the option of the public options
	// struct that is documented for it (public API names, frozen here; the handler's own field names are resolved by use)
	tshName := ""
	if tn := recvNamed(ort); tn != nil {
		tshName = tn.Obj().Name()
	}
	for _, pl := range []struct{ rule, field, option, what string }{
		{r7, ro.TSHOnConnect, "OnReverseTunnelOpen", "the open callback"},
		{r7, ro.TSHOnDisconnect, "OnReverseTunnelClose", "the close callback"},
		{r6, ro.TSHAffinity, "AffinityKey", "the affinity-key function"},
	} {
		nSt, okSt, at := 0, true, "-"
		for _, f := range w.Funcs {
			allInstrsLocal(f, func(in ssa.Instruction) {
				st, isSt := in.(*ssa.Store)
				if !isSt {
					return
				}
				fr, _, isF := fieldOfAddr(st.Addr)
				if !isF || fr.Type != tshName || fr.Field != pl.field {
					return
				}
				nSt++
				at = w.At(in)
				src, _, isL := loadedField(origin(st.Val))
				if !isL || src.Field != pl.option {
					okSt = false
				}
			})
		}
		c.check(nSt >= 1 && okSt, pl.rule, tshName+"."+pl.field+": holds the configured "+pl.option, at, pl.field+" = options."+pl.option, pl.what+" the handler consults is not (only) assigned from the option "+pl.option+" the user configured: it is nil, constant or another option's value")
	}
	// the wait comes after the callbacks
	var wait ssa.Instruction
	allInstrs(ort, func(in ssa.Instruction) {
		if u, ok := in.(*ssa.UnOp); ok && u.Op == token.ARROW {
			wait = u
		}
	})
	if wait != nil && len(closeD) == 1 {
		c.check(reaches(closeD[0], wait) || dominates(closeD[0], wait), r7, w.Short(ort)+": close callback registered before the handler blocks", w.At(closeD[0]), "defer before <-ch.Done()", "the close callback is deferred only after the handler stopped waiting")
	}
}

func inLoopPhi(phi *ssa.Phi) bool {
	for _, p := range phi.Block().Preds {
		if phi.Block().Dominates(p) {
			return true
		}
	}
	return false
}

// regNames: the registry type's name and its mutex ("Type.field").
func regNames(w *World) (string, string) {
	ro := w.Roles()
	if ro.Registry == nil {
		return "reverseChannels", "reverseChannels.mu"
	}
	name := ro.Registry.Obj().Name()
	st := ro.Registry.Underlying().(*types.Struct)
	for i := 0; i < st.NumFields(); i++ {
		if typeIs(st.Field(i).Type(), "sync", "Mutex") {
			return name, name + "." + st.Field(i).Name()
		}
	}
	return name, name + ".mu"
}

func isRegEntry(w *World, t types.Type) bool {
	ro := w.Roles()
	if ro.Registry == nil {
		return false
	}
	st := ro.Registry.Underlying().(*types.Struct)
	for i := 0; i < st.NumFields(); i++ {
		if sl, ok := st.Field(i).Type().Underlying().(*types.Slice); ok {
			if n, e := namedOf(t), namedOf(sl.Elem()); n != nil && e != nil && n.Obj() == e.Obj() {
				return true
			}
		}
	}
	return false
}

// ruleKeyAsChannel (C12.8): the pooled channel for a key resolves the key's registry at every call.
func ruleKeyAsChannel(c *Ctx, rule string) {
	c.rule(rule, "KeyAsChannel(k) resolves the registry for k at every call: each of its pick / ready / wait functions reaches a lookup of the by-key map (a handle bound once to a registry object goes stale when registries are replaced), and AsChannel binds the handler's single global registry")
	w := c.W
	ro := w.Roles()
	fn := w.Func("(*TunnelServiceHandler).KeyAsChannel")
	if fn == nil {
		c.fail(rule, "KeyAsChannel", "-", "not found")
		return
	}
	n := 0
	allInstrs(fn, func(in ssa.Instruction) {
		mc, ok := in.(*ssa.MakeClosure)
		if !ok {
			return
		}
		cf, ok := mc.Fn.(*ssa.Function)
		if !ok {
			return
		}
		n++
		reach := w.sameGoroutineReach(cf, nil)
		looks := false
		for g := range reach {
			allInstrs(g, func(x ssa.Instruction) {
				if l, isL := x.(*ssa.Lookup); isL {
					if fr, _, isF := loadedField(l.X); isF && fr.Field == ro.TSHByKey {
						looks = true
					}
				}
			})
		}
		c.check(looks, rule, "KeyAsChannel: "+cf.Name()+" resolves the registry by key at call time", w.At(mc), "reaches a lookup of "+ro.TSHByKey, "this function of the pooled channel does not look the key up in the by-key map when it is called (it is bound to one registry object): after all tunnels of the key closed and a new one opened, a long-lived handle routes to / waits on an orphaned registry")
	})
	c.floor(rule, n, 3, "functions of the per-key pooled channel (pick, ready, wait)")
	// ... and the key it looks up is the one KeyAsChannel was called with
	keyP := paramAt(fn, 1)
	allInstrs(fn, func(in ssa.Instruction) {
		mc, ok := in.(*ssa.MakeClosure)
		if !ok {
			return
		}
		cf, ok := mc.Fn.(*ssa.Function)
		if !ok {
			return
		}
		nLook, okKey := 0, true
		w.instrsThroughHelpers(cf, func(x ssa.Instruction) {
			l, isL := x.(*ssa.Lookup)
			if !isL {
				return
			}
			if fr, _, isF := loadedField(l.X); !isF || fr.Field != ro.TSHByKey {
				return
			}
			nLook++
			o := origin(l.Index)
			if keyP != nil && o != ssa.Value(keyP) {
				// a field of the small struct whose bound methods fill the slots (keyed{h, key}.pick): what the literal
				// bound in KeyAsChannel holds in that field
				if fi, recv := fieldReadOf(o); fi >= 0 && len(mc.Bindings) == 1 {
					if fv, isFV := origin(recv).(*ssa.FreeVar); isFV && fv.Parent() == cf {
						if v := localFieldValue(mc.Bindings[0], fi, mc); v != nil {
							o = origin(v)
						}
					}
				}
			}
			if keyP == nil || o != ssa.Value(keyP) {
				okKey = false
			}
		})
		c.check(nLook > 0 && okKey, rule, "KeyAsChannel: "+cf.Name()+" looks up the caller's key", w.At(mc), ro.TSHByKey+"[key]", "this function of the pooled channel looks the by-key map up with something other than the key KeyAsChannel was given: RPCs are routed to (or readiness is reported for) tunnels of another key")
	})
	// what each slot answers: the zero answer (nil / false) exactly when there is no registry for the key, else the
	// answer of that registry
	regName, _ := regNames(w)
	allInstrs(fn, func(in ssa.Instruction) {
		mc, ok := in.(*ssa.MakeClosure)
		if !ok {
			return
		}
		cf, ok := mc.Fn.(*ssa.Function)
		if !ok || cf.Signature.Results().Len() != 1 {
			return
		}
		okAns, nZero, nDel := true, 0, 0
		why := ""
		forEachReturnValue(cf, 0, func(v0 ssa.Value, at ssa.Instruction) {
			for _, vc := range valueCases(v0, 0) {
				absent, present := false, false
				for _, f := range vc.Facts {
					x, op, y, isCmp := cmpFact(f)
					if !isCmp || !isNilConst(y) {
						continue
					}
					if l, isL := origin(x).(*ssa.Lookup); isL {
						if fr, _, isF := loadedField(l.X); isF && fr.Field == ro.TSHByKey {
							if op == token.EQL {
								absent = true
							}
							if op == token.NEQ {
								present = true
							}
						}
					}
				}
				switch x := vc.Val.(type) {
				case *ssa.Const:
					nZero++
					if !isZeroConst(x) {
						okAns, why = false, "a constant answer other than the zero value"
						continue
					}
					if !absent {
						okAns, why = false, "the zero answer (nil / false) is given although a registry for the key may exist"
					}
				case *ssa.Call:
					g := staticCallee(x)
					if g == nil || recvNamed(g) == nil || recvNamed(g).Obj().Name() != regName {
						continue // an error from the wait, etc.
					}
					nDel++
					if absent {
						okAns, why = false, "the registry's method is called on the branch where the lookup found no registry (nil dereference)"
					}
					if _, fromMap := origin(x.Call.Args[0]).(*ssa.Lookup); fromMap && !present && !nilSafeMethod(g) {
						okAns, why = false, "the registry's method is called on what the map lookup returned without a nil test, and that method dereferences its receiver (no tunnel ever registered for the key: nil dereference)"
					}
				}
			}
		})
		if nZero == 0 && okAns {
			return // a slot without a 'no registry' answer (the wait creates the registry; or the callee is nil-safe)
		}
		c.check(okAns && nDel >= 1, rule, "KeyAsChannel: "+cf.Name()+" answers for the registry of the key", w.At(mc), "zero answer iff no registry, else the registry's answer", "this function of the pooled channel is wrong about the 'no registry for this key' case: "+why)
	})
	// both pooled channels are complete: every function slot of the literal is filled, AsChannel's with methods of the
	// handler's one global registry
	for _, name := range []string{"(*TunnelServiceHandler).AsChannel", "(*TunnelServiceHandler).KeyAsChannel"} {
		f := w.Func(name)
		if f == nil {
			c.fail(rule, name, "-", "not found")
			continue
		}
		nLit := 0
		allInstrs(f, func(in ssa.Instruction) {
			al, ok := in.(*ssa.Alloc)
			if !ok || al.Comment != "complit" {
				return
			}
			pt, isP := al.Type().(*types.Pointer)
			if !isP {
				return
			}
			st, isS := pt.Elem().Underlying().(*types.Struct)
			if !isS {
				return
			}
			var slots []int
			for i := 0; i < st.NumFields(); i++ {
				if _, isSig := st.Field(i).Type().Underlying().(*types.Signature); isSig {
					slots = append(slots, i)
				}
			}
			if len(slots) < 3 {
				return
			}
			nLit++
			var recvs []string
			for _, i := range slots {
				v := storedFieldValue(al, i, f.Blocks[len(f.Blocks)-1].Instrs[0])
				if v == nil {
					// the literal is returned right away: the latest store anywhere
					for _, r := range *al.Referrers() {
						if fa, isFA := r.(*ssa.FieldAddr); isFA && fa.Field == i {
							for _, r2 := range *fa.Referrers() {
								if st2, isSt := r2.(*ssa.Store); isSt && st2.Addr == ssa.Value(fa) {
									v = st2.Val
								}
							}
						}
					}
				}
				filled := v != nil && !isNilConst(v)
				c.check(filled, rule, w.Short(f)+": slot "+st.Field(i).Name()+" of the pooled channel is filled", w.At(al), desc(v), "the pooled channel is built without its "+st.Field(i).Name()+" function: calling the corresponding method (Ready / WaitForReady / an RPC) panics with a nil function call")
				if mc, isMC := v.(*ssa.MakeClosure); isMC && len(mc.Bindings) == 1 {
					if fr, _, isF := loadedField(mc.Bindings[0]); isF {
						recvs = append(recvs, fr.Field)
					}
				}
			}
			if strings.HasSuffix(name, ".AsChannel") {
				okG := len(recvs) == len(slots)
				for _, r := range recvs {
					if r != ro.TSHReverse {
						okG = false
					}
				}
				c.check(okG, rule, w.Short(f)+": all slots are methods of the global registry", w.At(al), "bound to "+ro.TSHReverse, "the functions of AsChannel's pooled channel are not all methods of the handler's global registry "+ro.TSHReverse+": readiness and routing would look at different sets of tunnels")
			}
		})
		c.check(nLit == 1, rule, w.Short(f)+": builds one pooled channel", posOf(w, f), "one literal", fmt.Sprintf("%d pooled-channel literals found, expected 1: unrecognised shape", nLit))
	}
	// registries are never removed from the by-key map while handles may exist, or lookups are per call (above)
}

// ruleGetOrCreateAtomic (C12.10): the per-key registry is created at most once per key.
func ruleGetOrCreateAtomic(c *Ctx, rule string) {
	c.rule(rule, "get-or-create of the per-key registry is atomic: every insert into the by-key map is dominated by a failed lookup of the same key taken in the SAME critical section of the handler's mutex (write mode, no unlock in between) — a check under one lock acquisition and the insert under another lets two goroutines create two registries for one key, and a tunnel registered in the overwritten one is unreachable by key for good")
	w := c.W
	ro := w.Roles()
	lf := w.Locks()
	n := 0
	for _, fn := range w.Funcs {
		if isGenericTemplate(fn) {
			continue
		}
		allInstrsLocal(fn, func(in ssa.Instruction) {
			mu, ok := in.(*ssa.MapUpdate)
			if !ok {
				return
			}
			fr, _, isF := loadedField(mu.Map)
			if !isF || fr.Field != ro.TSHByKey {
				return
			}
			n++
			key := "insert into " + fr.String() + " in " + w.Short(fn)
			// the lookups of the same key that dominate the insert with a "not present" fact
			var lk *ssa.Lookup
			allInstrsLocal(fn, func(x ssa.Instruction) {
				l, isL := x.(*ssa.Lookup)
				if !isL || !dominates(l, mu) {
					return
				}
				if f2, _, ok2 := loadedField(l.X); !ok2 || f2 != fr || origin(l.Index) != origin(mu.Key) {
					return
				}
				if lk == nil || dominates(lk, l) {
					lk = l // the latest one
				}
			})
			if lk == nil {
				c.fail(rule, key, w.At(mu), "the insert is not preceded by a lookup of the same key: an existing registry (with its tunnels) would be overwritten")
				return
			}
			absent := false
			for _, f := range factsAt(mu) {
				x, op, y, okF := cmpFact(f)
				if okF && op == token.EQL && isNilConst(y) && origin(x) == ssa.Value(lk) {
					absent = true
				}
			}
			for _, f := range boolFactsAt(mu) {
				if ex, isEx := f.V.(*ssa.Extract); isEx && ex.Tuple == ssa.Value(lk) && ex.Index == 1 && !f.True {
					absent = true
				}
			}
			// one critical section: a write lock of the type's mutex held at both, and no unlock of it on a path between
			var common string
			for _, l := range lf.MustAt(mu).list() {
				if !strings.HasSuffix(l, ":R") && lf.MustAt(lk).holds(l, false) {
					common = l
				}
			}
			unlockedBetween := false
			allInstrsLocal(fn, func(x ssa.Instruction) {
				ci, isC := x.(*ssa.Call)
				if !isC {
					return
				}
				if op, isOp := lockOpOf(ci); isOp && (op.kind == "unlock" || op.kind == "runlock") && op.id == common && reaches(lk, x) && reaches(x, mu) {
					unlockedBetween = true
				}
			})
			c.check(absent && common != "" && !unlockedBetween, rule, key, w.At(mu), "lookup at "+w.At(lk)+" found nothing; both under "+common+" without unlocking in between", "the insert is not in the same write-locked critical section as the lookup that found the key absent (lookup at "+w.At(lk)+", locks at the lookup "+lf.MustAt(lk).String()+", at the insert "+lf.MustAt(mu).String()+"): two goroutines can both miss and both insert, and the second insert orphans the registry the first tunnel was added to")
		})
	}
	c.floor(rule, n, 1, "inserts into the by-key registry map")
}

// nilSafeMethod: the method begins by testing its receiver against nil and returns on that branch without touching it.
func nilSafeMethod(g *ssa.Function) bool {
	if len(g.Blocks) == 0 || len(g.Params) == 0 {
		return false
	}
	entry := g.Blocks[0]
	ifi, ok := entry.Instrs[len(entry.Instrs)-1].(*ssa.If)
	if !ok {
		return false
	}
	f := normFact(EdgeFact{ifi.Cond, true})
	b, isB := f.Cond.(*ssa.BinOp)
	if !isB || !isNilConst(b.Y) || stripConv(b.X) != ssa.Value(g.Params[0]) {
		return false
	}
	for _, in := range entry.Instrs[:len(entry.Instrs)-1] {
		if _, isDbg := in.(*ssa.DebugRef); isDbg {
			continue
		}
		if _, isBin := in.(*ssa.BinOp); isBin {
			continue
		}
		return false // something happens before the test
	}
	return true
}
