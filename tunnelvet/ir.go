package main

// ir.go: small, generic helpers over go/ssa used by all analyses:
// callee resolution, dominance, path queries, value origins/descriptors, guard facts.

import (
	"fmt"
	"go/constant"
	"go/token"
	"go/types"
	"sort"
	"strings"

	"golang.org/x/tools/go/ssa"
)

// ---------- callees ----------

// calleeName returns a fully qualified name of the statically known callee or interface method,
// e.g. "(*sync.Mutex).Lock", "context.WithCancel", "builtin.close", or "" for a dynamic func value.
func calleeName(c ssa.CallInstruction) string {
	cc := c.Common()
	if cc.IsInvoke() {
		return cc.Method.FullName()
	}
	switch v := cc.Value.(type) {
	case *ssa.Builtin:
		return "builtin." + v.Name()
	case *ssa.Function:
		return funcFullName(v)
	case *ssa.MakeClosure:
		if f, ok := v.Fn.(*ssa.Function); ok {
			return funcFullName(f)
		}
	}
	return ""
}

func funcFullName(f *ssa.Function) string {
	if f.Origin() != nil {
		f = f.Origin()
	}
	if obj := f.Object(); obj != nil {
		if fo, ok := obj.(*types.Func); ok {
			return fo.FullName()
		}
	}
	return f.String()
}

// staticCallee returns the *ssa.Function called, if statically known (direct call or immediately-invoked closure).
func staticCallee(c ssa.CallInstruction) *ssa.Function {
	return c.Common().StaticCallee()
}

// rootCallees returns the root-package functions a call site may invoke (static, or via VTA edges).
func (w *World) rootCallees(c ssa.CallInstruction) []*ssa.Function {
	if f := staticCallee(c); f != nil {
		if w.inRoot(f) && f.Blocks != nil {
			return []*ssa.Function{f}
		}
		return nil
	}
	n := w.CG.Nodes[c.Parent()]
	if n == nil {
		return nil
	}
	var out []*ssa.Function
	seen := map[*ssa.Function]bool{}
	for _, e := range n.Out {
		if e.Site == c && e.Callee != nil && e.Callee.Func != nil {
			f := e.Callee.Func
			if w.inRoot(f) && f.Blocks != nil && !seen[f] {
				seen[f] = true
				out = append(out, f)
			}
		}
	}
	sort.Slice(out, func(i, j int) bool { return out[i].String() < out[j].String() })
	return out
}

// callSitesOf returns all call sites (call/go/defer) in root functions that may invoke fn.
func (w *World) callSitesOf(fn *ssa.Function) []ssa.CallInstruction {
	n := w.CG.Nodes[fn]
	if n == nil {
		return nil
	}
	var out []ssa.CallInstruction
	seen := map[ssa.CallInstruction]bool{}
	for _, e := range n.In {
		if e.Site == nil || e.Caller == nil || e.Caller.Func == nil {
			continue
		}
		if !w.inRoot(e.Caller.Func) || isGenericTemplate(e.Caller.Func) {
			continue
		}
		if !seen[e.Site] {
			seen[e.Site] = true
			out = append(out, e.Site)
		}
	}
	sort.Slice(out, func(i, j int) bool { return out[i].Pos() < out[j].Pos() })
	return out
}

// ---------- instruction order / dominance ----------

func instrIndex(in ssa.Instruction) int {
	for i, x := range in.Block().Instrs {
		if x == in {
			return i
		}
	}
	return -1
}

// dominates: a executes before b on every path reaching b (same function).
func dominates(a, b ssa.Instruction) bool {
	if a.Parent() != b.Parent() {
		// virtually inlined helpers: a dominates b iff no path from the common region's entry reaches b avoiding a
		ra, rb := regionRoot(a.Parent()), regionRoot(b.Parent())
		if ra != rb || a == b {
			return false
		}
		return pathAvoiding(ra, nil, func(x ssa.Instruction) bool { return x == b }, func(x ssa.Instruction) bool { return x == a }) == nil &&
			pathAvoiding(ra, nil, func(x ssa.Instruction) bool { return x == b }, nil) != nil
	}
	if a.Block() == b.Block() {
		return instrIndex(a) < instrIndex(b)
	}
	return a.Block().Dominates(b.Block())
}

// pathAvoiding reports whether some CFG path starting just after `from` (or at function entry when
// from == nil) reaches an instruction satisfying isTarget without first executing one satisfying isCut.
// It returns the target found (for diagnostics).
func pathAvoiding(fn *ssa.Function, from ssa.Instruction, isTarget, isCut func(ssa.Instruction) bool) ssa.Instruction {
	return pathAvoidingE(fn, from, isTarget, isCut, nil)
}

// pathAvoidingE additionally refuses to cross CFG edges for which cutEdge(pred, succ) holds.
func pathAvoidingE(fn *ssa.Function, from ssa.Instruction, isTarget, isCut func(ssa.Instruction) bool, cutEdge func(pred, succ *ssa.BasicBlock) bool) ssa.Instruction {
	type start struct {
		b *ssa.BasicBlock
		i int
	}
	var work []start
	visited := map[*ssa.BasicBlock]bool{}
	type contKey struct{ call *ssa.Call }
	visitedCont := map[contKey]bool{}
	if from == nil {
		if len(fn.Blocks) == 0 {
			return nil
		}
		work = append(work, start{fn.Blocks[0], 0})
		visited[fn.Blocks[0]] = true
	} else {
		work = append(work, start{from.Block(), instrIndex(from) + 1})
	}
	for len(work) > 0 {
		s := work[len(work)-1]
		work = work[:len(work)-1]
		cut := false
		for i := s.i; i < len(s.b.Instrs); i++ {
			in := s.b.Instrs[i]
			if _, isRet := in.(*ssa.Return); isRet && s.b.Parent() != fn {
				// return of a virtually inlined helper: control continues after its only call site
				if call := inlinedInto(s.b.Parent()); call != nil {
					// `x, err := helper(); if err != nil {…}`: a return with a provably non-nil (nil) error continues on
					// the err != nil (err == nil) branch only
					if succ := errBranchAfter(call, in.(*ssa.Return)); succ != nil {
						if !visited[succ] {
							visited[succ] = true
							work = append(work, start{succ, 0})
						}
					} else {
						key := contKey{call}
						if !visitedCont[key] {
							visitedCont[key] = true
							work = append(work, start{call.Block(), instrIndex(call) + 1})
						}
					}
				}
				cut = true
				break
			}
			if isCut != nil && isCut(in) {
				cut = true
				break
			}
			if isTarget(in) {
				return in
			}
			if g := inlinedCallee(in); g != nil && len(g.Blocks) > 0 {
				// descend into the helper; the rest of this block is continued from the helper's returns
				if !visited[g.Blocks[0]] {
					visited[g.Blocks[0]] = true
					work = append(work, start{g.Blocks[0], 0})
				}
				cut = true
				break
			}
		}
		if cut {
			continue
		}
		for _, succ := range s.b.Succs {
			if cutEdge != nil && cutEdge(s.b, succ) {
				continue
			}
			if !visited[succ] {
				visited[succ] = true
				work = append(work, start{succ, 0})
			}
		}
	}
	return nil
}

// reaches: some path from just after a reaches b.
func reaches(a, b ssa.Instruction) bool {
	if a.Parent() != b.Parent() {
		ra, rb := regionRoot(a.Parent()), regionRoot(b.Parent())
		if ra != rb {
			return false
		}
		return pathAvoiding(ra, a, func(x ssa.Instruction) bool { return x == b }, nil) != nil
	}
	return pathAvoiding(a.Parent(), a, func(in ssa.Instruction) bool { return in == b }, nil) != nil
}

func isReturn(in ssa.Instruction) bool { _, ok := in.(*ssa.Return); return ok }
func isExit(in ssa.Instruction) bool {
	switch in.(type) {
	case *ssa.Return, *ssa.Panic:
		return true
	}
	return false
}

// inLoop: the block can reach itself.
func inLoop(b *ssa.BasicBlock) bool {
	if call := inlinedInto(b.Parent()); call != nil && inLoop(call.Block()) {
		return true // the helper's only call site is in a loop
	}
	seen := map[*ssa.BasicBlock]bool{}
	var work []*ssa.BasicBlock
	work = append(work, b.Succs...)
	for len(work) > 0 {
		x := work[len(work)-1]
		work = work[:len(work)-1]
		if x == b {
			return true
		}
		if seen[x] {
			continue
		}
		seen[x] = true
		work = append(work, x.Succs...)
	}
	return false
}

// allInstrs iterates over every instruction of fn.
// allInstrsLocal visits the instructions of fn itself.
func allInstrsLocal(fn *ssa.Function, f func(ssa.Instruction)) {
	for _, b := range fn.Blocks {
		for _, in := range b.Instrs {
			f(in)
		}
	}
}

// allInstrs visits the instructions of fn and, once anchors are resolved, of the private helpers it calls synchronously at
// their only call site (virtual inlining, normalize.go). Return instructions of such helpers are not visited: they are not
// exits of fn.
func allInstrs(fn *ssa.Function, f func(ssa.Instruction)) {
	allInstrsDepth(fn, f, 0)
}

func allInstrsDepth(fn *ssa.Function, f func(ssa.Instruction), depth int) {
	for _, b := range fn.Blocks {
		for _, in := range b.Instrs {
			if depth > 0 {
				if _, isRet := in.(*ssa.Return); isRet {
					continue
				}
			}
			f(in)
			if g := inlinedCallee(in); g != nil && depth < 4 {
				allInstrsDepth(g, f, depth+1)
			}
			// a function literal of fn handed to a helper of the package that does nothing with it but call it on the spot
			// (r.withLock(func() { … })): its body belongs to fn, at this point
			if depth < 4 {
				for _, lit := range syncLiteralArgs(in) {
					allInstrsDepth(lit, f, depth+1)
				}
			}
		}
	}
}

// syncLiteralArgs: the function literals (of in's own function) passed by the synchronous call `in` to a function of the
// analysed package whose corresponding parameter is only ever called, synchronously (never stored, spawned or deferred).
func syncLiteralArgs(in ssa.Instruction) []*ssa.Function {
	if crossWorld == nil {
		return nil
	}
	call, ok := in.(*ssa.Call)
	if !ok {
		return nil
	}
	h := staticCallee(call)
	if h == nil || !crossWorld.inRoot(h) || len(h.Blocks) == 0 {
		return nil
	}
	var out []*ssa.Function
	for i, a := range call.Call.Args {
		mc, isMC := a.(*ssa.MakeClosure)
		if !isMC {
			continue
		}
		lit, isF := mc.Fn.(*ssa.Function)
		if !isF || lit.Parent() != in.Parent() || lit.Synthetic != "" || i >= len(h.Params) {
			continue
		}
		p := h.Params[i]
		onlyCalled := p.Referrers() != nil && len(*p.Referrers()) > 0
		if onlyCalled {
			for _, r := range *p.Referrers() {
				switch x := r.(type) {
				case *ssa.Call:
					if x.Call.Value != ssa.Value(p) {
						onlyCalled = false
					}
				case *ssa.DebugRef:
				default:
					onlyCalled = false
				}
			}
		}
		// ... and called on every path through the helper (a helper that may skip the call does not make the literal's
		// effects happen)
		if onlyCalled {
			isExit := func(x ssa.Instruction) bool { _, isRet := x.(*ssa.Return); return isRet && x.Parent() == h }
			isCallOfP := func(x ssa.Instruction) bool {
				c, isC := x.(*ssa.Call)
				return isC && c.Call.Value == ssa.Value(p)
			}
			if pathAvoidingLocal(h, isExit, isCallOfP) {
				onlyCalled = false
			}
		}
		if onlyCalled {
			out = append(out, lit)
		}
	}
	return out
}

// pathAvoidingLocal: some path from fn's entry to an instruction satisfying isTarget avoids every instruction satisfying
// isCut; plain CFG search over fn's own blocks (no virtual inlining; usable from inside the inlining primitives).
func pathAvoidingLocal(fn *ssa.Function, isTarget, isCut func(ssa.Instruction) bool) bool {
	if len(fn.Blocks) == 0 {
		return false
	}
	seen := map[*ssa.BasicBlock]bool{fn.Blocks[0]: true}
	work := []*ssa.BasicBlock{fn.Blocks[0]}
	for len(work) > 0 {
		b := work[len(work)-1]
		work = work[:len(work)-1]
		cut := false
		for _, in := range b.Instrs {
			if isCut(in) {
				cut = true
				break
			}
			if isTarget(in) {
				return true
			}
		}
		if cut {
			continue
		}
		for _, sc := range b.Succs {
			if !seen[sc] {
				seen[sc] = true
				work = append(work, sc)
			}
		}
	}
	return false
}

// inlinedCallee: in is the one and only call (synchronous) of a private helper: the helper whose body is treated as part of
// the caller.
func inlinedCallee(in ssa.Instruction) *ssa.Function {
	w := crossWorld
	if w == nil {
		return nil
	}
	call, ok := in.(*ssa.Call)
	if !ok {
		return nil
	}
	g := staticCallee(call)
	if g == nil || g == in.Parent() {
		return nil
	}
	if s := w.soleSite(g); s != nil && s == ssa.CallInstruction(call) {
		return g
	}
	return nil
}

// inlinedInto: the call through which fn is virtually inlined into its only caller, or nil.
func inlinedInto(fn *ssa.Function) *ssa.Call {
	w := crossWorld
	if w == nil || fn.Parent() != nil {
		return nil
	}
	if s := w.soleSite(fn); s != nil {
		if call, ok := s.(*ssa.Call); ok && call.Parent() != fn {
			return call
		}
	}
	return nil
}

// regionRoot: the function whose virtual body contains fn (fn itself when it is not inlined anywhere).
func regionRoot(fn *ssa.Function) *ssa.Function {
	for i := 0; i < 6; i++ {
		c := inlinedInto(fn)
		if c == nil {
			break
		}
		fn = c.Parent()
	}
	return fn
}

// calls returns the call instructions (call, go, defer) in fn whose callee name satisfies pred.
func callsIn(fn *ssa.Function, pred func(c ssa.CallInstruction) bool) []ssa.CallInstruction {
	var out []ssa.CallInstruction
	allInstrs(fn, func(in ssa.Instruction) {
		if c, ok := in.(ssa.CallInstruction); ok && pred(c) {
			out = append(out, c)
		}
	})
	return out
}

func callsNamed(fn *ssa.Function, names ...string) []ssa.CallInstruction {
	return callsIn(fn, func(c ssa.CallInstruction) bool {
		n := calleeName(c)
		for _, x := range names {
			if n == x {
				return true
			}
		}
		return false
	})
}

// ---------- values ----------

// stripConv looks through representation-preserving wrappers.
func stripConv(v ssa.Value) ssa.Value {
	for {
		switch x := v.(type) {
		case *ssa.ChangeType:
			v = x.X
		case *ssa.MakeInterface:
			v = x.X
		case *ssa.ChangeInterface:
			v = x.X
		default:
			return v
		}
	}
}

// singleStore returns the only value ever stored into the Alloc (and nil if 0 or >1 stores, or the
// address escapes in a way other than closure capture / loads).
func singleStore(a *ssa.Alloc) ssa.Value {
	var stored ssa.Value
	n := 0
	for _, r := range *a.Referrers() {
		switch x := r.(type) {
		case *ssa.Store:
			if x.Addr == a {
				n++
				stored = x.Val
			} else {
				return nil // address stored somewhere
			}
		case *ssa.UnOp, *ssa.MakeClosure, *ssa.DebugRef:
		default:
			return nil
		}
	}
	if n == 1 {
		return stored
	}
	return nil
}

// cellValueAt: the value a multiply-assigned local cell holds at `load`: the latest store that dominates
// the load, provided no other store to the cell can reach the load without passing that store
// (named results and reassigned locals that go/ssa keeps in memory because of defer/closures).
func cellValueAt(a *ssa.Alloc, load *ssa.UnOp) ssa.Value {
	if load.Parent() != a.Parent() {
		return nil
	}
	var stores []*ssa.Store
	for _, r := range *a.Referrers() {
		switch x := r.(type) {
		case *ssa.Store:
			if x.Addr != ssa.Value(a) {
				return nil
			}
			stores = append(stores, x)
		case *ssa.UnOp, *ssa.DebugRef:
		case *ssa.MakeClosure:
			// captured by reference: fine when the function literal (and its nested literals) only READS the cell
			if !closureOnlyReads(x, a) {
				return nil
			}
		default:
			return nil // address escapes: another goroutine/function may write
		}
	}
	var best *ssa.Store
	for _, st := range stores {
		if !dominates(st, load) {
			continue
		}
		if best == nil || dominates(best, st) {
			best = st
		}
	}
	if best == nil {
		return nil
	}
	for _, st := range stores {
		if st == best || dominates(st, best) {
			continue
		}
		// st is not before best: it must not be able to reach the load without passing best again (loops)
		if reaches(st, load) && pathAvoiding(load.Parent(), st, func(x ssa.Instruction) bool { return x == ssa.Instruction(load) }, func(x ssa.Instruction) bool { return x == ssa.Instruction(best) }) != nil {
			return nil
		}
	}
	return best.Val
}

// freeVarBinding returns the value bound to a free variable at the (unique) MakeClosure site.
func freeVarBinding(fv *ssa.FreeVar) ssa.Value {
	fn := fv.Parent()
	parent := fn.Parent()
	if parent == nil {
		return nil
	}
	idx := -1
	for i, x := range fn.FreeVars {
		if x == fv {
			idx = i
		}
	}
	if idx < 0 {
		return nil
	}
	var res ssa.Value
	n := 0
	allInstrsLocal(parent, func(in ssa.Instruction) {
		if mc, ok := in.(*ssa.MakeClosure); ok && mc.Fn == fn {
			n++
			res = mc.Bindings[idx]
		}
	})
	if n == 1 {
		return res
	}
	return nil
}

// origin resolves a value through conversions, loads of single-assignment cells (locals spilled by
// defer/closure capture) and closure free variables, to the value that was originally computed.
func origin(v ssa.Value) ssa.Value {
	for i := 0; i < 50; i++ {
		v = stripConv(v)
		switch x := v.(type) {
		case *ssa.UnOp:
			if x.Op == token.MUL {
				base := x.X
				if fv, ok := base.(*ssa.FreeVar); ok {
					if b := freeVarBinding(fv); b != nil {
						base = b
					}
				}
				if a, ok := base.(*ssa.Alloc); ok {
					if s := singleStore(a); s != nil {
						v = s
						continue
					}
					if s := cellValueAt(a, x); s != nil {
						v = s
						continue
					}
					// read inside a function literal: the value the captured variable holds when the literal is created,
					// if nothing can overwrite it afterwards
					if fv, isFV := x.X.(*ssa.FreeVar); isFV {
						if s := capturedValue(a, fv); s != nil {
							v = s
							continue
						}
					}
				}
				// field of a local, non-escaping struct variable
				if fa, ok := base.(*ssa.FieldAddr); ok {
					if a, isA := fa.X.(*ssa.Alloc); isA && !allocEscapes(a) {
						if fv := storedFieldValue(a, fa.Field, x); fv != nil {
							v = fv
							continue
						}
					}
				}
			}
			return v
		case *ssa.FreeVar:
			if b := freeVarBinding(x); b != nil {
				v = b
				continue
			}
			return v
		case *ssa.Field:
			// field of a struct value built locally (parameters bundled into a struct, small result structs)
			if fv := localFieldValue(x.X, x.Field, x); fv != nil {
				v = fv
				continue
			}
			return v
		case *ssa.Parameter:
			// parameter of a private helper: the argument it stands for (normalize.go)
			if b := crossParameter(x); b != nil {
				v = b
				continue
			}
			return v
		case *ssa.Call, *ssa.Extract:
			if b := crossResult(v); b != nil {
				v = b
				continue
			}
			return v
		case *ssa.Phi:
			// phi of identical origins
			var first ssa.Value
			same := true
			for _, e := range x.Edges {
				o := e
				if o == x {
					continue
				}
				if first == nil {
					first = o
				} else if o != first {
					same = false
				}
			}
			if same && first != nil {
				v = first
				continue
			}
			return v
		default:
			return v
		}
	}
	return v
}

// staleGoCapture: v (read inside a closure) resolves through a captured variable whose cell is allocated
// OUTSIDE the loop in which it is assigned, while the closure is started with `go`: the goroutine may observe
// the value of a later iteration. Returns a description, or "".
func (w *World) staleGoCapture(v ssa.Value) string {
	for i := 0; i < 20; i++ {
		v = stripConv(v)
		switch x := v.(type) {
		case *ssa.UnOp:
			if x.Op != token.MUL {
				return ""
			}
			if fv, ok := x.X.(*ssa.FreeVar); ok {
				if msg := w.staleCell(fv); msg != "" {
					return msg
				}
				if b := freeVarBinding(fv); b != nil {
					if a, ok := b.(*ssa.Alloc); ok {
						if s := singleStore(a); s != nil {
							v = s
							continue
						}
					}
				}
				return ""
			}
			if fa, ok := x.X.(*ssa.FieldAddr); ok {
				v = fa.X
				continue
			}
			if a, ok := x.X.(*ssa.Alloc); ok {
				if s := singleStore(a); s != nil {
					v = s
					continue
				}
			}
			return ""
		case *ssa.FreeVar:
			if msg := w.staleCell(x); msg != "" {
				return msg
			}
			if b := freeVarBinding(x); b != nil {
				v = b
				continue
			}
			return ""
		case *ssa.FieldAddr:
			v = x.X
		case *ssa.Extract:
			return ""
		default:
			return ""
		}
	}
	return ""
}

func (w *World) staleCell(fv *ssa.FreeVar) string {
	fn := fv.Parent()
	a, ok := freeVarBinding(fv).(*ssa.Alloc)
	if !ok {
		return ""
	}
	spawnedByGo := false
	for _, s := range w.callSitesOf(fn) {
		if _, isGo := s.(*ssa.Go); isGo {
			spawnedByGo = true
		}
	}
	if !spawnedByGo {
		return ""
	}
	for _, r := range *a.Referrers() {
		if st, ok := r.(*ssa.Store); ok && st.Addr == ssa.Value(a) && inLoop(st.Block()) && !inLoop(a.Block()) {
			return "variable " + a.Comment + " is declared outside the loop that assigns it (" + w.At(st) + ") but is read by a goroutine started inside the loop"
		}
	}
	return ""
}

// throughSoleCallSite: if v is a parameter of a function with exactly one call site in the package,
// return the argument passed there (one level of interprocedural value identity for extracted helpers).
func (w *World) throughSoleCallSite(v ssa.Value) (ssa.Value, ssa.CallInstruction) {
	p, ok := origin(v).(*ssa.Parameter)
	if !ok {
		return nil, nil
	}
	fn := p.Parent()
	idx := -1
	for i, q := range fn.Params {
		if q == p {
			idx = i
		}
	}
	sites := w.callSitesOf(fn)
	if idx < 0 || len(sites) != 1 {
		return nil, nil
	}
	args := sites[0].Common().Args
	if sites[0].Common().IsInvoke() {
		idx-- // receiver is not in Args for invoke mode
	}
	if idx < 0 || idx >= len(args) {
		return nil, nil
	}
	return args[idx], sites[0]
}

// desc renders a value as a position-independent expression (for identity comparison and evidence).
func desc(v ssa.Value) string { return descDepth(v, 0) }

func descDepth(v ssa.Value, d int) string {
	if v == nil {
		return "<nil>"
	}
	if d > 12 {
		return "…"
	}
	v = origin(v)
	switch x := v.(type) {
	case *ssa.Const:
		if x.Value == nil {
			return "nil"
		}
		return x.Value.ExactString()
	case *ssa.Parameter:
		return "param:" + x.Name()
	case *ssa.FreeVar:
		return "free:" + x.Name()
	case *ssa.Global:
		return "global:" + x.Name()
	case *ssa.Function:
		return "func:" + x.Name()
	case *ssa.Alloc:
		if x.Comment != "" {
			return "alloc:" + x.Comment
		}
		return "alloc"
	case *ssa.UnOp:
		if x.Op == token.MUL {
			return "*" + descDepth(x.X, d+1)
		}
		return x.Op.String() + descDepth(x.X, d+1)
	case *ssa.FieldAddr:
		return "&" + descDepth(x.X, d+1) + "." + fieldName(x.X.Type(), x.Field)
	case *ssa.Field:
		return descDepth(x.X, d+1) + "." + fieldName(x.X.Type(), x.Field)
	case *ssa.IndexAddr:
		return "&" + descDepth(x.X, d+1) + "[" + descDepth(x.Index, d+1) + "]"
	case *ssa.Index:
		return descDepth(x.X, d+1) + "[" + descDepth(x.Index, d+1) + "]"
	case *ssa.BinOp:
		return "(" + descDepth(x.X, d+1) + " " + x.Op.String() + " " + descDepth(x.Y, d+1) + ")"
	case *ssa.Convert:
		return "conv<" + types.TypeString(x.Type(), shortQual) + ">(" + descDepth(x.X, d+1) + ")"
	case *ssa.Call:
		if s, ok := pureHelperDesc(x, 0, d); ok && x.Call.Signature().Results().Len() == 1 {
			return s
		}
		var args []string
		for _, a := range x.Call.Args {
			args = append(args, descDepth(a, d+1))
		}
		n := calleeName(x)
		if n == "" {
			n = "dyn:" + descDepth(x.Call.Value, d+1)
		}
		if x.Call.IsInvoke() {
			return descDepth(x.Call.Value, d+1) + "." + x.Call.Method.Name() + "(" + strings.Join(args, ", ") + ")"
		}
		return n + "(" + strings.Join(args, ", ") + ")"
	case *ssa.Extract:
		if call, ok := x.Tuple.(*ssa.Call); ok {
			if s, ok := pureHelperDesc(call, x.Index, d); ok {
				return s
			}
		}
		return descDepth(x.Tuple, d+1) + "#" + fmt.Sprint(x.Index)
	case *ssa.Slice:
		s := descDepth(x.X, d+1) + "["
		if x.Low != nil {
			s += descDepth(x.Low, d+1)
		}
		s += ":"
		if x.High != nil {
			s += descDepth(x.High, d+1)
		}
		return s + "]"
	case *ssa.Phi:
		// stable, position-independent name: identity of a loop-carried value matters more than its expansion
		return fmt.Sprintf("phi:%s@b%d", x.Comment, x.Block().Index)
	case *ssa.MakeClosure:
		return "closure:" + x.Fn.Name()
	case *ssa.TypeAssert:
		return descDepth(x.X, d+1) + ".(" + types.TypeString(x.AssertedType, shortQual) + ")"
	case *ssa.Lookup:
		return descDepth(x.X, d+1) + "[" + descDepth(x.Index, d+1) + "]"
	case *ssa.MakeMap:
		return "make(map)"
	case *ssa.MakeChan:
		return "make(chan," + descDepth(x.Size, d+1) + ")"
	case *ssa.MakeSlice:
		return "make(slice)"
	}
	return fmt.Sprintf("%T", v)
}

func shortQual(p *types.Package) string { return p.Name() }

func fieldName(t types.Type, i int) string {
	st := structOf(t)
	if st == nil || i >= st.NumFields() {
		return fmt.Sprintf("#%d", i)
	}
	return st.Field(i).Name()
}

func structOf(t types.Type) *types.Struct {
	t = types.Unalias(t)
	if p, ok := t.Underlying().(*types.Pointer); ok {
		t = p.Elem()
	}
	st, _ := t.Underlying().(*types.Struct)
	return st
}

// namedOf returns the (origin) named struct type behind a pointer or value type.
func namedOf(t types.Type) *types.Named {
	t = types.Unalias(t)
	if p, ok := t.Underlying().(*types.Pointer); ok {
		t = types.Unalias(p.Elem())
	}
	if p, ok := t.(*types.Pointer); ok {
		t = types.Unalias(p.Elem())
	}
	n, _ := t.(*types.Named)
	if n != nil && n.Origin() != nil {
		return n.Origin()
	}
	return n
}

func typeNameOf(t types.Type) string {
	n := namedOf(t)
	if n == nil {
		return types.TypeString(t, shortQual)
	}
	if n.Obj().Pkg() != nil && n.Obj().Pkg().Path() != rootPath {
		return n.Obj().Pkg().Name() + "." + n.Obj().Name()
	}
	return n.Obj().Name()
}

// constInt returns the integer value of a constant operand.
func constInt(v ssa.Value) (int64, bool) {
	c, ok := stripConv(v).(*ssa.Const)
	if !ok || c.Value == nil {
		if cv, ok2 := v.(*ssa.Convert); ok2 {
			return constInt(cv.X)
		}
		return 0, false
	}
	if c.Value.Kind() != constant.Int {
		return 0, false
	}
	i, exact := constant.Int64Val(c.Value)
	return i, exact
}

func isNilConst(v ssa.Value) bool {
	c, ok := v.(*ssa.Const)
	return ok && c.Value == nil
}

// ---------- field references ----------

// FieldRef identifies a struct field by declaring (origin) type name and field name.
type FieldRef struct {
	Type  string
	Field string
}

func (f FieldRef) String() string { return f.Type + "." + f.Field }

// fieldOfAddr: v is &x.f (FieldAddr) -> FieldRef.
func fieldOfAddr(v ssa.Value) (FieldRef, ssa.Value, bool) {
	fa, ok := v.(*ssa.FieldAddr)
	if !ok {
		return FieldRef{}, nil, false
	}
	fr := mkFieldRef(fa.X.Type(), fa.Field)
	base := fa.X
	// x.sub.f with sub a uniquely embedded sub-struct: the base is x
	if outer, isOuter := fa.X.(*ssa.FieldAddr); isOuter {
		if _, uniq := uniqueEmbedding[typeNameOf(fa.X.Type())]; uniq {
			base = outer.X
		}
	}
	return fr, base, true
}

// uniqueEmbedding: named struct types of the analysed package that occur exactly once, as a by-value field of another
// struct of the package, and in no other field, slice, map, pointer or channel type: inner type name -> (outer type, field).
// A field of such a sub-struct is a field of the outer struct (grouping fields into a sub-struct, embedding a config
// struct), also inside the sub-struct's own methods.
var uniqueEmbedding = map[string]FieldRef{}

// mkFieldRef names field i of struct type t, attributing fields of uniquely embedded sub-structs to the outer struct.
func mkFieldRef(t types.Type, i int) FieldRef {
	fr := FieldRef{typeNameOf(t), fieldName(t, i)}
	for d := 0; d < 3; d++ {
		outer, ok := uniqueEmbedding[fr.Type]
		if !ok {
			break
		}
		fr = FieldRef{outer.Type, outer.Field + "." + fr.Field}
	}
	return fr
}

// computeUniqueEmbedding fills uniqueEmbedding from the root package's struct types.
func computeUniqueEmbedding(pkg *types.Package) {
	uniqueEmbedding = map[string]FieldRef{}
	count := map[string]int{}
	where := map[string]FieldRef{}
	elsewhere := map[string]bool{}
	seenStruct := map[*types.Struct]bool{}
	var mention func(t types.Type, depth int)
	mention = func(t types.Type, depth int) {
		if depth > 4 {
			return
		}
		switch x := types.Unalias(t).(type) {
		case *types.Named:
			if x.Obj().Pkg() == pkg {
				elsewhere[x.Obj().Name()] = true
			}
			for i := 0; i < x.TypeArgs().Len(); i++ {
				mention(x.TypeArgs().At(i), depth+1)
			}
		case *types.Pointer:
			mention(x.Elem(), depth+1)
		case *types.Slice:
			mention(x.Elem(), depth+1)
		case *types.Array:
			mention(x.Elem(), depth+1)
		case *types.Map:
			mention(x.Key(), depth+1)
			mention(x.Elem(), depth+1)
		case *types.Chan:
			mention(x.Elem(), depth+1)
		case *types.Signature:
			for i := 0; i < x.Params().Len(); i++ {
				mention(x.Params().At(i).Type(), depth+1)
			}
			for i := 0; i < x.Results().Len(); i++ {
				mention(x.Results().At(i).Type(), depth+1)
			}
		}
	}
	for _, name := range pkg.Scope().Names() {
		tn, ok := pkg.Scope().Lookup(name).(*types.TypeName)
		if !ok {
			continue
		}
		st, ok := tn.Type().Underlying().(*types.Struct)
		if !ok {
			// other declared types may mention struct types (func types, slices)
			mention(tn.Type().Underlying(), 0)
			continue
		}
		if seenStruct[st] {
			continue // `type A B`: the same struct under another name
		}
		seenStruct[st] = true
		for i := 0; i < st.NumFields(); i++ {
			ft := types.Unalias(st.Field(i).Type())
			if n, isN := ft.(*types.Named); isN && n.Obj().Pkg() == pkg && n.TypeArgs().Len() == 0 {
				if _, isStruct := n.Underlying().(*types.Struct); isStruct {
					count[n.Obj().Name()]++
					where[n.Obj().Name()] = FieldRef{tn.Name(), st.Field(i).Name()}
					continue
				}
			}
			mention(ft, 0)
		}
	}
	for inner, n := range count {
		if n == 1 && !elsewhere[inner] && where[inner].Type != inner {
			uniqueEmbedding[inner] = where[inner]
		}
	}
}

// loadedField: v is a load of x.f (either *(&x.f) or x.f on a struct value) -> FieldRef and base.
func loadedField(v ssa.Value) (FieldRef, ssa.Value, bool) {
	v = stripConv(v)
	switch x := v.(type) {
	case *ssa.UnOp:
		if x.Op == token.MUL {
			return fieldOfAddr(x.X)
		}
	case *ssa.Field:
		return mkFieldRef(x.X.Type(), x.Field), x.X, true
	}
	return FieldRef{}, nil, false
}

// ---------- guard facts ----------

// Cond describes a branch condition edge: value `V` is known to equal `Val` on this edge.
type EdgeFact struct {
	Cond ssa.Value
	True bool
}

// dominatingFacts returns the branch facts that hold at the start of block b: for every dominator d
// ending in If whose one successor dominates b (and the other does not lead to b without passing...),
// record the condition and its polarity. Sound for the common structured cases: a fact is recorded
// only when b is dominated by exactly one of the If's successors and that successor has the If block
// as its only predecessor.
func dominatingFacts(b *ssa.BasicBlock) []EdgeFact {
	var facts []EdgeFact
	for d := b; d != nil; d = d.Idom() {
		id := d.Idom()
		if id == nil {
			break
		}
		// walk: for the idom chain, check If terminators
		_ = id
	}
	// iterate over all dominators
	for _, d := range b.Parent().Blocks {
		if d == b || !d.Dominates(b) {
			continue
		}
		ifi, ok := d.Instrs[len(d.Instrs)-1].(*ssa.If)
		if !ok {
			continue
		}
		t, f := d.Succs[0], d.Succs[1]
		if t == f {
			continue
		}
		td := len(t.Preds) == 1 && t.Dominates(b)
		fd := len(f.Preds) == 1 && f.Dominates(b)
		if td && !fd {
			facts = append(facts, EdgeFact{ifi.Cond, true})
		} else if fd && !td {
			facts = append(facts, EdgeFact{ifi.Cond, false})
		}
	}
	// a block is also "dominated" by itself being the unique-pred successor
	return facts
}

// expandFact splits conjunctions created by short-circuit lowering: go/ssa lowers `a && b` into
// control flow, so facts are already atomic; this only normalises negation (UnOp !).
func normFact(f EdgeFact) EdgeFact {
	for {
		u, ok := f.Cond.(*ssa.UnOp)
		if ok && u.Op == token.NOT {
			f = EdgeFact{u.X, !f.True}
			continue
		}
		return f
	}
}

// factsAt returns normalised facts dominating instruction in.
func factsAt(in ssa.Instruction) []EdgeFact {
	fs := dominatingFacts(in.Block())
	for i := range fs {
		fs[i] = normFact(fs[i])
	}
	// `if err := helper(); err != nil { return }` with helper a private function used only here: past that test, whatever
	// holds at every nil-error return of the helper holds too (it returned through one of them)
	if crossWorld != nil {
		for _, f := range append([]EdgeFact{}, fs...) {
			x, op, y, ok := cmpFact(f)
			if !ok || op != token.EQL || !isNilConst(y) {
				continue
			}
			fs = append(fs, impliedByNilError(stripConv(x))...)
		}
	}
	// `headers, send := st.claimHeadersLocked(); if send {…}` (also captured by a function literal): where the bool result of
	// a private helper used only here is known, whatever holds at every return that can produce that result holds too
	if crossWorld != nil {
		for _, f := range append([]EdgeFact{}, fs...) {
			if bt, isB := f.Cond.Type().Underlying().(*types.Basic); !isB || bt.Kind() != types.Bool {
				continue
			}
			switch v := origin(f.Cond).(type) {
			case *ssa.Call, *ssa.Extract:
				fs = append(fs, impliedByBoolResult(v, f.True)...)
			case *ssa.Phi:
				// a flag variable set in the arms of a switch (`case ZERO: plain = true; case ONE: plain = false`)
				fs = append(fs, impliedByBoolPhi(v, f.True)...)
			}
		}
	}
	// code of a private helper used at one place is also guarded by what guards that place
	if w := crossWorld; w != nil && in.Parent().Parent() == nil {
		if s := w.soleSite(in.Parent()); s != nil && s.Parent() != in.Parent() {
			fs = append(fs, factsAt(s)...)
		}
	}
	return fs
}

// impliedByBoolResult: v is a bool result of a call of a virtually inlined helper, known to be `want`: the facts common to
// all of the helper's returns that can produce that value (a constant result of the other polarity cannot; a computed
// result contributes itself as a fact).
func impliedByBoolResult(v ssa.Value, want bool) []EdgeFact {
	var call *ssa.Call
	idx := 0
	switch x := v.(type) {
	case *ssa.Call:
		call = x
	case *ssa.Extract:
		call, _ = x.Tuple.(*ssa.Call)
		idx = x.Index
	}
	if call == nil {
		return nil
	}
	h := inlinedCallee(call)
	if h == nil {
		return nil
	}
	res := h.Signature.Results()
	if idx >= res.Len() {
		return nil
	}
	if bt, isB := res.At(idx).Type().Underlying().(*types.Basic); !isB || bt.Kind() != types.Bool {
		return nil
	}
	var common []EdgeFact
	first := true
	for _, b := range h.Blocks {
		ret, ok := b.Instrs[len(b.Instrs)-1].(*ssa.Return)
		if !ok || len(ret.Results) != res.Len() {
			continue
		}
		rv := ret.Results[idx]
		if isConstBool(rv, !want) {
			continue
		}
		fs := dominatingFacts(b)
		for i := range fs {
			fs[i] = normFact(fs[i])
		}
		if !isConstBool(rv, want) {
			if _, isPhi := rv.(*ssa.Phi); isPhi {
				return nil // merged result: not decided here
			}
			fs = append(fs, normFact(EdgeFact{rv, want}))
		}
		if first {
			common, first = fs, false
			continue
		}
		var keep []EdgeFact
		for _, f := range common {
			for _, g := range fs {
				if f.Cond == g.Cond && f.True == g.True {
					keep = append(keep, f)
					break
				}
			}
		}
		common = keep
	}
	return common
}

// impliedByBoolPhi: phi merges bool values and is known to be `want`: the facts common to all incoming edges that can carry
// that value (an edge carrying the constant of the other polarity cannot; a computed value contributes itself as a fact).
func impliedByBoolPhi(phi *ssa.Phi, want bool) []EdgeFact {
	var common []EdgeFact
	first := true
	for i, e := range phi.Edges {
		if isConstBool(e, !want) {
			continue
		}
		if _, nested := e.(*ssa.Phi); nested {
			return nil
		}
		pred := phi.Block().Preds[i]
		fs := dominatingFacts(pred)
		if ef, has := edgeFact(pred, phi.Block()); has {
			fs = append(fs, ef)
		}
		for k := range fs {
			fs[k] = normFact(fs[k])
		}
		if !isConstBool(e, want) {
			fs = append(fs, normFact(EdgeFact{e, want}))
		}
		if first {
			common, first = fs, false
			continue
		}
		var keep []EdgeFact
		for _, f := range common {
			for _, g := range fs {
				if f.Cond == g.Cond && f.True == g.True {
					keep = append(keep, f)
					break
				}
			}
		}
		common = keep
	}
	return common
}

// impliedByNilError: v is the error result of a call of a virtually inlined helper: the facts common to all of the helper's
// returns whose error result is the nil constant.
func impliedByNilError(v ssa.Value) []EdgeFact {
	var call *ssa.Call
	idx := 0
	switch x := v.(type) {
	case *ssa.Call:
		call = x
	case *ssa.Extract:
		call, _ = x.Tuple.(*ssa.Call)
		idx = x.Index
	}
	if call == nil {
		return nil
	}
	h := inlinedCallee(call)
	if h == nil {
		return nil
	}
	res := h.Signature.Results()
	if res.Len() == 0 || idx != res.Len()-1 || types.TypeString(res.At(idx).Type(), nil) != "error" {
		return nil
	}
	var common []EdgeFact
	first := true
	for _, b := range h.Blocks {
		ret, ok := b.Instrs[len(b.Instrs)-1].(*ssa.Return)
		if !ok || len(ret.Results) != res.Len() {
			continue
		}
		rv := ret.Results[idx]
		var extra *EdgeFact
		if !isNilConst(rv) {
			// a return that hands on a value (`return st.writeErr`): it cannot be the one taken if that value is provably
			// non-nil; otherwise, on this return, the value itself was nil
			if nn, _ := nonNilError(rv, ret, 0); nn {
				continue
			}
			if _, isPhi := stripConv(rv).(*ssa.Phi); isPhi {
				return nil
			}
			extra = &EdgeFact{rv, false} // an error-typed "condition": false = is nil (see cmpFact)
		}
		fs := dominatingFacts(b)
		for i := range fs {
			fs[i] = normFact(fs[i])
		}
		if extra != nil {
			fs = append(fs, *extra)
		}
		if first {
			common, first = fs, false
			continue
		}
		var keep []EdgeFact
		for _, f := range common {
			for _, g := range fs {
				if f.Cond == g.Cond && f.True == g.True {
					keep = append(keep, f)
					break
				}
			}
		}
		common = keep
	}
	return common
}

// cmpFact: if the fact is a comparison, return (x, op, y) with op adjusted for polarity.
func cmpFact(f EdgeFact) (ssa.Value, token.Token, ssa.Value, bool) {
	b, ok := f.Cond.(*ssa.BinOp)
	if !ok {
		// an error-typed value as "condition" (impliedByNilError): true = non-nil, false = nil
		if f.Cond != nil && f.Cond.Type() != nil && types.TypeString(f.Cond.Type(), nil) == "error" {
			op := token.EQL
			if f.True {
				op = token.NEQ
			}
			return f.Cond, op, nilErrorConst(f.Cond.Type()), true
		}
		return nil, 0, nil, false
	}
	op := b.Op
	switch op {
	case token.EQL, token.NEQ, token.LSS, token.LEQ, token.GTR, token.GEQ:
	default:
		return nil, 0, nil, false
	}
	if !f.True {
		op = negateCmp(op)
	}
	return b.X, op, b.Y, true
}

func negateCmp(op token.Token) token.Token {
	switch op {
	case token.EQL:
		return token.NEQ
	case token.NEQ:
		return token.EQL
	case token.LSS:
		return token.GEQ
	case token.LEQ:
		return token.GTR
	case token.GTR:
		return token.LEQ
	case token.GEQ:
		return token.LSS
	}
	return op
}

func flipCmp(op token.Token) token.Token {
	switch op {
	case token.LSS:
		return token.GTR
	case token.LEQ:
		return token.GEQ
	case token.GTR:
		return token.LSS
	case token.GEQ:
		return token.LEQ
	}
	return op
}

// edgeFactsInto returns facts known on the CFG edge pred->succ (only the If condition of pred).
func edgeFact(pred, succ *ssa.BasicBlock) (EdgeFact, bool) {
	ifi, ok := pred.Instrs[len(pred.Instrs)-1].(*ssa.If)
	if !ok || pred.Succs[0] == pred.Succs[1] {
		return EdgeFact{}, false
	}
	if pred.Succs[0] == succ {
		return normFact(EdgeFact{ifi.Cond, true}), true
	}
	if pred.Succs[1] == succ {
		return normFact(EdgeFact{ifi.Cond, false}), true
	}
	return EdgeFact{}, false
}

// phiLeaves expands phis (transitively) into the non-phi values that can flow into v.
func phiLeaves(v ssa.Value) []ssa.Value {
	var out []ssa.Value
	seen := map[ssa.Value]bool{}
	var walk func(x ssa.Value)
	walk = func(x ssa.Value) {
		if seen[x] {
			return
		}
		seen[x] = true
		if p, ok := x.(*ssa.Phi); ok {
			for _, e := range p.Edges {
				walk(e)
			}
			return
		}
		out = append(out, x)
	}
	walk(v)
	return out
}

// closureOnlyReads: the function literal of mc uses the captured cell only in loads (transitively through nested literals).
func closureOnlyReads(mc *ssa.MakeClosure, cell ssa.Value) bool {
	fn, ok := mc.Fn.(*ssa.Function)
	if !ok {
		return false
	}
	for i, b := range mc.Bindings {
		if b != cell {
			continue
		}
		fv := fn.FreeVars[i]
		for _, r := range *fv.Referrers() {
			switch x := r.(type) {
			case *ssa.UnOp:
				if x.Op != token.MUL {
					return false
				}
			case *ssa.DebugRef:
			case *ssa.MakeClosure:
				if !closureOnlyReads(x, fv) {
					return false
				}
			default:
				return false
			}
		}
	}
	return true
}

// pureHelperDesc: "symbolic inlining" of values. call is a static call of a function of the analysed package whose result
// idx is, on every return that does not report an error, one and the same pure expression over its parameters
// (parameters, constants, conversions, arithmetic, len/cap). The description of that expression is returned with the
// call's arguments substituted, so `size, err := messageSize(data)` describes size as conv<uint32>(len(param:data)).
func pureHelperDesc(call *ssa.Call, idx int, d int) (string, bool) {
	f := staticCallee(call)
	if f == nil || f.Blocks == nil || f.Pkg == nil || f.Pkg.Pkg.Path() != rootPath || d > 8 {
		return "", false
	}
	res := f.Signature.Results()
	if idx >= res.Len() {
		return "", false
	}
	errIdx := -1
	if n := res.Len(); n > 1 && types.TypeString(res.At(n-1).Type(), nil) == "error" && idx != n-1 {
		errIdx = n - 1
	}
	var pure func(v ssa.Value, depth int) bool
	pure = func(v ssa.Value, depth int) bool {
		if depth > 6 {
			return false
		}
		switch x := v.(type) {
		case *ssa.Parameter:
			return x.Parent() == f
		case *ssa.Const:
			return true
		case *ssa.Convert:
			return pure(x.X, depth+1)
		case *ssa.ChangeType:
			return pure(x.X, depth+1)
		case *ssa.BinOp:
			return pure(x.X, depth+1) && pure(x.Y, depth+1)
		case *ssa.Call:
			if b, ok := x.Call.Value.(*ssa.Builtin); ok && (b.Name() == "len" || b.Name() == "cap") {
				return pure(x.Call.Args[0], depth+1)
			}
		}
		return false
	}
	out := ""
	n := 0
	okAll := true
	allInstrsLocal(f, func(in ssa.Instruction) {
		ret, isR := in.(*ssa.Return)
		if !isR || idx >= len(ret.Results) {
			return
		}
		if errIdx >= 0 && !isNilConst(ret.Results[errIdx]) {
			return // a return that reports an error: the caller does not use the other results
		}
		for _, leaf := range phiLeaves(ret.Results[idx]) {
			if !pure(leaf, 0) {
				okAll = false
				return
			}
			s := descDepth(leaf, d+1)
			if n > 0 && s != out {
				okAll = false
			}
			out = s
			n++
		}
	})
	if !okAll || n == 0 {
		return "", false
	}
	// substitute the arguments (longest parameter names first so that no name is a prefix of a remaining one)
	type sub struct{ from, to string }
	var subs []sub
	for i, p := range f.Params {
		if i < len(call.Call.Args) {
			subs = append(subs, sub{"param:" + p.Name(), descDepth(call.Call.Args[i], d+1)})
		}
	}
	sort.Slice(subs, func(i, j int) bool { return len(subs[i].from) > len(subs[j].from) })
	// two-phase replacement to avoid re-substituting inside substituted text
	for i, sb := range subs {
		out = strings.ReplaceAll(out, sb.from, fmt.Sprintf("\x00%d\x00", i))
	}
	for i, sb := range subs {
		out = strings.ReplaceAll(out, fmt.Sprintf("\x00%d\x00", i), sb.to)
	}
	return out, true
}

// ---------- interprocedural lifting of path predicates (robustness against extracted helpers) ----------

// helperCallee: in is a synchronous static call (not go/defer) of a function of the analysed package that has a body.
func helperCallee(in ssa.Instruction) *ssa.Function {
	call, ok := in.(*ssa.Call)
	if !ok {
		return nil
	}
	f := staticCallee(call)
	if f == nil || f.Blocks == nil {
		return nil
	}
	top := f
	for top.Parent() != nil {
		top = top.Parent()
	}
	if top.Origin() != nil {
		top = top.Origin()
	}
	if top.Pkg == nil || top.Pkg.Pkg.Path() != rootPath {
		return nil
	}
	return f
}

// mustExecute: every path from the entry of f to a return executes an instruction satisfying pred, directly or
// inside a helper it calls synchronously (depth-bounded; recursion gives false).
func mustExecute(f *ssa.Function, pred func(ssa.Instruction) bool, depth int) bool {
	if depth > 3 || f.Blocks == nil {
		return false
	}
	isRet := func(in ssa.Instruction) bool { _, ok := in.(*ssa.Return); return ok }
	cut := func(in ssa.Instruction) bool {
		if pred(in) {
			return true
		}
		if g := helperCallee(in); g != nil && g != f {
			return mustExecute(g, pred, depth+1)
		}
		return false
	}
	return pathAvoiding(f, nil, isRet, cut) == nil
}

// mustCut lifts a cut predicate: an instruction cuts when it satisfies pred or is a synchronous call of a helper that
// executes such an instruction on every path.
func mustCut(pred func(ssa.Instruction) bool) func(ssa.Instruction) bool {
	return func(in ssa.Instruction) bool {
		if pred(in) {
			return true
		}
		if g := helperCallee(in); g != nil {
			return mustExecute(g, pred, 1)
		}
		return false
	}
}

// mayExecute: some path through f executes an instruction satisfying pred (directly or in a synchronous helper).
func mayExecute(f *ssa.Function, pred func(ssa.Instruction) bool, depth int) bool {
	if depth > 3 || f.Blocks == nil {
		return false
	}
	found := false
	allInstrsLocal(f, func(in ssa.Instruction) {
		if found {
			return
		}
		if pred(in) {
			found = true
			return
		}
		if g := helperCallee(in); g != nil && g != f && mayExecute(g, pred, depth+1) {
			found = true
		}
	})
	return found
}

// mustPrecede: on every path to target, an instruction satisfying pred has been executed before, either in target's own
// function (dominating it) or inside a helper whose call dominates it and which executes it on every path.
// Returns the dominating instruction found (the instruction itself or the helper call).
func mustPrecede(target ssa.Instruction, pred func(ssa.Instruction) bool) ssa.Instruction {
	fn := target.Parent()
	var found ssa.Instruction
	lifted := mustCut(pred)
	allInstrs(fn, func(in ssa.Instruction) {
		if found != nil || in == target {
			return
		}
		if lifted(in) && dominates(in, target) {
			found = in
		}
	})
	return found
}

// onlyViaOnce: fn runs only as (part of) the function given to a sync.Once.Do: it is the literal passed to Do, a method
// whose bound-method value is passed to Do, or a helper all of whose call sites are in such functions.
func (w *World) onlyViaOnce(fn *ssa.Function, depth int) bool {
	if depth > 3 {
		return false
	}
	isDoArg := func(target *ssa.Function) bool {
		n, all := 0, true
		for _, g := range w.Funcs {
			allInstrsLocal(g, func(in ssa.Instruction) {
				mc, ok := in.(*ssa.MakeClosure)
				if !ok || mc.Fn != ssa.Value(target) {
					return
				}
				n++
				used := false
				for _, r := range *mc.Referrers() {
					if ci, isC := r.(*ssa.Call); isC && calleeName(ci) == "(*sync.Once).Do" {
						used = true
					} else if _, isD := r.(*ssa.DebugRef); !isD {
						all = false
					}
				}
				if !used {
					all = false
				}
			})
		}
		return n > 0 && all
	}
	if fn.Parent() != nil && isDoArg(fn) {
		return true
	}
	sites := w.callSitesOf(fn)
	// bound-method wrappers are synthetic: look for them among the call graph's callers
	var boundWrappers []*ssa.Function
	if n := w.CG.Nodes[fn]; n != nil {
		for _, e := range n.In {
			if e.Caller != nil && e.Caller.Func != nil && strings.Contains(e.Caller.Func.Synthetic, "bound method wrapper") {
				boundWrappers = append(boundWrappers, e.Caller.Func)
			}
		}
	}
	if len(sites) == 0 && len(boundWrappers) == 0 {
		return false
	}
	for _, bw := range boundWrappers {
		if !isDoArg(bw) {
			return false
		}
	}
	for _, s := range sites {
		if _, isCall := s.(*ssa.Call); !isCall {
			return false
		}
		if !w.onlyViaOnce(s.Parent(), depth+1) {
			return false
		}
	}
	return true
}

// helperClosure: fn together with the helpers that were (or could have been) extracted from it: functions of the
// analysed package that fn's closure calls synchronously and ALL of whose call sites lie inside the closure.
func (w *World) helperClosure(fn *ssa.Function) []*ssa.Function {
	out := []*ssa.Function{fn}
	in := map[*ssa.Function]bool{fn: true}
	for changed, rounds := true, 0; changed && rounds < 4; rounds++ {
		changed = false
		for _, f := range append([]*ssa.Function{}, out...) {
			allInstrsLocal(f, func(x ssa.Instruction) {
				g := helperCallee(x)
				if g == nil || in[g] || g.Parent() != nil {
					return
				}
				private := true
				sites := w.callSitesOf(g)
				for _, s := range sites {
					if !in[s.Parent()] {
						private = false
					}
					if _, isCall := s.(*ssa.Call); !isCall {
						private = false
					}
				}
				if private && len(sites) > 0 {
					in[g] = true
					out = append(out, g)
					changed = true
				}
			})
		}
	}
	return out
}

// coreWith: the function of fn's helper closure that directly contains an instruction satisfying pred (fn itself when it
// does, or when none or several do).
func (w *World) coreWith(fn *ssa.Function, pred func(ssa.Instruction) bool) *ssa.Function {
	var hits []*ssa.Function
	for _, f := range w.helperClosure(fn) {
		has := false
		allInstrsLocal(f, func(in ssa.Instruction) {
			if pred(in) {
				has = true
			}
		})
		if has {
			hits = append(hits, f)
		}
	}
	if len(hits) == 1 {
		return hits[0]
	}
	return fn
}

// returnLeavesOfCall: v is (an Extract of) a synchronous call of a helper of the analysed package: the values the helper
// can return at that result index (phis expanded). ok == false for anything else.
func returnLeavesOfCall(v ssa.Value) (leaves []ssa.Value, callee *ssa.Function, ok bool) {
	idx := 0
	var call *ssa.Call
	switch x := v.(type) {
	case *ssa.Extract:
		call, _ = x.Tuple.(*ssa.Call)
		idx = x.Index
	case *ssa.Call:
		call = x
	}
	if call == nil {
		return nil, nil, false
	}
	f := helperCallee(call)
	if f == nil {
		return nil, nil, false
	}
	forEachReturnValue(f, idx, func(rv ssa.Value, at ssa.Instruction) {
		leaves = append(leaves, phiLeaves(rv)...)
	})
	return leaves, f, len(leaves) > 0
}

// allocEscapes: the address of the local is used for anything but field/whole loads and stores (so other code could write it).
func allocEscapes(a *ssa.Alloc) bool {
	for _, r := range *a.Referrers() {
		switch x := r.(type) {
		case *ssa.FieldAddr, *ssa.DebugRef:
		case *ssa.UnOp:
			if x.Op != token.MUL {
				return true
			}
		case *ssa.Store:
			if x.Val == ssa.Value(a) {
				return true
			}
		default:
			return true
		}
	}
	return false
}

// storedFieldValue: the value the field of local struct variable a holds at `at`: the latest dominating store to that field,
// provided no whole-struct store and no other store to the field can intervene.
func storedFieldValue(a *ssa.Alloc, field int, at ssa.Instruction) ssa.Value {
	var best *ssa.Store
	var others, whole []*ssa.Store
	for _, r := range *a.Referrers() {
		switch x := r.(type) {
		case *ssa.FieldAddr:
			if x.Field != field {
				continue
			}
			for _, r2 := range *x.Referrers() {
				if st, ok := r2.(*ssa.Store); ok && st.Addr == ssa.Value(x) {
					others = append(others, st)
				}
			}
		case *ssa.Store:
			if x.Addr == ssa.Value(a) {
				whole = append(whole, x)
			}
		}
	}
	if len(whole) > 0 {
		// a struct parameter or result kept in memory: one whole-struct store and no field stores; the field of what was stored
		if len(whole) == 1 && len(others) == 0 && dominates(whole[0], at) {
			return localFieldValue(whole[0].Val, field, whole[0])
		}
		return nil
	}
	for _, st := range others {
		if dominates(st, at) && (best == nil || dominates(best, st)) {
			best = st
		}
	}
	if best == nil {
		return nil
	}
	for _, st := range others {
		if st != best && !dominates(st, best) && reaches(st, at) {
			return nil
		}
	}
	return best.Val
}

// localFieldValue: the value of field i of struct value sv (a load of a local struct variable, possibly handed to a private
// helper as argument) at `at`.
func localFieldValue(sv ssa.Value, field int, at ssa.Instruction) ssa.Value {
	o := origin(sv)
	u, ok := o.(*ssa.UnOp)
	if !ok || u.Op != token.MUL {
		return nil
	}
	a, ok := u.X.(*ssa.Alloc)
	if !ok || allocEscapes(a) {
		return nil
	}
	return storedFieldValue(a, field, u)
}

// capturedValue: the value variable a (kept in memory because the literal fv belongs to captures it) holds inside that
// literal: the latest store dominating the literal's creation, provided no other store can reach the creation without
// passing it and no store can follow the creation before the variable is re-allocated (next loop iteration).
func capturedValue(a *ssa.Alloc, fv *ssa.FreeVar) ssa.Value {
	lit := fv.Parent()
	parent := a.Parent()
	if lit.Parent() != parent {
		return nil
	}
	var mk ssa.Instruction
	n := 0
	allInstrsLocal(parent, func(in ssa.Instruction) {
		if m, ok := in.(*ssa.MakeClosure); ok && m.Fn == ssa.Value(lit) {
			mk = m
			n++
		}
	})
	if mk == nil || n != 1 {
		return nil
	}
	var stores []*ssa.Store
	for _, r := range *a.Referrers() {
		switch x := r.(type) {
		case *ssa.Store:
			if x.Addr != ssa.Value(a) {
				return nil
			}
			stores = append(stores, x)
		case *ssa.UnOp, *ssa.DebugRef:
		case *ssa.MakeClosure:
			if !closureOnlyReads(x, a) {
				return nil
			}
		default:
			return nil
		}
	}
	var best *ssa.Store
	for _, st := range stores {
		if dominates(st, mk) && (best == nil || dominates(best, st)) {
			best = st
		}
	}
	if best == nil {
		return nil
	}
	isMk := func(x ssa.Instruction) bool { return x == mk }
	isBest := func(x ssa.Instruction) bool { return x == ssa.Instruction(best) }
	isAlloc := func(x ssa.Instruction) bool { return x == ssa.Instruction(a) }
	for _, st := range stores {
		if st == best {
			continue
		}
		cur := st
		isSt := func(x ssa.Instruction) bool { return x == ssa.Instruction(cur) }
		// reaches the creation without passing best
		if !dominates(st, best) && pathAvoiding(parent, st, isMk, isBest) != nil {
			return nil
		}
		// can follow the creation while the same variable instance is alive
		if pathAvoiding(parent, mk, isSt, isAlloc) != nil {
			return nil
		}
	}
	if pathAvoiding(parent, mk, isBest, isAlloc) != nil {
		return nil
	}
	return best.Val
}

// errBranchAfter: call is `…, err := helper(…)` immediately tested by `if err != nil` (the If ending the call's block, with
// nothing but value extraction in between), and ret returns a provably non-nil error or the nil constant: the successor
// block control continues in. nil when the idiom is not recognised.
func errBranchAfter(call *ssa.Call, ret *ssa.Return) *ssa.BasicBlock {
	n := len(ret.Results)
	if n == 0 || types.TypeString(ret.Results[n-1].Type(), nil) != "error" {
		return nil
	}
	isNil := isNilConst(ret.Results[n-1])
	if !isNil {
		if nn, _ := nonNilError(ret.Results[n-1], ret, 0); !nn {
			return nil
		}
	}
	b := call.Block()
	idx := instrIndex(call)
	ifi, ok := b.Instrs[len(b.Instrs)-1].(*ssa.If)
	if !ok {
		return nil
	}
	for _, in := range b.Instrs[idx+1 : len(b.Instrs)-1] {
		switch x := in.(type) {
		case *ssa.Extract, *ssa.BinOp, *ssa.DebugRef, *ssa.Alloc:
		case *ssa.Store:
			// a result kept in a local variable cell (captured by a function literal later on)
			if _, isCell := x.Addr.(*ssa.Alloc); !isCell {
				return nil
			}
		default:
			return nil
		}
	}
	f := normFact(EdgeFact{ifi.Cond, true})
	cmp, ok := f.Cond.(*ssa.BinOp)
	if !ok || !isNilConst(cmp.Y) || (cmp.Op != token.NEQ && cmp.Op != token.EQL) {
		return nil
	}
	var tested ssa.Value = cmp.X
	if n > 1 {
		ex, isEx := tested.(*ssa.Extract)
		if !isEx || ex.Tuple != ssa.Value(call) || ex.Index != n-1 {
			return nil
		}
	} else if tested != ssa.Value(call) {
		return nil
	}
	// edge on which "err != nil" holds
	nonNilOnTrue := (cmp.Op == token.NEQ) == f.True
	takeTrue := nonNilOnTrue != isNil
	if takeTrue {
		return b.Succs[0]
	}
	return b.Succs[1]
}

// fieldBase: the struct value/pointer whose field the address v denotes (nil when v is not a field address).
func fieldBase(v ssa.Value) ssa.Value {
	if _, base, ok := fieldOfAddr(v); ok {
		return base
	}
	return nil
}

func isComplitAlloc(v ssa.Value) bool {
	al, ok := v.(*ssa.Alloc)
	return ok && al.Comment == "complit"
}

// fieldReadOf: v reads field i of a struct value or of a spilled struct parameter: (i, the struct value); (-1, nil) otherwise.
func fieldReadOf(v ssa.Value) (int, ssa.Value) {
	switch x := v.(type) {
	case *ssa.Field:
		return x.Field, x.X
	case *ssa.UnOp:
		if fa, ok := x.X.(*ssa.FieldAddr); ok && x.Op == token.MUL {
			if al, isA := fa.X.(*ssa.Alloc); isA {
				// a parameter kept in memory: the value stored there
				var val ssa.Value
				n := 0
				for _, r := range *al.Referrers() {
					if st, isSt := r.(*ssa.Store); isSt && st.Addr == ssa.Value(al) {
						val = st.Val
						n++
					}
				}
				if n == 1 {
					return fa.Field, val
				}
			}
			return fa.Field, fa.X
		}
	}
	return -1, nil
}

var nilErrConst *ssa.Const

func nilErrorConst(t types.Type) *ssa.Const {
	if nilErrConst == nil {
		nilErrConst = ssa.NewConst(nil, t)
	}
	return nilErrConst
}
