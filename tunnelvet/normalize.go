package main

// normalize.go: robustness against behaviour-preserving refactorings that move code across function boundaries
// (extract function / inline / closure <-> method / split). The rules were written against functions resolved by
// role ("anchors"); everything else that is unexported and statically called is treated as a PRIVATE HELPER, i.e. as
// if it were still part of its caller:
//
//   - value identity (origin, desc) looks through a private helper's parameters (argument at its sole call site, or
//     the binding of the emit site being examined) and through its results (when every return yields the same value);
//   - ownership (ownedBy) climbs from closures, spawned methods and private helpers to the function that uses them;
//   - frame literals built by constructor helpers are instantiated at each call site that sends the result.
//
// Nothing here changes what is analysed: all facts are still derived from the current tree's SSA.

import (
	"go/token"
	"go/types"
	"iter"
	"reflect"
	"strings"

	"golang.org/x/tools/go/ssa"
)

// set while an instantiated emit site is being examined (see Ctx.emitSeq); single-threaded analysis
var paramBindings map[*ssa.Parameter]ssa.Value

// set once anchors and roles are resolved (never during their resolution)
var crossWorld *World

// knownFns: functions the rules address by role; their boundaries are meaningful to the rules.
func (w *World) knownFns() map[*ssa.Function]bool {
	if w.known != nil {
		return w.known
	}
	k := map[*ssa.Function]bool{}
	add := func(f *ssa.Function) {
		if f != nil {
			k[f] = true
			k[w.origFn(f)] = true
		}
	}
	collect := func(v reflect.Value) {
		for i := 0; i < v.NumField(); i++ {
			f := v.Field(i)
			if !f.CanInterface() {
				continue
			}
			switch x := f.Interface().(type) {
			case *ssa.Function:
				add(x)
			case []*ssa.Function:
				for _, y := range x {
					add(y)
				}
			}
		}
	}
	collect(reflect.ValueOf(*w.Anchors()))
	collect(reflect.ValueOf(*w.Roles()))
	ro := w.Roles()
	ifaceNames := map[string]bool{ro.Send: true, ro.Accept: true, ro.Dequeue: true, ro.Close: true, ro.Cancel: true}
	for _, f := range w.Funcs {
		if f.Parent() != nil {
			continue
		}
		o := w.origFn(f)
		if obj := o.Object(); obj != nil && obj.Exported() {
			add(f)
		}
		if f.Signature.Recv() != nil && ifaceNames[o.Name()] {
			add(f)
		}
		if f.Signature.Recv() != nil && w.isCarrierType(f.Signature.Recv().Type()) {
			add(f)
		}
	}
	// instantiations of known generics
	for _, f := range w.Funcs {
		if k[w.origFn(f)] {
			k[f] = true
		}
	}
	w.known = k
	return k
}

// isPrivateHelper: an unexported, non-anchor function of the package that is only ever called statically.
func (w *World) isPrivateHelper(f *ssa.Function) bool {
	if f == nil || f.Parent() != nil || f.Blocks == nil || !w.inRoot(f) || (f.Synthetic != "" && !strings.HasPrefix(f.Synthetic, "instance of ")) {
		return false
	}
	if w.knownFns()[f] {
		return false
	}
	if v, ok := w.privCache[f]; ok {
		return v
	}
	// never used as a value (method value, function value, interface method)
	used := false
	for _, g := range w.Funcs {
		allInstrsLocal(g, func(in ssa.Instruction) {
			var ops []*ssa.Value
			for _, op := range in.Operands(ops) {
				if *op != ssa.Value(f) {
					continue
				}
				if ci, ok := in.(ssa.CallInstruction); ok && ci.Common().Value == ssa.Value(f) && !ci.Common().IsInvoke() {
					continue // callee position
				}
				used = true
			}
		})
	}
	sites := w.callSitesOf(f)
	res := !used && len(sites) > 0
	for _, s := range sites {
		if staticCallee(s) != f && !w.sameFn(staticCallee(s), f) {
			res = false // reached dynamically
		}
	}
	w.privCache[f] = res
	return res
}

// soleSite: the only call site of a private helper (call, go or defer), or nil.
func (w *World) soleSite(f *ssa.Function) ssa.CallInstruction {
	if !w.isPrivateHelper(f) {
		return nil
	}
	sites := w.callSitesOf(f)
	if len(sites) != 1 {
		return nil
	}
	return sites[0]
}

// crossParameter: the value a parameter of a private helper stands for (emit-site binding, else argument at the sole call site).
func crossParameter(p *ssa.Parameter) ssa.Value {
	if b, ok := paramBindings[p]; ok {
		return b
	}
	w := crossWorld
	if w == nil {
		return nil
	}
	f := p.Parent()
	s := w.soleSite(f)
	if s == nil {
		return nil
	}
	for i, q := range f.Params {
		if q == p && i < len(s.Common().Args) {
			return s.Common().Args[i]
		}
	}
	return nil
}

// crossResult: v is (an Extract of) a call of a private helper every return of which yields one and the same value there.
func crossResult(v ssa.Value) ssa.Value {
	w := crossWorld
	if w == nil {
		return nil
	}
	var call *ssa.Call
	switch x := v.(type) {
	case *ssa.Extract:
		call, _ = x.Tuple.(*ssa.Call)
	case *ssa.Call:
		call = x
	}
	if call == nil {
		return nil
	}
	f := staticCallee(call)
	if f == nil || !w.isPrivateHelper(f) {
		return nil
	}
	leaves, _, ok := returnLeavesOfCall(v)
	if !ok {
		return nil
	}
	var one ssa.Value
	same := true
	for _, l := range leaves {
		if one == nil {
			one = l
		} else if l != one {
			same = false
		}
	}
	if same {
		return one
	}
	// (T, error) helpers: what is returned together with a non-nil error is not used by a caller that checks the error;
	// consider the success returns only
	res := f.Signature.Results()
	idx := 0
	if ex, isEx := v.(*ssa.Extract); isEx {
		idx = ex.Index
	}
	n := res.Len()
	if n < 2 || idx == n-1 || types.TypeString(res.At(n-1).Type(), nil) != "error" {
		return nil
	}
	one = nil
	okAll := true
	allInstrsLocal(f, func(in ssa.Instruction) {
		ret, isR := in.(*ssa.Return)
		if !isR || len(ret.Results) != n {
			return
		}
		if !isNilConst(ret.Results[n-1]) {
			if nn, _ := nonNilError(ret.Results[n-1], ret, 0); nn {
				return // error return
			}
			okAll = false
			return
		}
		if l := ret.Results[idx]; one == nil {
			one = l
		} else if l != one {
			okAll = false
		}
	})
	if !okAll {
		return nil
	}
	return one
}

// ownedBy: fn is owner itself, a function literal inside it, or a private helper / spawned method used only by it (transitively).
func (w *World) ownedBy(fn, owner *ssa.Function) bool {
	if owner == nil {
		return false
	}
	for i := 0; fn != nil && i < 8; i++ {
		if fn == owner || w.sameFn(fn, owner) {
			return true
		}
		if fn.Parent() != nil {
			fn = fn.Parent()
			continue
		}
		s := w.soleSite(fn)
		if s == nil {
			return false
		}
		fn = s.Parent()
	}
	return false
}

// ownerChain: fn, then the functions it belongs to (closure parents, sole callers of private helpers).
func (w *World) ownerChain(fn *ssa.Function) []*ssa.Function {
	var out []*ssa.Function
	for i := 0; fn != nil && i < 8; i++ {
		out = append(out, fn)
		if fn.Parent() != nil {
			fn = fn.Parent()
			continue
		}
		s := w.soleSite(fn)
		if s == nil {
			break
		}
		fn = s.Parent()
	}
	return out
}

// emitSeq iterates the frame literals that reach a carrier send; while an instantiated site (literal built by a
// constructor helper) is being visited, the helper's parameters stand for that call site's arguments.
func (c *Ctx) emitSeq() iter.Seq2[int, *EmitSite] {
	return func(yield func(int, *EmitSite) bool) {
		for i, e := range c.realEmitSites() {
			saved := paramBindings
			paramBindings = e.Bind
			ok := yield(i, e)
			paramBindings = saved
			if !ok {
				return
			}
		}
	}
}

// liftTo: the instruction of owner at which `in` happens: `in` itself, or the call / go / defer (or function-literal
// creation) site through which the closure or private helper containing it is used by owner. nil when not owned.
func (w *World) liftTo(in ssa.Instruction, owner *ssa.Function) ssa.Instruction {
	for i := 0; in != nil && i < 8; i++ {
		fn := in.Parent()
		if fn == owner {
			return in
		}
		var site ssa.Instruction
		if fn.Parent() != nil {
			for _, s := range w.callSitesOf(fn) {
				if s.Parent() == fn.Parent() {
					site = s
				}
			}
			if site == nil {
				allInstrsLocal(fn.Parent(), func(x ssa.Instruction) {
					if mc, ok := x.(*ssa.MakeClosure); ok && mc.Fn == ssa.Value(fn) {
						site = mc
					}
				})
			}
		} else if s := w.soleSite(fn); s != nil {
			site = s
		}
		in = site
	}
	return nil
}

// isSubordinate: fn is a function literal, or a private helper / spawned method used at exactly one place: its code
// belongs to the function that uses it.
func (w *World) isSubordinate(fn *ssa.Function) bool {
	return fn.Parent() != nil || w.soleSite(fn) != nil
}

// usePoints: in, followed by the places at which the private helpers / function literals containing it are used
// (innermost first), up to the first function that is not subordinate.
func (w *World) usePoints(in ssa.Instruction) []ssa.Instruction {
	out := []ssa.Instruction{in}
	for i := 0; i < 6; i++ {
		fn := in.Parent()
		if fn.Parent() != nil {
			return out // function literals: guards are visible through captured values already
		}
		s := w.soleSite(fn)
		if s == nil {
			return out
		}
		out = append(out, s)
		in = s
	}
	return out
}

// ---------- ordering across a function and its private helpers ----------

type usePoint struct {
	fn *ssa.Function
	at ssa.Instruction
}

// useChain: (in, its function), then the use sites of the private helpers containing it, up to owner (or as far as it goes).
func (w *World) useChain(in ssa.Instruction, owner *ssa.Function) []usePoint {
	var out []usePoint
	for i := 0; in != nil && i < 8; i++ {
		fn := in.Parent()
		out = append(out, usePoint{fn, in})
		if fn == owner || fn.Parent() != nil {
			break
		}
		s := w.soleSite(fn)
		if s == nil {
			break
		}
		if _, isCall := s.(*ssa.Call); !isCall {
			break // go / defer: not the same control flow
		}
		in = s
	}
	return out
}

// commonPoints: the innermost function both instructions (or their helper use sites) live in, with their points there.
func (w *World) commonPoints(a, b ssa.Instruction, owner *ssa.Function) (pa, pb ssa.Instruction, below []usePoint, ok bool) {
	ca, cb := w.useChain(a, owner), w.useChain(b, owner)
	for i, x := range ca {
		for _, y := range cb {
			if x.fn == y.fn {
				return x.at, y.at, ca[:i], true
			}
		}
	}
	return nil, nil, nil, false
}

// domDeep: a executes before b on every path that reaches b (a and b in owner or in its private helpers).
func (w *World) domDeep(a, b ssa.Instruction, owner *ssa.Function) bool {
	pa, pb, below, ok := w.commonPoints(a, b, owner)
	if !ok || pa == pb {
		return false
	}
	if !dominates(pa, pb) {
		return false
	}
	// inside the helpers on a's side, a must lie on every path
	for _, u := range below {
		at := u.at
		if !mustExecute(u.fn, func(x ssa.Instruction) bool { return x == at }, 1) {
			return false
		}
	}
	return true
}

// reachesDeep: some path executes a and later b.
func (w *World) reachesDeep(a, b ssa.Instruction, owner *ssa.Function) bool {
	pa, pb, _, ok := w.commonPoints(a, b, owner)
	if !ok {
		return false
	}
	if pa == pb {
		return false
	}
	return reaches(pa, pb)
}

// everyPathPasses: every path from the entry of owner to target executes an instruction satisfying cut first (target and the
// cut may be in owner or in its private helpers).
func (w *World) everyPathPasses(owner *ssa.Function, target ssa.Instruction, cut func(ssa.Instruction) bool) bool {
	lifted := mustCut(cut)
	for _, u := range w.useChain(target, owner) {
		at := u.at
		if pathAvoiding(u.fn, nil, func(x ssa.Instruction) bool { return x == at }, lifted) == nil {
			return true
		}
	}
	return false
}

// closureInstrs visits every instruction of owner and of its private helpers.
func (w *World) closureInstrs(owner *ssa.Function, f func(ssa.Instruction)) {
	for _, g := range w.helperClosure(owner) {
		allInstrsLocal(g, f)
	}
}

// valueCase: one way a value can come about, with the branch facts under which it does.
type valueCase struct {
	Val   ssa.Value
	Facts []EdgeFact
}

// valueCases enumerates the alternatives of v: the edges of a phi (with the facts of each edge) and the returns of a private
// helper whose result v is (with the facts at each return, which include what guards the helper's only call site).
func valueCases(v ssa.Value, depth int) []valueCase {
	v = stripConv(v)
	if depth > 4 {
		return []valueCase{{v, nil}}
	}
	switch x := v.(type) {
	case *ssa.Phi:
		var out []valueCase
		for i, e := range x.Edges {
			pred := x.Block().Preds[i]
			facts := factsAt(pred.Instrs[len(pred.Instrs)-1])
			if ef, has := edgeFact(pred, x.Block()); has {
				facts = append(facts, ef)
			}
			for _, sub := range valueCases(e, depth+1) {
				out = append(out, valueCase{sub.Val, append(append([]EdgeFact{}, facts...), sub.Facts...)})
			}
		}
		return out
	case *ssa.Call, *ssa.Extract:
		idx := 0
		var call *ssa.Call
		if ex, ok := x.(*ssa.Extract); ok {
			call, _ = ex.Tuple.(*ssa.Call)
			idx = ex.Index
		} else {
			call = x.(*ssa.Call)
		}
		if call == nil || crossWorld == nil {
			break
		}
		f := staticCallee(call)
		if f == nil || !crossWorld.isPrivateHelper(f) {
			break
		}
		var out []valueCase
		forEachReturnValue(f, idx, func(rv ssa.Value, at ssa.Instruction) {
			facts := factsAt(at)
			for _, sub := range valueCases(rv, depth+1) {
				out = append(out, valueCase{sub.Val, append(append([]EdgeFact{}, facts...), sub.Facts...)})
			}
		})
		if len(out) > 0 {
			return out
		}
	}
	return []valueCase{{v, nil}}
}

// funcValueTarget: the function of the analysed package a function value denotes: a named function, a function literal,
// or the method behind a bound-method value (x.m).
func funcValueTarget(v ssa.Value) *ssa.Function {
	switch x := stripConv(v).(type) {
	case *ssa.Function:
		return x
	case *ssa.MakeClosure:
		f, ok := x.Fn.(*ssa.Function)
		if !ok {
			return nil
		}
		if f.Synthetic != "" && len(f.Blocks) > 0 {
			// bound method wrapper: its body calls the method
			var target *ssa.Function
			allInstrsLocal(f, func(in ssa.Instruction) {
				if ci, ok := in.(ssa.CallInstruction); ok {
					if g := staticCallee(ci); g != nil {
						target = g
					}
				}
			})
			return target
		}
		return f
	}
	return nil
}

// usesOfFuncValue: the calls of the analysed package that receive fn (as a literal, named function or bound method) as argument.
func (w *World) usesOfFuncValue(fn *ssa.Function) []*ssa.Call {
	var out []*ssa.Call
	for _, g := range w.Funcs {
		if isGenericTemplate(g) {
			continue
		}
		allInstrsLocal(g, func(in ssa.Instruction) {
			call, ok := in.(*ssa.Call)
			if !ok {
				return
			}
			for _, a := range call.Call.Args {
				if t := funcValueTarget(a); t != nil && (t == fn || w.sameFn(t, fn)) {
					out = append(out, call)
				}
			}
		})
	}
	return out
}

// altEdges: the alternatives of a merged value: the edges of a phi, or the values a private helper can return when v is
// (an Extract of) its call. ok == false when v is neither.
func altEdges(v ssa.Value) ([]ssa.Value, bool) {
	switch x := v.(type) {
	case *ssa.Phi:
		return x.Edges, true
	case *ssa.Extract, *ssa.Call:
		var call *ssa.Call
		if ex, isEx := x.(*ssa.Extract); isEx {
			call, _ = ex.Tuple.(*ssa.Call)
		} else {
			call = x.(*ssa.Call)
		}
		if call == nil || crossWorld == nil {
			return nil, false
		}
		f := staticCallee(call)
		if f == nil || !crossWorld.isPrivateHelper(f) {
			return nil, false
		}
		leaves, _, ok := returnLeavesOfCall(v)
		if ok && len(leaves) > 0 {
			return leaves, true
		}
	}
	return nil, false
}

// paramAt: the i-th parameter of fn as a value, or nil when fn has fewer (shape changed).
func paramAt(fn *ssa.Function, i int) ssa.Value {
	if fn == nil || i >= len(fn.Params) {
		return nil
	}
	return fn.Params[i]
}

// flatArgs: the arguments of a call, with arguments that are struct values built locally (parameters bundled into a
// configuration struct) replaced by the values stored into their fields.
func flatArgs(call *ssa.Call) []ssa.Value {
	var out []ssa.Value
	for _, a := range call.Call.Args {
		expanded := false
		if u, ok := origin(a).(*ssa.UnOp); ok && u.Op == token.MUL {
			if al, isA := u.X.(*ssa.Alloc); isA && !allocEscapes(al) {
				if n := namedOf(al.Type()); n != nil && n.Obj().Pkg() != nil && n.Obj().Pkg().Path() == rootPath {
					if st, isS := n.Underlying().(*types.Struct); isS {
						for i := 0; i < st.NumFields(); i++ {
							if v := storedFieldValue(al, i, u); v != nil {
								out = append(out, v)
								expanded = true
							}
						}
					}
				}
			}
		}
		if !expanded {
			out = append(out, a)
		}
	}
	return out
}

// instrsThroughHelpers visits fn's instructions (with its virtually inlined helpers) and, for every synchronous call of a
// private helper that is shared by several call sites, the helper's instructions as executed for THIS call site: while
// they are visited the helper's parameters stand for the site's arguments (origin, desc and carrierOpBound see through them).
func (w *World) instrsThroughHelpers(fn *ssa.Function, f func(ssa.Instruction)) {
	w.instrsThroughHelpersDepth(fn, f, 0)
}

func (w *World) instrsThroughHelpersDepth(fn *ssa.Function, f func(ssa.Instruction), depth int) {
	allInstrs(fn, func(in ssa.Instruction) {
		f(in)
		if depth >= 3 {
			return
		}
		call, ok := in.(*ssa.Call)
		if !ok {
			return
		}
		g := helperCallee(call)
		if g == nil || g.Blocks == nil || inlinedCallee(call) != nil {
			return
		}
		saved := paramBindings
		paramBindings = map[*ssa.Parameter]ssa.Value{}
		for k, v := range saved {
			paramBindings[k] = v
		}
		for k, p := range g.Params {
			if k < len(call.Call.Args) {
				paramBindings[p] = call.Call.Args[k]
			}
		}
		w.instrsThroughHelpersDepth(g, f, depth+1)
		paramBindings = saved
	})
}

// carrierOpBound: carrierOp, also for an operation a shared helper performs on a parameter of a wider interface type
// (grpc.ServerStream, grpc.ClientStream) that stands for a carrier stream at the call site being visited.
func (w *World) carrierOpBound(c ssa.CallInstruction) (string, bool) {
	if k, ok := w.carrierOp(c); ok {
		return k, ok
	}
	cc := c.Common()
	if !cc.IsInvoke() {
		return "", false
	}
	o := origin(cc.Value)
	if o == nil || o == cc.Value || !w.isCarrierType(o.Type()) {
		return "", false
	}
	switch cc.Method.Name() {
	case "SendMsg":
		return "carrier-send", true
	case "RecvMsg":
		return "carrier-recv", true
	case "CloseSend":
		return "carrier-closesend", true
	case "Header":
		return "carrier-header", true
	case "SendHeader":
		return "carrier-sendheader", true
	}
	return "", false
}

// forEachReturnValueThrough: forEachReturnValue, continued through delegation: where the function returns what a private
// helper (possibly shared with siblings) returned, the helper's return values are visited instead, and while they are the
// helper's parameters stand for the arguments of that delegating call.
func forEachReturnValueThrough(fn *ssa.Function, idx int, f func(v ssa.Value, at ssa.Instruction)) {
	forEachReturnValueThroughDepth(fn, idx, f, 0)
}

func forEachReturnValueThroughDepth(fn *ssa.Function, idx int, f func(v ssa.Value, at ssa.Instruction), depth int) {
	forEachReturnValue(fn, idx, func(v ssa.Value, at ssa.Instruction) {
		sub := 0
		var call *ssa.Call
		switch x := stripConv(v).(type) {
		case *ssa.Call:
			call = x
		case *ssa.Extract:
			call, _ = x.Tuple.(*ssa.Call)
			sub = x.Index
		}
		var g *ssa.Function
		if call != nil && depth < 3 {
			g = helperCallee(call)
		}
		if g == nil || g.Blocks == nil {
			f(v, at)
			return
		}
		saved := paramBindings
		paramBindings = map[*ssa.Parameter]ssa.Value{}
		for k, b := range saved {
			paramBindings[k] = b
		}
		for k, p := range g.Params {
			if k < len(call.Call.Args) {
				paramBindings[p] = call.Call.Args[k]
			}
		}
		forEachReturnValueThroughDepth(g, sub, f, depth+1)
		paramBindings = saved
	})
}

// returnsThrough: the returns of fn, where a return that merely forwards the whole result tuple of a synchronous call of a
// private helper used only here (`return helper(…)`) is replaced by that helper's own returns (recursively). The facts at a
// helper's return include what guards its call site, so each replaced return is judged as if the helper's body stood in fn.
func (w *World) returnsThrough(fn *ssa.Function) []*ssa.Return {
	return w.returnsThroughDepth(fn, 0)
}

func (w *World) returnsThroughDepth(fn *ssa.Function, depth int) []*ssa.Return {
	var out []*ssa.Return
	for _, ret := range returnsOf(fn) {
		var fwd *ssa.Call
		if depth < 3 && len(ret.Results) > 0 {
			if len(ret.Results) == 1 {
				fwd, _ = ret.Results[0].(*ssa.Call)
			} else {
				for i, r := range ret.Results {
					ex, ok := r.(*ssa.Extract)
					if !ok || ex.Index != i {
						fwd = nil
						break
					}
					call, ok := ex.Tuple.(*ssa.Call)
					if !ok || (i > 0 && call != fwd) {
						fwd = nil
						break
					}
					fwd = call
				}
			}
		}
		if fwd != nil && fwd.Block() == ret.Block() {
			if g := inlinedCallee(fwd); g != nil && g.Signature.Results().Len() == len(ret.Results) {
				out = append(out, w.returnsThroughDepth(g, depth+1)...)
				continue
			}
		}
		out = append(out, ret)
	}
	return out
}

// sameTypeArgs: two methods of a generic type belong to the same instantiation (same receiver type string).
func (w *World) sameTypeArgs(f, g *ssa.Function) bool {
	for f.Parent() != nil {
		f = f.Parent()
	}
	for g.Parent() != nil {
		g = g.Parent()
	}
	if f.Signature.Recv() == nil || g.Signature.Recv() == nil {
		return true
	}
	return types.TypeString(f.Signature.Recv().Type(), nil) == types.TypeString(g.Signature.Recv().Type(), nil)
}
