package main

// rules_loop.go: receive-loop rules (C03.*), id validation and late frames (C07.6, C08.4), shutdown gate (C10.1).

import (
	"fmt"
	"go/token"
	"go/types"
	"sort"
	"strings"

	"golang.org/x/tools/go/ssa"
)

var forbiddenInLoop = map[string]string{
	"carrier-send":       "a carrier send can block on the transport",
	"carrier-closesend":  "a carrier half-close can block on the transport",
	"carrier-sendheader": "a carrier header send can block on the transport",
	"carrier-header":     "waiting for carrier headers blocks",
	"chan-send":          "a blocking channel send waits for a consumer",
	"chan-recv":          "a blocking channel receive waits for a producer",
	"select-blocking":    "a blocking select waits for another goroutine",
	"cond-wait":          "cond.Wait waits for another goroutine",
	"wg-wait":            "WaitGroup.Wait waits for other goroutines",
	"callback":           "a user callback may block arbitrarily",
	"sleep":              "sleeping stalls every RPC on the tunnel",
}

// loopRecv returns the loop's own carrier Recv call.
func (c *Ctx) loopRecv(loop *ssa.Function) ssa.Instruction {
	var r ssa.Instruction
	for _, e := range c.W.directEffects(loop).Effects {
		if e.Kind == "carrier-recv" && inLoop(e.Instr.Block()) {
			r = e.Instr
		}
	}
	if r == nil {
		// the frame loop may live in a private helper of the loop function
		allInstrs(loop, func(in ssa.Instruction) {
			if ci, ok := in.(ssa.CallInstruction); ok && in.Parent() != loop {
				if k, isOp := c.W.carrierOp(ci); isOp && k == "carrier-recv" {
					// a loop of the helper itself, not merely a helper called from a loop
					seen := map[*ssa.BasicBlock]bool{}
					work := append([]*ssa.BasicBlock{}, in.Block().Succs...)
					self := false
					for len(work) > 0 {
						b := work[len(work)-1]
						work = work[:len(work)-1]
						if b == in.Block() {
							self = true
							break
						}
						if seen[b] {
							continue
						}
						seen[b] = true
						work = append(work, b.Succs...)
					}
					if self {
						r = in
					}
				}
			}
		})
	}
	return r
}

// byDesignLoopException: frozen exceptions of C03.1, one named construct each.
func (c *Ctx) loopException(fn *ssa.Function, e Effect) (string, bool) {
	r := c.receivers()
	if r.plain != nil {
		if n := recvNamed(fn); n != nil && n.Obj() == r.plain.Obj() && fn.Name() == c.W.mName("accept") && e.Kind == "select-blocking" {
			return "the plain (revision-zero) receiver's hand-off blocks by design; C03 exempts tunnels without flow control, and C11.6 checks it is used only at revision zero", true
		}
	}
	return "", false
}

// ruleLoopEffects (C03.1, C03.5, C10.3).
func ruleLoopEffects(c *Ctx, rule string) {
	c.rule(rule, "receive loops never block on one RPC's behalf: on the loop's own goroutine, on code that continues the loop, the only effects are the loop's own Recv, non-blocking selects, close(ch), go spawns, signals and lock acquisitions; no carrier send, blocking channel operation, cond/WaitGroup wait or user callback")
	w := c.W
	a := w.Anchors()
	for _, loop := range []*ssa.Function{a.ClientLoop, a.ServerLoop} {
		if !c.need(rule, "receive loop", loop) {
			continue
		}
		name := w.Short(loop)
		recv := c.loopRecv(loop)
		if recv == nil {
			c.fail(rule, name+": loop Recv", w.Pos(loop.Pos()), "no carrier Recv inside a loop")
			continue
		}
		inLoopSite := func(in ssa.Instruction) bool { return in == recv || (reaches(in, recv) && reaches(recv, in)) }
		reach := w.sameGoroutineReach(loop, func(s ssa.CallInstruction) bool { return inLoopSite(s) })
		nEff, nFn := 0, 0
		for _, fn := range sortedFuncs(w, reach) {
			if isGenericTemplate(fn) {
				continue
			}
			nFn++
			for _, e := range w.directEffects(fn).Effects {
				if fn == loop && !inLoopSite(e.Instr) {
					continue // prologue or exit path
				}
				nEff++
				key := fmt.Sprintf("%s: %s in %s", name, e.Kind, w.Short(fn))
				if e.Kind == "carrier-recv" {
					isWrapper := fn.Signature.Recv() != nil && w.isCarrierType(fn.Signature.Recv().Type())
					c.check(e.Instr == recv || isWrapper, rule, key, w.At(e.Instr), "the loop's own Recv", "a second carrier Recv on the loop's goroutine: "+reach[fn].chain(w))
					continue
				}
				why, bad := forbiddenInLoop[e.Kind]
				if !bad {
					c.ok(rule, key+" "+e.Detail, w.At(e.Instr), "allowed in-loop effect")
					continue
				}
				if reason, ok := c.loopException(fn, e); ok {
					c.exception(rule, key, w.At(e.Instr), reason)
					continue
				}
				c.fail(rule, key, w.At(e.Instr), fmt.Sprintf("%s (%s) is performed on the receive loop's goroutine via %s: %s, so one stalled peer or consumer stalls every RPC on the tunnel", e.Kind, e.Detail, reach[fn].chain(w), why))
			}
		}
		c.floor(rule, nFn, 8, "functions same-goroutine-reachable in-loop from "+name)
		c.floor(rule, nEff, 8, "in-loop effects classified for "+name)
	}
	// C03.5: the flow-controlled accept never waits
	r := c.receivers()
	for _, fn := range r.accept {
		bad := ""
		for _, e := range w.directEffects(fn).Effects {
			if _, b := forbiddenInLoop[e.Kind]; b {
				bad = e.Kind + " at " + w.At(e.Instr)
			}
		}
		c.check(bad == "", rule, w.Short(fn)+": enqueue never waits", w.Pos(fn.Pos()), "no blocking effect in the flow-controlled accept", "the flow-controlled accept performs "+bad)
	}
}

// frozen exceptions of C03.2: lock -> (allowed effect predicate, reason). An exception names the one
// construct it covers: any other blocking effect under the same lock is still a violation.
type lockException struct {
	allow  func(kind string, fn *ssa.Function) bool
	reason string
}

func (c *Ctx) shortLockExceptions() map[string]lockException {
	a := c.W.Anchors()
	out := map[string]lockException{}
	if a.SS != nil {
		// the per-stream write mutex of the server stream
		for _, s := range c.senderSendSites() {
			if rn := recvNamed(s.Parent()); rn != nil && rn.Obj() == a.SS.Obj() {
				for _, l := range perStreamLocks(c.W.Locks().MustAt(s), a.SS) {
					out[l] = lockException{
						allow: func(kind string, fn *ssa.Function) bool {
							// flow-control wait and carrier sends of the stream's own frames
							if kind == "carrier-send" {
								return true
							}
							if kind == "select-blocking" {
								for _, impl := range c.senderImpls() {
									if impl == fn || c.W.ownedBy(fn, impl) {
										return true // the sender's wait, also when split off into its private helper
									}
								}
							}
							return false
						},
						reason: "held across the flow-control wait and carrier sends by design; safe for the loop because the finishing function cancels the stream context before taking it (C07.7) and a holder blocked on the carrier is released by the peer's loop, which never waits on us (C03.1, conforming peer)",
					}
				}
			}
		}
	}
	r := c.receivers()
	if r.plain != nil {
		pn := r.plain.Obj().Name()
		// the ingest mutex: the plain receiver's own lock held at its blocking hand-off select (found by use, not by name)
		for _, acc := range r.pAccept {
			allInstrs(acc, func(in ssa.Instruction) {
				sel, ok := in.(*ssa.Select)
				if !ok || !sel.Blocking {
					return
				}
				for _, l := range c.W.Locks().MustAt(sel).list() {
					l = strings.TrimSuffix(l, ":R")
					if !strings.HasPrefix(l, pn+".") {
						continue
					}
					out[l] = lockException{
						allow: func(kind string, fn *ssa.Function) bool {
							n := recvNamed(fn)
							return kind == "select-blocking" && n != nil && n.Obj().Name() == pn && fn.Name() == c.W.mName("accept")
						},
						reason: "plain (revision-zero) receiver: blocking hand-off by design, exempted by C03",
					}
				}
			})
		}
	}
	out["ReverseTunnelServer.mu"] = lockException{
		allow: func(kind string, fn *ssa.Function) bool {
			if kind != "carrier-closesend" {
				return false
			}
			if stop := c.W.Func("(*ReverseTunnelServer).Stop"); stop != nil && c.W.ownedBy(fn, stop) {
				return true // Stop itself, or a helper used only by it
			}
			return fn.Signature.Recv() != nil && c.W.isCarrierType(fn.Signature.Recv().Type())
		},
		reason: "held across CloseSend only in Stop (shutdown path, bounded by the transport); the loop takes it only to read the state",
	}
	return out
}

// ruleShortLocks (C03.2).
func ruleShortLocks(c *Ctx, rule string) {
	c.rule(rule, "every lock a receive loop acquires is short: no blocking or user-controlled effect is performed anywhere while that lock may be held (frozen, individually justified exceptions aside)")
	w := c.W
	a := w.Anchors()
	lf := w.Locks()
	loopLocks := map[string]string{}
	for _, loop := range []*ssa.Function{a.ClientLoop, a.ServerLoop} {
		if loop == nil {
			continue
		}
		recv := c.loopRecv(loop)
		if recv == nil {
			continue
		}
		reach := w.sameGoroutineReach(loop, func(s ssa.CallInstruction) bool { return s == recv || (reaches(s, recv) && reaches(recv, s)) })
		for fn, p := range reach {
			for _, e := range w.directEffects(fn).Effects {
				if e.Kind == "lock" {
					if fn == loop && !(e.Instr == recv || (reaches(e.Instr, recv) && reaches(recv, e.Instr))) {
						continue
					}
					if _, ok := loopLocks[e.Detail]; !ok {
						loopLocks[e.Detail] = w.Short(loop) + " via " + p.chain(w)
					}
				}
			}
		}
	}
	exc := c.shortLockExceptions()
	var names []string
	for l := range loopLocks {
		names = append(names, l)
	}
	sort.Strings(names)
	c.floor(rule, len(names), 6, "locks acquired on a receive loop's goroutine")
	for _, l := range names {
		if c.isWrapperMutex(l) {
			// carrier wrapper mutexes: held around the carrier op itself by construction (C15.2)
			c.exception(rule, "lock "+l, "-", "carrier wrapper mutex: exists to serialise the carrier operation itself; the loop takes only the receive side for its own Recv")
			continue
		}
		var bad, excused []string
		onlyCredsCallbacks := true
		for _, fn := range w.Funcs {
			if isGenericTemplate(fn) {
				continue
			}
			for _, e := range w.directEffects(fn).Effects {
				if _, isBad := forbiddenInLoop[e.Kind]; !isBad {
					continue
				}
				may := lf.MayAt(e.Instr)
				if may[l] || may[l+":R"] {
					if ex, has := exc[l]; has && ex.allow(e.Kind, fn) {
						excused = append(excused, fmt.Sprintf("%s in %s at %s", e.Kind, w.Short(fn), w.At(e.Instr)))
						continue
					}
					if e.Kind == "cond-wait" && strings.HasSuffix(e.Detail, "") {
						// cond.Wait releases its own lock while waiting
						if cl := c.condLock(); cl == l {
							continue
						}
					}
					bad = append(bad, fmt.Sprintf("%s in %s at %s", e.Kind, w.Short(fn), w.At(e.Instr)))
					if !(e.Kind == "callback" && a.Allocate != nil && w.ownedBy(fn, a.Allocate)) {
						onlyCredsCallbacks = false
					}
				}
			}
		}
		key := "lock " + l + " (taken in-loop: " + loopLocks[l] + ")"
		if len(bad) == 0 && len(excused) == 0 {
			c.ok(rule, "lock "+l, "-", "taken in-loop ("+loopLocks[l]+"); no blocking effect anywhere while it may be held")
			continue
		}
		if len(bad) == 0 {
			c.exception(rule, "lock "+l, "-", exc[l].reason+"; excused effects while held: "+strings.Join(excused, "; "))
			continue
		}
		if a.Ch != nil && a.Allocate != nil && l == a.Ch.Obj().Name()+".mu" && onlyCredsCallbacks {
			c.exception(rule, "lock "+l, "-", "observation O-2: the per-RPC credentials callbacks run under the channel mutex ("+strings.Join(bad, "; ")+"); they delay other RPCs only for a credentials provider that is slow or ignores its context, which is not one of the disturbers the statement lists; recorded, not a violation")
			continue
		}
		c.fail(rule, key, "-", "the receive loop acquires "+l+", and while it may be held these blocking effects occur: "+strings.Join(bad, "; ")+" — a stalled holder stalls the loop and with it every RPC on the tunnel")
	}
}

// condLock: the lock the flow-controlled receiver's cond is bound to (cond.L = &mu).
func (c *Ctx) condLock() string {
	r := c.receivers()
	if r.fc == nil {
		return ""
	}
	out := ""
	for _, fn := range c.W.Funcs {
		allInstrs(fn, func(in ssa.Instruction) {
			// r.cond = sync.NewCond(&r.mu)
			if call, isC := in.(*ssa.Call); isC && calleeName(call) == "sync.NewCond" && len(call.Call.Args) == 1 {
				if fr, _, ok := fieldOfAddr(stripConv(call.Call.Args[0])); ok && fr.Type == r.fc.Obj().Name() {
					out = fr.String()
				}
				return
			}
			st, ok := in.(*ssa.Store)
			if !ok {
				return
			}
			fa, ok := st.Addr.(*ssa.FieldAddr)
			if !ok || fieldName(fa.X.Type(), fa.Field) != "L" {
				return
			}
			if fr, _, ok := fieldOfAddr(stripConv(st.Val)); ok && fr.Type == r.fc.Obj().Name() {
				out = fr.String()
			}
		})
	}
	return out
}

// highWaterField: the int64 field of Sv that the creation function advances with the frame's id.
func (c *Ctx) highWaterStore() (*ssa.Store, FieldRef, bool) {
	a := c.W.Anchors()
	if a.Create == nil || a.Sv == nil {
		return nil, FieldRef{}, false
	}
	var res *ssa.Store
	var fr FieldRef
	allInstrs(a.Create, func(in ssa.Instruction) {
		st, ok := in.(*ssa.Store)
		if !ok {
			return
		}
		f, _, ok := fieldOfAddr(st.Addr)
		if !ok || f.Type != a.Sv.Obj().Name() {
			return
		}
		if len(a.Create.Params) >= 3 && origin(st.Val) == paramAt(a.Create, 2) {
			res, fr = st, f
		}
	})
	return res, fr, res != nil
}

type createReturn struct {
	ret   *ssa.Return
	ok    ssa.Value
	err   ssa.Value
	class string // "tunnel-level", "stream-level", "success", "unknown"
}

func (c *Ctx) createReturns() []createReturn {
	a := c.W.Anchors()
	var out []createReturn
	for _, ret := range returnsOf(a.Create) {
		t := returnTuple(ret)
		if len(t) != 2 {
			continue
		}
		cr := createReturn{ret: ret, ok: t[0], err: t[1], class: "unknown"}
		switch {
		case t[0] != nil && isConstBool(t[0], false) && t[1] != nil && !isNilConst(t[1]):
			cr.class = "tunnel-level"
		case t[0] != nil && isConstBool(t[0], true) && t[1] != nil && isNilConst(t[1]):
			cr.class = "success"
		case t[0] != nil && isConstBool(t[0], true) && t[1] != nil:
			cr.class = "stream-level"
		}
		out = append(out, cr)
	}
	return out
}

// ruleErrorSplit (C03.3, C06.4, C09.3).
func ruleErrorSplit(c *Ctx, rule string) {
	c.rule(rule, "error split: the tunnel is terminated from a receive loop only for a carrier Recv failure, a frame for a never-created id, or a reused/non-increasing new id (plus the settings prologue); every other error arising from one stream's frame reaches only that stream's finishing function or a close_stream reply")
	w := c.W
	a := w.Anchors()
	if !c.need(rule, "ChClose", a.ChClose) || !c.need(rule, "ClientLoop", a.ClientLoop) || !c.need(rule, "ServerLoop", a.ServerLoop) || !c.need(rule, "Create", a.Create) {
		return
	}
	// --- client: who may call the channel close on the loop goroutine
	recv := c.loopRecv(a.ClientLoop)
	reach := w.sameGoroutineReach(a.ClientLoop, nil)
	n := 0
	for _, s := range w.callSitesOf(a.ChClose) {
		fn := s.Parent()
		if _, on := reach[fn]; !on {
			continue
		}
		n++
		key := "channel close called in " + w.Short(fn)
		if fn != a.ClientLoop && regionRoot(fn) != a.ClientLoop {
			c.fail(rule, key, w.At(s), "the whole channel is closed from "+w.Short(fn)+", which runs on the receive loop while handling one stream's frame ("+reach[fn].chain(w)+"): one RPC's error ends every RPC on the tunnel")
			continue
		}
		if recv != nil && !(reaches(recv, s) && dominates(recv, s)) {
			// prologue (settings) close
			c.ok(rule, key+" (settings prologue)", w.At(s), "before the loop: malformed or missing settings end the tunnel by design (C11.3)")
			continue
		}
		// in-loop: dominated by err != nil of Recv or of the lookup
		cause := ""
		for _, f := range factsAt(s) {
			x, op, y, ok := cmpFact(f)
			if !ok || op != token.NEQ || !isNilConst(y) {
				continue
			}
			if ex, ok := origin(x).(*ssa.Extract); ok && ex.Index == 1 {
				if call, ok := ex.Tuple.(*ssa.Call); ok {
					if call == recv {
						cause = "carrier Recv failed"
					} else if staticCallee(call) == a.ClientLookup {
						cause = "frame for a never-created id"
					}
				}
			}
		}
		c.check(cause != "", rule, key, w.At(s), "cause: "+cause, "the channel is closed inside the loop for a reason other than a Recv failure or a never-created id")
	}
	c.floor(rule, n, 2, "channel-close call sites on the client loop")
	// client lookup: non-nil error only when not found and not (created && id <= last)
	c.lookupErrorOnlyForNeverCreated(rule, a.ClientLookup, a.ChStreams)
	c.lookupErrorOnlyForNeverCreated(rule, a.ServerLookup, a.SvStreams)
	// --- server loop returns
	srecv := c.loopRecv(a.ServerLoop)
	nr := 0
	for _, ret := range returnsOf(a.ServerLoop) {
		if srecv == nil || !dominates(srecv, ret) {
			continue
		}
		nr++
		t := returnTuple(ret)
		key := fmt.Sprintf("%s: return in block %d", w.Short(a.ServerLoop), ret.Block().Index)
		if t[0] == nil || isNilConst(t[0]) {
			c.ok(rule, key, w.At(ret), "returns nil (clean end)")
			continue
		}
		// every value the returned error can be (the loop body may live in a private helper whose result is returned)
		cause := ""
		bad := ""
		for _, vc := range valueCases(t[0], 0) {
			if isNilConst(vc.Val) {
				continue // a nil result of the helper is not returned as an error (checked by the caller's err != nil)
			}
			facts := append(append([]EdgeFact{}, vc.Facts...), factsAt(ret)...)
			leafCause := ""
			if ex, ok := origin(vc.Val).(*ssa.Extract); ok && ex.Index == 1 {
				if call, ok := ex.Tuple.(*ssa.Call); ok {
					switch {
					case call == srecv:
						leafCause = "carrier Recv failed"
					case staticCallee(call) == a.ServerLookup:
						leafCause = "frame for a never-created id"
					case staticCallee(call) == a.Create:
						// only when ok == false
						for _, f := range boolFactsOf(facts) {
							if ex2, ok := f.V.(*ssa.Extract); ok && ex2.Tuple == ssa.Value(call) && ex2.Index == 0 && !f.True {
								leafCause = "creation function reported a tunnel-level protocol error"
							}
						}
					}
				}
			}
			if leafCause == "" {
				bad = desc(vc.Val)
			} else if cause == "" {
				cause = leafCause
			} else if !strings.Contains(cause, leafCause) {
				cause += "; " + leafCause
			}
		}
		if bad != "" {
			cause = ""
		}
		c.check(cause != "", rule, key, w.At(ret), "cause: "+cause, "the serve loop returns error "+desc(t[0])+" (unexplained value: "+bad+"), which is not a Recv failure, a never-created id, or a tunnel-level (ok == false) creation error: one RPC's problem ends the tunnel")
	}
	c.floor(rule, nr, 3, "in-loop returns of the serve loop")
	// --- creation function returns
	hw, hwField, hasHW := c.highWaterStore()
	ins := tableInsert(a.Create, a.SvStreams)
	for _, cr := range c.createReturns() {
		key := fmt.Sprintf("%s: return in block %d (%s)", w.Short(a.Create), cr.ret.Block().Index, cr.class)
		switch cr.class {
		case "unknown":
			c.fail(rule, key, w.At(cr.ret), "cannot classify this return (ok="+desc(cr.ok)+", err="+desc(cr.err)+"): unrecognised shape")
		case "tunnel-level":
			// only the two id checks: dominated by (table hit) or (id <= highWater), and before the high-water store
			cause := ""
			for _, f := range boolFactsAt(cr.ret) {
				if ex, ok := f.V.(*ssa.Extract); ok && ex.Index == 1 && f.True {
					if l, ok := ex.Tuple.(*ssa.Lookup); ok {
						if fr, _, ok := loadedField(l.X); ok && fr == a.SvStreams {
							cause = "id already active"
						}
					}
				}
			}
			if hasHW {
				for _, f := range factsAt(cr.ret) {
					x, op, y, ok := cmpFact(f)
					if !ok {
						continue
					}
					if origin(x) == paramAt(a.Create, 2) && isFieldLoad(y, hwField) && (op == token.LEQ || op == token.LSS || op == token.EQL) {
						cause = "id not greater than the high-water mark"
					}
				}
			}
			if cause == "" && hasHW {
				// the error of an id-validation helper: if err := s.validate(id); err != nil { return false, err }
				if call, isC := stripConv(cr.err).(*ssa.Call); isC {
					if sum := c.idCheckSummary(call, hwField); sum != nil && sum.errAll && sum.causes >= 1 {
						for _, f := range factsAt(cr.ret) {
							if x, op, y, ok := cmpFact(f); ok && op == token.NEQ && stripConv(x) == ssa.Value(call) && isNilConst(y) {
								cause = "id validation helper " + w.Short(sum.fn) + " reported a reused or non-increasing id"
							}
						}
					}
				}
			}
			c.check(cause != "", rule, key, w.At(cr.ret), "cause: "+cause, "the creation function reports a tunnel-level error (ok == false) for a reason other than a reused or non-increasing id: a stream-level problem would end the whole tunnel")
		case "stream-level":
			good, why := nonNilErrorPhiAware(cr.err, cr.ret)
			isStatus := false
			if call, ok := stripConv(cr.err).(*ssa.Call); ok && strings.HasPrefix(calleeName(call), "google.golang.org/grpc/status.") {
				isStatus = true
			}
			if !isStatus {
				// the error of a private helper (e.g. method resolution): every non-nil value it can return is a status
				if cases := valueCases(cr.err, 0); len(cases) > 1 {
					isStatus = true
					for _, vc := range cases {
						if isNilConst(vc.Val) {
							continue
						}
						if call, ok := stripConv(vc.Val).(*ssa.Call); !ok || !strings.HasPrefix(calleeName(call), "google.golang.org/grpc/status.") {
							isStatus = false
						}
					}
				}
			}
			c.check(good && isStatus, rule, key, w.At(cr.ret), "stream-level rejection with a status error", "a stream-level rejection must carry a non-nil status error ("+why+")")
			if ins != nil {
				c.check(!dominates(ins, cr.ret), rule, key+": not registered", w.At(cr.ret), "rejected before the table insert", "a stream is rejected after it was inserted in the table (entry never removed)")
			}
		case "success":
			if ins != nil {
				c.check(dominates(ins, cr.ret), rule, key, w.At(cr.ret), "success only after the table insert", "success is returned without registering the stream")
			}
		}
	}
	_ = hw
	// --- accept methods: the stream's own errors reach only the finishing function
	for _, side := range []struct{ acc, fin *ssa.Function }{{a.ClientAccept, a.ClientFinish}, {a.ServerAccept, a.ServerFinish}} {
		if !c.need(rule, "accept method", side.acc) || !c.need(rule, "finishing function", side.fin) {
			continue
		}
		name := w.Short(side.acc)
		c.check(side.acc.Signature.Results().Len() == 0, rule, name+": cannot propagate an error to the loop", w.Pos(side.acc.Pos()), "no result values", "the accept method returns a value to the receive loop; stream-level errors could escalate")
		// receiver.accept error -> finishing function
		var accCall *ssa.Call
		allInstrs(side.acc, func(in ssa.Instruction) {
			if call, ok := in.(*ssa.Call); ok && call.Call.IsInvoke() && ifaceMethodRole(call.Call.Method) == "accept" {
				accCall = call
			}
		})
		if accCall == nil {
			c.fail(rule, name+": receiver.accept error handled", w.Pos(side.acc.Pos()), "no call of receiver.accept")
			continue
		}
		handled := false
		allInstrs(side.acc, func(in ssa.Instruction) {
			call, ok := in.(*ssa.Call)
			if !ok || staticCallee(call) != side.fin {
				return
			}
			if len(call.Call.Args) >= 2 && stripConv(call.Call.Args[1]) == ssa.Value(accCall) {
				for _, f := range factsAt(call) {
					if x, op, y, ok := cmpFact(f); ok && op == token.NEQ && x == ssa.Value(accCall) && isNilConst(y) {
						handled = true
					}
				}
			}
		})
		c.check(handled, rule, name+": receiver.accept error finishes that stream", w.At(accCall), "if err := receiver.accept(frame); err != nil { finish(err) }", "an error from receiver.accept (e.g. window overrun) is not passed to the stream's finishing function: the violating RPC is not failed")
		reach := w.sameGoroutineReach(side.acc, nil)
		_, bad := reach[a.ChClose]
		c.check(!bad, rule, name+": never reaches the channel close", w.Pos(side.acc.Pos()), "channel close not reachable", "the accept method can reach the channel close: one stream's frame can end the tunnel")
	}
}

func allPrefixed(ss []string, prefix string) bool {
	for _, s := range ss {
		if !strings.HasPrefix(s, prefix) {
			return false
		}
	}
	return len(ss) > 0
}

func isFieldLoad(v ssa.Value, fr FieldRef) bool {
	f, _, ok := loadedField(v)
	return ok && f == fr
}

// lookupErrorOnlyForNeverCreated + C07.6 late frames inert.
func (c *Ctx) lookupErrorOnlyForNeverCreated(rule string, lookup *ssa.Function, table FieldRef) {
	w := c.W
	if lookup == nil {
		return
	}
	name := w.Short(lookup)
	idp := lookup.Params[1]
	nNil, nErr := 0, 0
	for _, ret := range returnsOf(lookup) {
		t := returnTuple(ret)
		if len(t) != 2 {
			continue
		}
		st, errv := t[0], t[1]
		key := fmt.Sprintf("%s: return in block %d", name, ret.Block().Index)
		found := false
		le := false
		for _, f := range boolFactsAt(ret) {
			if ex, ok := f.V.(*ssa.Extract); ok && ex.Index == 1 {
				if l, ok := ex.Tuple.(*ssa.Lookup); ok {
					if fr, _, ok := loadedField(l.X); ok && fr == table && f.True {
						found = true
					}
				}
			}
		}
		for _, f := range factsAt(ret) {
			x, op, y, ok := cmpFact(f)
			if ok && origin(x) == ssa.Value(idp) && op == token.LEQ {
				if fr, _, isF := loadedField(y); isF && fr.Type == table.Type {
					le = true
				}
			}
		}
		switch {
		case errv != nil && !isNilConst(errv):
			nErr++
			c.check(!found && !le, rule, key+" (never created)", w.At(ret), "error only when the id is neither in the table nor <= the high-water mark", "the lookup reports a protocol error for an id that is active or already disposed of")
		case st != nil && isNilConst(st):
			nNil++
			// exactly: no further condition on the id (ids start wherever the peer starts them — the protocol says zero —
			// so "id > 0" or the like turns a late frame for a legal finished id into a tunnel error)
			extra := ""
			for _, f := range factsAt(ret) {
				x, op, y, ok := cmpFact(f)
				if !ok {
					continue
				}
				if origin(x) == ssa.Value(idp) {
					if fr, _, isF := loadedField(y); isF && fr.Type == table.Type && op == token.LEQ {
						continue
					}
					extra = desc(x) + " " + op.String() + " " + desc(y)
				} else if origin(y) == ssa.Value(idp) {
					if fr, _, isF := loadedField(x); isF && fr.Type == table.Type && op == token.GEQ {
						continue
					}
					extra = desc(x) + " " + op.String() + " " + desc(y)
				}
			}
			c.check(extra == "", rule, key+" (late frame): no further condition on the id", w.At(ret), "only id <= high-water mark", "the (no stream, no error) answer for finished ids is additionally conditional on "+extra+": a late frame for a finished stream with such an id (e.g. stream 0, which the protocol documents as the first id) is reported as 'never created' and ends the whole tunnel")
			c.check(le && !found, rule, key+" (late frame)", w.At(ret), "(no stream, no error) only under id <= high-water mark", "the lookup silently ignores a frame for an id that was never created (id > high-water mark): protocol violations go unnoticed, or late frames for finished ids are misclassified")
		}
	}
	c.check(nNil >= 1, rule, name+": late frames for disposed ids are ignored", w.Pos(lookup.Pos()), "has a (nil, nil) exit", "the lookup has no (no stream, no error) exit: a late frame for a finished RPC would end the tunnel")
	c.check(nErr >= 1, rule, name+": never-created ids are a tunnel error", w.Pos(lookup.Pos()), "has an error exit", "the lookup never reports a never-created id")
}

// ruleLateFramesInert (C07.6 / C08.6).
func ruleLateFramesInert(c *Ctx, rule string) {
	c.rule(rule, "late frames are inert: the table lookup answers (no stream, no error) exactly for ids at or below the high-water mark, both accept methods return immediately for a nil stream, and the flow-controlled accept drops items once closed")
	w := c.W
	a := w.Anchors()
	c.lookupErrorOnlyForNeverCreated(rule, a.ClientLookup, a.ChStreams)
	c.lookupErrorOnlyForNeverCreated(rule, a.ServerLookup, a.SvStreams)
	for _, acc := range []*ssa.Function{a.ClientAccept, a.ServerAccept} {
		if !c.need(rule, "accept method", acc) {
			continue
		}
		// entry block: if st == nil -> return, and nothing else uses st before
		name := w.Short(acc)
		entry := acc.Blocks[0]
		ok := false
		if ifi, isIf := entry.Instrs[len(entry.Instrs)-1].(*ssa.If); isIf {
			f := normFact(EdgeFact{ifi.Cond, true})
			if b, isB := f.Cond.(*ssa.BinOp); isB && b.Op == token.EQL && stripConv(b.X) == ssa.Value(acc.Params[0]) && isNilConst(b.Y) {
				tb := entry.Succs[0]
				if !f.True {
					tb = entry.Succs[1]
				}
				if r := blockReturn(tb); r != nil && len(tb.Instrs) <= 2 {
					ok = true
				}
			}
		}
		if !ok {
			// the test may have been moved to the callers: every call is made only with a stream that was found
			sites := w.callSitesOf(acc)
			okSites := len(sites) > 0
			for _, s := range sites {
				recvV := s.Common().Args[0]
				guarded := false
				for _, f := range factsAt(s) {
					x, op, y, isCmp := cmpFact(f)
					if isCmp && op == token.NEQ && isNilConst(y) && origin(x) == origin(recvV) {
						guarded = true
					}
				}
				if !guarded {
					okSites = false
				}
			}
			ok = okSites
		}
		c.check(ok, rule, name+": nil stream discards the frame", w.Pos(acc.Pos()), "first statement: if st == nil { return }", "the accept method does not start with a nil-stream check that returns: a late frame for a finished RPC dereferences nil (crash) or has an effect")
	}
	r := c.receivers()
	closedFlag, _ := c.closeCancelFlags(r)
	for _, fn := range r.accept {
		push := listCalls(fn, "PushBack")
		good := len(push) == 1 && fieldFlagFact(push[0], closedFlag, false) != nil
		c.check(good, rule, w.Short(fn)+": drops items after close", w.Pos(fn.Pos()), "enqueue only when "+closedFlag.String()+" is false", "the flow-controlled accept enqueues after close: late data resurfaces in a finished stream")
	}
}

// ruleRejectedIDsRecorded (C03.4 / C10.2).
func ruleRejectedIDsRecorded(c *Ctx, rule string) {
	c.rule(rule, "rejected ids are recorded: in the stream-creation function every stream-level rejection is dominated by the store that advances the high-water mark with this frame's id, so the rejected RPC's following frames are ignored instead of aborting the tunnel")
	w := c.W
	a := w.Anchors()
	if !c.need(rule, "Create", a.Create) {
		return
	}
	hw, hwField, ok := c.highWaterStore()
	if !ok {
		c.fail(rule, "high-water mark store", w.Pos(a.Create.Pos()), "the creation function never stores the new id into a field of the tunnel server: every frame following a new_stream would be 'never created'")
		return
	}
	n := 0
	for _, cr := range c.createReturns() {
		if cr.class != "stream-level" {
			continue
		}
		n++
		what := "rejection"
		if call, ok := stripConv(cr.err).(*ssa.Call); ok && len(call.Call.Args) > 1 {
			if k, ok := call.Call.Args[1].(*ssa.Const); ok && k.Value != nil {
				what = "rejection " + k.Value.ExactString()
			}
		}
		key := fmt.Sprintf("%s: stream-level %s", w.Short(a.Create), what)
		c.check(dominates(hw, cr.ret), rule, key, w.At(cr.ret), "dominated by "+hwField.String()+" = id at "+w.At(hw), "this stream-level rejection returns before the id is recorded in "+hwField.String()+": the refused RPC's next frame (request data / half-close, usually already in flight) is classified 'never created' and tears down the tunnel with every in-flight RPC")
	}
	c.floor(rule, n, 2, "stream-level rejection returns")
}

// ruleIDValidation (C08.4).
func ruleIDValidation(c *Ctx, rule string) {
	c.rule(rule, "id validation: the server's table insert is dominated by 'not already present' and by the false edge of exactly id <= high-water mark (both ending the tunnel on the other edge), and the high-water mark is then set to the id")
	w := c.W
	a := w.Anchors()
	if !c.need(rule, "Create", a.Create) {
		return
	}
	ins := tableInsert(a.Create, a.SvStreams)
	hw, hwField, ok := c.highWaterStore()
	if ins == nil || !ok {
		c.fail(rule, "table insert and high-water store", w.Pos(a.Create.Pos()), "not found")
		return
	}
	idp := paramAt(a.Create, 2)
	if idp == nil {
		c.fail(rule, "creation function: id parameter", "-", "the creation function does not take the stream id as its second argument: unrecognised shape")
		return
	}
	c.check(origin(ins.Key) == ssa.Value(idp), rule, "insert keyed by the frame's id", w.At(ins), "streams[id] = stream", "the table insert is keyed by "+desc(ins.Key)+", not the frame's id")
	absent, greater := false, false
	var cmpOp token.Token
	for _, f := range boolFactsAt(ins) {
		if ex, ok := f.V.(*ssa.Extract); ok && ex.Index == 1 && !f.True {
			if l, ok := ex.Tuple.(*ssa.Lookup); ok {
				if fr, _, ok := loadedField(l.X); ok && fr == a.SvStreams && origin(l.Index) == ssa.Value(idp) {
					absent = true
				}
			}
		}
	}
	for _, f := range factsAt(ins) {
		x, op, y, ok := cmpFact(f)
		if !ok {
			continue
		}
		if origin(x) == ssa.Value(idp) && isFieldLoad(y, hwField) {
			cmpOp = op
			// the load must precede the store
			if ld, ok := y.(ssa.Instruction); ok && dominates(ld, hw) {
				greater = op == token.GTR
			}
		} else if origin(y) == ssa.Value(idp) && isFieldLoad(x, hwField) {
			cmpOp = flipCmp(op)
			if ld, ok := x.(ssa.Instruction); ok && dominates(ld, hw) {
				greater = flipCmp(op) == token.GTR
			}
		}
	}
	// the two checks may live in a helper called under the lock: if err := s.validate(id); err != nil { return false, err }
	var helper *idHelper
	{ // (also when the helper's own tests are already visible as facts implied by its nil result)
		for _, f := range factsAt(ins) {
			x, op, y, ok := cmpFact(f)
			if !ok || op != token.EQL || !isNilConst(y) {
				continue
			}
			if call, isC := stripConv(x).(*ssa.Call); isC && dominates(call, hw) {
				if sum := c.idCheckSummary(call, hwField); sum != nil && sum.nilOK {
					helper = sum
					absent, greater = true, true
				} else if sum != nil {
					cmpOp = sum.cmpOp
				}
			}
		}
	}
	c.check(absent, rule, "insert only when the id is not active", w.At(ins), "dominated by !present", "the insert is not dominated by a failed lookup of the same id: an active stream could be overwritten")
	c.check(greater, rule, "insert only for id > high-water mark", w.At(ins), "dominated by id > "+hwField.String(), "the insert is guarded by id "+cmpOp.String()+" "+hwField.String()+" (or not at all); it must be exactly id > high-water mark, i.e. reject id <= high-water mark: ids could be reused or go backwards")
	c.check(dominates(hw, ins), rule, "high-water mark advanced", w.At(hw), hwField.String()+" = id before the insert", "the high-water mark is not set on the path to the insert")
	// the rejections on the other edges are tunnel-level: covered by C03.3's classification (cause recorded)
	nt := 0
	for _, cr := range c.createReturns() {
		if cr.class == "tunnel-level" {
			nt++
		}
	}
	if helper != nil && helper.errAll && helper.causes == 2 && nt >= 1 {
		nt = 2 // one tunnel-level return carrying the helper's error covers both id violations
	}
	c.check(nt >= 2, rule, "both id violations end the tunnel", w.Pos(a.Create.Pos()), fmt.Sprintf("%d tunnel-level returns", nt), fmt.Sprintf("only %d tunnel-level (ok == false) returns: a reused or non-increasing id is not refused by ending the tunnel", nt))
}

// ruleShutdownGate (C10.1).
func ruleShutdownGate(c *Ctx, rule string) {
	c.rule(rule, "refusal gate: the table insert in stream creation is dominated by the false edge of the shutting-down predicate, whose true edge returns a stream-level Unavailable status")
	w := c.W
	a := w.Anchors()
	if !c.need(rule, "Create", a.Create) {
		return
	}
	ins := tableInsert(a.Create, a.SvStreams)
	if ins == nil {
		c.fail(rule, "table insert", "-", "not found")
		return
	}
	// predicate: dynamic call of a func() bool field of Sv
	var pred *ssa.Call
	allInstrs(a.Create, func(in ssa.Instruction) {
		if call, ok := in.(*ssa.Call); ok && staticCallee(call) == nil && !call.Call.IsInvoke() {
			if fr, _, ok := loadedField(call.Call.Value); ok && a.Sv != nil && fr.Type == a.Sv.Obj().Name() && len(call.Call.Args) == 0 {
				pred = call
			}
		}
	})
	if pred == nil {
		c.fail(rule, "shutting-down predicate consulted", w.Pos(a.Create.Pos()), "the creation function never calls the is-closing predicate: new RPCs are accepted during graceful shutdown")
		return
	}
	gate := false
	for _, f := range boolFactsAt(ins) {
		if f.V == ssa.Value(pred) && !f.True {
			gate = true
		}
	}
	c.check(gate, rule, "insert only when not shutting down", w.At(ins), "dominated by !isClosing()", "the table insert is not dominated by the false edge of the shutting-down predicate")
	// true edge returns stream-level Unavailable
	good := false
	for _, cr := range c.createReturns() {
		on := false
		for _, f := range boolFactsAt(cr.ret) {
			if f.V == ssa.Value(pred) && f.True {
				on = true
			}
		}
		if !on {
			continue
		}
		if cr.class == "stream-level" {
			if call, ok := stripConv(cr.err).(*ssa.Call); ok {
				if k, ok := constInt(call.Call.Args[0]); ok && k == 14 {
					good = true
				} else {
					c.fail(rule, "refusal status code", w.At(cr.ret), fmt.Sprintf("refusal during shutdown uses status code %s, expected Unavailable (14)", desc(call.Call.Args[0])))
				}
			}
		} else {
			c.fail(rule, "refusal is stream-level", w.At(cr.ret), "the shutting-down edge returns a "+cr.class+" result; it must be a stream-level rejection (ok == true, status error)")
		}
	}
	c.check(good, rule, "refusal with Unavailable", w.At(pred), "isClosing() edge returns (true, Unavailable)", "no stream-level Unavailable return on the shutting-down edge")
	// every OTHER stream-level rejection is decided only when not shutting down: while draining, every new RPC
	// (also one that would be rejected for another reason) must get Unavailable, the retry-elsewhere signal
	for _, cr := range c.createReturns() {
		if cr.class != "stream-level" {
			continue
		}
		onTrue, onFalse := false, false
		for _, f := range boolFactsAt(cr.ret) {
			if f.V == ssa.Value(pred) {
				if f.True {
					onTrue = true
				} else {
					onFalse = true
				}
			}
		}
		if onTrue {
			continue
		}
		what := "rejection"
		if call, ok := stripConv(cr.err).(*ssa.Call); ok && len(call.Call.Args) > 1 {
			if k, ok := call.Call.Args[1].(*ssa.Const); ok && k.Value != nil {
				what = "rejection " + k.Value.ExactString()
			}
		}
		c.check(onFalse, rule, fmt.Sprintf("%s decided only when not shutting down", what), w.At(cr.ret), "dominated by !isClosing()", "this stream-level rejection can be returned while the server is shutting down (it is not dominated by the false edge of the shutting-down predicate): during drain such an RPC gets this permanent error instead of Unavailable")
	}
}

// isWrapperMutex: l is a mutex field of a carrier wrapper type.
func (c *Ctx) isWrapperMutex(l string) bool {
	w := c.W
	tn := strings.SplitN(l, ".", 2)[0]
	nt := w.rootNamed(tn)
	return nt != nil && w.isCarrierType(types.NewPointer(nt))
}

// idCheckHelper: a method of the tunnel server called as H(..., id, ...) whose result is an error. Summary:
// errAll: every non-nil error return of H is caused by "id already in the table" or "id <= high-water mark";
// nilOK: every nil return of H is dominated by both "not in the table" and "id > high-water mark";
// causes: how many of the two id checks it performs.
type idHelper struct {
	fn            *ssa.Function
	errAll, nilOK bool
	causes        int
	cmpOp         token.Token
}

func (c *Ctx) idCheckSummary(call *ssa.Call, hwField FieldRef) *idHelper {
	w := c.W
	a := w.Anchors()
	h := staticCallee(call)
	if h == nil || !w.inRoot(h) || h.Signature.Results().Len() != 1 || types.TypeString(h.Signature.Results().At(0).Type(), nil) != "error" {
		return nil
	}
	// which parameter of H receives the frame's id
	var hp *ssa.Parameter
	args := call.Call.Args
	for i, arg := range args {
		if i < len(h.Params) && len(a.Create.Params) > 2 && origin(arg) == paramAt(a.Create, 2) {
			hp = h.Params[i]
		}
	}
	if hp == nil {
		return nil
	}
	hpo := origin(hp) // the helper's parameter stands for the creation function's id when the helper is used at one place
	sum := &idHelper{fn: h, errAll: true, nilOK: true}
	seen := map[string]bool{}
	forEachReturnValue(h, 0, func(v ssa.Value, at ssa.Instruction) {
		present, absent, le, gt := false, false, false, false
		for _, f := range boolFactsAt(at) {
			if ex, ok := f.V.(*ssa.Extract); ok && ex.Index == 1 {
				if l, ok := ex.Tuple.(*ssa.Lookup); ok {
					if fr, _, ok := loadedField(l.X); ok && fr == a.SvStreams && origin(l.Index) == hpo {
						if f.True {
							present = true
						} else {
							absent = true
						}
					}
				}
			}
		}
		for _, f := range factsAt(at) {
			x, op, y, ok := cmpFact(f)
			if !ok {
				continue
			}
			if origin(y) == hpo && isFieldLoad(x, hwField) {
				x, y, op = y, x, flipCmp(op)
			}
			if origin(x) == hpo && isFieldLoad(y, hwField) {
				switch op {
				case token.LEQ:
					le = true
				case token.GTR:
					gt = true
				default:
					sum.cmpOp = op
				}
			}
		}
		if isNilConst(v) {
			if !(absent && gt) {
				sum.nilOK = false
			}
			return
		}
		switch {
		case present:
			seen["present"] = true
		case le:
			seen["le"] = true
		default:
			sum.errAll = false
		}
	})
	sum.causes = len(seen)
	return sum
}
