package main

func init() {
	register("C04", &propDef{
		Run: func(c *Ctx) {
			ruleLoopExitsTearDown(c, "C04.1")
			ruleChannelClose(c, "C04.2")
			ruleFailFast(c, "C04.3")
			ruleWaitsReleased(c, "C04.4")
			ruleStreamCtxCancelled(c, "C04.4b")
			ruleContextChain(c, "C04.5")
			ruleClosePathsReachCarrier(c, "C04.6")
			ruleStickyAfterFinish(c, "C04.7")
			ruleWatcher(c, "C04.8")
			ruleQueueDiscipline(c, "C04.9")
			ruleErrorDiscipline(c, "C04.10")
			ruleCloseSafety(c, "C04.11")
			ruleRegistryPairing(c, "C04.12")
		},
		Explain:    "Static necessary conditions of tunnel termination reaching both ends: every client loop exit closes the channel with the cause; the server loop defers the cancel of the handlers' root context, derived from the carrier context; the channel close sets the flag, stores the cause, cancels every stream and the channel context, after running the tear-down; new RPCs test the flag in the same critical section; every blocking wait in the package has a release edge fired by the termination functions (A10), with the stream contexts cancelled on every finishing path; close paths reach the carrier (tear-down CloseSend, Stop: CloseSend every instance then wait; Add/Done pairing); sticky errors after finish. Necessary, not sufficient for 'nothing hangs'.",
		Assume:     []string{"the transport reports failures to Recv", "context cancellation wakes Done() waiters"},
		NotDecided: []string{"'immediately'", "absence of hangs as such (release edges are necessary, not sufficient)", "every-frame-boundary fault enumeration", "GracefulStop's wait (reported under C10.6)"},
	})
	register("C08", &propDef{
		Run: func(c *Ctx) {
			ruleClientIDs(c, "C08.1", "C08.2", "C08.3")
			ruleIDValidation(c, "C08.4")
			ruleRejectedIDsRecorded(c, "C08.4b")
			ruleSingleDispatch(c, "C08.5")
			rulePick(c, "C08.8")
			ruleCloseOnce(c, "C08.5b")
			ruleLateFramesInert(c, "C08.6")
			ruleEmitIDs(c, "C08.7")
			ruleErrorDiscipline(c, "C08.9")
			ruleCarrierWrappers(c, "C08.10")
		},
		Explain:    "Static necessary conditions of unique, increasing ids and one handler invocation per RPC: allocation and first send inside one continuously held mutex; counter written only by +1 under the channel mutex, post-increment value used, overflow test first; stream handed out only after a successful new_stream send (entry removed and no watcher otherwise); server-side id validation by exactly `<=` against the high-water mark with tunnel-level refusal; the dispatched descriptor and implementation come from one lookup of this frame's own service/method names; exactly one dispatch spawn and one handler call per arm; late frames inert.",
		Assume:     []string{"lock identity is type + field", "grpchan.HandlerMap.QueryService returns the registered service"},
		NotDecided: []string{"that the peer's handler is 'exactly the named' one beyond the lookup value flow", "wire order under real schedules (the rule is the critical-section shape)"},
	})
	register("C10", &propDef{
		Run: func(c *Ctx) {
			ruleShutdownGate(c, "C10.1")
			ruleRejectedIDsRecorded(c, "C10.2")
			ruleRejectClose(c, "C10.3")
			ruleShutdownFlags(c, "C10.4")
			ruleClosePathsReachCarrier(c, "C10.5")
			ruleGracefulStopReturns(c, "C10.6")
			ruleEmitIDs(c, "C10.7")
			ruleShortLocks(c, "C10.8")
			rulePlumbing(c, "C10.9", "closing")
			ruleLockBalance(c, "C10.10")
			ruleGracefulNeverClosesEarly(c, "C10.11")
		},
		Explain:    "Static necessary conditions of graceful shutdown: the table insert is gated by the shutting-down predicate whose true edge is a stream-level Unavailable; the refused id is recorded first so the refusal cannot abort the tunnel; the refusal reply is sent off the loop, once; the shutdown entry points set exactly what the predicates read; Stop's structure (state, CloseSend all, wait; Add/Done pairing); and every WaitGroup wait has a release edge — GracefulStop has none (known finding F-7).",
		Assume:     []string{"sync.WaitGroup and atomic.Bool semantics"},
		NotDecided: []string{"that in-flight RPCs keep 'the outcome they would have had anyway'", "timing of GracefulStop's return"},
	})
	register("C14", &propDef{
		Run: func(c *Ctx) {
			ruleSpawnAudit(c, "C14.1")
			ruleTablePairing(c, "C14.2")
			ruleStreamCtxCancelled(c, "C14.3")
			ruleCancelEmptiesQueue(c, "C14.4")
			ruleRegistryPairing(c, "C14.5")
			ruleContextChain(c, "C14.6")
			ruleClientIDs(c, "C14.7a", "C14.7b", "C14.7")
			ruleCloseOnce(c, "C14.8")
			ruleCloseSafety(c, "C14.9")
			ruleLocalFailureNotifiesPeer(c, "C14.10")
			ruleInvokeAborts(c, "C14.11")
			ruleBrokenStreamEndsRPC(c, "C14.12")
			ruleChannelClose(c, "C14.13")
			ruleShortLocks(c, "C14.14")
			ruleServerCancel(c, "C14.15a", "C14.15") // a cancelled RPC whose handler is parked on its window (holding the write mutex) must be released, or handler, watcher and receive loop stay behind
		},
		Explain:    "Static necessary conditions of 'nothing left behind': every go statement falls in a verified termination class (straight-line sender, context watcher whose context is cancelled on every finishing path, receive loop, dispatch with deferred finish); every table insert has its delete on every finishing path (both ends) and on first-send failure; stream contexts are cancelled on every finishing path; cancel empties the queue; no run-time writes to package-level state; registry add/deferred-remove pairing.",
		Assume:     []string{"handlers return when their context is cancelled and their blocking operations are released (C04.4)"},
		NotDecided: []string{"actual goroutine counts", "that application handlers return", "ReverseTunnelServer.instances is never pruned (observation O-3: per-tunnel, outside the tables the property names)"},
	})
}
