package main

import (
	"fmt"
	"os"
	"testing"
)

func TestDbg(t *testing.T) {
	repo := os.Getenv("DBG_REPO")
	if repo == "" {
		t.Skip()
	}
	w, err := loadWorld(repo, "", "")
	if err != nil {
		t.Fatal(err)
	}
	w.Anchors()
	w.Roles()
	crossWorld = w
	for _, f := range w.Funcs {
		if f.Name() == os.Getenv("DBG_FN") {
			fmt.Println(w.Short(f), "known:", w.knownFns()[f], "private:", w.isPrivateHelper(f), "sites:", len(w.callSitesOf(f)), "sole:", w.soleSite(f) != nil)
		}
	}
}
