package main

func init() {
	register("C15", &propDef{
		Run: func(c *Ctx) {
			ruleGuardedBy(c, "C15.1")
			ruleCarrierWrappers(c, "C15.2")
			ruleHappensBeforeByClose(c, "C15.3")
			rulePublishBeforeWake(c, "C15.4")
			ruleHeaderPublication(c, "C15.4b")
			ruleLockOrder(c, "C15.5")
			ruleSingleConsumer(c, "C15.6")
			ruleCloseSafety(c, "C15.7")
			ruleShortLocks(c, "C15.8")
			ruleServerCancel(c, "C15.9a", "C15.9")
			ruleInvokeAborts(c, "C15.10")
			ruleLockBalance(c, "C15.11")
			ruleNoWriteAfterHandOff(c, "C15.12")
			ruleClosePathsReachCarrier(c, "C15.13")
			ruleGetOrCreateAtomic(c, "C15.14")
		},
		Explain:    "Static necessary conditions of data-race freedom and thread safety: a lockset (guarded-by) analysis of every access to every field of every struct of the package (must-locksets with defer-order simulation and interprocedural entry sets); the carrier wrappers serialise send-side and receive-side operations; happens-before-by-close for the four fields published by closing a signal; external memory written on the application's behalf (call-option targets) is written before the completion signal; the lock-order graph is acyclic and no mutex is re-acquired while it may be held; single consumer; once-guarded closes. Interleaving-independent by construction.",
		Assume:     []string{"lock identity is struct type + field (two instances of one type are not distinguished)", "the Go memory model for mutexes, atomics and channel close", "gRPC's one-sender/one-receiver contract for application calls on one stream"},
		NotDecided: []string{"races inside dependencies", "deadlock freedom beyond lock-order acyclicity, C03.2 and C07.7", "accesses whose locking is correct by type but wrong by instance"},
	})
	register("C16", &propDef{
		Run: func(c *Ctx) {
			ruleSendCountGuards(c, "C16.1")
			ruleLookAhead(c, "C16.3")
			ruleInvokeShape(c, "C16.5")
			ruleNoDataAfterHalfClose(c, "C16.6")
			ruleReassembly(c, "C16.7")
			ruleBrokenStreamEndsRPC(c, "C16.8")
		},
		Explain:    "Static necessary conditions of call-shape enforcement (none of these branches is executed by the suite): the send-count guards dominate the call into the sender with the right polarity and flag per side, incrementing under the write mutex; the look-ahead read exists on the non-streaming edge, turns a second message into the right non-nil status that sticks, and delivers the first message only after io.EOF on an intact stream; Invoke's second receive into a fresh message returning nil only on io.EOF; streaming flags flow from the StreamDesc fields of the same name.",
		Assume:     []string{"generated stubs call NewStream/Invoke with their own StreamDesc"},
		NotDecided: []string{"behaviour of generated stubs", "message counts at run time"},
	})
	register("C17", &propDef{
		Run: func(c *Ctx) {
			ruleContextChain(c, "C17.1")
			ruleContextKeys(c, "C17.2", "C17.3")
			ruleChannelIdentity(c, "C17.4", "C17.5")
			ruleMetadataAccumulation(c, "C17.6")
			rulePlumbing(c, "C17.7", "metadata")
			ruleAccessorsOwnKeyOnly(c, "C17.8")
		},
		Explain:    "Static necessary conditions of identity propagation: the handler context's derivation chain (carrier context -> WithValue(incoming tunnel metadata) -> WithCancel -> NewIncomingContext(request metadata) -> WithTimeout|WithCancel -> server transport stream) with nothing else replacing it; each context key stored and read with matching types; the metadata accessors return Copy() of the value under their own key; the client stream context and the WithTunnelChannel option receive the channel the stream is created on, the pooled channel passing everything through; all four opening paths capture the opening metadata from the carrier's context.",
		Assume:     []string{"metadata.MD.Copy copies the map and its value slices"},
		NotDecided: []string{"what interceptors put in contexts", "deep-copy depth of MD.Copy"},
	})
	register("C18", &propDef{
		Run: func(c *Ctx) {
			ruleTimeoutParser(c, "C18.1", "C18.2", "C18.3")
			c.rule("C18.4", "no header value can panic the parser: every index and slice in it is guarded (C09.1 restricted to the parser)")
			rulePanicAuditOf(c, "C18.4", c.W.Anchors().TimeoutParse)
			c.rule("C18.5", "the parser's result is the duration argument of context.WithTimeout on the handler context, applied only when the parser reported a valid header")
			ruleTimeoutApplied(c, "C18.5")
		},
		Explain:    "Static decision of the grpc-timeout parser's structure against the gRPC wire specification: the unit table extracted from the code equals the specification's; the numeric parse is unsigned base 10 over exactly the characters before the unit and dominated by 2 <= len <= 9; value x unit is dominated by the saturation guard value <= MaxInt64/unit whose other edge returns the maximum; every index/slice is guarded; the result is what WithTimeout receives, only when ok. This covers the whole input domain because the parser is straight-line code over these facts.",
		Assume:     []string{"strconv.ParseUint(s, 10, 64) accepts exactly non-empty ASCII digit strings that fit in uint64"},
		NotDecided: []string{"clock behaviour; 'exactly that deadline' at run time", "which of several repeated grpc-timeout values gRPC itself would use"},
	})
}
