package main

// selftest.go: checker self-validation. Every seeded breaking edit must be detected by the rules of
// the property it breaks; every benign rewrite must leave all checks silent. The edits are applied
// to scratch copies of the CURRENT /repo outside /repo and /verif; each copy is analysed by a
// separate tunnelvet process and removed immediately. This validates the checker; it never
// contributes to a verdict about /repo.

import (
	"encoding/json"
	"flag"
	"fmt"
	"os"
	"os/exec"
	"path/filepath"
	"sort"
	"strings"
	"sync"
	"time"
)

type Mutant struct {
	ID     string   `json:"id"`
	File   string   `json:"file,omitempty"`
	Old    string   `json:"old,omitempty"`
	New    string   `json:"new,omitempty"`
	Edits  []Edit   `json:"edits,omitempty"`
	Rename []Edit   `json:"rename,omitempty"` // old -> new in every non-test .go file of the root package (all occurrences)
	Patch  string   `json:"patch,omitempty"`  // path relative to /verif
	Expect []string `json:"expect"`           // properties that must report a violation ([] for benign)
	Rules  []string `json:"rules,omitempty"`  // rules expected to fire (informational)
	Benign bool     `json:"benign,omitempty"`
	Note   string   `json:"note,omitempty"`
	Tests  string   `json:"tests,omitempty"` // whether the baseline suite notices (measured or expected)
}

type Edit struct {
	File string `json:"file"`
	Old  string `json:"old"`
	New  string `json:"new"`
}

func loadMutants(verif string) ([]Mutant, error) {
	var out []Mutant
	files, _ := filepath.Glob(filepath.Join(verif, "mutants", "*.json"))
	sort.Strings(files)
	for _, f := range files {
		b, err := os.ReadFile(f)
		if err != nil {
			return nil, err
		}
		var ms []Mutant
		if err := json.Unmarshal(b, &ms); err != nil {
			return nil, fmt.Errorf("%s: %v", f, err)
		}
		out = append(out, ms...)
	}
	// seeded/<id>/meta.json + patch.diff (changes written by independent sub-agents)
	metas, _ := filepath.Glob(filepath.Join(verif, "seeded", "*", "meta.json"))
	sort.Strings(metas)
	for _, m := range metas {
		b, err := os.ReadFile(m)
		if err != nil {
			return nil, err
		}
		var meta struct {
			ID       string   `json:"id"`
			Property string   `json:"property"`
			Detected []string `json:"detected_by_properties"`
			Needs    string   `json:"needs"`
		}
		if err := json.Unmarshal(b, &meta); err != nil {
			return nil, fmt.Errorf("%s: %v", m, err)
		}
		dir := filepath.Dir(m)
		// a seeded change must be detected by the check of the property it was written to break;
		// detection by other properties' checks is reported but not required
		exp := []string{meta.Property}
		rel, _ := filepath.Rel(verif, filepath.Join(dir, "patch.diff"))
		out = append(out, Mutant{ID: "seeded/" + filepath.Base(dir), Patch: rel, Expect: exp, Note: meta.Needs})
	}
	// benign_seeded/<id>/patch.diff: behaviour-preserving refactorings written by independent sub-agents
	// (each reviewed by me); every check must stay silent on them
	bens, _ := filepath.Glob(filepath.Join(verif, "benign_seeded", "*", "patch.diff"))
	sort.Strings(bens)
	for _, b := range bens {
		rel, _ := filepath.Rel(verif, b)
		out = append(out, Mutant{ID: "benign-seeded/" + filepath.Base(filepath.Dir(b)), Patch: rel, Benign: true, Expect: []string{}})
	}
	return out, nil
}

type mutResult struct {
	ID       string              `json:"mutant"`
	Status   string              `json:"status"` // detected | NOT detected | skipped | silent | FALSE ALARM
	Detail   string              `json:"detail,omitempty"`
	ByProp   map[string][]string `json:"rules_fired,omitempty"`
	Expected []string            `json:"expected,omitempty"`
}

func copyTree(src, dst string) error {
	return filepath.Walk(src, func(p string, info os.FileInfo, err error) error {
		if err != nil {
			return err
		}
		rel, _ := filepath.Rel(src, p)
		if rel == ".git" {
			if info.IsDir() {
				return filepath.SkipDir
			}
			return nil
		}
		t := filepath.Join(dst, rel)
		if info.IsDir() {
			return os.MkdirAll(t, 0o755)
		}
		b, err := os.ReadFile(p)
		if err != nil {
			return err
		}
		return os.WriteFile(t, b, info.Mode())
	})
}

func applyMutant(m Mutant, verif, dir string) (string, bool) {
	if m.Patch != "" {
		cmd := exec.Command("patch", "-p1", "-s", "--no-backup-if-mismatch", "-i", filepath.Join(verif, m.Patch))
		cmd.Dir = dir
		if out, err := cmd.CombinedOutput(); err != nil {
			return "patch does not apply to this tree: " + strings.TrimSpace(string(out)), false
		}
		return "", true
	}
	for _, r := range m.Rename {
		files, _ := filepath.Glob(filepath.Join(dir, "*.go"))
		n := 0
		for _, f := range files {
			if strings.HasSuffix(f, "_test.go") {
				continue
			}
			b, err := os.ReadFile(f)
			if err != nil {
				return err.Error(), false
			}
			s := string(b)
			n += strings.Count(s, r.Old)
			if err := os.WriteFile(f, []byte(strings.ReplaceAll(s, r.Old, r.New)), 0o644); err != nil {
				return err.Error(), false
			}
		}
		if n == 0 {
			return "rename anchor " + r.Old + " not found (tree changed)", false
		}
	}
	edits := m.Edits
	if m.File != "" {
		edits = append(edits, Edit{m.File, m.Old, m.New})
	}
	for _, e := range edits {
		p := filepath.Join(dir, e.File)
		b, err := os.ReadFile(p)
		if err != nil {
			return err.Error(), false
		}
		s := string(b)
		if strings.Count(s, e.Old) != 1 {
			return fmt.Sprintf("edit anchor occurs %d times in %s (tree changed)", strings.Count(s, e.Old), e.File), false
		}
		if err := os.WriteFile(p, []byte(strings.Replace(s, e.Old, e.New, 1)), 0o644); err != nil {
			return err.Error(), false
		}
	}
	return "", true
}

func runMutant(m Mutant, repo, verif string, props []string) mutResult {
	res := mutResult{ID: m.ID, Expected: m.Expect, ByProp: map[string][]string{}}
	tmp, err := os.MkdirTemp("", "tunnelvet.")
	if err != nil {
		res.Status, res.Detail = "skipped", err.Error()
		return res
	}
	defer os.RemoveAll(tmp)
	dir := filepath.Join(tmp, "repo")
	if err := copyTree(repo, dir); err != nil {
		res.Status, res.Detail = "skipped", err.Error()
		return res
	}
	if why, ok := applyMutant(m, verif, dir); !ok {
		res.Status, res.Detail = "skipped", why
		return res
	}
	if m.Benign {
		cmd := exec.Command("go", "build", "./...")
		cmd.Dir = dir
		cmd.Env = append(os.Environ(), "GOFLAGS=-mod=mod")
		if out, err := cmd.CombinedOutput(); err != nil {
			res.Status, res.Detail = "skipped", "benign rewrite does not compile: "+strings.TrimSpace(string(out))
			return res
		}
	}
	self, _ := os.Executable()
	fired := map[string]bool{}
	for _, p := range props {
		cmd := exec.Command(self, "check", "-prop", p, "-repo", dir, "-verif", verif, "-no-evidence", "-json")
		out, err := cmd.Output()
		code := 0
		if ee, ok := err.(*exec.ExitError); ok {
			code = ee.ExitCode()
		} else if err != nil {
			code = 2
		}
		if code == 2 {
			res.Status, res.Detail = "skipped", "edited tree does not load/type-check for "+p+": "+strings.TrimSpace(string(out))
			return res
		}
		for _, line := range strings.Split(string(out), "\n") {
			if !strings.HasPrefix(line, "{") {
				continue
			}
			var o Obligation
			if json.Unmarshal([]byte(line), &o) == nil {
				res.ByProp[p] = append(res.ByProp[p], o.Rule+" @ "+o.Key)
				fired[p] = true
			}
		}
	}
	if m.Benign {
		if len(fired) == 0 {
			res.Status = "silent"
		} else {
			res.Status = "FALSE ALARM"
		}
		return res
	}
	missing := []string{}
	for _, p := range m.Expect {
		if contains(props, p) && !fired[p] {
			missing = append(missing, p)
		}
	}
	if len(missing) == 0 {
		res.Status = "detected"
	} else {
		res.Status = "NOT detected"
		res.Detail = "no violation reported by " + strings.Join(missing, ", ")
	}
	return res
}

func contains(ss []string, s string) bool {
	for _, x := range ss {
		if x == s {
			return true
		}
	}
	return false
}

// pruneBuildCache removes what the Go build cache gained since `since`: every scratch copy of /repo lives at a path of its
// own, so each one adds a few MB of export data for the package under analysis that can never be used again (one thorough
// run: ~1.3 GB). Deleting cache entries is always safe; entries another process wrote meanwhile are simply rebuilt.
func pruneBuildCache(since time.Time) {
	out, err := exec.Command("go", "env", "GOCACHE").Output()
	dir := strings.TrimSpace(string(out))
	if err != nil || dir == "" || dir == "off" {
		return
	}
	filepath.Walk(dir, func(p string, info os.FileInfo, err error) error {
		if err != nil || info.IsDir() {
			return nil
		}
		if len(filepath.Base(p)) < 20 { // README, trim.txt, testexpire.txt …
			return nil
		}
		if info.ModTime().After(since) {
			os.Remove(p)
		}
		return nil
	})
}

func runMutants(ms []Mutant, repo, verif string, propsFor func(Mutant) []string, par int) []mutResult {
	start := time.Now()
	defer pruneBuildCache(start)
	out := make([]mutResult, len(ms))
	var wg sync.WaitGroup
	sem := make(chan struct{}, par)
	for i := range ms {
		wg.Add(1)
		go func(i int) {
			defer wg.Done()
			sem <- struct{}{}
			defer func() { <-sem }()
			out[i] = runMutant(ms[i], repo, verif, propsFor(ms[i]))
		}(i)
	}
	wg.Wait()
	return out
}

// selfValidate (thorough tier): the mutants that concern this property.
func selfValidate(repo, verif, prop string) []map[string]any {
	ms, err := loadMutants(verif)
	if err != nil {
		return []map[string]any{{"error": err.Error()}}
	}
	var mine []Mutant
	for _, m := range ms {
		if contains(m.Expect, prop) || m.Benign {
			mine = append(mine, m)
		}
	}
	rs := runMutants(mine, repo, verif, func(Mutant) []string { return []string{prop} }, 8)
	var out []map[string]any
	for _, r := range rs {
		out = append(out, map[string]any{"mutant": r.ID, "status": r.Status, "detail": r.Detail, "rules_fired": r.ByProp[prop]})
	}
	return out
}

func selftestCmd(args []string) int {
	fs := flag.NewFlagSet("selftest", flag.ExitOnError)
	repo := fs.String("repo", "/repo", "")
	verif := fs.String("verif", "/verif", "")
	only := fs.String("only", "", "substring filter on mutant ids")
	allProps := fs.Bool("all-props", false, "run every registered property on every mutant (shows cross-detection)")
	par := fs.Int("j", 8, "parallel workers")
	fs.Parse(args)
	ms, err := loadMutants(*verif)
	if err != nil {
		fmt.Fprintln(os.Stderr, err)
		return 2
	}
	var sel []Mutant
	for _, m := range ms {
		if *only == "" || strings.Contains(m.ID, *only) {
			sel = append(sel, m)
		}
	}
	var registered []string
	for id := range props {
		registered = append(registered, id)
	}
	sort.Strings(registered)
	propsFor := func(m Mutant) []string {
		if m.Benign || *allProps {
			return registered
		}
		var ps []string
		for _, p := range m.Expect {
			if props[p] != nil {
				ps = append(ps, p)
			}
		}
		return ps
	}
	rs := runMutants(sel, *repo, *verif, propsFor, *par)
	bad := 0
	counts := map[string]int{}
	for _, r := range rs {
		counts[r.Status]++
		if r.Status == "NOT detected" || r.Status == "FALSE ALARM" {
			bad++
		}
		var fired []string
		for p, rr := range r.ByProp {
			seen := map[string]bool{}
			for _, x := range rr {
				rule := strings.SplitN(x, " @ ", 2)[0]
				if !seen[rule] {
					seen[rule] = true
					fired = append(fired, p+":"+rule)
				}
			}
		}
		sort.Strings(fired)
		fmt.Printf("%-14s %-40s expect=%v fired=%v %s\n", r.Status, r.ID, r.Expected, fired, r.Detail)
	}
	fmt.Printf("selftest: %d mutants: %v\n", len(rs), counts)
	b, _ := json.MarshalIndent(map[string]any{"results": rs, "counts": counts}, "", " ")
	os.WriteFile(filepath.Join(*verif, "selftest.json"), append(b, '\n'), 0o644)
	if bad > 0 {
		return 1
	}
	return 0
}
