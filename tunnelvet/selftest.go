package main

// selfValidate is filled in by selftest_impl.go (checker self-validation against seeded mutants).
func selfValidate(repo, verif, prop string) []map[string]any { return nil }

func selftestCmd(args []string) int { return 2 }
