package main

func init() {
	register("C01", &propDef{
		Run: func(c *Ctx) {
			ruleChunkAccounting(c, "C01.1")
			ruleEnvelopeShape(c, "C01.2")
			ruleReassembly(c, "C01.4")
			ruleNoDataMeansError(c, "C01.5")
			ruleRouting(c, "C01.6")
			ruleEmitIDs(c, "C01.6b")
			ruleQueueDiscipline(c, "C01.7")
			ruleSingleConsumer(c, "C01.8")
			ruleWatcher(c, "C01.9")
			ruleDecodeResets(c, "C01.10")
			ruleCloseSendAfterFinish(c, "C01.11")
			ruleCodecFidelity(c, "C01.12")
			ruleChannelClose(c, "C01.13")
			ruleInvokeShape(c, "C01.14")
			ruleLookAhead(c, "C01.15")
			ruleSendReportsTruth(c, "C01.16")
		},
		Explain:    "Static structural necessary conditions of exactly-once/in-order/intact delivery on the right RPC, decided on the SSA form of the current tree: byte accounting of the chunk loops in both senders, envelope/continuation construction in both send callbacks, the state machine of both reassembly functions (every loop edge and every return classified), non-nil error whenever no data is returned (marker-before-wake argument), routing by the received frame's own id, id origin of every emitted frame, FIFO/drain-before-EOF discipline of the queue, single consumer under the read mutex. All paths, all instantiations; no bound on sizes or schedules. Not the behaviour itself: byte equality through protobuf and the transport are trusted.",
		Assume:     []string{"protobuf marshal/unmarshal and the carrier transport deliver bytes unchanged and in order", "gRPC's one-sender/one-receiver-per-stream contract", "container/list is FIFO with PushBack/Front"},
		NotDecided: []string{"byte equality end-to-end", "which prefix is delivered when an RPC is cut short (only that it is a prefix)", "plain (revision-zero) receiver channel hand-off ordering beyond Go channel FIFO semantics"},
	})
	register("C05", &propDef{
		Run: func(c *Ctx) {
			ruleTokenProtocol(c, "C05.1", "C05.2", "C05.3")
			ruleReserveBeforeSend(c, "C05.4")
			ruleCreditIdentity(c, "C05.5")
			ruleUpdateOffLockAndLoop(c, "C05.6", "C05.7")
			ruleServerCancel(c, "C05.9a", "C05.9")
			ruleShortLocks(c, "C05.10")
			ruleContextChain(c, "C05.11")
			ruleUpdateCallbackGuards(c, "C05.12", "C05.13")
			ruleQueueDiscipline(c, "C05.8")
		},
		Explain:    "Shape conditions of the standard no-lost-wake-up / no-credit-leak argument, decided statically: token channel capacity >= 1, token sent whenever the window was empty before the add, sender waits only at window == 0 inside a loop that reloads after waking and has a context alternative, CAS reservation against the loaded value, credit identity (exactly measure(item) subtracted on accept, added back and sent as window update on dequeue; measure closures cover exactly the data-bearing frames), window updates sent off the receiver's lock and off the receive loops, consumer woken on empty->non-empty. These are necessary conditions; absence of lost wake-ups under all interleavings as such is a model-checking question and is not claimed.",
		Assume:     []string{"sync/atomic and channel semantics of the Go memory model", "VTA call graph over-approximates dynamic calls"},
		NotDecided: []string{"absence of lost wake-ups under all interleavings of the atomic steps", "completion of streams of unbounded volume", "deadlock freedom with bounded transport buffering beyond 'no window update on a loop goroutine / under the receiver lock'"},
	})
	register("C06", &propDef{
		Run: func(c *Ctx) {
			ruleReserveBeforeSend(c, "C06.1")
			ruleConstants(c, "C06.2")
			ruleReceiverBound(c, "C06.3")
			ruleStreamErrorsStayLocal(c, "C06.4")
			ruleCreditIdentity(c, "C06.6")
			ruleOutcomeLatched(c, "C06.7")
			ruleServerCancel(c, "C06.8a", "C06.8")
			ruleRevisionZeroFrames(c, "C06.9")
		},
		Explain:    "Static necessary conditions of window discipline: reserve-before-send by CAS with the chunk clamped to window, remaining data and 16 KiB; protocol constants equal the specification and advertised == enforced on each end, senders built with the peer's advertised window; the receiver enqueues only on the false edge of exactly measure > window, subtracts exactly measure, and answers an overrun with ResourceExhausted that reaches only that stream's finishing function; credit granted equals data consumed (credit identity). The running-sum invariant on the wire is not decided as such.",
		Assume:     []string{"uint32 arithmetic does not wrap for conforming peers", "VTA call graph over-approximates dynamic calls"},
		NotDecided: []string{"the per-prefix running-sum invariant on the wire", "memory use", "uint32 wrap on absurd window updates (observation O-4)"},
	})
}

func ruleStreamErrorsStayLocal(c *Ctx, rule string) { ruleErrorSplit(c, rule) }

func init() {
	register("C03", &propDef{
		Run: func(c *Ctx) {
			ruleLoopEffects(c, "C03.1")
			ruleShortLocks(c, "C03.2")
			ruleErrorSplit(c, "C03.3")
			ruleRejectedIDsRecorded(c, "C03.4")
			ruleUpdateOffLockAndLoop(c, "C03.5", "C03.5b")
			ruleStringTaint(c, "C03.6")
			ruleServerCancel(c, "C03.7a", "C03.7")
			ruleClientIDs(c, "C03.8a", "C03.8b", "C03.8")
			rulePanicAudit(c, "C03.9")
			ruleSingleDispatch(c, "C03.9b")
			ruleEmitIDs(c, "C03.10")
			ruleRejectClose(c, "C03.10b")
			ruleContextChain(c, "C03.11")
			ruleCloseSafety(c, "C03.12")
			ruleLockBalance(c, "C03.13")
			ruleEveryFrameKindHandled(c, "C03.14")
			ruleLockOrder(c, "C03.15")
		},
		Explain:    "Static necessary conditions of RPC independence: the effect set reachable on each receive loop's own goroutine (over resolved call edges minus go sites, restricted to code that continues the loop) contains no carrier send, blocking channel operation, cond/WaitGroup wait or user callback; every lock the loops take is short (no such effect anywhere while it may be held; frozen exceptions named); tunnel-level termination is reachable only for Recv failure / never-created id / reused id; stream-level rejections are recorded in the high-water mark before returning; window updates never run on a loop goroutine or under the receiver's lock. Liveness ('never indefinitely delays') is not decided.",
		Assume:     []string{"a conforming peer's receive loop never waits on us (needed for the server write-mutex exception)", "VTA call graph over-approximates dynamic calls", "external callees are summarised (context, metadata, status, list: non-blocking)"},
		NotDecided: []string{"scheduler/transport progress and fairness", "behaviour with a non-conforming peer beyond C09", "unencodable (non-UTF-8) metadata ending the tunnel: reported under C02.8 as a known finding"},
	})
}
