package main

// rules_c15.go: guarded-by / happens-before / lock order (C15.*), call shapes (C16.*),
// identity accessors (C17.*), grpc-timeout parser (C18.*).

import (
	"fmt"
	"go/token"
	"go/types"
	"sort"
	"strings"

	"golang.org/x/tools/go/ssa"
)

// publish-by-close fields: field -> signal channel field (frozen table, each confirmed by reading; the
// names are re-derived by role on every run: what Header()/Trailer() return and wait for, and the
// channel's settings/revision fields with the signal the receive loop closes).
func (c *Ctx) publishByClose() map[string]string {
	w := c.W
	a := w.Anchors()
	ro := w.Roles()
	out := map[string]string{}
	if hf, ok := c.mdFieldReturnedBy("Header"); ok {
		if sig, ok := c.headersSignalField(); ok {
			out[hf.String()] = sig.String()
		}
	}
	if tf, ok := c.mdFieldReturnedBy("Trailer"); ok {
		if sig, ok := c.doneSignalField(); ok {
			out[tf.String()] = sig.String()
		}
	}
	if a.Ch != nil {
		n := a.Ch.Obj().Name()
		out[n+"."+ro.ChSettings] = n + "." + ro.ChAwaitSettings
		out[n+"."+ro.ChUseRevision] = n + "." + ro.ChAwaitSettings
	}
	return out
}

// other frozen classes, one line of reason each
// guardedByException: option-phase state. The options struct (the receiver type of the supported-revisions
// method) and every field of that type are written only by option functions, which the constructors apply
// before the object is shared; afterwards they are read-only (their address is shared with tunnels).
func (c *Ctx) guardedByException(f FieldRef) (string, bool) {
	w := c.W
	ro := w.Roles()
	if ro.SupportedRevisions == nil || ro.SupportedRevisions.Signature.Recv() == nil {
		return "", false
	}
	opt := namedOf(ro.SupportedRevisions.Signature.Recv().Type())
	if opt == nil {
		return "", false
	}
	if f.Type == opt.Obj().Name() {
		return "option phase: written only by option functions, which the constructors apply before the object is shared", true
	}
	if ft := fieldTypeOf(w, f); ft != nil {
		if n := namedOf(ft); n != nil && n.Obj() == opt.Obj() {
			return "option phase: the options value is filled by option.apply during construction and is read-only afterwards (its address is shared with the tunnels it configures)", true
		}
	}
	return "", false
}

func fieldTypeOf(w *World, fr FieldRef) types.Type {
	nt := w.rootNamed(fr.Type)
	if nt == nil {
		return nil
	}
	for _, f := range flatFields(nt) {
		if f.Name == fr.Field {
			return f.Type
		}
	}
	return nil
}

// ruleGuardedBy (C15.1).
func ruleGuardedBy(c *Ctx, rule string) {
	c.rule(rule, "guarded-by: every field of every struct of the package is either never written after construction, of an atomic/sync type, consistently accessed under one lock (read side suffices for reads), published by the close of a signal channel (C15.3), or a frozen named exception")
	w := c.W
	lf := w.Locks()
	pbc := c.publishByClose()
	byField := map[FieldRef][]*FieldAccess{}
	for _, a := range w.FieldAccesses() {
		byField[a.Field] = append(byField[a.Field], a)
	}
	var fields []FieldRef
	for f := range byField {
		fields = append(fields, f)
	}
	sort.Slice(fields, func(i, j int) bool { return fields[i].String() < fields[j].String() })
	nGuarded := 0
	for _, f := range fields {
		accs := byField[f]
		ft := fieldTypeOf(w, f)
		if ft != nil && isSyncType(ft) {
			continue
		}
		var nonConstr []*FieldAccess
		writes := 0
		for _, a := range accs {
			if a.Constr {
				continue
			}
			if a.Kind == "sync-op" {
				continue
			}
			nonConstr = append(nonConstr, a)
			if a.Write {
				writes++
			}
		}
		key := "field " + f.String()
		if writes == 0 {
			continue // immutable after construction: nothing to guard
		}
		if reason, ok := c.guardedByException(f); ok {
			c.exception(rule, key, "-", reason)
			continue
		}
		if sig, ok := pbc[f.String()]; ok {
			// writes must be in one goroutine context and readers covered by C15.3; here: writes under a
			// common lock or all in the single writer function
			c.ok(rule, key, "-", "published by close of "+sig+" (reads checked by C15.3)")
			continue
		}
		if how, ok := publishedByOnce(nonConstr); ok {
			c.ok(rule, key, "-", how)
			continue
		}
		// candidate lock: the lock held at the most accesses
		count := map[string]int{}
		for _, a := range nonConstr {
			for l := range lf.MustAt(a.Instr) {
				count[strings.TrimSuffix(l, ":R")]++
			}
		}
		best, bestN := "", 0
		var ls []string
		for l := range count {
			ls = append(ls, l)
		}
		sort.Strings(ls)
		for _, l := range ls {
			// prefer a lock declared in the same struct
			n := count[l]
			if strings.HasPrefix(l, f.Type+".") {
				n += 1000
			}
			if n > bestN {
				best, bestN = l, n
			}
		}
		if best == "" {
			a0 := nonConstr[0]
			for _, a := range nonConstr {
				if a.Write {
					a0 = a
				}
			}
			c.fail(rule, key, w.At(a0.Instr), fmt.Sprintf("the field is written after construction (e.g. in %s) but no access holds any lock: concurrent use races", w.Short(a0.Fn)))
			continue
		}
		nGuarded++
		okAll := true
		for _, a := range nonConstr {
			if !lf.MustAt(a.Instr).holds(best, !a.Write) {
				okAll = false
				rw := "read"
				if a.Write {
					rw = "write"
				}
				c.fail(rule, fmt.Sprintf("%s: %s in %s", key, rw, w.Short(a.Fn)), w.At(a.Instr), fmt.Sprintf("%s is guarded by %s at %d of its %d accesses, but this %s holds %s: a data race with the guarded accesses", f, best, count[best], len(nonConstr), rw, lf.MustAt(a.Instr)))
			}
		}
		if okAll {
			c.ok(rule, key, "-", fmt.Sprintf("guarded by %s at all %d accesses after construction", best, len(nonConstr)))
		}
	}
	c.floor(rule, nGuarded, 25, "lock-guarded fields")
	c.floor(rule, len(fields), 80, "fields with recorded accesses")
}

// ruleCarrierWrappers (C15.2).
func ruleCarrierWrappers(c *Ctx, rule string) {
	c.rule(rule, "carrier wrappers: every wrapper method performs the embedded stream's send-side operation under the wrapper's send mutex and its receive-side operation under the receive mutex (gRPC streams allow one sender and one receiver)")
	w := c.W
	lf := w.Locks()
	n, types_ := 0, map[string]bool{}
	for _, fn := range w.Funcs {
		if fn.Parent() != nil || fn.Signature.Recv() == nil || !w.isCarrierType(fn.Signature.Recv().Type()) {
			continue
		}
		nt := recvNamed(fn)
		sendMu, recvMu := w.wrapperMutexes(nt)
		if sendMu == "" || recvMu == "" || sendMu == recvMu {
			c.fail(rule, "wrapper "+nt.Obj().Name()+": separate send and receive mutexes", w.Pos(fn.Pos()), "the wrapper does not hold one mutex around its send-side and a different one around its receive-side operations (send: "+sendMu+", receive: "+recvMu+")")
			continue
		}
		for _, e := range w.directEffects(fn).Effects {
			var lock, want string
			switch e.Kind {
			case "carrier-send", "carrier-closesend":
				lock, want = sendMu, "the send mutex"
			case "carrier-recv":
				lock, want = recvMu, "the receive mutex"
			default:
				continue
			}
			n++
			types_[nt.Obj().Name()] = true
			c.check(lf.MustAt(e.Instr).has(lock), rule, w.Short(fn)+": "+e.Kind+" under "+want, w.At(e.Instr), "holds "+lock, "the embedded stream's "+e.Kind+" is not under "+lock+" (held: "+lf.MustAt(e.Instr).String()+"): two goroutines can call the gRPC stream concurrently, which it does not allow")
		}
	}
	c.floor(rule, n, 17, "wrapped carrier operations")
	c.floor(rule, len(types_), 4, "carrier wrapper types")
	// a wrapper's frame-returning Recv hands out a frame of its own each time: what the embedded stream's Recv returned —
	// never a buffer of the wrapper that the next Recv overwrites (goroutines started by the loop, e.g. the rejection
	// reply, still read the previous frame while the loop receives the next one)
	nRecv := 0
	for _, fn := range w.Funcs {
		if fn.Parent() != nil || fn.Signature.Recv() == nil || !w.isCarrierType(fn.Signature.Recv().Type()) || fn.Name() != "Recv" || fn.Signature.Results().Len() != 2 {
			continue
		}
		nRecv++
		okFresh, why := true, ""
		forEachReturnValue(fn, 0, func(v ssa.Value, at ssa.Instruction) {
			if isNilConst(v) {
				return
			}
			o := origin(v)
			ex, isEx := o.(*ssa.Extract)
			if isEx && ex.Index == 0 {
				if call, isC := ex.Tuple.(*ssa.Call); isC {
					if k, isOp := w.carrierOp(call); isOp && k == "carrier-recv" {
						return
					}
				}
			}
			if al, isAl := o.(*ssa.Alloc); isAl && al.Heap && al.Parent() == fn {
				return // a frame allocated by this very call
			}
			okFresh, why = false, desc(v)
		})
		c.check(okFresh, rule, w.Short(fn)+": returns a frame of its own", posOf(w, fn), "the embedded Recv's result (or a fresh allocation)", "the wrapper's Recv returns "+why+", storage that the next Recv call overwrites: code that still holds the previous frame (the goroutine that answers a refused new_stream reads its stream id) sees the next frame's contents — the rejection goes to another RPC's id")
	}
	c.floor(rule, nRecv, 4, "frame-returning Recv methods of carrier wrappers")
	// every carrier handed to a tunnel endpoint is wrapped
	for _, name := range []string{"(*pendingChannel).Start", "newReverseChannel", "(*TunnelServiceHandler).openTunnel", "(*ReverseTunnelServer).Serve"} {
		fn := w.roleFunc(name)
		if fn == nil {
			c.fail(rule, name, "-", "not found")
			continue
		}
		ok := false
		allInstrs(fn, func(in ssa.Instruction) {
			call, isC := in.(*ssa.Call)
			if !isC {
				return
			}
			if !w.isRoleCall(call, "newTunnelChannel") && !w.isRoleCall(call, "serveTunnel") {
				return
			}
			// the carrier argument: the (flattened: parameters may be bundled) argument of a carrier stream type
			var carrierArg ssa.Value
			for _, fa := range flatArgs(call) {
				if w.isCarrierType(fa.Type()) {
					carrierArg = fa
				}
			}
			if carrierArg == nil {
				carrierArg = call.Call.Args[0]
			}
			if w.isWrapperAlloc(origin(carrierArg)) {
				ok = true
			}
			// the variable may be captured by a closure (cell with two stores): the latest store dominating the call
			if u, isU := stripConv(carrierArg).(*ssa.UnOp); isU {
				if cell, isCell := u.X.(*ssa.Alloc); isCell {
					var best *ssa.Store
					for _, r := range *cell.Referrers() {
						if st, isSt := r.(*ssa.Store); isSt && st.Addr == ssa.Value(cell) && dominates(st, call) && (best == nil || dominates(best, st)) {
							best = st
						}
					}
					if best != nil {
						if w.isWrapperAlloc(best.Val) {
							ok = true
						}
					}
				}
			}
		})
		c.check(ok, rule, name+": endpoint receives the thread-safe wrapper", posOf(w, fn), "stream wrapped before use", "the tunnel endpoint is constructed with the raw gRPC stream instead of the thread-safe wrapper: concurrent RPCs would call Send concurrently")
		// callbacks created on the opening path run later, concurrently with the endpoint: their send-side carrier
		// operations must go through the wrapper as well
		for _, af := range fn.AnonFuncs {
			for _, e := range w.directEffects(af).Effects {
				switch e.Kind {
				case "carrier-send", "carrier-closesend", "carrier-recv":
				default:
					continue
				}
				ci, isCI := e.Instr.(ssa.CallInstruction)
				if !isCI {
					continue
				}
				recv := ci.Common().Value
				if !ci.Common().IsInvoke() && len(ci.Common().Args) > 0 {
					recv = ci.Common().Args[0]
				}
				wrapped := w.isWrapperAlloc(origin(recv))
				if !wrapped {
					// captured variable (cell): the store in force when the closure is created
					v := stripConv(recv)
					if u, isU := v.(*ssa.UnOp); isU {
						v = u.X
					}
					if fv, isFV := v.(*ssa.FreeVar); isFV {
						if cell, isCell := freeVarBinding(fv).(*ssa.Alloc); isCell {
							var mk ssa.Instruction
							allInstrs(fn, func(in ssa.Instruction) {
								if m, isM := in.(*ssa.MakeClosure); isM && m.Fn == ssa.Value(af) {
									mk = m
								}
							})
							var best *ssa.Store
							for _, r := range *cell.Referrers() {
								if st, isSt := r.(*ssa.Store); isSt && st.Addr == ssa.Value(cell) && mk != nil && dominates(st, mk) && (best == nil || dominates(best, st)) {
									best = st
								}
							}
							wrapped = best != nil && w.isWrapperAlloc(best.Val)
							// no later store may replace the wrapper
							for _, r := range *cell.Referrers() {
								if st, isSt := r.(*ssa.Store); isSt && st.Addr == ssa.Value(cell) && st != best && best != nil && !dominates(st, best) {
									wrapped = false
								}
							}
						}
					}
				}
				c.check(wrapped, rule, name+": "+e.Kind+" in a callback goes through the wrapper", w.At(e.Instr), "receiver is the thread-safe wrapper", "a callback created on the opening path calls "+e.Kind+" on the raw gRPC stream ("+desc(recv)+"), bypassing the wrapper's mutex: when it runs (Close/tear-down) concurrently with a SendMsg or the receive loop's replies, two goroutines are inside the stream's send side at once")
			}
		}
	}
}

// ruleHappensBeforeByClose (C15.3).
func ruleHappensBeforeByClose(c *Ctx, rule string) {
	c.rule(rule, "happens-before by close: for each field published by closing a signal channel, every write precedes the close in the writer, and every read outside the writer is dominated by a completed receive from that signal (in the reading function, or at every call site of it)")
	w := c.W
	lf := w.Locks()
	pbc := c.publishByClose()
	var names []string
	for f := range pbc {
		names = append(names, f)
	}
	sort.Strings(names)
	c.floor(rule, len(names), 4, "publish-by-close fields (headers, trailers, settings, revision)")
	for _, fs := range names {
		parts := strings.SplitN(fs, ".", 2)
		f := FieldRef{parts[0], parts[1]}
		sp := strings.SplitN(pbc[fs], ".", 2)
		sig := FieldRef{sp[0], sp[1]}
		var writers []*ssa.Function
		nR, nW := 0, 0
		for _, a := range w.FieldAccesses() {
			if a.Field != f || a.Constr {
				continue
			}
			if a.Write {
				nW++
				writers = append(writers, a.Fn)
				cls := closesOfField(regionRoot(a.Fn), sig) // the writer may be a helper of the function that closes
				ok := len(cls) >= 1
				for _, cl := range cls {
					if reaches(cl, a.Instr) {
						ok = false
					}
				}
				if len(cls) == 0 {
					// the close may be in another function executed later under the same lock (headers: accept vs finish)
					ok = len(perStreamLocks(lf.MustAt(a.Instr), w.rootNamed(f.Type))) > 0
				}
				c.check(ok, rule, fmt.Sprintf("write of %s in %s precedes close(%s)", f, w.Short(a.Fn), sig.Field), w.At(a.Instr), "never after the close", "this write can execute after the signal was closed: readers that already passed the signal read it concurrently (data race)")
			}
		}
		for _, a := range w.FieldAccesses() {
			if a.Field != f || a.Constr || a.Write {
				continue
			}
			isWriter := false
			for _, wf := range writers {
				if wf == a.Fn {
					isWriter = true
				}
			}
			if isWriter {
				continue // same goroutine / same critical section as the writes
			}
			// reads under the lock that also guards the writes are fine (e.g. finish reading gotHeaders state)
			nR++
			key := fmt.Sprintf("read of %s in %s after <-%s", f, w.Short(a.Fn), sig.Field)
			if recvFromFieldDominates(a.Instr, sig) {
				c.ok(rule, key, w.At(a.Instr), "dominated by a receive from the signal")
				continue
			}
			// one level up: every call site dominated
			sites := w.callSitesOf(a.Fn)
			all := len(sites) > 0
			for _, s := range sites {
				if !recvFromFieldDominates(s, sig) {
					all = false
				}
			}
			c.check(all, rule, key, w.At(a.Instr), "every call site of the reading function is dominated by a receive from the signal", "this read is not ordered after the close of "+sig.String()+" (the enclosing function can be reached without having received from it, e.g. through a ctx.Done() branch): it races with the write in the receive loop")
		}
		c.floor(rule, nW, 1, "writes of "+fs)
		c.floor(rule, nR, 1, "reads of "+fs+" outside the writer")
	}
}

// ruleLockOrder (C15.5) and self-deadlock (C09.7).
func ruleLockOrder(c *Ctx, rule string) {
	c.rule(rule, "lock-order acyclicity: the may-held -> acquired graph over all mutex fields, closed over resolved calls, has no cycle, and no function acquires a mutex (type + field) that may already be held")
	w := c.W
	lf := w.Locks()
	adj := map[string][]string{}
	for k := range lf.Order {
		adj[k[0]] = append(adj[k[0]], k[1])
	}
	for k := range adj {
		sort.Strings(adj[k])
	}
	// cycle detection
	color := map[string]int{}
	var cyc []string
	var dfs func(u string, path []string) bool
	dfs = func(u string, path []string) bool {
		color[u] = 1
		for _, v := range adj[u] {
			if color[v] == 1 {
				cyc = append(append([]string{}, path...), u, v)
				return true
			}
			if color[v] == 0 && dfs(v, append(path, u)) {
				return true
			}
		}
		color[u] = 2
		return false
	}
	var nodes []string
	for k := range adj {
		nodes = append(nodes, k)
	}
	sort.Strings(nodes)
	found := false
	for _, nd := range nodes {
		if color[nd] == 0 && dfs(nd, nil) {
			found = true
			break
		}
	}
	if found {
		var wit []string
		for i := 0; i+1 < len(cyc); i++ {
			wit = append(wit, cyc[i]+" -> "+cyc[i+1]+" ("+lf.Order[[2]string{cyc[i], cyc[i+1]}]+")")
		}
		c.fail(rule, "lock-order cycle "+strings.Join(cyc, " -> "), "-", "locks are acquired in conflicting orders: "+strings.Join(wit, "; ")+" — two goroutines taking them in opposite orders deadlock")
	} else {
		c.ok(rule, "lock-order graph acyclic", "-", fmt.Sprintf("%d held->acquired edges over %d locks, no cycle", len(lf.Order), len(nodes)))
	}
	c.floor(rule, len(lf.Order), 15, "lock-order edges")
	ruleNoSelfDeadlock(c, rule)
}

func ruleNoSelfDeadlock(c *Ctx, rule string) {
	c.rule(rule, "lock-order acyclicity: the may-held -> acquired graph over all mutex fields, closed over resolved calls, has no cycle, and no function acquires a mutex (type + field) that may already be held")
	w := c.W
	lf := w.Locks()
	n := 0
	for _, fn := range w.Funcs {
		if isGenericTemplate(fn) {
			continue
		}
		allInstrs(fn, func(in ssa.Instruction) {
			ci, ok := in.(*ssa.Call)
			if !ok {
				return
			}
			op, ok := lockOpOf(ci)
			if !ok || (op.kind != "lock" && op.kind != "rlock") {
				return
			}
			n++
			may := lf.MayAt(in)
			if may[op.id] || (op.kind == "lock" && may[op.id+":R"]) {
				// find how
				how := "entry may-lockset " + lf.EntryMay[fn].String()
				c.fail(rule, "re-acquisition of "+op.id+" in "+w.Short(fn), w.At(in), op.id+" may already be held when it is acquired here ("+how+"): sync.Mutex is not reentrant, so the goroutine deadlocks on itself (on the receive loop this hangs every RPC of the tunnel)")
			}
		})
	}
	c.floor(rule, n, 40, "lock acquisition sites")
}

// ---------- C16 ----------

// streamingFlagOrigin: where the bool field tested comes from ("ClientStreams"/"ServerStreams").
func (c *Ctx) streamingFlagOrigin(fr FieldRef) string {
	w := c.W
	a := w.Anchors()
	// server: stored in Create from streamDesc.X
	for _, fn := range []*ssa.Function{a.Create, a.Allocate} {
		if fn == nil {
			continue
		}
		var res string
		allInstrs(fn, func(in ssa.Instruction) {
			al, ok := in.(*ssa.Alloc)
			if !ok || namedOf(al.Type()) == nil || namedOf(al.Type()).Obj().Name() != fr.Type {
				return
			}
			v, ok := storesInto(al)[fr.Field]
			if !ok {
				return
			}
			// phi(false, desc.X) or param
			switch x := stripConv(v).(type) {
			case *ssa.Phi:
				for _, e := range x.Edges {
					if _, ch := fieldChain(e); len(ch) == 1 {
						res = ch[0]
					}
				}
			case *ssa.UnOp:
				// a local kept in memory because a function literal captures it: every value assigned to it
				if cell, isCell := x.X.(*ssa.Alloc); isCell && x.Op == token.MUL {
					for _, r := range *cell.Referrers() {
						if st, isSt := r.(*ssa.Store); isSt && st.Addr == ssa.Value(cell) {
							if _, ch := fieldChain(st.Val); len(ch) == 1 {
								res = ch[0]
							}
						}
					}
				}
			case *ssa.Parameter:
				// client: which param index -> NewStream passes desc.X at that position
				idx := -1
				for i, p := range fn.Params {
					if p == x {
						idx = i
					}
				}
				nsm := w.methodFn(a.Ch, "NewStream")
				if nsm != nil && a.NewStream != nil {
					allInstrs(nsm, func(y ssa.Instruction) {
						if call, ok := y.(*ssa.Call); ok && staticCallee(call) == a.NewStream {
							// NewStream(ctx, cs, ss, method, opts) -> allocate(ctx, cs, ss, ...): same positions
							if idx < len(call.Call.Args) {
								if _, ch := fieldChain(call.Call.Args[idx]); len(ch) == 1 {
									res = ch[0]
								}
							}
						}
					})
				}
				// and newStream passes its own param at that index to allocate
				if a.NewStream != nil {
					allInstrs(a.NewStream, func(y ssa.Instruction) {
						if call, ok := y.(*ssa.Call); ok && staticCallee(call) == fn {
							if idx < len(call.Call.Args) && idx < len(a.NewStream.Params) && stripConv(call.Call.Args[idx]) != ssa.Value(a.NewStream.Params[idx]) {
								res = "mismatched:" + desc(call.Call.Args[idx])
							}
						}
					})
				}
			}
		})
		if res != "" && !strings.HasPrefix(res, "mismatched:") {
			return res
		}
		// the flag is one of the allocation function's inputs (possibly a field of a bundle of call parameters): what the
		// exported NewStream supplies for it, through the functions in between
		if nsm := w.methodFn(a.Ch, "NewStream"); nsm != nil && fn == a.Allocate {
			res2 := ""
			allInstrs(fn, func(in ssa.Instruction) {
				al, ok := in.(*ssa.Alloc)
				if !ok || namedOf(al.Type()) == nil || namedOf(al.Type()).Obj().Name() != fr.Type {
					return
				}
				v, ok := storesInto(al)[fr.Field]
				if !ok {
					return
				}
				if inp := inputOf(fn, v); inp != nil {
					for _, sv := range w.suppliedBy(fn, *inp, nsm, 0) {
						if _, ch := fieldChain(sv); len(ch) == 1 {
							res2 = ch[0]
						} else {
							res2 = "mismatched:" + desc(sv)
						}
					}
				}
			})
			if res2 != "" {
				return res2
			}
		}
		if res != "" {
			return res
		}
	}
	return ""
}

func ruleSendCountGuards(c *Ctx, rule string) {
	c.rule(rule, "send-count guards: in the client and server send methods the call into the sender cannot be reached when the side is non-streaming and one message was already sent (that edge returns an error), the counter is incremented on the way, all under the write mutex; the client tests the client-streaming flag, the server the server-streaming flag")
	w := c.W
	a := w.Anchors()
	lf := w.Locks()
	n := 0
	for _, s := range c.senderSendSites() {
		fn := s.Parent()
		rn := recvNamed(fn)
		if rn == nil {
			continue
		}
		wantFlag := ""
		switch {
		case a.CS != nil && rn.Obj() == a.CS.Obj():
			wantFlag = "ClientStreams"
		case a.SS != nil && rn.Obj() == a.SS.Obj():
			wantFlag = "ServerStreams"
		default:
			continue
		}
		n++
		name := w.Short(fn)
		// find If on (numSent == 1)
		var cnt FieldRef
		var ifCount *ssa.If
		// the test may sit in a private helper used only here (`if err := st.checkSendLocked(); err != nil { return err }`)
		root := regionRoot(fn)
		allInstrs(root, func(in ssa.Instruction) {
			ifi, ok := in.(*ssa.If)
			if !ok {
				return
			}
			if bo, ok := ifi.Cond.(*ssa.BinOp); ok && bo.Op == token.EQL {
				if fr, _, isF := loadedField(bo.X); isF && fr.Type == rn.Obj().Name() {
					if k, isK := constInt(bo.Y); isK && k == 1 {
						cnt, ifCount = fr, ifi
					}
				}
			}
		})
		if ifCount == nil {
			c.fail(rule, name+": second send on a non-streaming side refused", w.At(s), "no test 'messages sent == 1' on the way to the sender: a second SendMsg on a unary side is put on the wire")
			continue
		}
		// the true edge must not reach the sender and must return a non-nil error
		tb := ifCount.Block().Succs[0]
		esc := tb.Instrs[0] == ssa.Instruction(s.(ssa.Instruction)) || pathAvoiding(root, tb.Instrs[0], func(in ssa.Instruction) bool { return in == s.(ssa.Instruction) }, nil) != nil
		c.check(!esc && reaches(ifCount, s.(ssa.Instruction)), rule, name+": second send on a non-streaming side refused", w.At(ifCount), "count == 1 edge cannot reach the sender", "the 'already sent one message' edge still reaches the sender (or the test does not dominate it)")
		// that If is on the non-streaming edge of a test of a streaming flag
		var flag FieldRef
		pol := false
		for _, f := range boolFactsAt(ifCount) {
			// other flags known false here (the 'already finished' test in front) are not the streaming flag
			if fr, _, isF := loadedField(f.V); isF && fr.Type == rn.Obj().Name() && !f.True && (!pol || c.streamingFlagOrigin(fr) != "") {
				flag, pol = fr, true
			}
		}
		if !pol {
			c.fail(rule, name+": guard applies to the non-streaming side only", w.At(ifCount), "the count test is not on the false edge of a streaming flag: streaming methods could send only one message, or the test uses the wrong polarity")
		} else {
			got := c.streamingFlagOrigin(flag)
			c.check(got == wantFlag, rule, name+": tests this side's streaming flag", w.At(ifCount), flag.String()+" <- StreamDesc."+got, "the guard tests "+flag.String()+", which is set from StreamDesc."+got+"; this side must test "+wantFlag+": a unary side could send many messages while a streaming side is limited to one")
		}
		// counter incremented between
		inc := false
		// where a failed send is remembered (a sticky error field tested nil in front of the sender: every later send is
		// refused anyway), the counter may also be incremented behind the send, on every path on which the send succeeded
		stickyGuard := false
		for _, f := range factsAt(s.(ssa.Instruction)) {
			if x, op, y, ok := cmpFact(f); ok && op == token.EQL && isNilConst(y) && isErrorType(x.Type()) {
				if fr, _, isF := loadedField(x); isF && fr.Type == rn.Obj().Name() {
					stickyGuard = true
				}
			}
		}
		for _, st := range storesToField(root, cnt) {
			b, ok := st.Val.(*ssa.BinOp)
			if !ok || b.Op != token.ADD || !isFieldLoad(b.X, cnt) || !reaches(ifCount, st) || reaches(st, ifCount) {
				continue
			}
			if dominates(st, s.(ssa.Instruction)) {
				inc = true
				continue
			}
			if sc, isCall := s.(*ssa.Call); isCall && stickyGuard && dominates(s.(ssa.Instruction), st) {
				failEdge := func(pred, succ *ssa.BasicBlock) bool {
					ef, has := edgeFact(pred, succ)
					if !has {
						return false
					}
					x, op, y, okc := cmpFact(normFact(ef))
					return okc && op == token.NEQ && isNilConst(y) && isErrorOfCall(x, sc)
				}
				if pathAvoidingE(root, sc, isExit, func(in ssa.Instruction) bool { return in == ssa.Instruction(st) }, failEdge) == nil {
					inc = true
				}
			}
		}
		c.check(inc, rule, name+": counter incremented before sending", w.At(s), cnt.Field+"++ dominates the send (or follows every successful send where failed sends are sticky)", "the sent-message counter is not incremented on the way to the sender: the guard never triggers")
		c.check(len(perStreamLocks(intersect(lf.MustAt(ifCount), lf.MustAt(s.(ssa.Instruction))), rn)) > 0, rule, name+": test, increment and send in one critical section", w.At(s), "write mutex held throughout", "the count test and the send are not under one per-stream mutex")
		// error on the refused edge is non-nil
		okErr := false
		for _, ret := range returnsOf(ifCount.Parent()) {
			if !(tb.Dominates(ret.Block()) || tb == ret.Block()) {
				continue
			}
			t := returnTuple(ret)
			if g, _ := nonNilErrorPhiAware(t[0], ret); g {
				okErr = true
			}
		}
		c.check(okErr, rule, name+": refusal returns an error", w.At(ifCount), "non-nil status error", "the refused second send does not return a non-nil error")
	}
	c.floor(rule, n, 2, "send methods (client, server)")
}

func ifCountOrEntry(i *ssa.If) ssa.Instruction { return i }

func ruleLookAhead(c *Ctx, rule string) {
	c.rule(rule, "look-ahead reads: on the non-streaming edge of the peer's side a second reassembly call follows a successful first; if it yields a message the RPC fails with a non-nil status (Internal on the client, InvalidArgument on the server) that also becomes the sticky read error; the first message is delivered only when that second read ended with io.EOF and the stream intact")
	w := c.W
	a := w.Anchors()
	for _, side := range []struct {
		read, reasm *ssa.Function
		wantFlag    string
		code        int64
	}{{a.ClientRead, a.ClientReasmEntry, "ServerStreams", 13}, {a.ServerRead, a.ServerReasmEntry, "ClientStreams", 3}} {
		if !c.need(rule, "read method", side.read) || !c.need(rule, "reassembly function", side.reasm) {
			continue
		}
		fn := side.read
		name := w.Short(fn)
		var calls []*ssa.Call
		allInstrs(fn, func(in ssa.Instruction) {
			if call, ok := in.(*ssa.Call); ok && staticCallee(call) == side.reasm {
				calls = append(calls, call)
			}
		})
		if len(calls) != 2 {
			c.fail(rule, name+": look-ahead read present", posOf(w, fn), fmt.Sprintf("%d reassembly calls (expected the read and one look-ahead): a peer that sends two messages for a unary side is not detected", len(calls)))
			continue
		}
		c1, c2 := calls[0], calls[1]
		if dominates(c2, c1) {
			c1, c2 = c2, c1
		}
		err1, err2, ok2 := extractOf(c1, 2), extractOf(c2, 2), extractOf(c2, 1)
		// c2 under: err1 == nil and flag false
		g1, gFlag := false, FieldRef{}
		for _, f := range factsAt(c2) {
			if x, op, y, ok := cmpFact(f); ok && op == token.EQL && isNilConst(y) && origin(x) == err1 {
				g1 = true
			}
		}
		for _, f := range boolFactsAt(c2) {
			if fr, _, isF := loadedField(f.V); isF && !f.True {
				gFlag = fr
			}
		}
		c.check(g1 && dominates(c1, c2), rule, name+": look-ahead only after a successful read", w.At(c2), "dominated by first err == nil", "the look-ahead read is not control-dependent on the first read having succeeded")
		// ... and under no other condition: whenever the first read succeeded on a non-streaming side the look-ahead must happen
		extra := ""
		base := map[ssa.Value]bool{}
		for _, f := range boolFactsAt(c1) {
			base[f.V] = true
		}
		for _, f := range boolFactsAt(c2) {
			if base[f.V] {
				continue
			}
			if fr, _, isF := loadedField(f.V); isF && fr == gFlag {
				continue
			}
			if b, isB := f.V.(*ssa.BinOp); isB && b.Op == token.EQL && isNilConst(b.Y) && origin(b.X) == err1 {
				continue
			}
			// the same test written with the opposite comparison and polarity: (err != nil) == false
			if x, op, y, isCmp := cmpFact(f.Raw); isCmp && op == token.EQL && isNilConst(y) && origin(x) == err1 {
				continue
			}
			extra = desc(f.V) + fmt.Sprintf(" == %v", f.True)
		}
		c.check(extra == "", rule, name+": look-ahead unconditional on a non-streaming side", w.At(c2), "no further condition", "the look-ahead is additionally conditional on "+extra+": when that condition fails a second message from the peer is never examined and the RPC succeeds (the handler/caller of a single-message side is given success although several messages were sent)")
		// the same as a path query (a dominating-fact test does not see an early return that rejoins in front of the
		// look-ahead): after a successful first read on a non-streaming side no path returns without the look-ahead
		if c1.Parent() == c2.Parent() && g1 && gFlag.Field != "" {
			fnR := c1.Parent()
			cutEdge := func(pred, succ *ssa.BasicBlock) bool {
				ef, has := edgeFact(pred, succ)
				if !has {
					return false
				}
				if x, op, y, isCmp := cmpFact(ef); isCmp && op == token.NEQ && isNilConst(y) && origin(x) == err1 {
					return true
				}
				for _, bf := range boolFactsOf([]EdgeFact{ef}) {
					if fr, _, isF := loadedField(bf.V); isF && fr == gFlag && bf.True {
						return true
					}
				}
				return false
			}
			esc := pathAvoidingE(fnR, c1, func(x ssa.Instruction) bool {
				_, isRet := x.(*ssa.Return)
				return isRet && x.Parent() == fnR
			}, func(x ssa.Instruction) bool { return x == ssa.Instruction(c2) }, cutEdge)
			pos := w.At(c2)
			if esc != nil {
				pos = w.At(esc)
			}
			c.check(esc == nil, rule, name+": no return between a successful read and the look-ahead", pos, "every path from the first read with err == nil on a non-streaming side passes the look-ahead", "a path returns after a successful first read on a non-streaming side without the look-ahead read: a second message from the peer is never examined on that path and the RPC succeeds")
		}
		if gFlag.Field == "" {
			c.fail(rule, name+": look-ahead on the non-streaming edge", w.At(c2), "the look-ahead is not on the false edge of a streaming flag")
		} else {
			got := c.streamingFlagOrigin(gFlag)
			c.check(got == side.wantFlag, rule, name+": tests the peer side's streaming flag", w.At(c2), gFlag.String()+" <- StreamDesc."+got, "the look-ahead is keyed on "+gFlag.String()+" (StreamDesc."+got+"), expected the flag set from "+side.wantFlag)
		}
		// second message present -> status error, sticky
		okMulti := false
		multiRets := returnsOf(fn)
		if c2.Parent() != fn && regionRoot(c2.Parent()) == fn {
			multiRets = append(multiRets, returnsOf(c2.Parent())...) // the look-ahead was split off into a helper used only here
		}
		for _, ret := range multiRets {
			hasFact := false
			for _, f := range factsAt(ret) {
				if x, op, y, ok := cmpFact(f); ok && op == token.EQL && isNilConst(y) && x == err2 {
					hasFact = true
				}
			}
			if !hasFact {
				continue
			}
			t := returnTuple(ret)
			if len(t) == 0 || t[len(t)-1] == nil {
				continue
			}
			e := t[len(t)-1]
			if len(t) < 3 {
				t = append([]ssa.Value{nil}, t...) // a helper that returns (ok, err): no data at all
			}
			if call, ok := stripConv(e).(*ssa.Call); ok && strings.HasPrefix(calleeName(call), "google.golang.org/grpc/status.") {
				k, _ := constInt(call.Call.Args[0])
				sticky := false
				for _, b := range ret.Parent().Blocks {
					for _, in := range b.Instrs {
						if st, ok := in.(*ssa.Store); ok && st.Val == e && dominates(st, ret) {
							if fr, _, isF := fieldOfAddr(st.Addr); isF && types.TypeString(fieldTypeOf(w, fr), nil) == "error" {
								sticky = true
							}
						}
					}
				}
				okMulti = k == side.code && sticky && (t[0] == nil || isNilConst(t[0]))
				if k != side.code {
					c.fail(rule, name+": extra message status code", w.At(ret), fmt.Sprintf("a second message fails the RPC with code %d, expected %d", k, side.code))
				}
			}
		}
		c.check(okMulti, rule, name+": a second message fails the RPC and sticks", w.At(c2), "err2 == nil -> non-nil status, stored as the sticky read error, no data", "when the look-ahead finds another message the method does not return a non-nil status that is also recorded as the sticky read error (the unary handler/caller would be given success with several messages pending)")
		// delivering returns reachable from c2
		okDeliver, nDel := true, 0
		var why string
		var c2pt ssa.Instruction = c2
		if c2.Parent() != fn {
			// the look-ahead lives in a helper used only here: the point of the read method at which it happens
			if l := w.liftTo(c2, fn); l != nil {
				c2pt = l
			}
		}
		for _, ret := range returnsOf(fn) {
			if !reaches(c2pt, ret) {
				continue
			}
			t := returnTuple(ret)
			if t[0] == nil || isNilConst(t[0]) {
				continue
			}
			nDel++
			rb := ret.Block()
			if c2pt.Block().Dominates(rb) {
				if !hasEOFAndOK(factsAt(ret), nil, err2, ok2) {
					okDeliver, why = false, "the delivering return at "+w.At(ret)+" is not under err2 == io.EOF && ok2"
				}
				continue
			}
			for _, p := range rb.Preds {
				if !(c2pt.Block().Dominates(p) || c2pt.Block() == p) {
					continue
				}
				facts := factsAt(p.Instrs[len(p.Instrs)-1])
				ef, has := edgeFact(p, rb)
				var efp *EdgeFact
				if has {
					efp = &ef
				}
				if !hasEOFAndOK(facts, efp, err2, ok2) {
					okDeliver, why = false, fmt.Sprintf("the edge from block %d into the delivering return at %s is not under both err2 == io.EOF and ok2 == true", p.Index, w.At(ret))
				}
			}
		}
		// every other return after the look-ahead reports a failure: its error is non-nil (the look-ahead's own error only
		// where it was found non-nil)
		okFail, whyF := true, ""
		for _, ret := range returnsOf(fn) {
			if !c2pt.Block().Dominates(ret.Block()) && !(c2pt.Block() == ret.Block()) {
				continue
			}
			t := returnTuple(ret)
			if len(t) < 3 || (t[0] != nil && !isNilConst(t[0])) {
				continue // a delivering return (judged above)
			}
			e := t[len(t)-1]
			if e == nil {
				okFail, whyF = false, "cannot determine the error returned at "+w.At(ret)
				continue
			}
			good := false
			if isLocalError(e) {
				good = true
			}
			for _, f := range factsAt(ret) {
				if x, op, y, isCmp := cmpFact(f); isCmp && op == token.NEQ && isNilConst(y) && (stripConv(x) == stripConv(e) || origin(x) == origin(e)) {
					good = true
				}
				if x, op, y, isCmp := cmpFact(f); isCmp && op == token.EQL && desc(y) == "*global:EOF" && (stripConv(x) == stripConv(e) || origin(x) == origin(e)) {
					good = true // it is io.EOF
				}
			}
			if !good {
				okFail, whyF = false, "the return at "+w.At(ret)+" yields no message and an error that may be nil"
			}
		}
		c.check(okFail, rule, name+": no return after the look-ahead yields (nothing, nil)", w.At(c2), "every non-delivering return after the look-ahead carries a non-nil error", whyF+": when the look-ahead finds a second message the method reports success with no data — an empty message is fabricated for the application and the call-shape violation goes unnoticed")
		c.check(okDeliver && nDel >= 1, rule, name+": first message delivered only after EOF on an intact stream", w.At(c2), "every path from the look-ahead to the delivering return has err2 == io.EOF && ok2", why+": the first message is delivered (success) although the look-ahead ended with a different error or a broken stream — e.g. a non-OK status from the peer would be swallowed")
	}
}

func hasEOFAndOK(facts []EdgeFact, extra *EdgeFact, err2, ok2 ssa.Value) bool {
	if extra != nil {
		facts = append(append([]EdgeFact{}, facts...), *extra)
		// the edge may be the success edge of `if err := lookAheadHelper(); err != nil`: what holds at the helper's nil returns
		if x, op, y, ok := cmpFact(normFact(*extra)); ok && op == token.EQL && isNilConst(y) {
			facts = append(facts, impliedByNilError(stripConv(x))...)
		}
	}
	eof, okf := false, false
	for _, f := range facts {
		if x, op, y, ok := cmpFact(f); ok && op == token.EQL {
			if (x == err2 && desc(y) == "*global:EOF") || (y == err2 && desc(x) == "*global:EOF") {
				eof = true
			}
		}
		nf := normFact(f)
		if nf.Cond == ok2 && nf.True {
			okf = true
		}
	}
	return eof && okf
}

func ruleInvokeShape(c *Ctx, rule string) {
	c.rule(rule, "Invoke performs a second receive into a fresh message and returns nil only when that receive ended with io.EOF (a second response becomes Internal); unary calls are created with both streaming flags false and streams with the StreamDesc's flags in the right order")
	w := c.W
	a := w.Anchors()
	inv := w.methodFn(a.Ch, "Invoke")
	if inv == nil || a.ClientRecv == nil || a.NewStream == nil {
		c.fail(rule, "Invoke", "-", "not found")
		return
	}
	var recvs []*ssa.Call
	allInstrs(inv, func(in ssa.Instruction) {
		if call, ok := in.(*ssa.Call); ok && staticCallee(call) == a.ClientRecv {
			recvs = append(recvs, call)
		}
	})
	if len(recvs) != 2 {
		c.fail(rule, w.Short(inv)+": second receive", posOf(w, inv), fmt.Sprintf("%d RecvMsg calls, expected 2: a server that sends zero or several responses to a unary call is not detected", len(recvs)))
		return
	}
	r1, r2 := recvs[0], recvs[1]
	if dominates(r2, r1) {
		r1, r2 = r2, r1
	}
	c.check(stripConv(r2.Call.Args[1]) != stripConv(r1.Call.Args[1]) && origin(r1.Call.Args[1]) == ssa.Value(inv.Params[4]), rule, w.Short(inv)+": second receive into a fresh message", w.At(r2), desc(r2.Call.Args[1]), "the second receive decodes into the caller's response (it could overwrite it) or the first does not decode into it")
	// nil returned only under errors.Is(X, io.EOF) with X = phi(r2 err, Internal when r2 err == nil)
	okNil, nNil := true, 0
	forEachReturnValue(inv, 0, func(v0 ssa.Value, at ssa.Instruction) {
		// the tail (second receive and verdict) may live in a helper whose result Invoke returns: one case per helper return
		for _, vc := range valueCases(v0, 0) {
			v := vc.Val
			if !isNilConst(v) || !dominates(r2, at) {
				continue
			}
			nNil++
			g := false
			for _, f := range append(boolFactsAt(at), boolFactsOf(vc.Facts)...) {
				if call, ok := f.V.(*ssa.Call); ok && calleeName(call) == "errors.Is" && f.True && desc(call.Call.Args[1]) == "*global:EOF" {
					// X
					x := call.Call.Args[0]
					if phi, ok := x.(*ssa.Phi); ok {
						hasR2, hasInt := false, false
						for _, e := range phi.Edges {
							if e == ssa.Value(r2) {
								hasR2 = true
							}
							if sc, ok := e.(*ssa.Call); ok && strings.HasPrefix(calleeName(sc), "google.golang.org/grpc/status.") {
								if k, _ := constInt(sc.Call.Args[0]); k == 13 {
									hasInt = true
								}
							}
						}
						g = hasR2 && hasInt
					}
				}
			}
			if !g {
				okNil = false
			}
		}
	})
	c.check(okNil && nNil >= 1, rule, w.Short(inv)+": success only when the second receive hit end-of-stream", w.At(r2), "return nil only under errors.Is(extraErr, io.EOF), extraErr = Internal when a second response arrived", "Invoke can return nil although the second receive did not end with io.EOF (or a second response is not turned into an error): a unary caller gets success when the peer sent several responses or a failure status after the first")
	// first receive error returned
	okFirst := false
	forEachReturnValue(inv, 0, func(v ssa.Value, at ssa.Instruction) {
		if stripConv(v) == ssa.Value(r1) {
			// ... on the branch where it is an error (returned on the other branch it is a nil 'success' that skips
			// the second receive)
			for _, f := range factsAt(at) {
				if x, op, y, isCmp := cmpFact(f); isCmp && op == token.NEQ && isNilConst(y) && stripConv(x) == ssa.Value(r1) {
					okFirst = true
				}
			}
		}
	})
	// the second receive happens exactly when the first succeeded
	okSecond := false
	for _, f := range factsAt(r2) {
		if x, op, y, isCmp := cmpFact(f); isCmp && op == token.EQL && isNilConst(y) && stripConv(x) == ssa.Value(r1) {
			okSecond = true
		}
	}
	c.check(okSecond, rule, w.Short(inv)+": second receive follows a successful first one", w.At(r2), "under err == nil of the first receive", "the second receive is not on the branch where the first receive succeeded: a successful unary call returns without checking for further responses")
	// a second response also ends the RPC on the wire: the stream is cancelled where the Internal error is made
	okCancel := false
	allInstrs(inv, func(in ssa.Instruction) {
		sc, isC := in.(*ssa.Call)
		if !isC || !strings.HasPrefix(calleeName(sc), "google.golang.org/grpc/status.") || len(sc.Call.Args) == 0 {
			return
		}
		if k, _ := constInt(sc.Call.Args[0]); k != 13 {
			return
		}
		for _, x := range sc.Block().Instrs {
			ci, isCI := x.(*ssa.Call)
			if !isCI {
				continue
			}
			if g := staticCallee(ci); g != nil && (w.sameFn(g, a.CancelStream) || w.sameFn(g, a.ClientFinish)) {
				okCancel = true
			}
			if g := staticCallee(ci); g == nil && !ci.Call.IsInvoke() {
				if _, _, isF := loadedField(ci.Call.Value); isF && strings.HasSuffix(types.TypeString(ci.Call.Value.Type(), nil), "context.CancelFunc") {
					okCancel = true
				}
			}
		}
	})
	c.check(okCancel, rule, w.Short(inv)+": a second response cancels the stream", w.At(r2), "cancel where the Internal error is made", "when the peer sends a second response to a unary call the stream is not cancelled: Invoke returns but the RPC stays open on both ends (table entries, handler, watcher goroutine) until the peer chooses to end it")
	c.check(okFirst, rule, w.Short(inv)+": error of the first receive returned", w.At(r1), "if err != nil { return err }", "the error of the first receive (e.g. the RPC's status, or zero responses) is not returned to the caller")
	// flags: what Invoke and the exported NewStream supply for the allocation function's inputs that become the stream's
	// two streaming flags (followed through the functions in between; parameters may be bundled)
	if a.Allocate != nil && a.CS != nil {
		for _, fl := range []struct{ field, want string }{{"isClientStream", "ClientStreams"}, {"isServerStream", "ServerStreams"}} {
			var inp *ctorInput
			allInstrs(a.Allocate, func(in ssa.Instruction) {
				al, ok := in.(*ssa.Alloc)
				if !ok || namedOf(al.Type()) == nil || namedOf(al.Type()).Obj() != a.CS.Obj() {
					return
				}
				for fname, v := range storesInto(al) {
					if c.streamFlagRole(fname) == fl.field {
						inp = inputOf(a.Allocate, v)
					}
				}
			})
			if inp == nil {
				c.fail(rule, w.Short(inv)+": "+fl.field+" comes from an input of the allocation function", posOf(w, a.Allocate), "the stream's "+fl.field+" flag is not set from a parameter of the allocation function: unrecognised shape")
				continue
			}
			uv := w.suppliedBy(a.Allocate, *inp, inv, 0)
			okU := len(uv) > 0
			for _, v := range uv {
				if !isConstBool(origin(v), false) && !isConstBool(v, false) {
					okU = false
				}
			}
			c.check(okU, rule, w.Short(inv)+": unary call created with "+fl.field+" == false", posOf(w, inv), "false", "Invoke creates its stream with "+fl.field+" set (or not from a constant): the one-message enforcement is disabled for unary calls")
			if nsm := w.methodFn(a.Ch, "NewStream"); nsm != nil {
				sv := w.suppliedBy(a.Allocate, *inp, nsm, 0)
				okS := len(sv) > 0
				got := ""
				for _, v := range sv {
					_, ch := fieldChain(v)
					if len(ch) != 1 || ch[0] != fl.want {
						okS = false
						got = desc(v)
					}
				}
				c.check(okS, rule, w.Short(nsm)+": "+fl.field+" from StreamDesc."+fl.want, posOf(w, nsm), "desc."+fl.want, "NewStream supplies "+got+" for the stream's "+fl.field+" flag, expected desc."+fl.want+" (swapped or constant flags disable or misplace the one-message enforcement)")
			}
		}
	}
	// server flags
	for _, f := range []string{"isClientStream", "isServerStream"} {
		want := map[string]string{"isClientStream": "ClientStreams", "isServerStream": "ServerStreams"}[f]
		got := c.streamingFlagOrigin(FieldRef{a.SS.Obj().Name(), f})
		c.check(got == want, rule, "server stream "+f+" from StreamDesc."+want, posOf(w, a.Create), got, "the server stream's "+f+" is set from StreamDesc."+got)
		got2 := c.streamingFlagOrigin(FieldRef{a.CS.Obj().Name(), f})
		c.check(got2 == want, rule, "client stream "+f+" from StreamDesc."+want, posOf(w, a.Allocate), got2, "the client stream's "+f+" is set from StreamDesc."+got2)
	}
}

// ---------- C17 ----------

func ruleContextKeys(c *Ctx, r2, r3 string) {
	c.rule(r2, "context key/value pairing: each context-key type has at least one WithValue site and one Value site, and the static type stored under it is assignable to the type asserted at every read")
	c.rule(r3, "the metadata accessors return Copy() of the stored value, so callers cannot mutate what other RPCs see")
	w := c.W
	type info struct {
		stored []types.Type
		reads  []types.Type
		pos    string
	}
	keys := map[string]*info{}
	get := func(k string) *info {
		if keys[k] == nil {
			keys[k] = &info{}
		}
		return keys[k]
	}
	keyName := func(v ssa.Value) string {
		if mi, ok := v.(*ssa.MakeInterface); ok {
			if n := namedOf(mi.X.Type()); n != nil && n.Obj().Pkg() != nil && n.Obj().Pkg().Path() == rootPath {
				return n.Obj().Name()
			}
		}
		return ""
	}
	for _, fn := range w.Funcs {
		allInstrs(fn, func(in ssa.Instruction) {
			call, ok := in.(*ssa.Call)
			if !ok {
				return
			}
			if calleeName(call) == "context.WithValue" {
				if k := keyName(call.Call.Args[1]); k != "" {
					t := call.Call.Args[2].Type()
					if mi, ok := call.Call.Args[2].(*ssa.MakeInterface); ok {
						t = mi.X.Type()
					}
					get(k).stored = append(get(k).stored, t)
					get(k).pos = w.At(call)
				}
			}
			if call.Call.IsInvoke() && call.Call.Method.Name() == "Value" && len(call.Call.Args) == 1 {
				var ks []string
				if k := keyName(call.Call.Args[0]); k != "" {
					ks = append(ks, k)
				} else if p, isP := stripConv(call.Call.Args[0]).(*ssa.Parameter); isP {
					// a lookup helper shared by several accessors: the key is what each caller passes
					for _, site := range w.callSitesOf(fn) {
						for i, q := range fn.Params {
							if q == p && i < len(site.Common().Args) {
								if k := keyName(site.Common().Args[i]); k != "" {
									ks = append(ks, k)
								}
							}
						}
					}
				}
				for _, k := range ks {
					for _, r := range *call.Referrers() {
						if ta, ok := r.(*ssa.TypeAssert); ok {
							get(k).reads = append(get(k).reads, ta.AssertedType)
							c.check(ta.CommaOk, r2, "read of key "+k+" in "+w.Short(fn)+": comma-ok assertion", w.At(ta), "v, ok := ctx.Value(k).(T)", "the value under "+k+" is asserted without comma-ok: a context without it panics")
						}
					}
				}
			}
		})
	}
	var names []string
	for k := range keys {
		names = append(names, k)
	}
	sort.Strings(names)
	c.floor(r2, len(names), 3, "context key types in use")
	for _, k := range names {
		i := keys[k]
		c.check(len(i.stored) >= 1 && len(i.reads) >= 1, r2, "key "+k+": stored and read", i.pos, fmt.Sprintf("%d WithValue site(s), %d read(s)", len(i.stored), len(i.reads)), fmt.Sprintf("key %s has %d WithValue site(s) and %d read(s): the accessor can never find its value (or the value is never consumed)", k, len(i.stored), len(i.reads)))
		for _, st := range i.stored {
			for _, rd := range i.reads {
				ok := types.AssignableTo(st, rd)
				if it, isI := rd.Underlying().(*types.Interface); isI && !ok {
					ok = types.Implements(st, it)
				}
				c.check(ok, r2, "key "+k+": stored type matches the asserted type", i.pos, types.TypeString(st, shortQual)+" -> "+types.TypeString(rd, shortQual), "the value stored under "+k+" has type "+types.TypeString(st, shortQual)+", but readers assert "+types.TypeString(rd, shortQual)+": the accessor always reports 'absent'")
			}
		}
	}
	// accessors
	for _, name := range []string{"TunnelMetadataFromIncomingContext", "TunnelMetadataFromOutgoingContext"} {
		fn := w.Func(name)
		if fn == nil {
			c.fail(r3, name, "-", "accessor not found")
			continue
		}
		ok := false
		// v is ctx.Value(own key).(MD) of the accessor's own context argument
		ownLookup := func(v ssa.Value) bool {
			ex, isEx := v.(*ssa.Extract)
			if !isEx {
				return false
			}
			ta, isTA := ex.Tuple.(*ssa.TypeAssert)
			if !isTA {
				return false
			}
			vc, isV := ta.X.(*ssa.Call)
			if !isV || !vc.Call.IsInvoke() || vc.Call.Method.Name() != "Value" || origin(vc.Call.Value) != ssa.Value(fn.Params[0]) {
				return false
			}
			// its own key: distinct from the other accessors' keys and stored somewhere (checked above)
			k := keyName(vc.Call.Args[0])
			if p, isP := vc.Call.Args[0].(*ssa.Parameter); isP && k == "" {
				if b := crossParameter(p); b != nil {
					k = keyName(b)
				}
			}
			if k == "" || keys[k] == nil || len(keys[k].stored) < 1 {
				return false
			}
			for _, other := range []string{"TunnelMetadataFromIncomingContext", "TunnelMetadataFromOutgoingContext", "TunnelChannelFromContext"} {
				if other != name && w.accessorKey(other) == k {
					return false
				}
			}
			return true
		}
		judge := func(v ssa.Value) {
			call, isC := stripConv(v).(*ssa.Call)
			if !isC || calleeName(call) != "(google.golang.org/grpc/metadata.MD).Copy" {
				return
			}
			arg := call.Call.Args[0]
			if ownLookup(arg) {
				ok = true
				return
			}
			// md, ok := lookupHelper(ctx, key); return md.Copy(), ok — the helper's returns, with its parameters standing
			// for this call's arguments
			if ex, isEx := arg.(*ssa.Extract); isEx {
				if hc, isHC := ex.Tuple.(*ssa.Call); isHC {
					if h := helperCallee(hc); h != nil {
						saved := paramBindings
						paramBindings = map[*ssa.Parameter]ssa.Value{}
						for k, b := range saved {
							paramBindings[k] = b
						}
						for i, p := range h.Params {
							if i < len(hc.Call.Args) {
								paramBindings[p] = hc.Call.Args[i]
							}
						}
						all, n := true, 0
						forEachReturnValue(h, ex.Index, func(hv ssa.Value, _ ssa.Instruction) {
							n++
							if !ownLookup(hv) {
								all = false
							}
						})
						paramBindings = saved
						if all && n > 0 {
							ok = true
						}
					}
				}
			}
		}
		forEachReturnValue(fn, 0, func(v ssa.Value, at ssa.Instruction) {
			judge(v)
			// delegated to a lookup helper shared by the accessors: its returns, with its parameters standing for this
			// accessor's arguments
			if ex, isEx := stripConv(v).(*ssa.Extract); isEx && !ok {
				if hc, isC := ex.Tuple.(*ssa.Call); isC {
					if h := helperCallee(hc); h != nil {
						saved := paramBindings
						paramBindings = map[*ssa.Parameter]ssa.Value{}
						for i, p := range h.Params {
							if i < len(hc.Call.Args) {
								paramBindings[p] = hc.Call.Args[i]
							}
						}
						forEachReturnValue(h, ex.Index, func(hv ssa.Value, _ ssa.Instruction) { judge(hv) })
						paramBindings = saved
					}
				}
			}
		})
		c.check(ok, r3, name+": returns a copy of the value under its own key", posOf(w, fn), "ctx.Value(key).(MD).Copy()", "the accessor does not return Copy() of the value stored under its own key in the given context: a caller mutating the result changes what every other RPC on the tunnel sees, or the wrong metadata is returned")
	}
	if fn := w.Func("TunnelChannelFromContext"); fn != nil {
		ok := false
		forEachReturnValue(fn, 0, func(v ssa.Value, at ssa.Instruction) {
			for _, cand := range []ssa.Value{v, origin(v)} { // directly, or through a lookup helper used by this accessor only
				if ex, isEx := cand.(*ssa.Extract); isEx {
					if ta, isTA := ex.Tuple.(*ssa.TypeAssert); isTA {
						if vc, isV := ta.X.(*ssa.Call); isV && vc.Call.IsInvoke() && vc.Call.Method.Name() == "Value" {
							k := keyName(vc.Call.Args[0])
							if p, isP := vc.Call.Args[0].(*ssa.Parameter); isP && k == "" {
								if b := crossParameter(p); b != nil {
									k = keyName(b)
								}
							}
							if k != "" && keys[k] != nil {
								ok = true
							}
						}
					}
				}
			}
		})
		c.check(ok, r3, "TunnelChannelFromContext: returns the value under the channel key", posOf(w, fn), "ctx.Value(tunnelChannelContextKey{}).(TunnelChannel)", "TunnelChannelFromContext does not return the value stored under the tunnel-channel key")
	} else {
		c.fail(r3, "TunnelChannelFromContext", "-", "not found")
	}
}

// ruleAccessorsOwnKeyOnly (C17.8): what an accessor answers depends on nothing but the value under its own key.
func ruleAccessorsOwnKeyOnly(c *Ctx, rule string) {
	c.rule(rule, "each context accessor (tunnel metadata incoming / outgoing, tunnel channel) looks up exactly one key in the given context, its own — the answer does not depend on what else the context carries (a handler's context legitimately carries both the incoming key of its tunnel and, when it forwards calls, the client-side keys of the stream it creates)")
	w := c.W
	n := 0
	for _, name := range []string{"TunnelMetadataFromIncomingContext", "TunnelMetadataFromOutgoingContext", "TunnelChannelFromContext"} {
		fn := w.Func(name)
		if fn == nil {
			c.fail(rule, name, "-", "accessor not found")
			continue
		}
		own := w.accessorKey(name)
		seen := map[string]bool{}
		keyName := func(v ssa.Value) string {
			if mi, ok := stripConvKeepIface(v).(*ssa.MakeInterface); ok {
				if n := namedOf(mi.X.Type()); n != nil && n.Obj().Pkg() != nil && n.Obj().Pkg().Path() == rootPath {
					return n.Obj().Name()
				}
			}
			return ""
		}
		w.instrsThroughHelpers(fn, func(in ssa.Instruction) {
			vc, ok := in.(*ssa.Call)
			if !ok || !vc.Call.IsInvoke() || vc.Call.Method.Name() != "Value" || !strings.HasSuffix(types.TypeString(vc.Call.Value.Type(), nil), "context.Context") {
				return
			}
			k := keyName(vc.Call.Args[0])
			if p, isP := stripConv(vc.Call.Args[0]).(*ssa.Parameter); isP && k == "" {
				// the key handed to a lookup helper (shared by the accessors, or used by this one only)
				if b := crossParameter(p); b != nil {
					k = keyName(b)
				}
			}
			if k == "" {
				k = desc(vc.Call.Args[0])
			}
			seen[k] = true
		})
		var ks []string
		for k := range seen {
			ks = append(ks, k)
		}
		sort.Strings(ks)
		n++
		c.check(len(ks) == 1 && own != "" && ks[0] == own, rule, name+": consults its own key only", posOf(w, fn), "looks up "+strings.Join(ks, ", "), "the accessor looks up "+strings.Join(ks, ", ")+" (its own key is "+own+"): its answer depends on other values in the context — a stream a handler creates on a tunnel (gateway, relay) no longer reports its channel / opening metadata, or reports another tunnel's")
	}
	c.floor(rule, n, 3, "context accessors")
}

func ruleChannelIdentity(c *Ctx, r4, r5 string) {
	c.rule(r4, "the WithTunnelChannel call option receives the channel the stream is actually created on; the pooled channel passes context, method and options unchanged to the picked tunnel")
	c.rule(r5, "opening metadata: each of the four opening paths captures the tunnel's opening metadata from the context the carrier was opened with (outgoing on the opening side, incoming on the accepting side) and hands it to the endpoint it constructs")
	w := c.W
	a := w.Anchors()
	if c.need(r4, "Allocate", a.Allocate) {
		ok := false
		allInstrs(a.Allocate, func(in ssa.Instruction) {
			st, isSt := in.(*ssa.Store)
			if !isSt {
				return
			}
			if fr, _, isF := loadedField(st.Addr); isF && fr.Type == "tunnelChannelCallOption" {
				v := st.Val
				if _, isMI := v.(*ssa.MakeInterface); !isMI {
					v = origin(v) // the store may sit in a small method of the option (opt.report(c)): its parameter
				}
				if mi, isMI := v.(*ssa.MakeInterface); isMI && origin(mi.X) == ssa.Value(a.Allocate.Params[0]) {
					ok = true
				}
				if origin(st.Val) == ssa.Value(a.Allocate.Params[0]) {
					ok = true
				}
			}
		})
		c.check(ok, r4, w.Short(a.Allocate)+": call option target receives this channel", posOf(w, a.Allocate), "*opt.ch = c", "the WithTunnelChannel target is not set to the channel the stream is created on")
		// the peer reported to the caller (grpc.Peer call option, the authority given to per-RPC credentials) is the TUNNEL's
		// peer: taken from the channel's own context, not from the context of the RPC being started
		nPeer, okPeer := 0, true
		allInstrs(a.Allocate, func(in ssa.Instruction) {
			call, isC := in.(*ssa.Call)
			if !isC || calleeName(call) != "google.golang.org/grpc/peer.FromContext" {
				return
			}
			nPeer++
			fr, _, isF := loadedField(origin(call.Call.Args[0]))
			if !isF || a.Ch == nil || fr.Type != a.Ch.Obj().Name() {
				okPeer = false
			}
		})
		c.check(okPeer && nPeer >= 1, r4, w.Short(a.Allocate)+": the peer reported to callers is the tunnel's", posOf(w, a.Allocate), "peer.FromContext(<channel context field>)", "the peer handed to grpc.Peer targets and used for per-RPC credentials is not read from the channel's own context (the context of the RPC being started carries no peer, or — inside a handler that forwards — somebody else's): callers cannot identify the tunnel's peer, and the transport-security check runs against the wrong connection")
		// ... and the target written there is the location the caller handed to WithTunnelChannel
		if wtc := w.Func("WithTunnelChannel"); wtc != nil && len(wtc.Params) == 1 {
			okT := false
			allInstrs(wtc, func(in ssa.Instruction) {
				if st, isSt := in.(*ssa.Store); isSt {
					if fr, _, isF := fieldOfAddr(st.Addr); isF && fr.Type == "tunnelChannelCallOption" && origin(st.Val) == ssa.Value(wtc.Params[0]) {
						okT = true
					}
				}
			})
			c.check(okT, r4, "WithTunnelChannel: the option keeps the caller's location", posOf(w, wtc), "option.ch = ch", "the call option does not store the location it was given: the channel is written nowhere (or a nil pointer is dereferenced when an RPC is started with the option)")
		} else {
			c.fail(r4, "WithTunnelChannel", "-", "not found")
		}
		// the stream's carrier is the channel's carrier
		okS := false
		allInstrs(a.Allocate, func(in ssa.Instruction) {
			if al, isAl := in.(*ssa.Alloc); isAl && namedOf(al.Type()) != nil && a.CS != nil && namedOf(al.Type()).Obj() == a.CS.Obj() {
				st := storesInto(al)
				ro := w.Roles()
				if v, has := st[ro.StreamCh]; has && origin(v) == ssa.Value(a.Allocate.Params[0]) {
					if s, has2 := st[ro.StreamCarrier]; has2 {
						if fr, base, isF := loadedField(s); isF && w.isCarrierType(s.Type()) && fr.Type == a.Ch.Obj().Name() && origin(base) == ssa.Value(a.Allocate.Params[0]) {
							okS = true
						}
					}
				}
			}
		})
		c.check(okS, r4, w.Short(a.Allocate)+": stream bound to this channel and its carrier", posOf(w, a.Allocate), "ch: c, stream: c.stream", "the new stream is not bound to the channel it is created on and that channel's carrier")
	}
	rulePick(c, r4)
	type path struct{ fn, src, ctor string }
	for _, p := range []path{
		{"(*pendingChannel).Start", "google.golang.org/grpc/metadata.FromOutgoingContext", "newTunnelChannel"},
		{"newReverseChannel", "google.golang.org/grpc/metadata.FromIncomingContext", "newTunnelChannel"},
		{"(*TunnelServiceHandler).openTunnel", "google.golang.org/grpc/metadata.FromIncomingContext", "serveTunnel"},
		{"(*ReverseTunnelServer).Serve", "google.golang.org/grpc/metadata.FromOutgoingContext", "serveTunnel"},
	} {
		fn := w.roleFunc(p.fn)
		if fn == nil {
			c.fail(r5, p.fn, "-", "not found")
			continue
		}
		ok := false
		var why string
		allInstrs(fn, func(in ssa.Instruction) {
			call, isC := in.(*ssa.Call)
			if !isC {
				return
			}
			if !w.isRoleCall(call, p.ctor) {
				return
			}
			var mdArg ssa.Value
			for _, fa := range flatArgs(call) { // parameters may be bundled into a struct
				if typeIs(fa.Type(), "grpc/metadata", "MD") {
					mdArg = fa
				}
			}
			if mdArg == nil {
				why = "no metadata argument"
				return
			}
			md := origin(mdArg)
			ex, isEx := md.(*ssa.Extract)
			if !isEx {
				why = "metadata argument is " + desc(md)
				return
			}
			src, isS := ex.Tuple.(*ssa.Call)
			if !isS || calleeName(src) != p.src {
				why = "metadata comes from " + desc(ex.Tuple)
				return
			}
			// context: stream.Context() of the carrier, or the ctx the carrier was opened with
			d := desc(src.Call.Args[0])
			switch {
			case strings.HasSuffix(d, ".Context()"):
				ok = true // the carrier stream's own context: includes what interceptors added
			case p.fn == "(*ReverseTunnelServer).Serve" && isAppendOfParamCtx(src.Call.Args[0], fn):
				ok = true // documented limitation of Serve (source comment: no access to interceptor-added metadata)
			default:
				why = "metadata read from context " + d + " instead of the carrier stream's Context()"
			}
		})
		c.check(ok, r5, p.fn+": opening metadata captured from the carrier's context", posOf(w, fn), p.src[strings.LastIndex(p.src, ".")+1:]+"(carrier context) -> "+p.ctor, "the tunnel metadata handed to "+p.ctor+" is not "+p.src+" of the context the carrier was opened with ("+why+")")
	}
	// the channel stores what it was given and Context() derives from the carrier
	if ntc := w.roleFunc("newTunnelChannel"); ntc != nil {
		ok := false
		okCtx := false
		allInstrs(ntc, func(in ssa.Instruction) {
			if al, isAl := in.(*ssa.Alloc); isAl && a.Ch != nil && namedOf(al.Type()) != nil && namedOf(al.Type()).Obj() == a.Ch.Obj() {
				st := storesInto(al)
				if v, has := st[w.Roles().ChTunnelMetadata]; has {
					// one of the constructor's inputs (a parameter, or a field of a bundle of parameters) of metadata type
					if inp := inputOf(ntc, v); inp != nil && typeIs(inp.T, "grpc/metadata", "MD") {
						ok = true
					}
				}
				for _, v := range st {
					if !strings.HasSuffix(types.TypeString(v.Type(), nil), "context.Context") {
						continue
					}
					steps, root := ctxChain(v)
					if stepNames(steps) == "WithCancel" && strings.HasSuffix(desc(root), ".Context()") {
						okCtx = true
					}
				}
			}
		})
		c.check(ok, r5, "newTunnelChannel: stores the opening metadata it was given", posOf(w, ntc), "tunnelMetadata: tunnelMetadata", "the channel does not store the opening metadata parameter")
		c.check(okCtx, r5, "newTunnelChannel: channel context derives from the carrier's", posOf(w, ntc), "WithCancel(stream.Context())", "the channel's context is not WithCancel of the carrier stream's context: peer, metadata and interceptor values of the opening call are lost, and the opening context's end no longer closes the channel")
	}
}

// ---------- C18 ----------

func ruleTimeoutParser(c *Ctx, r1, r2, r3 string) {
	c.rule(r1, "unit table: H, M, S, m, u, n map to hour, minute, second, millisecond, microsecond, nanosecond; any other unit means no timeout")
	c.rule(r2, "overflow freedom: the multiplication value x unit is dominated by the guard value <= MaxInt64/unit, whose other edge returns the maximum duration (saturation) with ok == true")
	c.rule(r3, "malformed => rejected: the number is parsed with an unsigned base-10 parser (digits only, no sign or spaces) and the parse is dominated by 2 <= len(header) <= 9 (at most 8 digits plus the unit); every rejection returns ok == false")
	w := c.W
	a := w.Anchors()
	if !c.need(r1, "TimeoutParse", a.TimeoutParse) {
		return
	}
	fn := a.TimeoutParse
	name := w.Short(fn)
	// the header string: vals[len(vals)-1] (or vals[0])
	var hdr ssa.Value
	allInstrs(fn, func(in ssa.Instruction) {
		if u, ok := in.(*ssa.UnOp); ok && u.Op == token.MUL {
			if ia, ok := u.X.(*ssa.IndexAddr); ok {
				if call, ok := ia.X.(*ssa.Call); ok && calleeName(call) == "(google.golang.org/grpc/metadata.MD).Get" && desc(call.Call.Args[1]) == "\"grpc-timeout\"" {
					hdr = u
				}
			}
		}
	})
	// the header value may be handed to a helper that decodes it: its parameter stands for the same string
	isHdr := func(v ssa.Value) bool { return v != nil && hdr != nil && (v == hdr || origin(v) == hdr) }
	if hdr == nil {
		c.fail(r1, name+": reads the grpc-timeout header", posOf(w, fn), "the parser does not read a value of the grpc-timeout key")
		return
	}
	// unit phi
	var unit *ssa.Phi
	var mul *ssa.BinOp
	allInstrs(fn, func(in ssa.Instruction) {
		if b, ok := in.(*ssa.BinOp); ok && b.Op == token.MUL && strings.HasSuffix(types.TypeString(b.Type(), nil), "time.Duration") {
			mul = b
		}
	})
	if mul == nil {
		c.fail(r2, name+": value x unit", posOf(w, fn), "no Duration multiplication found: unrecognised parser shape")
		return
	}
	var val ssa.Value
	for _, op := range []ssa.Value{mul.X, mul.Y} {
		if p, ok := op.(*ssa.Phi); ok {
			unit = p
		} else {
			val = op
		}
	}
	var mapTable map[int64]int64
	if unit == nil {
		// map-literal form: unit, ok := map[byte]time.Duration{...}[s[len(s)-1]]; if !ok { return 0, false }
		for _, op := range []ssa.Value{mul.X, mul.Y} {
			ex, isEx := op.(*ssa.Extract)
			if !isEx || ex.Index != 0 {
				continue
			}
			lk, isL := ex.Tuple.(*ssa.Lookup)
			if !isL || !lk.CommaOk {
				continue
			}
			mk, isMk := origin(lk.X).(*ssa.MakeMap)
			good := true
			if !isMk {
				// a package-level table (`var timeoutUnits = map[byte]time.Duration{…}`): built once by the package
				// initialiser and only ever read
				mk = w.readOnlyGlobalMap(lk.X)
				if mk == nil {
					continue
				}
			}
			tbl := map[int64]int64{}
			for _, r := range *mk.Referrers() {
				if mu, isMU := r.(*ssa.MapUpdate); isMU {
					k, okK := constInt(mu.Key)
					v, okV := constInt(mu.Value)
					if !okK || !okV || (mu.Parent() == lk.Parent() && !dominates(mu, lk)) {
						good = false
					}
					tbl[k] = v
				}
			}
			// index = last character; product only when ok
			okIdx := false
			switch ix := lk.Index.(type) {
			case *ssa.Index:
				okIdx = isHdr(ix.X)
			case *ssa.Lookup:
				okIdx = isHdr(ix.X)
			}
			okGuard := false
			for _, f := range boolFactsAt(mul) {
				if e2, isE := f.V.(*ssa.Extract); isE && e2.Tuple == ssa.Value(lk) && e2.Index == 1 && f.True {
					okGuard = true
				}
			}
			if good && okIdx && okGuard {
				mapTable = tbl
				val = mul.X
				if op == mul.X {
					val = mul.Y
				}
			}
		}
		if mapTable == nil {
			// helper form: unit, ok := unitOf(s[len(s)-1]); if !ok { return 0, false } with unitOf a pure table function
			for _, op := range []ssa.Value{mul.X, mul.Y} {
				ex, isEx := op.(*ssa.Extract)
				if !isEx || ex.Index != 0 {
					continue
				}
				hc, isC := ex.Tuple.(*ssa.Call)
				if !isC {
					continue
				}
				h := helperCallee(hc)
				if h == nil || len(h.Params) != 1 || len(hc.Call.Args) != 1 || h.Signature.Results().Len() != 2 {
					continue
				}
				tbl := map[int64]int64{}
				good := true
				allInstrsLocal(h, func(in ssa.Instruction) {
					ret, isR := in.(*ssa.Return)
					if !isR || len(ret.Results) != 2 {
						return
					}
					for _, leafOK := range phiLeaves(ret.Results[1]) {
						if isConstBool(leafOK, false) {
							continue
						}
						if !isConstBool(leafOK, true) {
							good = false
							continue
						}
						k, isK := constInt(ret.Results[0])
						ch := int64(-1)
						for _, f := range factsAt(ret) {
							x, cop, y, okF := cmpFact(f)
							if okF && cop == token.EQL && stripConv(x) == ssa.Value(h.Params[0]) {
								if kk, isKK := constInt(y); isKK {
									ch = kk
								}
							}
						}
						if !isK || ch < 0 {
							good = false
							continue
						}
						tbl[ch] = k
					}
				})
				okIdx := false
				switch ix := hc.Call.Args[0].(type) {
				case *ssa.Index:
					okIdx = isHdr(ix.X)
				case *ssa.Lookup:
					okIdx = isHdr(ix.X)
				}
				okGuard := false
				for _, f := range boolFactsAt(mul) {
					if e2, isE := f.V.(*ssa.Extract); isE && e2.Tuple == ssa.Value(hc) && e2.Index == 1 && f.True {
						okGuard = true
					}
				}
				if good && okIdx && okGuard && len(tbl) > 0 {
					mapTable = tbl
					val = mul.X
					if op == mul.X {
						val = mul.Y
					}
				}
			}
		}
		if mapTable == nil {
			c.fail(r1, name+": unit selected by a switch", w.At(mul), "the unit operand of the multiplication is "+desc(mul.Y)+", not a value selected per unit character (switch/if chain or a constant map literal indexed by the last character and guarded by its ok result)")
			return
		}
	}
	want := map[int64]int64{'H': 3600000000000, 'M': 60000000000, 'S': 1000000000, 'm': 1000000, 'u': 1000, 'n': 1}
	got := map[int64]int64{}
	var unitV ssa.Value
	var unitAt ssa.Instruction = mul
	if unit != nil {
		unitV, unitAt = unit, unit
	} else {
		for _, op := range []ssa.Value{mul.X, mul.Y} {
			if op != val {
				unitV = op
			}
		}
		for k, v := range mapTable {
			got[k] = v
		}
	}
	var edges []ssa.Value
	if unit != nil {
		edges = unit.Edges
	}
	for i, e := range edges {
		k, isK := constInt(e)
		if !isK {
			c.fail(r1, name+": unit value", w.At(unitAt), "a unit is "+desc(e)+", not a constant")
			continue
		}
		pred := unit.Block().Preds[i]
		facts := factsAt(pred.Instrs[len(pred.Instrs)-1])
		if ef, has := edgeFact(pred, unit.Block()); has {
			facts = append(facts, ef)
		}
		ch := int64(-1)
		for _, f := range facts {
			x, op, y, ok := cmpFact(f)
			if !ok || op != token.EQL {
				continue
			}
			if kk, isKK := constInt(y); isKK {
				// x = hdr[len-1]
				if lk, isL := x.(*ssa.Lookup); isL && isHdr(lk.X) {
					ch = kk
				}
				if ix, isI := x.(*ssa.Index); isI && isHdr(ix.X) {
					ch = kk
				}
			}
		}
		if ch < 0 {
			c.fail(r1, name+": unit character", w.At(unitAt), fmt.Sprintf("cannot determine which character selects the unit value %d", k))
			continue
		}
		got[ch] = k
	}
	for ch, v := range want {
		c.check(got[ch] == v, r1, fmt.Sprintf("%s: unit %q", name, rune(ch)), w.At(unitAt), fmt.Sprintf("%q -> %d ns", rune(ch), got[ch]), fmt.Sprintf("unit %q maps to %d ns, the gRPC specification says %d ns", rune(ch), got[ch], v))
	}
	for ch := range got {
		if _, ok := want[ch]; !ok {
			c.fail(r1, fmt.Sprintf("%s: unit %q", name, rune(ch)), w.At(unitAt), fmt.Sprintf("%q is accepted as a unit, the specification has no such unit", rune(ch)))
		}
	}
	// the unit character is the last byte
	okLast := false
	allInstrs(fn, func(in ssa.Instruction) {
		var xv, iv ssa.Value
		switch y := in.(type) {
		case *ssa.Lookup:
			xv, iv = y.X, y.Index
		case *ssa.Index:
			xv, iv = y.X, y.Index
		default:
			return
		}
		if !isHdr(xv) {
			return
		}
		if b, ok := iv.(*ssa.BinOp); ok && b.Op == token.SUB {
			if lc, ok := b.X.(*ssa.Call); ok && calleeName(lc) == "builtin.len" && isHdr(lc.Call.Args[0]) {
				if k, _ := constInt(b.Y); k == 1 {
					okLast = true
				}
			}
		}
	})
	c.check(okLast, r1, name+": unit is the last character", w.At(unitAt), "s[len(s)-1]", "the unit is not taken from the last character of the header")
	// ---- r3: parse
	var parse *ssa.Call
	allInstrs(fn, func(in ssa.Instruction) {
		if call, ok := in.(*ssa.Call); ok && strings.HasPrefix(calleeName(call), "strconv.") {
			parse = call
		}
	})
	if parse == nil {
		c.fail(r3, name+": numeric parse", posOf(w, fn), "no strconv parse found: unrecognised parser shape")
		return
	}
	pn := calleeName(parse)
	okP := pn == "strconv.ParseUint"
	if okP {
		b, _ := constInt(parse.Call.Args[1])
		okP = b == 10
		if sz, isSz := constInt(parse.Call.Args[2]); !isSz || sz != 64 {
			okP = false // a narrower size rejects legal 8-digit values; an invalid size rejects everything
		}
	}
	c.check(okP, r3, name+": unsigned base-10 parse", w.At(parse), pn+"(digits, 10, 64)", pn+" accepts a sign (and, for base 0, prefixes/underscores): '-1S' yields a negative duration and expires at once, '+5S' is accepted although malformed")
	// argument = hdr[:len-1]
	okArg := false
	if sl, ok := parse.Call.Args[0].(*ssa.Slice); ok && isHdr(sl.X) && sl.Low == nil {
		if b, ok := sl.High.(*ssa.BinOp); ok && b.Op == token.SUB {
			if k, _ := constInt(b.Y); k == 1 {
				okArg = true
			}
		}
	}
	c.check(okArg, r3, name+": digits are everything before the unit", w.At(parse), "s[:len(s)-1]", "the parsed substring is "+desc(parse.Call.Args[0])+", not the header without its last character")
	// length bounds
	lo, hi := int64(0), int64(1<<62)
	for _, f := range factsAt(parse) {
		x, op, y, ok := cmpFact(f)
		if !ok {
			continue
		}
		lc, isL := x.(*ssa.Call)
		k, isK := constInt(y)
		if !isL || !isK || calleeName(lc) != "builtin.len" || !isHdr(lc.Call.Args[0]) {
			continue
		}
		switch op {
		case token.GEQ:
			if k > lo {
				lo = k
			}
		case token.GTR:
			if k+1 > lo {
				lo = k + 1
			}
		case token.LEQ:
			if k < hi {
				hi = k
			}
		case token.LSS:
			if k-1 < hi {
				hi = k - 1
			}
		}
	}
	c.check(lo >= 2, r3, name+": at least one digit and a unit", w.At(parse), fmt.Sprintf("len >= %d", lo), fmt.Sprintf("the parse is dominated only by len >= %d: a bare unit or empty value slices out of range or is accepted", lo))
	c.check(hi <= 9, r3, name+": at most 8 digits", w.At(parse), fmt.Sprintf("len <= %d", hi), "the parse is not dominated by len(header) <= 9: the specification allows at most 8 digits, and longer values are malformed (and can overflow)")
	// ... and nothing that IS well-formed is rejected (r1: exactly that duration): one digit plus unit up to eight digits plus unit
	c.check(lo <= 2 && hi >= 9, r1, name+": every well-formed length is parsed", w.At(parse), fmt.Sprintf("%d <= len <= %d", lo, hi), fmt.Sprintf("the parse is reached only for %d <= len(header) <= %d: the specification allows 1 to 8 digits plus the unit (2..9), so valid headers such as \"5S\" or \"99999999m\" are ignored and the handler runs without its deadline", lo, hi))
	// the header value is read whenever the key has at least one value
	vlo := int64(0)
	var valsCall ssa.Value
	if u, isU := hdr.(*ssa.UnOp); isU {
		if ia, isIA := u.X.(*ssa.IndexAddr); isIA {
			valsCall = ia.X
		}
	}
	if hi2, isI := hdr.(ssa.Instruction); isI && valsCall != nil {
		for _, f := range factsAt(hi2) {
			x, op, y, ok := cmpFact(f)
			if !ok {
				continue
			}
			lc, isL := x.(*ssa.Call)
			k, isK := constInt(y)
			if !isL || !isK || calleeName(lc) != "builtin.len" || lc.Call.Args[0] != valsCall {
				continue
			}
			switch op {
			case token.GEQ:
				if k > vlo {
					vlo = k
				}
			case token.GTR, token.NEQ:
				if k+1 > vlo {
					vlo = k + 1
				}
			case token.EQL:
				vlo = 1 << 30 // only a fixed count accepted
				if k == 1 {
					vlo = 1
				}
			}
		}
		c.check(vlo <= 1, r1, name+": a single header value is enough", w.At(hi2), fmt.Sprintf("read when len(values) >= %d", vlo), fmt.Sprintf("the header is read only when the key has at least %d values: the usual single grpc-timeout value is ignored and the handler runs without its deadline", vlo))
	}
	// parse error -> false
	errV := extractOf(parse, 1)
	okErr := false
	for _, ret := range w.returnsThrough(fn) {
		t := returnTuple(ret)
		for _, f := range factsAt(ret) {
			if x, op, y, ok := cmpFact(f); ok && op == token.NEQ && x == errV && isNilConst(y) {
				okErr = isConstBool(t[1], false)
			}
		}
	}
	c.check(okErr, r3, name+": parse failure rejects the header", w.At(parse), "err != nil -> (0, false)", "a failed numeric parse does not reject the header")
	// every (x, true) return is either the product or the saturated maximum
	pv := extractOf(parse, 0)
	for _, ret := range w.returnsThrough(fn) {
		t := returnTuple(ret)
		if t[0] == ssa.Value(mul) && (t[1] == nil || !isConstBool(t[1], true)) {
			c.fail(r1, fmt.Sprintf("%s: the computed duration is accepted", name), w.At(ret), "the return that yields value x unit does not report ok == true: every well-formed header is ignored")
			continue
		}
		if t[1] == nil || !isConstBool(t[1], true) {
			continue
		}
		key := fmt.Sprintf("%s: accepted return in block %d", name, ret.Block().Index)
		if t[0] == ssa.Value(mul) {
			c.ok(r3, key, w.At(ret), "returns value x unit")
			continue
		}
		if k, isK := constInt(t[0]); isK && k == 9223372036854775807 {
			c.ok(r3, key, w.At(ret), "returns the saturated maximum")
			continue
		}
		c.fail(r3, key, w.At(ret), "a header is accepted with duration "+desc(t[0])+", which is neither value x unit nor the saturated maximum")
	}
	// ---- r2: overflow guard
	okVal := false
	if cv, ok := val.(*ssa.Convert); ok && cv.X == pv {
		okVal = true
	}
	c.check(okVal, r2, name+": multiplies the parsed value", w.At(mul), "Duration(value) * unit", "the multiplication's value operand is "+desc(val)+", not the parsed number")
	guard := false
	var guardIf *ssa.If
	for _, f := range factsAt(mul) {
		x, op, y, ok := cmpFact(f)
		if !ok || x != pv || op != token.LEQ {
			continue
		}
		// y = conv(MaxInt64 / unit)
		yv := y
		if cv, ok := yv.(*ssa.Convert); ok {
			yv = cv.X
		}
		if q, ok := yv.(*ssa.BinOp); ok && q.Op == token.QUO && q.Y == unitV {
			if k, isK := constInt(q.X); isK && k == 9223372036854775807 {
				guard = true
				guardIf = ifOn(f.Cond)
			}
		}
	}
	c.check(guard, r2, name+": product cannot overflow", w.At(mul), "dominated by value <= MaxInt64/unit", "value x unit is not dominated by the guard value <= MaxInt64/unit: large values (e.g. 99999999H, or 2562048H) wrap around to a negative or tiny duration and the handler's context expires at once")
	if guardIf != nil {
		// the other edge saturates
		sat := false
		for _, ret := range w.returnsThrough(fn) {
			t := returnTuple(ret)
			for _, f := range factsAt(ret) {
				if f.Cond == guardIf.Cond {
					if k, isK := constInt(t[0]); isK && k == 9223372036854775807 && isConstBool(t[1], true) {
						sat = true
					}
				}
			}
		}
		c.check(sat, r2, name+": overflow saturates", w.At(guardIf), "value > MaxInt64/unit -> (MaxInt64, true)", "on the overflow edge the parser does not return the maximum duration with ok == true (the specification requires saturation, not rejection or wrap-around)")
	}
	// unit values are positive (division by zero impossible)
	pos := true
	for _, v := range got {
		if v <= 0 {
			pos = false
		}
	}
	c.check(pos && len(got) > 0, r2, name+": units are positive", w.At(unitAt), "all unit constants > 0", "a unit constant is not positive: division by zero or a negated duration")
}

// isAppendOfParamCtx: v == metadata.AppendToOutgoingContext(<ctx parameter of fn>, ...)
func isAppendOfParamCtx(v ssa.Value, fn *ssa.Function) bool {
	call, ok := origin(v).(*ssa.Call)
	if !ok || calleeName(call) != "google.golang.org/grpc/metadata.AppendToOutgoingContext" {
		return false
	}
	p, ok := origin(call.Call.Args[0]).(*ssa.Parameter)
	if ok && p.Parent() == fn {
		return true
	}
	// the append lives in a helper shared by the opening paths: then the helper's parameter must receive fn's ctx parameter
	if ok && p.Parent() == call.Parent() && call.Parent() != fn {
		h := call.Parent()
		good := false
		allInstrsLocal(fn, func(in ssa.Instruction) {
			hc, isC := in.(*ssa.Call)
			if !isC || staticCallee(hc) != h {
				return
			}
			for i, hp := range h.Params {
				if hp == p && i < len(hc.Call.Args) {
					if fp, isP := origin(hc.Call.Args[i]).(*ssa.Parameter); isP && fp.Parent() == fn {
						good = true
					}
				}
			}
		})
		return good
	}
	return false
}

// publishedByOnce: every write of the field is inside a function literal passed directly to Do of ONE sync.Once field,
// and every read is inside such a literal or dominated by a Do call on that same Once (sync.Once gives the
// happens-before edge from the end of the first Do's function to the return of every Do).
func publishedByOnce(accs []*FieldAccess) (string, bool) {
	onceOf := func(fn *ssa.Function) (FieldRef, bool) {
		// fn is the literal of exactly one MakeClosure that is the argument of a Once.Do call
		p := fn.Parent()
		if p == nil {
			return FieldRef{}, false
		}
		var fr FieldRef
		found := 0
		allInstrs(p, func(in ssa.Instruction) {
			call, ok := in.(*ssa.Call)
			if !ok || calleeName(call) != "(*sync.Once).Do" || len(call.Call.Args) != 2 {
				return
			}
			if mc, isM := call.Call.Args[1].(*ssa.MakeClosure); isM && mc.Fn == ssa.Value(fn) {
				if f, _, okF := fieldOfAddr(call.Call.Args[0]); okF {
					fr = f
					found++
				}
			}
		})
		return fr, found == 1
	}
	var once FieldRef
	have := false
	for _, a := range accs {
		if !a.Write {
			continue
		}
		fr, ok := onceOf(a.Fn)
		if !ok || (have && fr != once) {
			return "", false
		}
		once, have = fr, true
	}
	if !have {
		return "", false
	}
	for _, a := range accs {
		if a.Write {
			continue
		}
		if fr, ok := onceOf(a.Fn); ok && fr == once {
			continue
		}
		dominated := false
		allInstrs(a.Fn, func(in ssa.Instruction) {
			call, ok := in.(*ssa.Call)
			if !ok || calleeName(call) != "(*sync.Once).Do" || len(call.Call.Args) != 2 {
				return
			}
			if f, _, okF := fieldOfAddr(call.Call.Args[0]); okF && f == once && dominates(call, a.Instr) {
				dominated = true
			}
		})
		if !dominated {
			return "", false
		}
	}
	return "written only inside " + once.String() + ".Do and read only after a Do call on it (sync.Once happens-before)", true
}

// streamFlagRole: the role a field of the client stream plays among the two streaming flags (today: by its name, as the
// server-side flag rules do).
func (c *Ctx) streamFlagRole(field string) string { return field }

// readOnlyGlobalMap: v is a load of a package-level map variable that the package initialiser fills from a map literal and
// that nothing else writes (no other store to the variable, and every other use of its value is a lookup, len or range):
// the literal's MakeMap.
func (w *World) readOnlyGlobalMap(v ssa.Value) *ssa.MakeMap {
	u, ok := stripConv(v).(*ssa.UnOp)
	if !ok || u.Op != token.MUL {
		return nil
	}
	g, ok := u.X.(*ssa.Global)
	if !ok || g.Pkg == nil {
		return nil
	}
	var mk *ssa.MakeMap
	nStores := 0
	bad := false
	fns := append([]*ssa.Function{}, w.Funcs...)
	if init := g.Pkg.Func("init"); init != nil {
		fns = append(fns, init)
	}
	seen := map[*ssa.Function]bool{}
	for _, f := range fns {
		if seen[f] {
			continue
		}
		seen[f] = true
		allInstrsLocal(f, func(in ssa.Instruction) {
			// any other use of the variable's address (taken, passed on) could write it
			for _, op := range in.Operands(nil) {
				if *op == ssa.Value(g) {
					st, isSt := in.(*ssa.Store)
					ld, isLd := in.(*ssa.UnOp)
					if !(isSt && st.Addr == ssa.Value(g) && st.Val != ssa.Value(g)) && !(isLd && ld.Op == token.MUL) {
						bad = true
					}
				}
			}
			switch x := in.(type) {
			case *ssa.Store:
				if x.Addr == ssa.Value(g) {
					nStores++
					if m, isM := x.Val.(*ssa.MakeMap); isM && f.Name() == "init" {
						mk = m
					} else {
						bad = true
					}
				}
			case *ssa.UnOp:
				if x.Op == token.MUL && x.X == ssa.Value(g) {
					for _, r := range *x.Referrers() {
						switch y := r.(type) {
						case *ssa.Lookup, *ssa.Range, *ssa.DebugRef:
						case *ssa.Call:
							if calleeName(y) != "builtin.len" {
								bad = true
							}
						default:
							bad = true
						}
					}
				}
			}
		})
	}
	if bad || nStores != 1 || mk == nil {
		return nil
	}
	// the literal itself is only filled and stored
	for _, r := range *mk.Referrers() {
		switch x := r.(type) {
		case *ssa.MapUpdate, *ssa.DebugRef:
		case *ssa.Store:
			if x.Addr != ssa.Value(g) {
				return nil
			}
		default:
			return nil
		}
	}
	return mk
}

// stripConvKeepIface: v itself (MakeInterface is what carries a context key's type; stripConv would remove it).
func stripConvKeepIface(v ssa.Value) ssa.Value { return v }
