package main

// rules_life.go: stream/tunnel lifecycle rules (C04.*, C08.*, C10.*, C14.*).

import (
	"fmt"
	"go/token"
	"go/types"
	"sort"
	"strings"

	"golang.org/x/tools/go/ssa"
)

// newStreamEmit: the new_stream emit site.
func (c *Ctx) newStreamEmit() *EmitSite {
	for _, e := range c.emitSeq() {
		if e.Kind == "ClientToServer_NewStream" && e.Send != nil {
			return e
		}
	}
	return nil
}

// ruleAllocSendAtomic (C08.1) + C08.2 + C08.3.
func ruleClientIDs(c *Ctx, r1, r2, r3 string) {
	c.rule(r1, "one mutex is held continuously across the call that allocates the stream id and the carrier send of new_stream, so ids reach the wire in increasing order")
	c.rule(r2, "the id counter is written only by +1 in the allocation function under the channel mutex; the stream's id is the post-increment value; the increment cannot wrap: the counter is tested to be below the maximum before it (or the incremented value is tested before use), failing the RPC otherwise")
	c.rule(r3, "the stream object reaches the caller only after the new_stream send succeeded; on failure its table entry is removed; the context watcher (which may emit cancel) is started only after that send")
	w := c.W
	a := w.Anchors()
	lf := w.Locks()
	if !c.need(r1, "NewStream", a.NewStream) || !c.need(r1, "Allocate", a.Allocate) {
		return
	}
	fn := a.NewStream
	e := c.newStreamEmit()
	var alloc *ssa.Call
	allInstrs(fn, func(in ssa.Instruction) {
		if call, ok := in.(*ssa.Call); ok && staticCallee(call) == a.Allocate {
			alloc = call
		}
	})
	if e == nil || alloc == nil || e.Fn != fn {
		c.fail(r1, w.Short(fn)+": allocation call and new_stream send in one function", w.Pos(fn.Pos()), "cannot find both the allocation call and the new_stream send in the stream-creation function")
		return
	}
	send := e.Send
	common := intersect(lf.relMust[alloc], lf.relMust[send])
	var held string
	for _, l := range common.list() {
		cont := true
		allInstrs(fn, func(in ssa.Instruction) {
			if ci, ok := in.(*ssa.Call); ok {
				if op, ok := lockOpOf(ci); ok && op.kind == "unlock" && op.id == l && reaches(alloc, in) && reaches(in, send) {
					cont = false
				}
			}
		})
		if cont {
			held = l
		}
	}
	c.check(held != "", r1, w.Short(fn)+": id allocation and first send in one critical section", w.At(send), "held continuously: "+held, "no mutex is held continuously from the id allocation to the carrier send of new_stream (at allocation "+lf.relMust[alloc].String()+", at send "+lf.relMust[send].String()+"): two goroutines can put ids on the wire out of order, which the server answers by ending the tunnel")
	c.check(dominates(alloc, send), r1, w.Short(fn)+": allocation precedes the send", w.At(send), "dominates", "the new_stream send is not dominated by the allocation")
	// the stream is registered before its first frame goes out (the peer may answer at once)
	okReg := false
	if a.Allocate != nil && tableInsert(a.Allocate, a.ChStreams) != nil && staticCallee(alloc) == a.Allocate {
		okReg = dominates(alloc, send)
	}
	c.check(okReg, r3, w.Short(fn)+": stream registered in the table before new_stream is sent", w.At(send), "table insert (in the allocation call) dominates the send", "the stream is inserted into the channel's table only after new_stream was sent: response frames that arrive in between find no entry, are classified as late frames of a finished stream and are silently dropped")

	// ---- C08.2
	al := a.Allocate
	ins := tableInsert(al, a.ChStreams)
	if ins == nil {
		c.fail(r2, "table insert", "-", "not found")
		return
	}
	keyLoad, ok := origin(ins.Key).(*ssa.UnOp)
	var counter FieldRef
	if ok {
		counter, _, ok = fieldOfAddr(keyLoad.X)
	}
	if !ok || counter.Type != a.Ch.Obj().Name() {
		c.fail(r2, "id counter", w.At(ins), "the table key "+desc(ins.Key)+" is not a load of a counter field of the channel")
		return
	}
	nStores := 0
	for _, f := range w.Funcs {
		for _, st := range storesToField(f, counter) {
			if st.Parent() != f {
				continue // a store in a helper used only here: visited with that helper, attributed to its user below
			}
			if fa, ok := st.Addr.(*ssa.FieldAddr); ok && freshAllocStrict(fa.X) {
				continue
			}
			nStores++
			f := regionRoot(f) // the function the (single-use) helper belongs to
			key := "write of " + counter.String() + " in " + w.Short(f)
			b, isB := st.Val.(*ssa.BinOp)
			one := false
			if isB && b.Op == token.ADD && isFieldLoad(b.X, counter) {
				k, isK := constInt(b.Y)
				one = isK && k == 1
			}
			c.check(f == al && one, rule2or(r2), key+": increment by one in the allocation function", w.At(st), counter.Field+"++", "the id counter is written as "+desc(st.Val)+" in "+w.Short(f)+": ids could repeat or go backwards")
			c.check(lf.MustAt(st).has(a.Ch.Obj().Name()+".mu") || len(perStreamLocks(lf.MustAt(st), a.Ch)) > 0, r2, key+": under the channel mutex", w.At(st), lf.MustAt(st).String(), "the id counter is incremented with no channel mutex held: two RPCs can get the same id")
			if f == al {
				c.check(dominates(st, keyLoad) && dominates(st, ins), r2, key+": the stream gets the post-increment value", w.At(st), "increment dominates the read used as id/key", "the id is read before the increment: two consecutive RPCs could share an id")
				// overflow guard
				guard := false
				for _, ft := range factsAt(st) {
					x, op, y, isCmp := cmpFact(ft)
					if !isCmp {
						continue
					}
					k, isK := constInt(y)
					// the counter is below the maximum before it is incremented (testing it for >= 0 here would only
					// notice a counter that has ALREADY wrapped, i.e. after one negative id was used)
					if isFieldLoad(x, counter) && isK && ((op == token.NEQ && k == 9223372036854775807) || (op == token.LSS && k == 9223372036854775807) || (op == token.LEQ && k == 9223372036854775806)) {
						guard = true
					}
				}
				if !guard {
					// ... or the incremented value is tested before it is used as table key
					for _, ft := range factsAt(ins) {
						x, op, y, isCmp := cmpFact(ft)
						if !isCmp {
							continue
						}
						k, isK := constInt(y)
						if isK && ((op == token.GEQ && k == 0) || (op == token.GTR && k <= 0 && k >= -1)) {
							if ld, isL := origin(x).(*ssa.UnOp); isL && isFieldLoad(ld, counter) && dominates(st, ld) {
								guard = true
							}
							if origin(x) == origin(st.Val) {
								guard = true
							}
						}
					}
				}
				c.check(guard, r2, key+": the increment cannot wrap", w.At(st), "counter below the maximum before the increment (or the incremented value tested before use)", "the id counter can be incremented from MaxInt64: the wrapped, negative id is used for one RPC (a test for 'counter < 0' BEFORE the increment only notices the wrap one RPC later); a conforming server refuses the id and ends the tunnel with every in-flight RPC")
			}
		}
	}
	c.floor(r2, nStores, 1, "writes of the id counter")
	// the id field gets the same value
	if idf, okID := idFieldOf(al, a.ChStreams); okID {
		c.ok(r2, "stream id field = table key", w.At(ins), idf.String()+" receives the value used as table key")
	} else {
		c.fail(r2, "stream id field = table key", w.At(ins), "the new stream object does not store the value used as its table key")
	}

	// ---- C08.3
	var sendErr ssa.Value = send.Value()
	for _, ret := range returnsOf(fn) {
		t := returnTuple(ret)
		if len(t) != 2 {
			continue
		}
		key := fmt.Sprintf("%s: return in block %d", w.Short(fn), ret.Block().Index)
		if t[0] != nil && !isNilConst(t[0]) {
			// stream handed out: send must have succeeded
			okSucc := false
			for _, f := range factsAt(ret) {
				if x, op, y, isCmp := cmpFact(f); isCmp && op == token.EQL && stripConv(x) == sendErr && isNilConst(y) {
					okSucc = true
				}
			}
			c.check(okSucc && dominates(send, ret), r3, key+": stream returned only after a successful new_stream send", w.At(ret), "dominated by send error == nil", "the stream is handed to the caller on a path where the new_stream send did not (provably) succeed: later frames would refer to a stream the server never saw")
		} else if allocSucceededAt(alloc, ret) {
			// failure after the stream was registered: entry removed
			rm := false
			csIDf, _, _ := c.streamIDFields()
			allInstrs(fn, func(in ssa.Instruction) {
				if c.isTableRemoval(in, a.ChStreams, csIDf) && dominates(in, ret) {
					rm = true
				}
			})
			c.check(rm, r3, key+": failure after registration removes the table entry", w.At(ret), "removeStream(id) before returning the error", "the RPC fails here after its stream was registered (new_stream send failed, or an early exit between allocation and send) without removing the table entry: it stays in the table for as long as the tunnel lives (leak)")
		}
	}
	// watcher spawn after successful send
	allInstrs(fn, func(in ssa.Instruction) {
		g, ok := in.(*ssa.Go)
		if !ok {
			return
		}
		isWatcher := false
		for _, f := range w.rootCalleesThroughWrappers(g) {
			if len(callsIn(f, func(ci ssa.CallInstruction) bool { return staticCallee(ci) == a.CancelStream })) > 0 {
				isWatcher = true
			}
		}
		if !isWatcher {
			return
		}
		okAfter := false
		for _, f := range factsAt(g) {
			if x, op, y, isCmp := cmpFact(f); isCmp && op == token.EQL && stripConv(x) == sendErr && isNilConst(y) {
				okAfter = true
			}
		}
		c.check(okAfter && dominates(send, g), r3, w.Short(fn)+": context watcher started only after new_stream was sent", w.At(g), "spawn dominated by send error == nil", "the context watcher (which emits a cancel frame) is started before new_stream has been sent: a context cancelled at start can put cancel(id) on the wire before new_stream(id), which the server treats as a protocol error and ends the tunnel")
	})
}

func rule2or(r string) string { return r }

// allocSucceededAt: ret is reached only on paths where the allocation call returned a nil error.
func allocSucceededAt(alloc *ssa.Call, ret ssa.Instruction) bool {
	if !dominates(alloc, ret) {
		return false
	}
	tup, ok := alloc.Type().(*types.Tuple)
	if !ok {
		return false
	}
	errV := extractOf(alloc, tup.Len()-1)
	for _, f := range factsAt(ret) {
		if x, op, y, isCmp := cmpFact(f); isCmp && op == token.EQL && x == errV && isNilConst(y) {
			return true
		}
	}
	return false
}

// freshAllocStrict: base is an Alloc (object under construction) in this function.
func freshAllocStrict(base ssa.Value) bool {
	_, ok := origin(base).(*ssa.Alloc)
	return ok
}

// ruleSingleDispatch (C08.5).
func ruleSingleDispatch(c *Ctx, rule string) {
	c.rule(rule, "single dispatch of exactly the named handler: the method descriptor passed to the dispatch goroutine is the result of looking up this frame's own service and method name (no other source), the service implementation comes from the same lookup, and the dispatch function calls the descriptor's handler exactly once (one call per arm, none in a loop)")
	w := c.W
	a := w.Anchors()
	if !c.need(rule, "Create", a.Create) || !c.need(rule, "Dispatch", a.Dispatch) {
		return
	}
	var spawn *ssa.Go
	allInstrs(a.Create, func(in ssa.Instruction) {
		if g, ok := in.(*ssa.Go); ok {
			for _, f := range w.rootCalleesThroughWrappers(g) {
				if f == a.Dispatch {
					spawn = g
				}
			}
		}
	})
	if spawn == nil {
		c.fail(rule, "dispatch spawn", w.Pos(a.Create.Pos()), "not found")
		return
	}
	args := spawn.Call.Args
	if len(args) != 3 {
		c.fail(rule, "dispatch arguments", w.At(spawn), fmt.Sprintf("%d arguments, expected (stream, descriptor, implementation)", len(args)))
		return
	}
	// descriptor: phi(nil, findMethod(sd, parts[1])) ; sd, svc := services.QueryService(parts[0])
	md := args[1]
	var lookups []*ssa.Call
	var visit func(v ssa.Value, depth int) bool
	visit = func(v ssa.Value, depth int) bool {
		v = stripConv(v)
		if isNilConst(v) {
			return true
		}
		if depth > 6 {
			return false
		}
		if alts, ok := altEdges(v); ok { // phi, or result of a private helper wrapped around the lookup
			saved := append([]*ssa.Call{}, lookups...)
			good := true
			for _, e := range alts {
				if !visit(e, depth+1) {
					good = false
					break
				}
			}
			_, isPhi := v.(*ssa.Phi)
			if good && (isPhi || len(lookups)-len(saved) <= 1) {
				return true
			}
			lookups = saved
			if isPhi {
				return false
			}
			// not a wrapper around one lookup: perhaps the lookup itself, split into typed helpers (below)
		}
		switch x := v.(type) {
		case *ssa.Call:
			if f := staticCallee(x); f != nil && w.inRoot(f) {
				for _, l := range lookups {
					if l == x {
						return true
					}
				}
				lookups = append(lookups, x)
				return true
			}
		}
		return false
	}
	okShape := visit(md, 0) && len(lookups) == 1
	if !okShape {
		c.fail(rule, w.Short(a.Create)+": descriptor comes from one method lookup", w.At(spawn), "the descriptor handed to the dispatch goroutine is "+desc(md)+": it must be the (possibly nil) result of exactly one method lookup for this frame — a cache, default or second source can dispatch another RPC's handler")
		return
	}
	lk := lookups[0]
	d := desc(lk)
	// "not found" is an untyped nil: the lookup's interface result is either the nil interface or the address of a
	// descriptor (never a typed nil pointer boxed into the interface, which passes the caller's nil test / type switch
	// and is then dereferenced)
	if lf := staticCallee(lk); lf != nil {
		if _, isIface := lf.Signature.Results().At(0).Type().Underlying().(*types.Interface); isIface {
			nRet := 0
			forEachReturnValue(lf, 0, func(v ssa.Value, at ssa.Instruction) {
				nRet++
				good := true
				for _, leaf := range phiLeaves(v) {
					lg := isNilConst(leaf)
					if mi, isMI := leaf.(*ssa.MakeInterface); isMI {
						switch stripConv(mi.X).(type) {
						case *ssa.IndexAddr, *ssa.FieldAddr, *ssa.Alloc:
							lg = true
						}
						// a pointer tested non-nil on the way (`if md := findUnaryMethod(…); md != nil { return md }`)
						for _, f := range factsAt(at) {
							if x, op, y, isCmp := cmpFact(f); isCmp && op == token.NEQ && isNilConst(y) && stripConv(x) == stripConv(mi.X) {
								lg = true
							}
						}
					}
					if !lg {
						good = false
					}
				}
				c.check(good, rule, w.Short(lf)+": returns the nil interface or the address of a descriptor", w.At(at), desc(v), "the method lookup returns "+desc(v)+" as interface{}: when that pointer is nil (method not found) the caller receives a NON-nil interface holding a nil pointer, its 'not found' test does not fire and the nil descriptor is dereferenced — an unknown method name panics the receive loop and ends every RPC of the tunnel")
			})
			c.floor(rule, nRet, 1, "return values of the method lookup")
		}
	}
	// lookup(sd, parts[1])
	var q *ssa.Call
	if ex, ok := origin(lk.Call.Args[0]).(*ssa.Extract); ok && ex.Index == 0 {
		q, _ = ex.Tuple.(*ssa.Call)
	}
	okQ := q != nil && strings.HasSuffix(calleeName(q), ".QueryService")
	c.check(okQ, rule, w.Short(a.Create)+": service resolved by QueryService", w.At(lk), d, "the service descriptor given to the method lookup is "+desc(lk.Call.Args[0])+", not the result of QueryService for this frame")
	if okQ {
		// svc argument of dispatch is extract #1 of q
		ex, ok := origin(args[2]).(*ssa.Extract)
		if alts, isAlt := altEdges(origin(args[2])); isAlt && !(ok && ex.Tuple == ssa.Value(q)) {
			// handed through the private helper that wraps the lookup: nil (rejected) or the lookup's second result
			for _, l := range alts {
				if isNilConst(l) {
					continue
				}
				ex, ok = origin(l).(*ssa.Extract)
				if !ok || ex.Tuple != ssa.Value(q) || ex.Index != 1 {
					ok = false
					break
				}
			}
		}
		c.check(ok && ex.Tuple == ssa.Value(q) && ex.Index == 1, rule, w.Short(a.Create)+": implementation from the same service lookup", w.At(spawn), desc(args[2]), "the service implementation passed to the handler is "+desc(args[2])+", not the one returned together with the service descriptor")
		// q's name arg = parts[0], lookup's name arg = parts[1], parts = SplitN(name,"/",2), name derives from frame.MethodName
		p0, p1 := indexOfSplit(q.Call.Args[len(q.Call.Args)-1]), indexOfSplit(lk.Call.Args[1])
		okParts := p0.split != nil && p0.split == p1.split && p0.idx == 0 && p1.idx == 1
		c.check(okParts, rule, w.Short(a.Create)+": service and method are the two halves of one split", w.At(lk), "QueryService(parts[0]), lookup(sd, parts[1])", "service name "+desc(q.Call.Args[len(q.Call.Args)-1])+" and method name "+desc(lk.Call.Args[1])+" are not parts[0]/parts[1] of the same split of the method name")
		if okParts {
			src := desc(p0.split.Call.Args[0])
			sepOK := desc(p0.split.Call.Args[1]) == "\"/\""
			isCut := calleeName(p0.split) == "strings.Cut"
			nOK := int64(2) // Cut splits once
			if !isCut {
				nOK, _ = constInt(p0.split.Call.Args[2])
			}
			fromFrame := false
			if r0, ch0 := fieldChain(stripTrimPrefix(p0.split.Call.Args[0])); len(ch0) == 1 && ch0[0] == "MethodName" {
				if pp, isP := origin(r0).(*ssa.Parameter); isP && pp.Parent() == a.Create {
					fromFrame = true
				}
			}
			c.check(fromFrame && sepOK && nOK == 2, rule, w.Short(a.Create)+": split of this frame's method name", w.At(p0.split), "SplitN("+src+", \"/\", 2)", "the names are split from "+src+" (separator "+desc(p0.split.Call.Args[1])+", n="+fmt.Sprint(nOK)+"), expected this frame's MethodName split once at '/'")
			// len(parts) == 2 guard before use
			g := false
			for _, f := range factsAt(lk) {
				// strings.Cut: dominated by found == true
				if ex, isEx := origin(f.Cond).(*ssa.Extract); isEx && isCut && ex.Tuple == ssa.Value(p0.split) && ex.Index == 2 && f.True {
					g = true
				}
				if x, op, y, ok := cmpFact(f); ok {
					if call, isC := x.(*ssa.Call); isC && calleeName(call) == "builtin.len" && origin(call.Call.Args[0]) == ssa.Value(p0.split) {
						k, _ := constInt(y)
						if op == token.EQL && k == 2 {
							g = true
						}
					}
				}
			}
			c.check(g, rule, w.Short(a.Create)+": malformed names rejected before lookup", w.At(lk), "dominated by len(parts) == 2", "the lookup is not dominated by len(parts) == 2: index out of range on a name without '/'")
		}
	}
	// dispatch: handler calls
	var hs []*ssa.Call
	allInstrs(a.Dispatch, func(in ssa.Instruction) {
		if call, ok := in.(*ssa.Call); ok && staticCallee(call) == nil && !call.Call.IsInvoke() {
			if fr, _, isF := loadedField(call.Call.Value); isF && fr.Field == "Handler" {
				hs = append(hs, call)
			}
		}
	})
	c.check(len(hs) == 2, rule, w.Short(a.Dispatch)+": one handler call per descriptor kind", w.Pos(a.Dispatch.Pos()), "2 handler call sites (unary, streaming)", fmt.Sprintf("%d handler call sites", len(hs)))
	for _, h := range hs {
		c.check(!inLoop(h.Block()), rule, w.Short(a.Dispatch)+": handler not invoked in a loop", w.At(h), "single invocation", "the handler is invoked inside a loop: an RPC could run its handler more than once")
		// the descriptor is the dispatch function's own parameter
		root, _ := fieldChain(h.Call.Value)
		okD := false
		if ex, ok := root.(*ssa.Extract); ok {
			if ta, ok := ex.Tuple.(*ssa.TypeAssert); ok && origin(ta.X) == ssa.Value(a.Dispatch.Params[1]) {
				okD = true
			}
		}
		if ta, ok := root.(*ssa.TypeAssert); ok && origin(ta.X) == ssa.Value(a.Dispatch.Params[1]) {
			okD = true
		}
		c.check(okD, rule, w.Short(a.Dispatch)+": invokes the descriptor it was given", w.At(h), desc(h.Call.Value), "the handler invoked is "+desc(h.Call.Value)+", not the Handler of the descriptor parameter")
	}
	if len(hs) == 2 {
		c.check(!reaches(hs[0], hs[1]) && !reaches(hs[1], hs[0]), rule, w.Short(a.Dispatch)+": handler calls are mutually exclusive", w.At(hs[0]), "different switch arms", "both handler calls can execute for one RPC")
	}
}

type splitIdx struct {
	split *ssa.Call
	idx   int64
}

// indexOfSplit: v == strings.SplitN(...)[k]
func indexOfSplit(v ssa.Value) splitIdx {
	v = origin(v)
	// before, after, found := strings.Cut(name, "/")
	if ex, isEx := v.(*ssa.Extract); isEx && ex.Index < 2 {
		if call, isC := ex.Tuple.(*ssa.Call); isC && calleeName(call) == "strings.Cut" {
			return splitIdx{call, int64(ex.Index)}
		}
	}
	u, ok := v.(*ssa.UnOp)
	if !ok || u.Op != token.MUL {
		return splitIdx{}
	}
	ia, ok := u.X.(*ssa.IndexAddr)
	if !ok {
		return splitIdx{}
	}
	call, ok := origin(ia.X).(*ssa.Call)
	if !ok || (calleeName(call) != "strings.SplitN" && calleeName(call) != "strings.Split") {
		return splitIdx{}
	}
	k, _ := constInt(ia.Index)
	return splitIdx{call, k}
}

// ---------- C04 ----------

func (c *Ctx) chFlags() (finished FieldRef, errF FieldRef, ok bool) {
	a := c.W.Anchors()
	if a.ChClose == nil || a.Ch == nil {
		return
	}
	for _, f := range boolFields(a.Ch) {
		for _, st := range storesToField(a.ChClose, f) {
			if isConstBool(st.Val, true) {
				finished = f
			}
		}
	}
	for _, f := range flatFields(a.Ch) {
		if types.TypeString(f.Type, nil) == "error" {
			errF = FieldRef{a.Ch.Obj().Name(), f.Name}
		}
	}
	ok = finished.Field != "" && errF.Field != ""
	return
}

func isCancelFieldCall(in ssa.Instruction, typeName string) bool {
	ci, ok := in.(ssa.CallInstruction)
	if !ok || staticCallee(ci) != nil || ci.Common().IsInvoke() || !isCancelFunc(ci.Common().Value.Type()) {
		return false
	}
	fr, _, ok := loadedField(ci.Common().Value)
	return ok && fr.Type == typeName
}

func ruleLoopExitsTearDown(c *Ctx, rule string) {
	c.rule(rule, "every exit of the client receive loop is preceded by the channel close (with the error); the server loop's cancellable root context is created from the carrier context and its cancel is deferred before the loop, and the loop returns its error to the caller")
	w := c.W
	a := w.Anchors()
	if !c.need(rule, "ClientLoop", a.ClientLoop) || !c.need(rule, "ServerLoop", a.ServerLoop) || !c.need(rule, "ChClose", a.ChClose) {
		return
	}
	isClose := func(in ssa.Instruction) bool {
		ci, ok := in.(ssa.CallInstruction)
		return ok && staticCallee(ci) == a.ChClose
	}
	n := 0
	for _, ret := range returnsOf(a.ClientLoop) {
		n++
		// is there a path from entry to this return avoiding close?
		esc := pathAvoiding(a.ClientLoop, nil, func(in ssa.Instruction) bool { return in == ssa.Instruction(ret) }, isClose)
		c.check(esc == nil, rule, fmt.Sprintf("%s: exit in block %d closes the channel", w.Short(a.ClientLoop), ret.Block().Index), w.At(ret), "every path to this return calls the channel close", "the receive loop can return here without closing the channel: Done() never fires, in-flight RPCs hang, the registry keeps a dead tunnel")
	}
	c.floor(rule, n, 3, "exits of the client receive loop")
	// close receives the causing error: each close call in the loop passes a non-nil error
	for _, call := range callsIn(a.ClientLoop, func(ci ssa.CallInstruction) bool { return isClose(ci) }) {
		arg := call.Common().Args[1]
		good, why := nonNilErrorPhiAware(arg, call)
		if !good {
			// err from Recv / lookup under err != nil
			for _, f := range factsAt(call) {
				if x, op, y, ok := cmpFact(f); ok && op == token.NEQ && stripConv(x) == stripConv(arg) && isNilConst(y) {
					good = true
				}
			}
		}
		c.check(good, rule, w.Short(a.ClientLoop)+": close carries the cause", w.At(call), "non-nil error", "the channel is closed from the loop with an error that may be nil ("+why+"): Err() would report a clean close")
		// ... and ends the loop function: after the close nothing more is done (no further receive, no use of the frame that
		// was just found to be missing or malformed)
		if ci, isCall := call.(*ssa.Call); isCall {
			again := pathAvoiding(a.ClientLoop, ci, func(in ssa.Instruction) bool {
				if in == ssa.Instruction(ci) || in.Parent() != a.ClientLoop {
					return false
				}
				switch x := in.(type) {
				case *ssa.Call:
					return !strings.HasPrefix(calleeName(x), "builtin.")
				case *ssa.Go, *ssa.Store, *ssa.Send, *ssa.MapUpdate, *ssa.FieldAddr:
					return true
				}
				return false
			}, nil)
			at := w.At(ci)
			if again != nil {
				at = w.At(again)
			}
			c.check(again == nil, rule, w.Short(a.ClientLoop)+": nothing follows the close", at, "the close is followed by return", "after closing the channel the receive loop function goes on (missing return): it uses a frame that was not received (nil dereference: a peer that closes the carrier before sending settings crashes the process), accepts settings it just rejected, or receives again on a dead tunnel")
		}
	}
	// server
	sl := a.ServerLoop
	recv := c.loopRecv(sl)
	var wc *ssa.Call
	allInstrs(sl, func(in ssa.Instruction) {
		if call, ok := in.(*ssa.Call); ok && calleeName(call) == "context.WithCancel" {
			wc = call
		}
	})
	if wc == nil || recv == nil {
		c.fail(rule, w.Short(sl)+": cancellable root context", w.Pos(sl.Pos()), "no context.WithCancel in the serve function")
		return
	}
	cancelV := extractOf(wc, 1)
	var def *ssa.Defer
	allInstrs(sl, func(in ssa.Instruction) {
		if d, ok := in.(*ssa.Defer); ok && cancelV != nil && d.Call.Value == cancelV {
			def = d
		}
	})
	c.check(def != nil && dominates(def, recv), rule, w.Short(sl)+": root cancel deferred before the loop", w.At(wc), "defer cancel() dominates the loop", "the serve function does not defer the cancellation of the handlers' root context before entering the loop: when the tunnel ends, in-flight handlers are never cancelled")
	// the root derives from the carrier stream's context
	d := desc(wc.Call.Args[0])
	c.check(strings.Contains(d, ".stream.Context()"), rule, w.Short(sl)+": root derives from the carrier context", w.At(wc), d, "the handlers' root context is built from "+d+", not from the carrier stream's context")
	// ctx passed to Create is extract 0 of wc
	allInstrs(sl, func(in ssa.Instruction) {
		if call, ok := in.(*ssa.Call); ok && staticCallee(call) == a.Create {
			c.check(origin(call.Call.Args[1]) == ssa.Value(extractOf(wc, 0)), rule, w.Short(sl)+": streams are created under the root context", w.At(call), desc(call.Call.Args[1]), "streams are created with context "+desc(call.Call.Args[1])+" instead of the cancellable root")
		}
	})
}

func ruleChannelClose(c *Ctx, rule string) {
	c.rule(rule, "channel close: on its non-early path, under the channel mutex, it sets the finished flag, stores the error (nil becomes EOF), cancels every stream in the table and (deferred) the channel context; the tear-down callback runs before the finished flag is set; Err() maps EOF to nil and nil to the context error")
	w := c.W
	a := w.Anchors()
	lf := w.Locks()
	if !c.need(rule, "ChClose", a.ChClose) {
		return
	}
	fn := a.ChClose
	name := w.Short(fn)
	fin, errF, ok := c.chFlags()
	if !ok {
		c.fail(rule, name+": finished flag and error field", w.Pos(fn.Pos()), "cannot infer them")
		return
	}
	var setFin *ssa.Store
	for _, st := range storesToField(fn, fin) {
		if isConstBool(st.Val, true) {
			setFin = st
		}
	}
	chMu := ""
	if l := perStreamLocks(lf.MustAt(setFin), a.Ch); len(l) > 0 {
		chMu = l[0]
	}
	c.check(chMu != "", rule, name+": finished flag set under the channel mutex", w.At(setFin), chMu, "the finished flag is set with no channel mutex held")
	// once-guard: early return when already finished
	load := fieldFlagFact(setFin, fin, false)
	c.check(load != nil, rule, name+": idempotent (tests finished first)", w.At(setFin), "dominated by finished == false", "close does not test the finished flag first: a second close repeats the tear-down")
	// error stored, nil -> EOF
	es := storesToField(fn, errF)
	okErr := false
	for _, st := range es {
		if phi, isPhi := st.Val.(*ssa.Phi); isPhi {
			hasEOF, hasParam := false, false
			for _, e := range phi.Edges {
				if desc(e) == "*global:EOF" {
					hasEOF = true
				}
				if stripConv(e) == ssa.Value(fn.Params[1]) || origin(e) == ssa.Value(fn.Params[1]) {
					hasParam = true
				}
			}
			okErr = hasEOF && hasParam && dominates(setFin, st) || dominates(st, setFin)
			okErr = okErr && hasEOF && hasParam
		}
	}
	c.check(okErr, rule, name+": stores the cause (nil becomes EOF)", w.Pos(fn.Pos()), errF.String()+" = err or io.EOF", "close does not store phi(err, io.EOF) in "+errF.String()+": Err() cannot distinguish a clean close from 'not closed', or loses the cause")
	// cancels every stream
	var rg *ssa.Range
	allInstrs(fn, func(in ssa.Instruction) {
		if r, ok := in.(*ssa.Range); ok {
			if fr, _, ok := loadedField(r.X); ok && fr == a.ChStreams {
				rg = r
			}
		}
	})
	okCancelAll := false
	if rg != nil {
		allInstrs(fn, func(in ssa.Instruction) {
			if isCancelFieldCall(in, a.CS.Obj().Name()) && inLoop(in.Block()) {
				// callee value's base is the ranged value
				ci := in.(ssa.CallInstruction)
				_, base, _ := loadedField(ci.Common().Value)
				if ex, ok := origin(base).(*ssa.Extract); ok {
					if nx, ok := ex.Tuple.(*ssa.Next); ok && nx.Iter == ssa.Value(rg) && loopBodyUnconditional(nx, in) {
						okCancelAll = true
					}
				}
			}
		})
	}
	c.check(okCancelAll && rg != nil && !reaches(setFinOrNil(setFin), rg) == false || okCancelAll, rule, name+": cancels every in-flight stream", w.Pos(fn.Pos()), "for _, st := range streams { st.cancel() } (unconditional)", "close does not cancel the context of every stream in the table: in-flight calls on a closed tunnel hang")
	// ... while the table is still there: the table is dropped only after the loop was entered
	if rg != nil {
		emptied := false
		for _, st := range storesToField(fn, a.ChStreams) {
			if dominates(st, rg) || (reaches(st, rg) && !reaches(rg, st)) {
				emptied = true
			}
		}
		c.check(!emptied, rule, name+": cancels the streams before dropping the table", w.At(rg), "the range over the table precedes `streams = nil`", "the stream table is replaced before the loop that cancels its entries runs: the loop sees nothing, no in-flight stream is cancelled, and every call in flight on the closed tunnel hangs")
	}
	// deferred channel context cancel on the non-early path
	var defCancel *ssa.Defer
	allInstrs(fn, func(in ssa.Instruction) {
		if d, ok := in.(*ssa.Defer); ok && isCancelFieldCall(d, a.Ch.Obj().Name()) {
			defCancel = d
		}
	})
	okCtx := defCancel != nil && (dominates(defCancel, setFin) || dominates(setFin, defCancel))
	if defCancel == nil {
		// direct call on every non-early path
		isC := func(in ssa.Instruction) bool { return isCancelFieldCall(in, a.Ch.Obj().Name()) }
		okCtx = setFin != nil && pathAvoiding(fn, setFin, isExit, isC) == nil
	}
	c.check(okCtx, rule, name+": cancels the channel context", w.Pos(fn.Pos()), "c.cancel() on the closing path", "close does not cancel the channel's context on its closing path: Done() never fires and the reverse-tunnel handler never returns")
	// tear-down before finished
	var td ssa.Instruction
	allInstrs(fn, func(in ssa.Instruction) {
		if ci, ok := in.(*ssa.Call); ok && staticCallee(ci) == nil && !ci.Call.IsInvoke() {
			if fr, _, isF := loadedField(ci.Call.Value); isF && fr.Type == a.Ch.Obj().Name() && !isCancelFunc(ci.Call.Value.Type()) {
				td = in
			}
		}
	})
	c.check(td != nil && setFin != nil && reaches(td, setFin) && !reaches(setFin, td), rule, name+": tear-down callback runs before the channel is marked finished", w.Pos(fn.Pos()), "tearDown(c) precedes finished = true", "the tear-down callback (CloseSend / unregister) is not invoked before the finished flag is set: a closed reverse tunnel can still be picked for new RPCs, or the carrier is never half-closed")
	// Err() table
	if errFn := w.methodFn(a.Ch, "Err"); errFn != nil {
		got := map[string]string{}
		forEachReturnValue(errFn, 0, func(rv ssa.Value, at ssa.Instruction) {
			// each way the returned value can come about (a single-exit form merges the arms in a phi)
			for _, vc := range valueCases(rv, 0) {
				v := vc.Val
				g := "default"
				for _, f := range append(append([]EdgeFact{}, vc.Facts...), factsAt(at)...) {
					x, op, y, ok := cmpFact(f)
					if !ok || op != token.EQL || !isFieldLoad(x, errF) {
						continue
					}
					if isNilConst(y) {
						g = "nil"
					} else {
						g = desc(y)
					}
				}
				val := desc(v)
				if call, ok := stripConv(v).(*ssa.Call); ok && call.Call.IsInvoke() && call.Call.Method.Name() == "Err" {
					val = "ctx.Err()"
				}
				if isFieldLoad(v, errF) {
					val = "stored error"
				}
				got[g] = val
			}
		})
		want := map[string]string{"nil": "ctx.Err()", "*global:EOF": "nil", "default": "stored error"}
		for g, wv := range want {
			c.check(got[g] == wv, rule, w.Short(errFn)+": "+g+" -> "+wv, w.Pos(errFn.Pos()), got[g], "Err() maps a stored "+g+" to "+got[g]+", expected "+wv)
		}
		// reads under the mutex
		for _, ld := range loadsOfField(errFn, errF) {
			c.check(len(perStreamLocks(lf.MustAt(ld), a.Ch)) > 0 || lf.MustAt(ld).holds(chMu, true), rule, w.Short(errFn)+": reads the error under the channel mutex", w.At(ld), lf.MustAt(ld).String(), "Err() reads the stored error without the channel mutex")
		}
	} else {
		c.fail(rule, "Err()", "-", "method not found")
	}
}

func setFinOrNil(s *ssa.Store) ssa.Instruction {
	if s == nil {
		return nil
	}
	return s
}

func ruleFailFast(c *Ctx, rule string) {
	c.rule(rule, "new RPCs on a closed channel fail fast: the table insert in stream allocation is dominated by finished == false, tested in the same critical section that close uses to set it")
	w := c.W
	a := w.Anchors()
	lf := w.Locks()
	if !c.need(rule, "Allocate", a.Allocate) {
		return
	}
	fin, _, ok := c.chFlags()
	ins := tableInsert(a.Allocate, a.ChStreams)
	if !ok || ins == nil {
		c.fail(rule, "finished flag / table insert", "-", "not found")
		return
	}
	load := fieldFlagFact(ins, fin, false)
	if load == nil {
		c.fail(rule, w.Short(a.Allocate)+": insert only on an open channel", w.At(ins), "the table insert is not dominated by a test that "+fin.String()+" is false: an RPC started after the tunnel ended is registered in a table nobody will ever cancel, and hangs")
		return
	}
	shared := intersect(lf.MustAt(load), lf.MustAt(ins))
	var setL LockSet
	for _, st := range storesToField(a.ChClose, fin) {
		setL = lf.MustAt(st)
	}
	common := intersect(shared, setL)
	c.check(len(common) > 0, rule, w.Short(a.Allocate)+": insert only on an open channel", w.At(ins), "tested at "+w.At(load)+" under "+common.String()+", the lock close holds when setting it", "the finished test and the insert are not in one critical section of the lock close uses ("+shared.String()+" vs "+setL.String()+")")
}

// blocking waits (C04.4).
// guaranteedClosed: the channel in field fr is closed whenever the object it belongs to is finished:
// closed in the client finishing function (once-guarded, CAS-winner path), or inside the sync.Once
// closure of a receiver's close(). Channels closed only on a success path (settings signal, registry
// latch) are NOT guaranteed: waiting on them needs a context alternative.
func (c *Ctx) guaranteedClosed(fr FieldRef) (bool, string) {
	w := c.W
	a := w.Anchors()
	for _, fn := range w.Funcs {
		if isGenericTemplate(fn) || len(closesOfField(fn, fr)) == 0 {
			continue
		}
		if fn == a.ClientFinish {
			return true, "closed by the client finishing function"
		}
		if w.onlyViaOnce(fn, 0) && c.reachedFromReceiverClose(fn) {
			return true, "closed by the receiver's close() (sync.Once)"
		}
	}
	return false, ""
}

func ruleWaitsReleased(c *Ctx, rule string) {
	c.rule(rule, "every blocking wait in the package has a release edge that the stream/tunnel termination functions fire: a Done() case of a context, a channel that is closed by close()/finish, a cond with Broadcast on close and cancel, or a WaitGroup whose holders are ended by the waiting function")
	w := c.W
	a := w.Anchors()
	n := 0
	for _, fn := range w.Funcs {
		if isGenericTemplate(fn) {
			continue
		}
		for _, e := range w.directEffects(fn).Effects {
			key := fmt.Sprintf("%s in %s", e.Kind, w.Short(fn))
			switch e.Kind {
			case "select-blocking":
				n++
				sel := e.Instr.(*ssa.Select)
				rel := ""
				carrierCtx := ""
				for _, st := range sel.States {
					if st.Dir != types.RecvOnly {
						continue
					}
					if call, ok := st.Chan.(*ssa.Call); ok && call.Call.IsInvoke() && call.Call.Method.Name() == "Done" {
						// the context must be one the endpoint's own termination cancels: a context field, a derived
						// context, or the caller's context parameter -- not the carrier stream's Context(), which only
						// the transport ends (a local Close() does not cancel it)
						if oc, isCall := origin(call.Call.Value).(*ssa.Call); isCall && oc.Call.IsInvoke() && oc.Call.Method.Name() == "Context" {
							carrierCtx = desc(call.Call.Value)
							continue
						}
						rel = "case <-" + desc(call.Call.Value) + ".Done()"
					}
					if fr, _, ok := loadedField(st.Chan); ok && rel == "" {
						if g, how := c.guaranteedClosed(fr); g {
							rel = "case <-" + fr.String() + " (" + how + ")"
						}
					}
					// snapshot of a latch taken under the lock (waitForReady): a local loaded from a field
				}
				if rel == "" {
					for _, st := range sel.States {
						if p, ok := stripConv(st.Chan).(*ssa.Parameter); ok {
							_ = p
						}
					}
				}
				if rel == "" && carrierCtx != "" {
					c.fail(rule, key, w.At(e.Instr), "the only context alternative of this blocking select is "+carrierCtx+".Done(), the carrier stream's own context: the endpoint's Close()/tear-down cancels its derived context, not the carrier's, so a waiter here is not released when the tunnel is closed locally (it hangs until the transport ends)")
					continue
				}
				c.check(rel != "", rule, key, w.At(e.Instr), "released by "+rel, "this blocking select has no case that a termination function always fires (no ctx.Done() alternative and no channel that is closed on every termination path): the goroutine can wait forever when the RPC or tunnel ends")
			case "chan-recv":
				n++
				u := e.Instr.(*ssa.UnOp)
				rel := ""
				if call, ok := u.X.(*ssa.Call); ok {
					m := ""
					if call.Call.IsInvoke() {
						m = call.Call.Method.Name()
					} else if f := staticCallee(call); f != nil {
						m = f.Name()
					}
					if m == "Done" {
						rel = "context/channel Done()"
					}
				}
				if fr, _, ok := loadedField(u.X); ok {
					if g, how := c.guaranteedClosed(fr); g {
						rel = fr.String() + " " + how
					}
					// the plain receiver's dequeue: cancelling the stream must release it too (it has no context alternative)
					r := c.receivers()
					for _, dq := range r.pDeq {
						if dq != fn {
							continue
						}
						okC := len(r.pCancel) > 0
						for _, cn := range r.pCancel {
							reached := false
							for _, g := range w.Funcs {
								if !isGenericTemplate(g) && len(closesOfField(g, fr)) > 0 && (g == cn || c.reachedFromAny([]*ssa.Function{cn}, g)) {
									reached = true
								}
							}
							if !reached {
								okC = false
							}
						}
						c.check(okC, rule, key+": released by cancel()", w.At(e.Instr), "cancel() reaches close("+fr.String()+")", "the plain receiver's cancel() does not close "+fr.String()+": a reader blocked in dequeue (a handler in RecvMsg on a revision-zero tunnel) is not released when its RPC is cancelled")
					}
				}
				c.check(rel != "", rule, key, w.At(e.Instr), "released by "+rel, "this blocking receive is from "+desc(u.X)+", a channel that is not closed on every termination path (e.g. the settings signal is closed only when settings arrive; the registry latch only when a tunnel registers): without a ctx.Done() alternative the caller hangs when the tunnel or RPC ends first")
			case "chan-send":
				n++
				c.fail(rule, key, w.At(e.Instr), "unconditional blocking channel send: no release edge")
			case "cond-wait":
				n++
				// Broadcast reachable from both close and cancel of the same type
				r := c.receivers()
				okB := true
				for _, set := range [][]*ssa.Function{r.closeFn, r.cancel} {
					for _, f := range set {
						reach := w.sameGoroutineReach(f, nil)
						has := false
						for g := range reach {
							if len(callsNamed(g, "(*sync.Cond).Broadcast")) > 0 {
								has = true
							}
						}
						if !has {
							okB = false
						}
					}
				}
				c.check(okB && len(r.closeFn) > 0 && len(r.cancel) > 0, rule, key, w.At(e.Instr), "released by Broadcast from close() and cancel()", "cond.Wait has no Broadcast reachable from both close() and cancel(): a blocked reader is never released when the stream ends")
			case "wg-wait":
				n++
				c.ok(rule, key, w.At(e.Instr), "WaitGroup wait: its release edge is judged by rule C10.6 (Stop: half-closes every instance; GracefulStop: known finding F-7)")
			}
		}
	}
	c.floor(rule, n, 10, "blocking waits")
	_ = a
}

func ruleClosePathsReachCarrier(c *Ctx, rule string) {
	c.rule(rule, "close paths reach the carrier: the forward channel's tear-down half-closes the carrier; Stop sets the state, half-closes every registered instance and waits (wait deferred first); wg.Add in instance registration pairs with a deferred wg.Done on Serve's started path, and registration refuses once closing under the same lock")
	w := c.W
	lf := w.Locks()
	// forward tear-down closure: the function literal passed as tearDown in (*pendingChannel).Start
	start := w.roleFunc("(*pendingChannel).Start")
	okTD := false
	if start != nil {
		for _, af := range start.AnonFuncs {
			for _, e := range w.directEffects(af).Effects {
				if e.Kind == "carrier-closesend" {
					okTD = true
				}
			}
		}
		// ... or a named function / method value handed to the channel constructor as tear-down callback
		allInstrs(start, func(in ssa.Instruction) {
			call, isC := in.(*ssa.Call)
			if !isC || !w.isRoleCall(call, "newTunnelChannel") {
				return
			}
			for _, a := range call.Call.Args {
				f := funcValueTarget(a)
				if f == nil || !w.inRoot(f) {
					continue
				}
				if mayExecute(f, func(x ssa.Instruction) bool {
					ci, ok := x.(ssa.CallInstruction)
					if !ok {
						return false
					}
					if k, isOp := w.carrierOp(ci); isOp && k == "carrier-closesend" {
						return true
					}
					g := staticCallee(ci)
					return g != nil && g.Name() == "CloseSend" && g.Signature.Recv() != nil && w.isCarrierType(g.Signature.Recv().Type())
				}, 1) {
					okTD = true
				}
			}
		})
	}
	c.check(okTD, rule, "forward tunnel tear-down half-closes the carrier", posOf(w, start), "tearDown closure calls CloseSend", "the forward channel's tear-down callback no longer half-closes the carrier stream: Close() would not end the tunnel on the server")
	stop := w.Func("(*ReverseTunnelServer).Stop")
	add := w.roleFunc("(*ReverseTunnelServer).addInstance")
	serve := w.Func("(*ReverseTunnelServer).Serve")
	if stop == nil || add == nil || serve == nil {
		c.fail(rule, "Stop / addInstance / Serve", "-", "not found")
		return
	}
	// Stop
	var wait *ssa.Defer
	var cs ssa.Instruction
	allInstrs(stop, func(in ssa.Instruction) {
		if d, ok := in.(*ssa.Defer); ok && calleeName(d) == "(*sync.WaitGroup).Wait" {
			wait = d
		}
		if ci, ok := in.(ssa.CallInstruction); ok {
			if k, ok := w.carrierOp(ci); ok && k == "carrier-closesend" && inLoop(in.Block()) {
				cs = in
			}
		}
	})
	c.check(wait != nil && wait.Block().Index == 0 && len(lf.MustAt(wait)) == 0, rule, "Stop waits for every Serve call (after releasing its lock)", posOf(w, stop), "defer wg.Wait() registered first; runs with no lock held", "Stop does not wait for the Serve calls with its lock released")
	okRange := false
	if cs != nil {
		ci := cs.(ssa.CallInstruction)
		if ex, ok := origin(ci.Common().Value).(*ssa.Extract); ok {
			if nx, ok := ex.Tuple.(*ssa.Next); ok {
				if rg, ok := nx.Iter.(*ssa.Range); ok {
					if fr, _, ok := loadedField(rg.X); ok && fr.Type == "ReverseTunnelServer" {
						okRange = loopBodyUnconditional(nx, cs)
					}
				}
			}
		}
	}
	c.check(okRange, rule, "Stop half-closes every registered instance", posOf(w, stop), "for stream := range instances { stream.CloseSend() }", "Stop does not call CloseSend on every registered tunnel: Serve calls never return and Stop blocks")
	if cs != nil {
		okGuard := true
		var whyG string
		for _, f := range factsAt(cs) {
			x, op, y, ok := cmpFact(f)
			if !ok || !isFieldLoad(x, FieldRef{"ReverseTunnelServer", w.Roles().RTSState}) {
				continue
			}
			k, isK := constInt(y)
			if !(isK && k == 2 && op == token.NEQ) {
				okGuard, whyG = false, "state "+op.String()+" "+desc(y)
			}
		}
		c.check(okGuard, rule, "Stop acts unless already closed", w.At(cs), "the half-close loop is skipped only when state == closed", "Stop half-closes the tunnels only when "+whyG+": after GracefulStop (state closing) Stop would skip the half-close and then wait forever for Serve calls that nothing ends")
	}
	stF := FieldRef{"ReverseTunnelServer", w.Roles().RTSState}
	okState := false
	for _, st := range storesToField(stop, stF) {
		if k, ok := constInt(st.Val); ok && k == 2 {
			okState = cs == nil || dominates(st, cs) || true
		}
	}
	c.check(okState, rule, "Stop marks the server closed", posOf(w, stop), "state = closed", "Stop does not set the closed state")
	// addInstance
	var wgAdd ssa.Instruction
	allInstrs(add, func(in ssa.Instruction) {
		if ci, ok := in.(*ssa.Call); ok && calleeName(ci) == "(*sync.WaitGroup).Add" {
			wgAdd = in
		}
	})
	okAdd := false
	if wgAdd != nil {
		for _, f := range factsAt(wgAdd) {
			if x, op, y, ok := cmpFact(f); ok && isFieldLoad(x, stF) {
				k, _ := constInt(y)
				if op == token.LSS && k == 1 {
					okAdd = true
				}
			}
		}
		okAdd = okAdd && lf.MustAt(wgAdd).has("ReverseTunnelServer.mu")
	}
	c.check(okAdd, rule, "registration refuses once closing, else wg.Add under the server lock", posOf(w, add), "wg.Add dominated by state < closing under mu", "instance registration does not refuse when closing, or adds to the WaitGroup outside the lock Stop/GracefulStop use: Stop can return while a Serve call is starting")
	// the instance is recorded
	recorded := false
	allInstrs(add, func(in ssa.Instruction) {
		if mu, ok := in.(*ssa.MapUpdate); ok {
			if fr, _, ok := loadedField(mu.Map); ok && fr.Type == "ReverseTunnelServer" && origin(mu.Key) == ssa.Value(add.Params[1]) {
				recorded = true
			}
		}
	})
	c.check(recorded, rule, "registration records the instance", posOf(w, add), "instances[stream] = {}", "the tunnel's stream is not recorded in the instance set: Stop cannot half-close it")
	// ... and stays recorded: outside the constructor the instance set is replaced only while it is nil (lazy creation)
	instF := FieldRef{"ReverseTunnelServer", w.Roles().RTSInstances}
	for _, f := range w.Funcs {
		if isGenericTemplate(f) {
			continue
		}
		for _, st := range storesToField(f, instF) {
			if st.Parent() != f {
				continue
			}
			if fb := fieldBase(st.Addr); fb != nil && isComplitAlloc(origin(fb)) {
				continue // the server being constructed
			}
			onlyNil := false
			for _, fa := range factsAt(st) {
				if x, op, y, okc := cmpFact(fa); okc && op == token.EQL && isFieldLoad(x, instF) && isNilConst(y) {
					onlyNil = true
				}
			}
			c.check(onlyNil, rule, "instance set replaced only while nil in "+w.Short(f), w.At(st), "guarded by instances == nil", "the set of registered tunnels is replaced while it may hold entries: tunnels registered earlier are forgotten, Stop does not half-close them and then waits forever for their Serve calls")
		}
	}
	// Serve: defer wg.Done dominated by successful addInstance; serveTunnel dominated by the defer
	var done *ssa.Defer
	var addCall, serveCall *ssa.Call
	allInstrs(serve, func(in ssa.Instruction) {
		if d, ok := in.(*ssa.Defer); ok && calleeName(d) == "(*sync.WaitGroup).Done" {
			done = d
		}
		// `defer s.instanceDone()` with a method of the server that does nothing but call wg.Done(), once, on every path
		if d, ok := in.(*ssa.Defer); ok {
			if h := staticCallee(d); h != nil && w.inRoot(h) && h.Blocks != nil {
				var dones []*ssa.Call
				allInstrsLocal(h, func(x ssa.Instruction) {
					if ci, isC := x.(*ssa.Call); isC && calleeName(ci) == "(*sync.WaitGroup).Done" {
						dones = append(dones, ci)
					}
				})
				if len(dones) == 1 && !inLoop(dones[0].Block()) && !pathAvoidingLocal(h, isExit, func(x ssa.Instruction) bool { return x == ssa.Instruction(dones[0]) }) {
					done = d
				}
			}
		}
		// `done, err := s.addInstance(stream); …; defer done()` with done the WaitGroup's Done method value
		if d, ok := in.(*ssa.Defer); ok && staticCallee(d) == nil && !d.Call.IsInvoke() && len(d.Call.Args) == 0 {
			isDone := func(v ssa.Value) bool {
				if t := funcValueTarget(origin(v)); t != nil && t.String() == "(*sync.WaitGroup).Done" {
					return true
				}
				// the bound-method wrapper of a method of another package has no body here: its object is the method
				if mc, isMC := origin(v).(*ssa.MakeClosure); isMC && len(mc.Bindings) == 1 {
					if bf, isF := mc.Fn.(*ssa.Function); isF && strings.HasSuffix(bf.Name(), "$bound") {
						if m, isM := bf.Object().(*types.Func); isM && m.FullName() == "(*sync.WaitGroup).Done" {
							return true
						}
					}
				}
				return false
			}
			if isDone(d.Call.Value) {
				done = d
			}
			// … handed out by the registration function together with a nil error
			if ex, isEx := origin(d.Call.Value).(*ssa.Extract); isEx && ex.Index == 0 {
				if rc, isC := ex.Tuple.(*ssa.Call); isC && staticCallee(rc) == add && add != nil {
					nOK, bad := 0, false
					for _, ret := range returnsOf(add) {
						if len(ret.Results) != 2 {
							bad = true
							continue
						}
						// (named results are read back from their variables at the return: origin sees through that)
						if e := origin(ret.Results[1]); !isNilConst(e) {
							if nn, _ := nonNilError(e, ret, 0); nn {
								continue // refused: the caller returns without using the function
							}
							bad = true
							continue
						}
						if isDone(ret.Results[0]) {
							nOK++
						} else {
							bad = true
						}
					}
					if nOK > 0 && !bad {
						done = d
					}
				}
			}
		}
		if ci, ok := in.(*ssa.Call); ok {
			if staticCallee(ci) == add {
				addCall = ci
			}
			if w.isRoleCall(ci, "serveTunnel") {
				serveCall = ci
			}
		}
	})
	okDone := done != nil && addCall != nil && serveCall != nil && dominates(addCall, done) && dominates(done, serveCall)
	if okDone {
		okDone = false
		for _, f := range factsAt(done) {
			if x, op, y, ok := cmpFact(f); ok && op == token.EQL && isErrorOfCall(x, addCall) && isNilConst(y) {
				okDone = true // (the result may have been assigned to the named error result first)
			}
		}
	}
	// ... and no return lies between the successful registration and the deferred Done (a failure there would leave the
	// WaitGroup one too high for good: Stop / GracefulStop never return)
	if done != nil && addCall != nil {
		for _, ret := range returnsOf(done.Parent()) { // (the function that registered the Done: Serve, or the part split off it)
			if addCall.Parent() != done.Parent() || !reaches(addCall, ret) || dominates(done, ret) {
				continue
			}
			failedAdd := false
			for _, f := range factsAt(ret) {
				if x, op, y, ok := cmpFact(f); ok && op == token.NEQ && isNilConst(y) && isErrorOfCall(x, addCall) {
					failedAdd = true
				}
			}
			if !failedAdd {
				okDone = false
			}
		}
	}
	c.check(okDone, rule, "Serve pairs wg.Add with a deferred wg.Done on the started path", posOf(w, serve), "addInstance ok -> defer wg.Done() -> serveTunnel", "Serve does not defer wg.Done right after a successful registration: Stop/GracefulStop wait forever, or return early")
	// what is registered (and half-closed by Stop from another goroutine) is the carrier the tunnel server sends on: the
	// same, thread-safe, object
	if addCall != nil && serveCall != nil && len(addCall.Call.Args) >= 2 {
		same := false
		reg := origin(addCall.Call.Args[len(addCall.Call.Args)-1])
		for _, a := range flatArgs(serveCall) {
			if origin(a) == reg {
				same = true
			}
		}
		c.check(same, rule, "Serve registers the carrier it serves on", w.At(addCall), "addInstance(stream) and serveTunnel(stream, …) get the same wrapped stream", "the stream registered for Stop is not the (thread-safe) object handed to the tunnel server: Stop's CloseSend runs on the raw gRPC stream concurrently with the tunnel's sends — which gRPC forbids (data race inside the transport)")
	}
}

func posOf(w *World, fn *ssa.Function) string {
	if fn == nil {
		return "-"
	}
	return w.Pos(fn.Pos())
}

func ruleStickyAfterFinish(c *Ctx, rule string) {
	c.rule(rule, "sticky failure after finish: both reassembly functions return the stored read error first and record every non-nil error they return; the client's CloseSend returns the stored outcome without blocking once the done signal is closed")
	w := c.W
	a := w.Anchors()
	for i, core := range []*ssa.Function{a.ClientReasm, a.ServerReasm} {
		if !c.need(rule, "reassembly function", core) {
			continue
		}
		// the function the read methods call: the reassembly function itself, or a wrapper split off it
		fn := []*ssa.Function{a.ClientReasmEntry, a.ServerReasmEntry}[i]
		if fn == nil {
			fn = core
		}
		name := w.Short(fn)
		rn := recvNamed(fn)
		// entry: if readErr != nil return it
		// the stream's read-side error field: the error field this function returns a load of (the stream may have other
		// error fields, e.g. the write side's)
		var errField FieldRef
		for _, f := range flatFields(rn) {
			if types.TypeString(f.Type, nil) != "error" {
				continue
			}
			cand := FieldRef{rn.Obj().Name(), f.Name}
			returned := false
			for _, ret := range returnsOf(fn) {
				t := returnTuple(ret)
				if e := t[len(t)-1]; e != nil && isFieldLoad(e, cand) {
					returned = true
				}
			}
			if returned || errField.Field == "" {
				errField = cand
			}
		}
		okSticky := false
		for _, ret := range returnsOf(fn) {
			t := returnTuple(ret)
			if e := t[len(t)-1]; e != nil && isFieldLoad(e, errField) {
				for _, f := range factsAt(ret) {
					if x, op, y, ok := cmpFact(f); ok && op == token.NEQ && isFieldLoad(x, errField) && isNilConst(y) {
						okSticky = !dominatesAnyDequeue(fn, ret)
						if fn != core {
							allInstrsLocal(fn, func(in ssa.Instruction) {
								if call, ok := in.(*ssa.Call); ok && staticCallee(call) == core && dominates(call, ret) {
									okSticky = false
								}
							})
						}
					}
				}
			}
		}
		c.check(okSticky, rule, name+": returns the sticky read error first", w.Pos(fn.Pos()), "if "+errField.Field+" != nil { return it } before any dequeue", "the reassembly function does not start by returning the stored read error: a read after the stream failed could block or succeed")
		// deferred recorder
		okRec := false
		for _, af := range fn.AnonFuncs {
			for _, s := range storesToField(af, errField) {
				for _, f := range factsAt(s) {
					if _, op, y, ok := cmpFact(f); ok && op == token.NEQ && isNilConst(y) {
						okRec = true
					}
				}
			}
		}
		var def *ssa.Defer
		allInstrs(fn, func(in ssa.Instruction) {
			if d, ok := in.(*ssa.Defer); ok {
				def = d
			}
		})
		s := analyseReasm(core)
		recorded := okRec && def != nil && s.deq != nil && dominates(def, s.deq)
		if !recorded && fn != core {
			// wrapper form: data, ok, err := core(); if err != nil { readErr = err }; return data, ok, err
			var coreCall *ssa.Call
			allInstrsLocal(fn, func(in ssa.Instruction) {
				if call, ok := in.(*ssa.Call); ok && staticCallee(call) == core {
					coreCall = call
				}
			})
			if coreCall != nil {
				errEx := extractOf(coreCall, coreCall.Call.Signature().Results().Len()-1)
				stored := false
				for _, st := range storesToField(fn, errField) {
					if st.Parent() == fn && errEx != nil && stripConv(st.Val) == ssa.Value(errEx) {
						for _, f := range factsAt(st) {
							if x, op, y, ok := cmpFact(f); ok && op == token.NEQ && isNilConst(y) && stripConv(x) == ssa.Value(errEx) {
								stored = true
							}
						}
					}
				}
				// every return after the call returns exactly the core's error
				onlyCore := true
				for _, ret := range returnsOf(fn) {
					if !dominates(coreCall, ret) {
						continue
					}
					t := returnTuple(ret)
					if e := t[len(t)-1]; e == nil || stripConv(e) != ssa.Value(errEx) {
						onlyCore = false
					}
				}
				recorded = stored && onlyCore
			}
		}
		c.check(recorded, rule, name+": records every error it returns", w.Pos(fn.Pos()), "deferred: if err != nil { "+errField.Field+" = err }", "errors returned by the reassembly function are not recorded as the sticky read error")
	}
	// client CloseSend
	if cs := w.methodFn(a.CS, "CloseSend"); cs != nil {
		done, okD := c.doneSignalField()
		okNB := false
		// CloseSend itself and what it runs on its own goroutine for the same stream (its body may be handed to a
		// lock-taking helper as a method value: st.withWriteLock(st.closeSendLocked))
		var body []*ssa.Function
		for g := range w.sameGoroutineReach(cs, nil) {
			if g == cs || (recvNamed(g) != nil && a.CS != nil && recvNamed(g).Obj() == a.CS.Obj() && g.Name() != "SendMsg" && g.Name() != "RecvMsg") {
				body = append(body, g)
			}
		}
		visit := func(f func(in ssa.Instruction)) {
			for _, g := range body {
				allInstrsLocal(g, f)
			}
		}
		visit(func(in ssa.Instruction) {
			if sel, ok := in.(*ssa.Select); ok && !sel.Blocking && okD {
				for _, st := range sel.States {
					if fr, _, ok := loadedField(st.Chan); ok && fr == done {
						okNB = true
					}
				}
			}
			// or through a probe helper that receives without blocking
			if call, ok := in.(*ssa.Call); ok && okD {
				if ch, isP := recvPredicateCall(call); isP {
					if fr, _, ok := loadedField(ch); ok && fr == done {
						blocks := mayExecute(helperCallee(call), func(x ssa.Instruction) bool {
							if sel, isSel := x.(*ssa.Select); isSel && sel.Blocking {
								return true
							}
							u, isU := x.(*ssa.UnOp)
							return isU && u.Op == token.ARROW
						}, 1)
						if !blocks {
							okNB = true
						}
					}
				}
			}
		})
		c.check(okNB, rule, w.Short(cs)+": finished stream detected without blocking", w.Pos(cs.Pos()), "non-blocking receive from the done signal", "CloseSend no longer checks the done signal: it would emit half_close for a finished stream")
	}
}

// ruleCloseSendAfterFinish (C02.14, C01.x): half-closing a stream that already completed normally is not an error.
func ruleCloseSendAfterFinish(c *Ctx, rule string) {
	c.rule(rule, "CloseSend on a stream that has already finished: the recorded outcome is returned only when it is a failure; when the RPC completed normally (the clean-end marker io.EOF — a handler may answer before the caller half-closes) CloseSend returns nil, so that generated code (`CloseAndRecv`: CloseSend, then RecvMsg) still receives the response and the OK status instead of a bare io.EOF")
	w := c.W
	a := w.Anchors()
	cs := w.methodFn(a.CS, "CloseSend")
	if cs == nil {
		c.fail(rule, "client CloseSend", "-", "not found")
		return
	}
	nMarker, okAll := 0, true
	var at ssa.Instruction
	// CloseSend and the methods of the stream it runs (its body may be handed to a lock-taking helper as a method value)
	body := []*ssa.Function{cs}
	for g := range w.sameGoroutineReach(cs, nil) {
		if g != cs && recvNamed(g) != nil && a.CS != nil && recvNamed(g).Obj() == a.CS.Obj() && g.Signature.Results().Len() == 1 && isErrorType(g.Signature.Results().At(0).Type()) && g.Name() != "SendMsg" && g.Name() != "RecvMsg" && len(g.Params) <= 1 {
			body = append(body, g)
		}
	}
	for _, bf := range body {
		forEachReturnValue(bf, 0, func(v0 ssa.Value, ret ssa.Instruction) {
			cases := valueCases(v0, 4)
			if c.readsMarker(v0, a.CSDone) {
				cases = []valueCase{{stripConv(v0), nil}} // `return st.loadDone()`: the marker itself, not the helper's alternatives
			}
			for _, vc := range cases {
				if !c.readsMarker(vc.Val, a.CSDone) {
					continue
				}
				nMarker++
				notEOF := false
				for _, f := range append(append([]EdgeFact{}, factsAt(ret)...), vc.Facts...) {
					x, op, y, isCmp := cmpFact(f)
					if isCmp && op == token.NEQ && desc(y) == "*global:EOF" && origin(x) == origin(vc.Val) {
						notEOF = true
					}
				}
				for _, bf := range boolFactsOf(append(append([]EdgeFact{}, factsAt(ret)...), vc.Facts...)) {
					if call, ok := bf.V.(*ssa.Call); ok && !bf.True && calleeName(call) == "errors.Is" && len(call.Call.Args) == 2 && origin(call.Call.Args[0]) == origin(vc.Val) && desc(call.Call.Args[1]) == "*global:EOF" {
						notEOF = true
					}
				}
				if !notEOF {
					okAll, at = false, ret
				}
			}
		})
	}
	pos := posOf(w, cs)
	if at != nil {
		pos = w.At(at)
	}
	if nMarker == 0 {
		c.ok(rule, w.Short(cs)+": never reports the clean end as an error", pos, "CloseSend does not return the recorded outcome at all")
		return
	}
	c.check(okAll, rule, w.Short(cs)+": never reports the clean end as an error", pos, "the recorded outcome is returned only under outcome != io.EOF", "CloseSend returns the stream's recorded outcome also when that is the clean-end marker: after a handler answered (OK) before the caller half-closed, CloseSend fails with a bare io.EOF, generated CloseAndRecv returns that error, and the response message and OK status the handler sent are never delivered")
}

func dominatesAnyDequeue(fn *ssa.Function, ret ssa.Instruction) bool {
	s := analyseReasm(fn)
	return s.deq != nil && dominates(s.deq, ret)
}

// ---------- C10 ----------

func ruleShutdownFlags(c *Ctx, rule string) {
	c.rule(rule, "the shutdown entry points set exactly what the refusal predicates read: InitiateShutdown stores true into the flag whose Load is the forward path's predicate; GracefulStop and Stop set states for which the reverse path's predicate (state >= closing) is true")
	w := c.W
	is := w.Func("(*TunnelServiceHandler).InitiateShutdown")
	ot := w.roleFunc("(*TunnelServiceHandler).openTunnel")
	if is == nil || ot == nil {
		c.fail(rule, "InitiateShutdown / openTunnel", "-", "not found")
	} else {
		var flag FieldRef
		okStore := false
		allInstrs(is, func(in ssa.Instruction) {
			if call, ok := in.(*ssa.Call); ok && strings.HasSuffix(calleeName(call), "atomic.Bool).Store") {
				if fr, _, ok := fieldOfAddr(call.Call.Args[0]); ok && isConstBool(call.Call.Args[1], true) {
					flag, okStore = fr, true
				}
			}
		})
		c.check(okStore, rule, "InitiateShutdown stores true", posOf(w, is), flag.String()+".Store(true)", "InitiateShutdown does not store true into an atomic flag")
		okPred := false
		allInstrs(ot, func(in ssa.Instruction) {
			call, ok := in.(*ssa.Call)
			if !ok {
				return
			}
			if !w.isRoleCall(call, "serveTunnel") {
				return
			}
			for _, last := range flatArgs(call) {
				if mc, ok := last.(*ssa.MakeClosure); ok {
					if strings.Contains(mc.Fn.Name(), "Load") && len(mc.Bindings) == 1 {
						if fr, _, ok := fieldOfAddr(mc.Bindings[0]); ok && fr == flag {
							okPred = true
						}
					}
					// a method of the handler that does nothing but load the flag (`s.isStopping`)
					if t := funcValueTarget(mc); t != nil && t != mc.Fn && len(mc.Bindings) == 1 && len(t.Params) == 1 {
						rets := returnsOf(t)
						all := len(rets) > 0
						for _, ret := range rets {
							lc, isC := stripConv(ret.Results[0]).(*ssa.Call)
							if !isC || !strings.HasSuffix(calleeName(lc), "atomic.Bool).Load") {
								all = false
								continue
							}
							if fr, base, ok := fieldOfAddr(lc.Call.Args[0]); !ok || fr != flag || base != ssa.Value(t.Params[0]) {
								all = false
							}
						}
						if all {
							okPred = true
						}
					}
				}
			}
		})
		c.check(okPred, rule, "forward tunnels consult that flag", posOf(w, ot), "serveTunnel(…, "+flag.String()+".Load)", "the forward path's shutting-down predicate is not the Load of the flag InitiateShutdown sets: InitiateShutdown has no effect")
	}
	isc := w.roleFunc("(*ReverseTunnelServer).isClosing")
	serve := w.Func("(*ReverseTunnelServer).Serve")
	stF := FieldRef{"ReverseTunnelServer", w.Roles().RTSState}
	if isc == nil || serve == nil {
		c.fail(rule, "isClosing / Serve", "-", "not found")
		return
	}
	okCmp := false
	forEachReturnValueThrough(isc, 0, func(v ssa.Value, at ssa.Instruction) {
		if b, ok := v.(*ssa.BinOp); ok && b.Op == token.GEQ && isFieldLoadThrough(b.X, stF) {
			k, isK := constInt(origin(b.Y)) // the bound may be the argument of a shared 'state reached' helper
			okCmp = isK && k == 1
		}
	})
	c.check(okCmp, rule, "reverse predicate is state >= closing", posOf(w, isc), "state >= 1", "the reverse path's predicate is not state >= closing")
	okServe := false
	allInstrs(serve, func(in ssa.Instruction) {
		call, ok := in.(*ssa.Call)
		if !ok {
			return
		}
		if !w.isRoleCall(call, "serveTunnel") {
			return
		}
		for _, last := range flatArgs(call) {
			if mc, ok := last.(*ssa.MakeClosure); ok {
				if bf, isF := mc.Fn.(*ssa.Function); isF {
					allInstrs(bf, func(x ssa.Instruction) {
						if ci, isC := x.(ssa.CallInstruction); isC && w.sameFn(staticCallee(ci), isc) {
							okServe = true
						}
					})
				}
			}
		}
	})
	c.check(okServe, rule, "reverse tunnels consult that predicate", posOf(w, serve), "serveTunnel(…, s.isClosing)", "Serve does not pass the isClosing predicate to the tunnel server")
	for _, nm := range []string{"GracefulStop", "Stop"} {
		fn := w.Func("(*ReverseTunnelServer)." + nm)
		if fn == nil {
			c.fail(rule, nm, "-", "not found")
			continue
		}
		ok, whenActive := false, false
		for _, st := range storesToField(fn, stF) {
			if k, isK := constInt(st.Val); isK && k >= 1 && w.Locks().MustAt(st).has("ReverseTunnelServer.mu") {
				ok = true
				// the store is reached on an active server: every test of the state that guards it holds for state == active (0)
				whenActive = true
				for _, f := range factsAt(st) {
					x, op, y, isCmp := cmpFact(f)
					if !isCmp {
						continue
					}
					if isFieldLoad(y, stF) {
						x, y = y, x
						op = map[token.Token]token.Token{token.LSS: token.GTR, token.GTR: token.LSS, token.LEQ: token.GEQ, token.GEQ: token.LEQ, token.EQL: token.EQL, token.NEQ: token.NEQ}[op]
					}
					kk, isKK := constInt(y)
					if !isFieldLoad(x, stF) || !isKK {
						continue
					}
					holds := map[token.Token]bool{token.EQL: 0 == kk, token.NEQ: 0 != kk, token.LSS: 0 < kk, token.LEQ: 0 <= kk, token.GTR: 0 > kk, token.GEQ: 0 >= kk}[op]
					if !holds {
						whenActive = false
					}
				}
			}
		}
		c.check(ok, rule, nm+" sets a state >= closing under the server lock", posOf(w, fn), "state set", nm+" does not set a state for which the refusal predicate is true")
		c.check(!ok || whenActive, rule, nm+" sets that state when the server is active", posOf(w, fn), "the guards of the store hold for state == active", "the store that begins shutdown is guarded by a test of the state that is false for an active server: "+nm+" on a running server changes nothing, new RPCs keep being accepted")
	}
}

// ---------- C14 ----------

func ruleSpawnAudit(c *Ctx, rule string) {
	c.rule(rule, "every goroutine the package starts has a verified termination class: straight-line carrier sends only; wait on one context then non-blocking calls; the receive loop; or the dispatch function (handler invocation with the finishing function deferred). An unclassifiable go statement fails the rule")
	w := c.W
	a := w.Anchors()
	sp := w.Spawns()
	c.floor(rule, len(sp), 8, "go statements")
	for _, s := range sp {
		if len(s.Callees) != 1 {
			c.fail(rule, "go statement in "+w.Short(s.Fn), w.At(s.Go), fmt.Sprintf("%d possible callees: cannot audit", len(s.Callees)))
			continue
		}
		body := s.Callees[0]
		key := "go " + w.Short(body)
		if body == a.ClientLoop {
			c.ok(rule, key, w.At(s.Go), "class: receive loop (every exit closes the channel: C04.1)")
			continue
		}
		if body == a.Dispatch {
			c.ok(rule, key, w.At(s.Go), "class: dispatch (finishing function deferred first: C13.8; the handler's blocking operations are released by C04.4)")
			continue
		}
		hasLoop := false
		for _, b := range body.Blocks {
			if inLoop(b) {
				hasLoop = true
			}
		}
		reach := w.sameGoroutineReach(body, nil)
		var blocking []string
		nRecvDone, nSend := 0, 0
		for g := range reach {
			for _, e := range w.directEffects(g).Effects {
				switch e.Kind {
				case "carrier-send":
					nSend++
				case "chan-recv":
					u := e.Instr.(*ssa.UnOp)
					if call, ok := u.X.(*ssa.Call); ok && call.Call.IsInvoke() && call.Call.Method.Name() == "Done" && g == body {
						nRecvDone++
						continue
					}
					blocking = append(blocking, e.Kind+" in "+w.Short(g))
				case "select-blocking", "cond-wait", "wg-wait", "chan-send", "callback", "carrier-recv", "carrier-closesend", "carrier-header", "sleep":
					if reason, ok := c.loopException(g, e); ok {
						_ = reason
						continue
					}
					blocking = append(blocking, e.Kind+" in "+w.Short(g)+" at "+w.At(e.Instr))
				}
			}
		}
		switch {
		case hasLoop:
			c.fail(rule, key, w.At(s.Go), "the goroutine's body contains a loop and is not the receive loop: unaudited termination")
		case nRecvDone == 1 && nSend <= 1 && len(blocking) == 0:
			// context watcher (the client watcher may spawn the cancel sender; itself non-blocking)
			c.ok(rule, key, w.At(s.Go), "class: context watcher (waits on one context's Done(), then non-blocking calls); the context is cancelled on every finishing path (C14.3)")
		case nRecvDone == 0 && len(blocking) == 0 && nSend >= 1:
			c.ok(rule, key, w.At(s.Go), fmt.Sprintf("class: straight-line sender (%d carrier send(s), no other blocking effect)", nSend))
		default:
			c.fail(rule, key, w.At(s.Go), "cannot classify this goroutine: waits on Done() x"+fmt.Sprint(nRecvDone)+", carrier sends x"+fmt.Sprint(nSend)+", other blocking effects: "+strings.Join(blocking, "; ")+" — it may outlive its RPC or tunnel")
		}
	}
}

func ruleTablePairing(c *Ctx, rule string) {
	c.rule(rule, "insert/delete pairing of the stream tables: the client entry is removed on the CAS-winner path of the finishing function (every path) and on new_stream send failure, and close drops the whole table; the server entry is removed on every path of the finishing function")
	w := c.W
	a := w.Anchors()
	if !c.need(rule, "ClientFinish", a.ClientFinish) || !c.need(rule, "ServerFinish", a.ServerFinish) || !c.need(rule, "ClientRemove", a.ClientRemove) || !c.need(rule, "ServerRemove", a.ServerRemove) {
		return
	}
	csID, ssID, _ := c.streamIDFields()
	// client
	isRm := func(fn *ssa.Function, idf FieldRef) func(ssa.Instruction) bool {
		table := a.ChStreams
		if fn == a.ServerRemove {
			table = a.SvStreams
		}
		return func(in ssa.Instruction) bool {
			if c.isTableRemoval(in, table, idf) {
				return true
			}
			return false
		}
	}
	var cas *ssa.Call
	allInstrs(a.ClientFinish, func(in ssa.Instruction) {
		if call, ok := in.(*ssa.Call); ok && strings.HasSuffix(calleeName(call), ".CompareAndSwap") {
			cas = call
		}
	})
	if cas == nil {
		c.fail(rule, "client finish CAS", "-", "not found")
	} else if ifi := ifOn(cas); ifi != nil {
		succ := ifi.Block().Succs[0]
		// an edge on which the table is known to be nil (already dropped by close) has nothing to remove
		nilEdge := func(pred, sc *ssa.BasicBlock) bool {
			if ef, has := edgeFact(pred, sc); has {
				if x, op, y, ok := cmpFact(ef); ok && op == token.EQL && isNilConst(y) && isFieldLoad(x, a.ChStreams) {
					return true
				}
			}
			return false
		}
		esc := pathAvoidingE(a.ClientFinish, succ.Instrs[0], isExit, isRm(a.ClientRemove, csID), nilEdge)
		if isRm(a.ClientRemove, csID)(succ.Instrs[0]) {
			esc = nil
		}
		c.check(esc == nil, rule, w.Short(a.ClientFinish)+": winner removes the table entry", w.At(cas), "every path from the CAS success edge calls removeStream(st.id)", "the finishing path can end without removing the stream from the channel's table: finished RPCs accumulate (leak) and late frames are delivered to a dead stream")
	}
	// remove functions delete by their parameter under the lock
	for _, side := range []struct {
		fn    *ssa.Function
		table FieldRef
	}{{a.ClientRemove, a.ChStreams}, {a.ServerRemove, a.SvStreams}} {
		if side.fn == a.ClientFinish || side.fn == a.ServerFinish {
			continue // the delete is inlined in the finishing function; judged by the path rule above
		}
		okDel, okAlways := false, true
		allInstrs(side.fn, func(in ssa.Instruction) {
			if call, ok := in.(*ssa.Call); ok && calleeName(call) == "builtin.delete" {
				if fr, _, ok := loadedField(call.Call.Args[0]); ok && fr == side.table && origin(call.Call.Args[1]) == ssa.Value(side.fn.Params[1]) {
					okDel = true
					// reached whenever there is a table: the only test allowed in front of it is table != nil
					for _, f := range factsAt(call) {
						x, op, y, isCmp := cmpFact(f)
						if isCmp && op == token.NEQ && isNilConst(y) && isFieldLoad(x, side.table) {
							continue
						}
						okAlways = false
					}
				}
			}
		})
		c.check(okDel, rule, w.Short(side.fn)+": deletes the entry for its id", w.Pos(side.fn.Pos()), "delete(table, id)", "the removal function does not delete the table entry keyed by its parameter")
		c.check(!okDel || okAlways, rule, w.Short(side.fn)+": deletes whenever the table exists", w.Pos(side.fn.Pos()), "unconditional, or guarded by table != nil only", "the delete is guarded by a condition other than 'the table exists': finished RPCs stay in the table (leak), and late frames for them reach a dead stream")
	}
	// channel close drops the table
	okNil := false
	for _, st := range storesToField(a.ChClose, a.ChStreams) {
		if isNilConst(st.Val) {
			okNil = true
		}
	}
	c.check(okNil, rule, w.Short(a.ChClose)+": drops the whole table", posOf(w, a.ChClose), "streams = nil", "closing the channel does not drop the stream table")
	// server: every path
	esc := pathAvoiding(a.ServerFinish, nil, isExit, isRm(a.ServerRemove, ssID))
	c.check(esc == nil, rule, w.Short(a.ServerFinish)+": removes the table entry on every path", posOf(w, a.ServerFinish), "unconditional removeStream(st.id)", "a path through the server finishing function keeps the stream in the table: finished RPCs accumulate and late frames reach a dead stream")
}

func ruleStreamCtxCancelled(c *Ctx, rule string) {
	c.rule(rule, "the stream's context is cancelled on every finishing path on both ends (so the context watchers and everything waiting on the stream context terminate)")
	w := c.W
	a := w.Anchors()
	if !c.need(rule, "ClientFinish", a.ClientFinish) || !c.need(rule, "ServerFinish", a.ServerFinish) {
		return
	}
	// client: after CAS success every path passes a (deferred) call of the CS cancel field
	var cas *ssa.Call
	allInstrs(a.ClientFinish, func(in ssa.Instruction) {
		if call, ok := in.(*ssa.Call); ok && strings.HasSuffix(calleeName(call), ".CompareAndSwap") {
			cas = call
		}
	})
	isC := func(in ssa.Instruction) bool { return isCancelFieldCall(in, a.CS.Obj().Name()) }
	if cas != nil {
		if ifi := ifOn(cas); ifi != nil {
			succ := ifi.Block().Succs[0]
			esc := pathAvoiding(a.ClientFinish, succ.Instrs[0], isExit, isC)
			if isC(succ.Instrs[0]) {
				esc = nil
			}
			c.check(esc == nil, rule, w.Short(a.ClientFinish)+": winner cancels the stream context", w.At(cas), "every path from the CAS success edge reaches (defer) st.cancel()", "a finishing path does not cancel the client stream's context: its watcher goroutine and context resources leak, and Header() waiters are not released")
		}
	}
	isS := func(in ssa.Instruction) bool { return isCancelFieldCall(in, a.SS.Obj().Name()) }
	c.check(pathAvoiding(a.ServerFinish, nil, isExit, isS) == nil, rule, w.Short(a.ServerFinish)+": cancels the stream context on every path", posOf(w, a.ServerFinish), "st.cancel() on every path", "a path through the server finishing function does not cancel the stream context: the per-stream watcher goroutine never exits and a blocked handler is never released")
	// the cancel stored in the stream is the one created with its context
	for _, side := range []struct {
		fn *ssa.Function
		nt *types.Named
	}{{a.Allocate, a.CS}, {a.Create, a.SS}} {
		if side.fn == nil {
			continue
		}
		okPair := false
		allInstrs(side.fn, func(in ssa.Instruction) {
			al, ok := in.(*ssa.Alloc)
			if !ok || namedOf(al.Type()) == nil || namedOf(al.Type()).Obj() != side.nt.Obj() {
				return
			}
			st := storesInto(al)
			var ctxV, cancelV ssa.Value
			for _, v := range st {
				if isCancelFunc(v.Type()) {
					cancelV = v
				}
				if strings.HasSuffix(types.TypeString(v.Type(), nil), "context.Context") {
					ctxV = v
				}
			}
			if cancelV == nil || ctxV == nil {
				return
			}
			// cancel = extract #1 of With*(…) (possibly phi of two); ctx derives from extract #0 of the same call(s)
			okPair = cancelPairsWithCtx(cancelV, ctxV)
		})
		c.check(okPair, rule, w.Short(side.fn)+": the stored cancel belongs to the stored context", posOf(w, side.fn), "ctx, cancel from the same context.With* call", "the stream object stores a cancel function that does not cancel the context it stores")
	}
}

func cancelPairsWithCtx(cancelV, ctxV ssa.Value) bool {
	calls := map[*ssa.Call]bool{}
	var collect func(v ssa.Value, d int) bool
	collect = func(v ssa.Value, d int) bool {
		v = origin(v)
		if d > 4 {
			return false
		}
		switch x := v.(type) {
		case *ssa.Extract:
			if call, ok := x.Tuple.(*ssa.Call); ok && x.Index == 1 && strings.HasPrefix(calleeName(call), "context.With") {
				calls[call] = true
				return true
			}
		}
		if alts, ok := altEdges(v); ok { // phi, or result of a private helper
			for _, e := range alts {
				if !collect(e, d+1) {
					return false
				}
			}
			return true
		}
		return false
	}
	if !collect(cancelV, 0) || len(calls) == 0 {
		return false
	}
	// ctx chain: follow first args of context.* / metadata.* wrappers down to extract#0 of one of calls
	found := false
	var walk func(v ssa.Value, d int)
	walk = func(v ssa.Value, d int) {
		v = origin(v)
		if d > 12 || found {
			return
		}
		if _, isPhi := v.(*ssa.Phi); !isPhi {
			if alts, ok := altEdges(v); ok {
				for _, e := range alts {
					walk(e, d+1)
				}
				return
			}
		}
		switch x := v.(type) {
		case *ssa.Extract:
			if call, ok := x.Tuple.(*ssa.Call); ok {
				if calls[call] && x.Index == 0 {
					found = true
					return
				}
				if len(call.Call.Args) > 0 {
					walk(call.Call.Args[0], d+1)
				}
			}
		case *ssa.Call:
			if len(x.Call.Args) > 0 {
				walk(x.Call.Args[0], d+1)
			}
		case *ssa.Phi:
			for _, e := range x.Edges {
				walk(e, d+1)
			}
		case *ssa.UnOp:
			// the field of the object under construction read back (str.ctx = wrap(str.ctx)): what was stored there before
			if fa, ok := x.X.(*ssa.FieldAddr); ok && x.Op == token.MUL {
				if al, ok := fa.X.(*ssa.Alloc); ok {
					var best *ssa.Store
					for _, r := range *al.Referrers() {
						fa2, ok := r.(*ssa.FieldAddr)
						if !ok || fa2.Field != fa.Field {
							continue
						}
						for _, r2 := range *fa2.Referrers() {
							if st, ok := r2.(*ssa.Store); ok && st.Addr == ssa.Value(fa2) && dominates(st, x) && (best == nil || dominates(best, st)) {
								best = st
							}
						}
					}
					if best != nil {
						walk(best.Val, d+1)
					}
				}
			}
		}
	}
	walk(ctxV, 0)
	return found
}

func ruleCancelEmptiesQueue(c *Ctx, rule string) {
	c.rule(rule, "cancelling a receiver empties its queue, and no package-level variable retains per-RPC objects (no global written outside package initialisation)")
	w := c.W
	r := c.receivers()
	for _, fn := range r.cancel {
		c.check(len(listCalls(fn, "Init")) > 0, rule, w.Short(fn)+": cancel empties the queue", w.Pos(fn.Pos()), "items.Init()", "cancel() keeps queued frames alive after the RPC ended")
	}
	c.floor(rule, len(r.cancel), 1, "flow-controlled cancel methods")
	n := 0
	for _, fn := range w.Funcs {
		if fn.Name() == "init" || strings.HasPrefix(fn.Name(), "init#") {
			continue
		}
		allInstrs(fn, func(in ssa.Instruction) {
			var addr ssa.Value
			switch x := in.(type) {
			case *ssa.Store:
				addr = x.Addr
			case *ssa.MapUpdate:
				addr = x.Map
			}
			if addr == nil {
				return
			}
			base := addr
			for {
				switch y := base.(type) {
				case *ssa.FieldAddr:
					base = y.X
					continue
				case *ssa.IndexAddr:
					base = y.X
					continue
				case *ssa.UnOp:
					base = y.X
					continue
				}
				break
			}
			if g, ok := base.(*ssa.Global); ok && g.Pkg == w.SRoot {
				n++
				c.fail(rule, "write to package-level "+g.Name()+" in "+w.Short(fn), w.At(in), "package-level state is written at run time: it can retain per-RPC or per-tunnel objects forever")
			}
		})
	}
	if n == 0 {
		c.ok(rule, "no run-time writes to package-level variables", "-", "all globals are written only during package initialisation")
	}
}

// stripTrimPrefix: strings.TrimPrefix(x, ...) -> x (the method name may be normalised before it is split).
func stripTrimPrefix(v ssa.Value) ssa.Value {
	for i := 0; i < 3; i++ {
		call, ok := origin(v).(*ssa.Call)
		if !ok {
			return v
		}
		switch calleeName(call) {
		case "strings.TrimPrefix", "strings.TrimLeft", "strings.TrimSpace":
			v = call.Call.Args[0]
		default:
			return v
		}
	}
	return v
}

// isTableRemoval: `in` removes the entry keyed by the stream's id from the given table: a call of a function
// that deletes table[param] given the id, or an inline delete(table, id).
func (c *Ctx) isTableRemoval(in ssa.Instruction, table, idf FieldRef) bool {
	ci, ok := in.(ssa.CallInstruction)
	if !ok {
		return false
	}
	isID := func(v ssa.Value) bool {
		o := origin(v)
		if isFieldLoad(o, idf) {
			return true
		}
		// the id of the stream just allocated
		if fr, _, isF := loadedField(o); isF && fr == idf {
			return true
		}
		return false
	}
	if calleeName(ci) == "builtin.delete" {
		if fr, _, isF := loadedField(ci.Common().Args[0]); isF && fr == table && isID(ci.Common().Args[1]) {
			return true
		}
		return false
	}
	f := staticCallee(ci)
	if f == nil || !c.W.inRoot(f) || len(ci.Common().Args) < 2 || len(f.Params) < 2 {
		return false
	}
	deletes := false
	allInstrs(f, func(x ssa.Instruction) {
		if call, isC := x.(*ssa.Call); isC && calleeName(call) == "builtin.delete" {
			if fr, _, isF := loadedField(call.Call.Args[0]); isF && fr == table && origin(call.Call.Args[1]) == ssa.Value(f.Params[1]) {
				deletes = true
			}
		}
	})
	return deletes && isID(ci.Common().Args[1])
}

// reachedFromReceiverClose: fn is reached (same goroutine, incl. sync.Once functions) from a receiver's close method.
func (c *Ctx) reachedFromReceiverClose(fn *ssa.Function) bool {
	r := c.receivers()
	return c.reachedFromAny(append(append([]*ssa.Function{}, r.closeFn...), r.pClose...), fn)
}

// reachedFromAny: fn runs (same goroutine, also through a method value handed to sync.Once.Do) when one of `from` is called.
func (c *Ctx) reachedFromAny(from []*ssa.Function, fn *ssa.Function) bool {
	for _, cl := range from {
		if c.W.sameGoroutineReach(cl, nil)[fn] != nil {
			return true
		}
		// bound-method value handed to Once.Do: the call graph edge goes through the synthetic wrapper
		if n := c.W.CG.Nodes[fn]; n != nil {
			for _, e := range n.In {
				if e.Caller != nil && e.Caller.Func != nil && strings.Contains(e.Caller.Func.Synthetic, "bound method wrapper") {
					found := false
					allInstrs(cl, func(in ssa.Instruction) {
						if mc, ok := in.(*ssa.MakeClosure); ok && mc.Fn == ssa.Value(e.Caller.Func) {
							found = true
						}
					})
					if found {
						return true
					}
				}
			}
		}
	}
	return false
}

// ruleLocalFailureNotifiesPeer (C14.10): a read failure detected by the client ends the RPC on the server too.
func ruleLocalFailureNotifiesPeer(c *Ctx, rule string) {
	c.rule(rule, "the client's receive method never ends the RPC only locally: when it detects a failure itself it calls the cancel-stream function (which also emits the cancel frame), not the finishing function directly — otherwise the server keeps the handler, its context watcher and the table entry until the tunnel dies")
	w := c.W
	a := w.Anchors()
	if !c.need(rule, "ClientRecv", a.ClientRecv) || !c.need(rule, "ClientFinish", a.ClientFinish) || !c.need(rule, "CancelStream", a.CancelStream) {
		return
	}
	nCancel := 0
	for _, fn := range []*ssa.Function{a.ClientRecv, a.ClientRead, a.ClientReasmEntry, a.ClientReasm} {
		if fn == nil {
			continue
		}
		allInstrs(fn, func(in ssa.Instruction) {
			ci, ok := in.(ssa.CallInstruction)
			if !ok {
				return
			}
			switch staticCallee(ci) {
			case a.ClientFinish:
				c.fail(rule, w.Short(fn)+": finishes the stream without notifying the server", w.At(in), "the receive path calls the finishing function directly: the RPC ends at the caller but no cancel frame is sent, so the server-side handler (possibly blocked on its flow-control window), its watcher goroutine and its table entry stay until the tunnel ends")
			case a.CancelStream:
				nCancel++
				c.ok(rule, w.Short(fn)+": local failure cancels the stream", w.At(in), "cancel-stream (emits the cancel frame)")
			}
		})
	}
	c.floor(rule, nCancel, 1, "cancel-stream calls on the client receive path")
}

// readsMarker: v is (the result of) a read of the client stream's terminal marker: an atomic Load of it, or a call of a
// function of the package that performs one (e.g. loadDone()).
func (c *Ctx) readsMarker(v ssa.Value, marker FieldRef) bool {
	call, ok := origin(v).(*ssa.Call)
	if !ok {
		return false
	}
	isLoad := func(ci *ssa.Call) bool {
		if !strings.HasSuffix(calleeName(ci), ").Load") || len(ci.Call.Args) == 0 {
			return false
		}
		fr, _, okF := fieldOfAddr(ci.Call.Args[0])
		return okF && fr == marker
	}
	if isLoad(call) {
		return true
	}
	if f := helperCallee(call); f != nil {
		reads := false
		allInstrsLocal(f, func(in ssa.Instruction) {
			if ci, isC := in.(*ssa.Call); isC && isLoad(ci) {
				reads = true
			}
		})
		return reads
	}
	return false
}

// markerCase: one alternative of a value, followed through phis and private helpers down to a read of the marker; Aliases
// are the intermediate values (helper call results) that are this very value on the path taken, so that a fact about any
// of them is a fact about Val.
type markerCase struct {
	Val     ssa.Value
	Facts   []EdgeFact
	Aliases []ssa.Value
}

func (m markerCase) isAlias(x ssa.Value) bool {
	ox := origin(x)
	if ox == origin(m.Val) {
		return true
	}
	for _, a := range m.Aliases {
		if origin(a) == ox {
			return true
		}
	}
	return false
}

// casesUntilMarker expands v level by level (valueCases, one level at a time) and stops at values that read the marker
// (directly or through an accessor). Alternatives that contradict what is known about an alias (the nil constant where an
// enclosing test established != nil) are infeasible and dropped.
func (c *Ctx) casesUntilMarker(v ssa.Value, marker FieldRef, levels int, facts []EdgeFact, aliases []ssa.Value) []markerCase {
	v = stripConv(v)
	leaf := markerCase{v, facts, aliases}
	if levels == 0 || c.readsMarker(v, marker) {
		return []markerCase{leaf}
	}
	cs := valueCases(v, 4)
	if len(cs) == 1 && cs[0].Val == v {
		return []markerCase{leaf}
	}
	var out []markerCase
	al := append(append([]ssa.Value{}, aliases...), v)
	for _, sub := range cs {
		fs := append(append([]EdgeFact{}, facts...), sub.Facts...)
		for _, mc := range c.casesUntilMarker(sub.Val, marker, levels-1, fs, al) {
			if isNilConst(mc.Val) {
				infeasible := false
				for _, f := range mc.Facts {
					if x, op, y, isCmp := cmpFact(f); isCmp && op == token.NEQ && isNilConst(y) && mc.isAlias(x) && origin(x) != origin(mc.Val) {
						infeasible = true
					}
				}
				if infeasible {
					continue
				}
			}
			out = append(out, mc)
		}
	}
	return out
}

// invokeSendFailureReturns: the returns of the channel's Invoke that report a failure to send the request (after the
// stream was created, before any receive).
func (c *Ctx) invokeSendFailureReturns() (inv *ssa.Function, rets []*ssa.Return) {
	w := c.W
	a := w.Anchors()
	inv = w.methodFn(a.Ch, "Invoke")
	if inv == nil || a.ClientSend == nil || a.ClientRecv == nil {
		return inv, nil
	}
	var sends, recvs []ssa.Instruction
	allInstrs(inv, func(in ssa.Instruction) { // incl. a single-use helper that sends the request
		if ci, ok := in.(*ssa.Call); ok {
			switch staticCallee(ci) {
			case a.ClientSend:
				sends = append(sends, in)
			case a.ClientRecv:
				recvs = append(recvs, in)
			}
		}
	})
	for _, ret := range returnsOf(inv) {
		afterSend, afterRecv := false, false
		for _, s := range sends {
			if dominates(s, ret) {
				afterSend = true
			}
		}
		for _, r := range recvs {
			if dominates(r, ret) {
				afterRecv = true
			}
		}
		if afterSend && !afterRecv {
			// `if err := st.sendRequest(req); err != nil { return err }`: the sending (and aborting) was moved into a helper
			// used only here; its failure returns are the send-failure returns
			expanded := false
			if t := returnTuple(ret); len(t) > 0 && t[len(t)-1] != nil {
				if call, isCall := stripConv(t[len(t)-1]).(*ssa.Call); isCall {
					if h := inlinedCallee(call); h != nil {
						hasSend := false
						allInstrsLocal(h, func(x ssa.Instruction) {
							if ci, ok := x.(*ssa.Call); ok && staticCallee(ci) == a.ClientSend {
								hasSend = true
							}
						})
						if hasSend {
							for _, hr := range returnsOf(h) {
								ht := returnTuple(hr)
								if len(ht) == 0 || ht[len(ht)-1] == nil || isNilConst(ht[len(ht)-1]) {
									continue
								}
								rets = append(rets, hr)
								expanded = true
							}
						}
					}
				}
			}
			if !expanded {
				rets = append(rets, ret)
			}
		}
	}
	return inv, rets
}

// ruleInvokeAborts (C14.11 = C15.10): a unary call whose request could not be sent is over before Invoke returns.
func ruleInvokeAborts(c *Ctx, rule string) {
	c.rule(rule, "when the request of a unary call cannot be sent (SendMsg / CloseSend fail), Invoke returns only after it has cancelled the stream (cancel frame to the server, table entry removed) and received from the done signal: otherwise the RPC stays registered on both ends until the caller's context ends, and the stream's watcher goroutine writes the grpc.Header / grpc.Trailer locations after Invoke has handed them back to the application (data race)")
	w := c.W
	a := w.Anchors()
	inv, rets := c.invokeSendFailureReturns()
	if inv == nil {
		c.fail(rule, "Invoke", "-", "not found")
		return
	}
	done, okD := c.doneSignalField()
	if !okD || !c.need(rule, "CancelStream", a.CancelStream) {
		c.fail(rule, "done signal", "-", "cannot infer the done-signal field")
		return
	}
	isCancel := func(in ssa.Instruction) bool {
		ci, ok := in.(*ssa.Call)
		return ok && staticCallee(ci) == a.CancelStream
	}
	isDoneRecv := func(in ssa.Instruction) bool {
		if u, ok := in.(*ssa.UnOp); ok && u.Op == token.ARROW {
			if fr, _, okF := loadedField(u.X); okF && fr == done {
				return true
			}
		}
		return false
	}
	for _, ret := range rets {
		key := fmt.Sprintf("%s: send-failure return in block %d", w.Short(inv), ret.Block().Index)
		cn := mustPrecede(ret, isCancel)
		dr := mustPrecede(ret, isDoneRecv)
		if cn != nil && dr != nil {
			okOrder := dominates(cn, dr) || (cn.Block() == dr.Block() && instrIndex(cn) < instrIndex(dr))
			if cn == dr {
				// both inside one helper (abort): judged there
				if h := helperCallee(cn); h != nil {
					var ci, ri ssa.Instruction
					allInstrs(h, func(x ssa.Instruction) {
						if isCancel(x) && ci == nil {
							ci = x
						}
						if isDoneRecv(x) && ri == nil {
							ri = x
						}
					})
					okOrder = ci != nil && ri != nil && (dominates(ci, ri) || (ci.Block() == ri.Block() && instrIndex(ci) < instrIndex(ri)))
				}
			}
			c.check(okOrder, rule, key+": cancels before it waits", w.At(dr), "cancel-stream precedes the receive from "+done.String(), "Invoke waits for the done signal BEFORE it cancels the stream: nothing has finished the stream yet, so the wait never ends (the call hangs after a send failure)")
		}
		c.check(cn != nil && dr != nil, rule, key, w.At(ret), "preceded by cancel-stream and a receive from "+done.String(), "Invoke returns the send error without finishing the stream (cancel-stream: "+fmt.Sprint(cn != nil)+", wait for the done signal: "+fmt.Sprint(dr != nil)+"): the handler, the context watcher and both table entries stay until the caller's context ends (never, for context.Background()), and when the stream is finished later its goroutine writes the caller's grpc.Header / grpc.Trailer variables after Invoke returned — a data race with the application")
	}
	c.floor(rule, len(rets), 1, "send-failure returns of Invoke (SendMsg, CloseSend)")
}

// ruleInvokeReportsOutcome (C02.11): the error of such a return is the RPC's recorded outcome when there is one.
func ruleInvokeReportsOutcome(c *Ctx, rule string) {
	c.rule(rule, "when the request of a unary call cannot be sent because the RPC already ended (the server refused or finished it while the request was still waiting for flow-control credit), Invoke reports the RPC's recorded outcome (the status from close_stream, or the mapped context error), not the error that interrupted the sender (a bare, non-status 'context canceled')")
	w := c.W
	a := w.Anchors()
	inv, rets := c.invokeSendFailureReturns()
	if inv == nil {
		c.fail(rule, "Invoke", "-", "not found")
		return
	}
	for _, ret := range rets {
		key := fmt.Sprintf("%s: send-failure return in block %d", w.Short(inv), ret.Block().Index)
		t := returnTuple(ret)
		ok := false
		if len(t) > 0 && t[len(t)-1] != nil {
			for _, mc := range c.casesUntilMarker(t[len(t)-1], a.CSDone, 4, nil, nil) {
				if c.readsMarker(mc.Val, a.CSDone) {
					ok = true
				}
			}
			// helper with several call sites: its returns
			if leaves, _, isCall := returnLeavesOfCall(stripConv(t[len(t)-1])); isCall {
				for _, l := range leaves {
					if c.readsMarker(l, a.CSDone) {
						ok = true
					}
				}
			}
		}
		c.check(ok, rule, key, w.At(ret), "may return the stream's recorded outcome", "the returned error is "+desc(t[len(t)-1])+", never the stream's recorded outcome: a unary call to a refused stream (unknown method, shutting down) with a request larger than the flow-control window fails with a bare 'context canceled' instead of the server's status (Unimplemented / Unavailable)")
		// every alternative of the returned error: the recorded outcome exactly when it is a failure (non-nil and not the
		// clean-end marker), else the very error that made the send fail — never nil
		if len(t) == 0 || t[len(t)-1] == nil {
			continue
		}
		rv := stripConv(t[len(t)-1])
		var failing ssa.Value // the send error known to be non-nil at this return
		for _, f := range factsAt(ret) {
			if x, op, y, isCmp := cmpFact(f); isCmp && op == token.NEQ && isNilConst(y) && isErrorType(x.Type()) {
				failing = origin(x)
			}
		}
		var viaCall *ssa.Call
		if call, isCall := rv.(*ssa.Call); isCall && helperCallee(call) != nil {
			viaCall = call
		}
		okCases, nOutcome, nSend := true, 0, 0
		why := ""
		// the alternatives written in Invoke, in the helper it returns and in the helpers that one filters the outcome through
		// (`if outcome := st.failure(); outcome != nil { return outcome }`), down to the read of the recorded outcome
		for _, vc := range c.casesUntilMarker(rv, a.CSDone, 3, nil, nil) {
			if c.readsMarker(vc.Val, a.CSDone) {
				nOutcome++
				nonNil, notEOF := false, false
				for _, f := range vc.Facts {
					x, op, y, isCmp := cmpFact(f)
					if !isCmp || op != token.NEQ || !vc.isAlias(x) {
						continue
					}
					if isNilConst(y) {
						nonNil = true
					}
					if desc(y) == "*global:EOF" {
						notEOF = true
					}
				}
				if !nonNil || !notEOF {
					okCases, why = false, "the recorded outcome is returned on a path where it may be nil or the clean-end marker (success or a bare EOF instead of the send failure)"
				}
				continue
			}
			v := origin(vc.Val)
			if p, isP := v.(*ssa.Parameter); isP && viaCall != nil {
				if h := helperCallee(viaCall); h != nil && p.Parent() == h {
					for k, q := range h.Params {
						if q == p && k < len(viaCall.Call.Args) {
							v = origin(viaCall.Call.Args[k])
						}
					}
				}
			}
			if failing != nil && v == failing {
				nSend++
				continue
			}
			okCases, why = false, "one alternative of the returned error is "+desc(vc.Val)+", which is neither the stream's recorded outcome nor the error that made the send fail (nil reports success for a request that was never delivered)"
		}
		c.check(okCases && nOutcome >= 1 && nSend >= 1, rule, key+": outcome when it is a failure, else the send error", w.At(ret), fmt.Sprintf("%d outcome alternative(s) under outcome != nil && outcome != EOF, %d send-error alternative(s)", nOutcome, nSend), why)
	}
	c.floor(rule, len(rets), 1, "send-failure returns of Invoke (SendMsg, CloseSend)")
}

// isFieldLoadThrough: v is a load of field fr, directly or as the result of a small accessor of the package (possibly shared
// by several callers) every return of which is such a load (`s.currentState()`).
func isFieldLoadThrough(v ssa.Value, fr FieldRef) bool {
	if isFieldLoad(v, fr) || isFieldLoad(origin(v), fr) {
		return true
	}
	call, ok := stripConv(v).(*ssa.Call)
	if !ok {
		return false
	}
	h := helperCallee(call)
	if h == nil {
		return false
	}
	n, okAll := 0, true
	for _, ret := range returnsOf(h) {
		if len(ret.Results) != 1 {
			return false
		}
		n++
		rv := ret.Results[0]
		if isFieldLoad(rv, fr) || isFieldLoad(origin(rv), fr) {
			continue
		}
		// a named result / local kept in memory: the single value stored
		if u, isU := stripConv(rv).(*ssa.UnOp); isU {
			if al, isAl := u.X.(*ssa.Alloc); isAl {
				if sv := singleStore(al); sv != nil && (isFieldLoad(sv, fr) || isFieldLoad(origin(sv), fr)) {
					continue
				}
			}
		}
		okAll = false
	}
	return okAll && n > 0
}

// ruleCancelDoesNotWait (C07.14): cancelling an RPC does not queue behind a sender stuck in the transport.
func ruleCancelDoesNotWait(c *Ctx, rule string) {
	c.rule(rule, "cancel does not wait: on the way to the finishing function the client's cancel-stream function acquires no mutex that the send method holds across its (blocking) hand-over to the sender — the context watcher would otherwise sit behind a SendMsg whose frame is stuck in the transport, the RPC would not end at the caller and no cancel frame would go out")
	w := c.W
	a := w.Anchors()
	lf := w.Locks()
	if !c.need(rule, "CancelStream", a.CancelStream) || !c.need(rule, "ClientFinish", a.ClientFinish) || !c.need(rule, "ClientSend", a.ClientSend) {
		return
	}
	long := map[string]bool{}
	for _, s := range c.senderSendSites() {
		if s.Parent() == a.ClientSend || w.ownedBy(s.Parent(), a.ClientSend) {
			for _, l := range perStreamLocks(lf.MustAt(s.(ssa.Instruction)), a.CS) {
				long[l] = true
			}
		}
	}
	var names []string
	for l := range long {
		names = append(names, l)
	}
	sort.Strings(names)
	c.floor(rule, len(names), 1, "client-stream mutexes held across the hand-over to the sender")
	var fin ssa.Instruction
	allInstrs(a.CancelStream, func(in ssa.Instruction) {
		if ci, ok := in.(ssa.CallInstruction); ok && w.sameFn(staticCallee(ci), a.ClientFinish) && fin == nil {
			fin = in
		}
	})
	if fin == nil {
		c.fail(rule, w.Short(a.CancelStream)+": calls the finishing function", posOf(w, a.CancelStream), "the cancel-stream function does not call the finishing function")
		return
	}
	var waits ssa.Instruction
	allInstrs(a.CancelStream, func(in ssa.Instruction) {
		ci, ok := in.(*ssa.Call)
		if !ok {
			return
		}
		op, isOp := lockOpOf(ci)
		if !isOp || (op.kind != "lock" && op.kind != "rlock") || !long[op.id] {
			return
		}
		if dominates(in, fin) || reaches(in, fin) {
			waits = in
		}
	})
	at := w.At(fin)
	if waits != nil {
		at = w.At(waits)
	}
	c.check(waits == nil, rule, w.Short(a.CancelStream)+": reaches the finishing function without taking a sender-side mutex", at, "no acquisition of "+strings.Join(names, ", ")+" before finishing", "the cancel path locks a mutex that SendMsg holds while its frame is handed to the (possibly stalled) transport: cancelling the RPC's context then does not end the RPC at the caller until the peer reads again — RecvMsg stays blocked and the cancel frame is never queued")
}

// isErrorOfCall: x is the error result of call (its only result, or the last element of its result tuple).
func isErrorOfCall(x ssa.Value, call *ssa.Call) bool {
	for _, v := range []ssa.Value{stripConv(x), origin(x)} {
		if v == ssa.Value(call) {
			return true
		}
		if ex, ok := v.(*ssa.Extract); ok && ex.Tuple == ssa.Value(call) {
			if tup, isT := call.Type().(*types.Tuple); isT && ex.Index == tup.Len()-1 {
				return true
			}
		}
	}
	return false
}

// ruleContextErrorsAsStatus (C07.16): a done context is reported to the caller as a gRPC status.
func ruleContextErrorsAsStatus(c *Ctx, rule string) {
	c.rule(rule, "an RPC that cannot be started because a context is already done is reported with a gRPC status (Canceled / DeadlineExceeded): none of the functions on the channel's call-start path (Invoke, NewStream and what they delegate to) returns the bare result of Context.Err()")
	w := c.W
	a := w.Anchors()
	if !c.need(rule, "NewStream", a.NewStream) || !c.need(rule, "Allocate", a.Allocate) {
		return
	}
	fns := []*ssa.Function{a.NewStream, a.Allocate}
	for _, m := range []string{"Invoke", "NewStream"} {
		if f := w.methodFn(a.Ch, m); f != nil {
			fns = append(fns, f)
		}
	}
	seen := map[*ssa.Function]bool{}
	n := 0
	for _, fn := range fns {
		if seen[fn] {
			continue
		}
		seen[fn] = true
		res := fn.Signature.Results()
		if res.Len() == 0 || types.TypeString(res.At(res.Len()-1).Type(), nil) != "error" {
			continue
		}
		forEachReturnValue(fn, res.Len()-1, func(v ssa.Value, at ssa.Instruction) {
			n++
			bare := ""
			for _, vc := range valueCases(v, 2) {
				if call, ok := origin(vc.Val).(*ssa.Call); ok && call.Call.IsInvoke() && call.Call.Method.Name() == "Err" && strings.HasSuffix(types.TypeString(call.Call.Value.Type(), nil), "context.Context") {
					bare = desc(call)
				}
			}
			c.check(bare == "", rule, fmt.Sprintf("%s: error returned in block %d", w.Short(fn), at.Block().Index), w.At(at), "not a bare context error", "the call-start path returns "+bare+" as is: the caller of a cancelled or expired RPC sees a non-status error (code Unknown) instead of Canceled / DeadlineExceeded — convert with status.FromContextError")
		})
	}
	c.floor(rule, n, 6, "error returns on the call-start path")
}

// ruleGracefulNeverClosesEarly (C10.11): GracefulStop does not put the server into the closed state while it still waits.
func ruleGracefulNeverClosesEarly(c *Ctx, rule string) {
	c.rule(rule, "GracefulStop never marks the reverse-tunnel server closed before its wait for the Serve calls has returned (directly, through a helper or through a deferred call that runs ahead of the deferred wait): Stop skips its half-close loop once the state is closed, so a Stop that follows a pending GracefulStop could no longer force the tunnels down")
	w := c.W
	gs, stop := w.Func("(*ReverseTunnelServer).GracefulStop"), w.Func("(*ReverseTunnelServer).Stop")
	if gs == nil || stop == nil {
		c.fail(rule, "GracefulStop / Stop", "-", "not found")
		return
	}
	state := FieldRef{"ReverseTunnelServer", w.Roles().RTSState}
	type hit struct{ st, site ssa.Instruction }
	closedStores := func(root *ssa.Function) []hit {
		var out []hit
		var visit func(fn *ssa.Function, bind map[*ssa.Parameter]ssa.Value, site ssa.Instruction, depth int)
		resolve := func(v ssa.Value, bind map[*ssa.Parameter]ssa.Value) ssa.Value {
			v = stripConv(v)
			if p, ok := v.(*ssa.Parameter); ok {
				if b, has := bind[p]; has {
					return stripConv(b)
				}
			}
			return v
		}
		visit = func(fn *ssa.Function, bind map[*ssa.Parameter]ssa.Value, site ssa.Instruction, depth int) {
			allInstrsLocal(fn, func(in ssa.Instruction) {
				at := site
				if at == nil {
					at = in
				}
				if st, ok := in.(*ssa.Store); ok {
					if fr, _, isF := fieldOfAddr(st.Addr); isF && fr == state {
						for _, leaf := range phiLeaves(resolve(st.Val, bind)) {
							if k, isK := constInt(resolve(leaf, bind)); isK && k == 2 {
								out = append(out, hit{st, at})
							}
						}
					}
					return
				}
				ci, ok := in.(ssa.CallInstruction)
				if !ok || depth >= 3 {
					return
				}
				if _, isGo := in.(*ssa.Go); isGo {
					return
				}
				g := staticCallee(ci)
				if g == nil || g.Blocks == nil || !w.inRoot(g) || g == fn {
					return
				}
				nb := map[*ssa.Parameter]ssa.Value{}
				for i, p := range g.Params {
					if i < len(ci.Common().Args) {
						nb[p] = resolve(ci.Common().Args[i], bind)
					}
				}
				visit(g, nb, at, depth+1)
			})
		}
		visit(root, map[*ssa.Parameter]ssa.Value{}, nil, 0)
		return out
	}
	// self-check of the recogniser: Stop does mark the server closed
	c.check(len(closedStores(stop)) >= 1, rule, "recogniser finds the closed-state store of Stop", posOf(w, stop), "found", "the store of the closed state in Stop is not recognised: the rule for GracefulStop would pass vacuously")
	var waitD *ssa.Defer
	var waitC *ssa.Call
	allInstrsLocal(gs, func(in ssa.Instruction) {
		if d, ok := in.(*ssa.Defer); ok && calleeName(d) == "(*sync.WaitGroup).Wait" {
			waitD = d
		}
		if ci, ok := in.(*ssa.Call); ok && calleeName(ci) == "(*sync.WaitGroup).Wait" {
			waitC = ci
		}
	})
	hits := closedStores(gs)
	for _, h := range hits {
		ok := false
		if _, isDefer := h.site.(*ssa.Defer); isDefer {
			// runs at exit in reverse order of registration: after the deferred wait only if registered before it
			ok = (waitD != nil && dominates(h.site, waitD)) || (waitC != nil && dominates(waitC, h.site))
		} else {
			ok = waitC != nil && dominates(waitC, h.site)
		}
		c.check(ok, rule, "GracefulStop: closed state set only after the wait", w.At(h.site), "after wg.Wait()", "GracefulStop sets the closed state at "+w.At(h.st)+" before its wait for the Serve calls returns: a later Stop finds the server 'already closed', skips the half-close of the tunnels and blocks for as long as the peers keep them open — in-flight handlers are never cancelled")
	}
	if len(hits) == 0 {
		c.ok(rule, "GracefulStop: closed state set only after the wait", posOf(w, gs), "GracefulStop never stores the closed state")
	}
}
