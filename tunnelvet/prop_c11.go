package main

func init() {
	register("C11", &propDef{
		Run: func(c *Ctx) {
			ruleNegotiationSymmetry(c, "C11.1")
			ruleSettingsEmit(c, "C11.2")
			ruleSettingsValidation(c, "C11.3")
			ruleRevisionSelection(c, "C11.4", "C11.7")
			ruleSupportedRevisions(c, "C11.5")
			ruleRevisionZeroFrames(c, "C11.6")
			ruleConstants(c, "C11.8")
			ruleChannelClose(c, "C11.9")
			ruleWaitsReleased(c, "C11.10")
			rulePlumbing(c, "C11.11", "options")
		},
		Explain:    "Static necessary conditions of revision negotiation: symmetric attach/detect of the negotiate header on all four opening paths with the detected flag configuring the endpoint; settings emitted only to a negotiating client, once, with id -1, the supported revisions and the window; the client's settings prologue only when advertised, every malformed input closing the channel; highest-common-revision selection; supportedRevisions honouring the option; flow-controlled vs plain sender/receiver chosen by the stream's revision, window updates only from the flow-controlled receiver's callback; empty list = revision zero.",
		Assume:     []string{"metadata.MD.Get returns the values in order", "constants grpctunnel-negotiate / on are the agreed header"},
		NotDecided: []string{"interoperability with real older binaries", "that every RPC shape works at revision zero"},
	})
	register("C12", &propDef{
		Run: func(c *Ctx) {
			ruleRegistryLocks(c, "C12.1")
			ruleRegistryPairing(c, "C12.2")
			ruleChannelClose(c, "C12.3")
			rulePick(c, "C12.4")
			ruleLatch(c, "C12.5")
			ruleUnregisterAndCallbacks(c, "C12.6", "C12.7")
			ruleKeyAsChannel(c, "C12.8")
			ruleGetOrCreateAtomic(c, "C12.10")
			rulePlumbing(c, "C12.11", "teardown")
		},
		Explain:    "Static necessary conditions of registry consistency: every registry field access under its mutex; add paired with a deferred remove of the same channel on the same registry before the handler blocks, Close deferred first; the channel's tear-down (unregister) runs before it is marked finished; round-robin pick: advance by one, wrap at len (>=), element read at the cursor of a non-empty list in one critical section, nil -> Unavailable, arguments passed through; latch closed exactly on 0->1 and re-made exactly on 1->0; unregister uses the key returned by the first removal; one open callback after registration and a deferred close callback.",
		Assume:     []string{"lock identity is type + field"},
		NotDecided: []string{"linearizability of the two-level registry under concurrent histories", "the transient window between the two add steps"},
	})
}
