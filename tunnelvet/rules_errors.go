package main

// rules_errors.go: error discipline of the package's own functions. Two shapes that turn a failure into a success without
// the type checker or the (single-configuration) suite noticing:
//   E1  a return with a nil error on a path where an error value obtained from a call is known to be non-nil (the error is
//       dropped) — unless the same path established that it is an agreed "clean end" sentinel (err == io.EOF, errors.Is);
//   E2  a return of (zero value, nil error) from a function whose callers distinguish success from failure by the error
//       alone (they would use the zero value as if it were a result).
// Instances that are deliberate are frozen below, one line of reason each.

import (
	"fmt"
	"go/token"
	"go/types"
	"strings"

	"golang.org/x/tools/go/ssa"
)

// nilNilExceptions: functions that deliberately return (zero, nil), by role.
func nilNilExceptions(w *World) map[*ssa.Function]string {
	a := w.Anchors()
	out := map[*ssa.Function]string{}
	if a.ClientLookup != nil {
		out[a.ClientLookup] = "a frame for a recently finished stream id: (nil stream, nil error) means 'discard the frame'; both accept functions begin with a nil-receiver test (late frames are inert)"
	}
	if a.ServerLookup != nil {
		out[a.ServerLookup] = "same on the server: a late frame for a finished stream is discarded by the nil-receiver test of the accept method"
	}
	return out
}

func isErrorType(t types.Type) bool { return t != nil && types.TypeString(t, nil) == "error" }

func isZeroConst(v ssa.Value) bool {
	c, ok := v.(*ssa.Const)
	if !ok {
		return false
	}
	if c.Value == nil {
		return true
	}
	s := c.Value.ExactString()
	return s == "0" || s == "false" || s == `""`
}

func ruleErrorDiscipline(c *Ctx, rule string) {
	c.rule(rule, "error discipline: no function of the package returns a nil error on a path where an error obtained from a call is known to be non-nil (except after that path established an agreed clean-end sentinel: err == io.EOF / errors.Is), no function returns a zero result together with a nil error (frozen, justified exceptions aside), no call's values are used while its error is never examined, and a pointer or interface returned together with an error is dereferenced only where that error is known to be nil")
	w := c.W
	nFn, nRet := 0, 0
	for _, fn := range w.Funcs {
		if isGenericTemplate(fn) || fn.Synthetic != "" {
			continue
		}
		res := fn.Signature.Results()
		if res.Len() == 0 || !isErrorType(res.At(res.Len()-1).Type()) {
			continue
		}
		nFn++
		name := w.Short(fn)
		for _, ret := range returnsOf(fn) {
			t := returnTuple(ret)
			if len(t) != res.Len() || t[len(t)-1] == nil {
				continue
			}
			if !isNilConst(t[len(t)-1]) {
				// an error variable returned on the branch where it is known to be nil is a nil return too
				knownNil := false
				for _, f := range factsAt(ret) {
					if x, op, y, ok := cmpFact(f); ok && op == token.EQL && isNilConst(y) && (stripConv(x) == stripConv(t[len(t)-1]) || origin(x) == origin(t[len(t)-1])) {
						knownNil = true
					}
				}
				if !knownNil {
					continue
				}
			}
			nRet++
			key := fmt.Sprintf("%s: nil-error return in block %d", name, ret.Block().Index)
			// E1
			dropped := ""
			var droppedVal ssa.Value
			sentinel := false
			facts := factsAt(ret)
			for _, f := range facts {
				x, op, y, ok := cmpFact(f)
				if !ok {
					continue
				}
				if op == token.NEQ && isNilConst(y) && isErrorType(x.Type()) {
					o := origin(x)
					switch o.(type) {
					case *ssa.Call, *ssa.Extract:
						dropped = desc(x)
						droppedVal = o
					}
				}
				if op == token.EQL && isErrorType(x.Type()) && strings.HasPrefix(desc(y), "*global:") {
					sentinel = true
				}
			}
			for _, bf := range boolFactsOf(facts) {
				if call, ok := bf.V.(*ssa.Call); ok && bf.True && calleeName(call) == "errors.Is" {
					sentinel = true
				}
			}
			if dropped != "" && !sentinel && droppedVal != nil && errorUsedBefore(droppedVal, ret) {
				dropped = "" // dealt with on this path (reported to the peer, logged, stored) before returning
			}
			c.check(dropped == "" || sentinel, rule, key+" drops no error", w.At(ret), "no non-nil call error on this path", "this return reports success although "+dropped+" is known to be non-nil on this path (and was not recognised as a clean-end sentinel): the caller is told the operation succeeded")
			// E2
			if len(t) >= 2 {
				allZero := true
				for _, v := range t[:len(t)-1] {
					if v == nil || !isZeroConst(v) {
						allZero = false
					}
				}
				first := res.At(0).Type().Underlying()
				_, isBasic := first.(*types.Basic)
				if allZero && !isBasic {
					if why, ok := nilNilExceptions(w)[fn]; ok {
						c.exception(rule, key+" returns a result with its success", w.At(ret), "frozen exception: "+why)
					} else {
						c.fail(rule, key+" returns a result with its success", w.At(ret), "this return yields the zero value together with a nil error: callers tell success from failure by the error alone and would use a nil "+types.TypeString(res.At(0).Type(), nil)+" as the result")
					}
				}
			}
		}
	}
	c.floor(rule, nFn, 30, "functions returning an error")
	c.floor(rule, nRet, 20, "nil-error returns")
	unusedCallErrors(c, rule)
	derefBeforeErrorCheck(c, rule)
}

// ruleEveryFrameKindHandled (C09.14, C03.14): a frame of any kind does something. The two per-stream accept methods have
// no path from entry to return on which nothing at all is called (other than for a nil stream: a late frame), and they
// never end the RPC with a nil error constant: a frame kind that is illegal on a stream (settings, an unknown kind) must
// fail that RPC, not be ignored and not complete it successfully.
func ruleEveryFrameKindHandled(c *Ctx, rule string) {
	c.rule(rule, "every frame kind is handled: in both per-stream accept methods every path for a non-nil stream performs some call (no frame kind is silently ignored), and no call of a finishing function there passes a nil error constant (an illegal or unknown frame fails the RPC; it neither completes it successfully nor leaves it running)")
	w := c.W
	a := w.Anchors()
	n := 0
	for _, side := range []struct{ acc, fin *ssa.Function }{{a.ClientAccept, a.ClientFinish}, {a.ServerAccept, a.ServerFinish}} {
		acc := side.acc
		if !c.need(rule, "accept method", acc) {
			continue
		}
		n++
		name := w.Short(acc)
		isExit := func(in ssa.Instruction) bool { _, ok := in.(*ssa.Return); return ok && in.Parent() == acc }
		isEffect := func(in ssa.Instruction) bool {
			switch x := in.(type) {
			case *ssa.Call:
				return !strings.HasPrefix(calleeName(x), "builtin.")
			case *ssa.Go, *ssa.Defer, *ssa.Send:
				return true
			}
			return false
		}
		nilRecv := func(pred, sc *ssa.BasicBlock) bool {
			if ef, has := edgeFact(pred, sc); has {
				if x, op, y, ok := cmpFact(ef); ok && op == token.EQL && isNilConst(y) && stripConv(x) == ssa.Value(acc.Params[0]) {
					return true
				}
			}
			return false
		}
		esc := pathAvoidingE(acc, nil, isExit, isEffect, nilRecv)
		at := posOf(w, acc)
		if esc != nil {
			at = w.At(esc)
		}
		c.check(esc == nil, rule, name+": no frame kind is silently ignored", at, "every path for a live stream calls something", "a path through the accept method returns without doing anything for a live stream: a frame kind that must fail the RPC (settings on a stream, an unknown kind) is ignored and the RPC keeps running as if the peer conformed")
		nFin, okFin := 0, true
		var bad ssa.Instruction
		allInstrs(acc, func(in ssa.Instruction) {
			ci, ok := in.(ssa.CallInstruction)
			if !ok {
				return
			}
			g := staticCallee(ci)
			if g == nil || !(w.sameFn(g, side.fin) || w.ownedBy(side.fin, g)) {
				return // (the half-close function maps nil to the end-of-stream marker itself: nil is legitimate there)
			}
			for i, arg := range ci.Common().Args {
				if i == 0 || !isErrorType(arg.Type()) {
					continue
				}
				nFin++
				if isNilConst(arg) {
					okFin, bad = false, in
				}
			}
		})
		if bad != nil {
			at = w.At(bad)
		}
		c.check(okFin && nFin >= 1, rule, name+": never ends the RPC with a nil error constant", at, fmt.Sprintf("%d finishing calls, each with an error value", nFin), "the accept method ends the stream with a literal nil error: the RPC completes as if it had succeeded (or the half-close carries no end-of-stream marker) although the frame was illegal")
	}
	c.floor(rule, n, 2, "per-stream accept methods")
}

// isLocalError: v is an error constructed on the spot (status.Errorf, errors.New, fmt.Errorf), on every alternative.
func isLocalError(v ssa.Value) bool {
	leaves := phiLeaves(v)
	if len(leaves) == 0 {
		return false
	}
	for _, l := range leaves {
		call, ok := origin(l).(*ssa.Call)
		if !ok {
			return false
		}
		n := calleeName(call)
		if !(strings.HasPrefix(n, "google.golang.org/grpc/status.") || n == "errors.New" || n == "fmt.Errorf") {
			return false
		}
	}
	return true
}

// ruleBrokenStreamEndsRPC (C09.15, C14.11, C16.6): a violation the reader detects itself ends the RPC.
func ruleBrokenStreamEndsRPC(c *Ctx, rule string) {
	c.rule(rule, "a violation detected by the reader ends the RPC: in both reassembly functions every return whose error is constructed on the spot (bad envelope, excess data, unknown frame, second message on a single-message side) reports 'stream broken' (ok == false), and both receive methods react to exactly that — error non-nil and ok == false — by ending the stream with that very error (client: cancel-stream, which also tells the server; server: the finishing function, which sends the status)")
	w := c.W
	a := w.Anchors()
	for _, side := range []struct {
		name              string
		recv, read, reasm *ssa.Function
		entry             *ssa.Function
		enders            []*ssa.Function
	}{
		{"client", a.ClientRecv, a.ClientRead, a.ClientReasm, a.ClientReasmEntry, []*ssa.Function{a.CancelStream}},
		{"server", a.ServerRecv, a.ServerRead, a.ServerReasm, a.ServerReasmEntry, []*ssa.Function{a.ServerFinish}},
	} {
		if !c.need(rule, side.name+" receive method", side.recv) || !c.need(rule, side.name+" reassembly function", side.reasm) {
			continue
		}
		// 1. the producers
		nLocal := 0
		seen := map[*ssa.Function]bool{}
		for _, fn := range []*ssa.Function{side.reasm, side.entry, side.read} {
			if fn == nil || seen[fn] {
				continue
			}
			seen[fn] = true
			res := fn.Signature.Results()
			bi, ei := -1, -1
			for i := 0; i < res.Len(); i++ {
				if b, isB := res.At(i).Type().Underlying().(*types.Basic); isB && b.Kind() == types.Bool {
					bi = i
				}
				if isErrorType(res.At(i).Type()) {
					ei = i
				}
			}
			if bi < 0 || ei < 0 {
				continue
			}
			for _, ret := range returnsOf(fn) {
				t := returnTuple(ret)
				if len(t) != res.Len() || t[ei] == nil || !isLocalError(t[ei]) {
					continue
				}
				nLocal++
				c.check(t[bi] != nil && isConstBool(t[bi], false), rule, fmt.Sprintf("%s: locally detected violation in block %d reports a broken stream", w.Short(fn), ret.Block().Index), w.At(ret), "ok == false", "this return reports an error the reader constructed itself (a protocol or call-shape violation) as if the stream were intact (ok == true): the receive method then does not end the RPC, which keeps running on the other end")
			}
		}
		c.floor(rule, nLocal, 5, side.name+": locally detected violations")
		// 2. the consumer
		var ends []ssa.CallInstruction
		allInstrs(side.recv, func(in ssa.Instruction) {
			if ci, ok := in.(ssa.CallInstruction); ok {
				for _, e := range side.enders {
					if e != nil && w.sameFn(staticCallee(ci), e) {
						ends = append(ends, ci)
					}
				}
			}
		})
		if len(ends) == 0 {
			c.fail(rule, w.Short(side.recv)+": ends the RPC when the stream is broken", posOf(w, side.recv), "the receive method never ends the stream itself: a violation the reader detects is only reported to the application, the RPC stays open on the other end")
			continue
		}
		for i, e := range ends {
			var errV ssa.Value
			notOK, nonNil := false, false
			for _, bf := range boolFactsAt(e) {
				if ex, isEx := bf.V.(*ssa.Extract); isEx && !bf.True {
					if b, isB := ex.Type().Underlying().(*types.Basic); isB && b.Kind() == types.Bool {
						notOK = true
					}
				}
			}
			for _, f := range factsAt(e) {
				x, op, y, ok := cmpFact(f)
				if ok && op == token.NEQ && isNilConst(y) && isErrorType(x.Type()) {
					nonNil = true
					errV = origin(x)
				}
			}
			okArg := false
			for k, arg := range e.Common().Args {
				if k > 0 && isErrorType(arg.Type()) && errV != nil && origin(arg) == errV {
					okArg = true
				}
			}
			key := fmt.Sprintf("%s: ending call #%d", w.Short(side.recv), i+1)
			c.check(notOK && nonNil, rule, key+" is taken exactly when the read failed on a broken stream", w.At(e), "under err != nil && !ok", "the call that ends the stream is not guarded by 'the read returned an error and reported the stream broken': either a broken stream does not end the RPC, or an intact one (normal end of stream) is torn down")
			c.check(okArg, rule, key+" passes the read's error", w.At(e), "the error the read returned", "the stream is ended with something other than the error the read returned (nil would complete the RPC as a success)")
		}
	}
}

// ruleTransportStreamDelegates (C02.13): grpc.SetHeader / grpc.SendHeader / grpc.SetTrailer reach the stream.
func ruleTransportStreamDelegates(c *Ctx, rule string) {
	c.rule(rule, "the grpc.ServerTransportStream adapter (what grpc.SetHeader, grpc.SendHeader and grpc.SetTrailer use from a handler's context) delegates: each of its metadata methods calls a method of the server stream with its metadata argument unchanged and returns that call's result")
	w := c.W
	a := w.Anchors()
	it := w.grpcIface("ServerTransportStream")
	if it == nil || a.SS == nil {
		c.fail(rule, "grpc.ServerTransportStream", "-", "interface or server stream type not found")
		return
	}
	n := 0
	for _, fn := range w.Funcs {
		if fn.Parent() != nil || fn.Synthetic != "" || fn.Signature.Recv() == nil || len(fn.Params) != 2 || !typeIs(fn.Params[1].Type(), "grpc/metadata", "MD") {
			continue
		}
		rt := fn.Signature.Recv().Type()
		if !types.Implements(rt, it) {
			continue
		}
		if rn := namedOf(rt); rn == nil || rn.Obj() == a.SS.Obj() {
			continue // the stream itself
		}
		n++
		var del *ssa.Call
		allInstrs(fn, func(in ssa.Instruction) {
			if call, ok := in.(*ssa.Call); ok {
				if g := staticCallee(call); g != nil && recvNamed(g) != nil && recvNamed(g).Obj() == a.SS.Obj() && len(call.Call.Args) >= 2 && isSelfView(call.Call.Args[0], fn.Params[0]) && origin(call.Call.Args[1]) == ssa.Value(fn.Params[1]) {
					del = call
				}
			}
		})
		okRet := del != nil
		if del != nil {
			forEachReturnValue(fn, 0, func(v ssa.Value, at ssa.Instruction) {
				if origin(v) != ssa.Value(del) && stripConv(v) != ssa.Value(del) {
					okRet = false
				}
			})
		}
		c.check(okRet, rule, w.Short(fn)+": delegates to the stream", posOf(w, fn), "return stream.method(md)", "this method of the transport-stream adapter does not pass its metadata to the server stream and return the result: metadata a handler sets through grpc.SetHeader / grpc.SendHeader / grpc.SetTrailer is lost (or a failure is reported as success)")
	}
	c.floor(rule, n, 3, "metadata methods of the transport-stream adapter")
}

// errorUsedBefore: the error value e is put to some use (argument of a call, captured by a function literal that is
// created, stored somewhere that outlives the function, sent) at a point from which the return `ret` is reached.
// Comparisons, other returns and the bookkeeping of a local variable cell are not uses.
func errorUsedBefore(e ssa.Value, ret ssa.Instruction) bool {
	seen := map[ssa.Value]bool{}
	var uses []ssa.Instruction
	var track func(v ssa.Value, depth int)
	track = func(v ssa.Value, depth int) {
		if v == nil || seen[v] || depth > 6 || v.Referrers() == nil {
			return
		}
		seen[v] = true
		for _, r := range *v.Referrers() {
			switch x := r.(type) {
			case *ssa.BinOp, *ssa.If, *ssa.Return, *ssa.DebugRef:
			case *ssa.Phi:
				track(x, depth+1)
			case *ssa.ChangeInterface:
				track(x, depth+1)
			case *ssa.MakeInterface:
				track(x, depth+1)
			case *ssa.ChangeType:
				track(x, depth+1)
			case *ssa.Convert:
				track(x, depth+1)
			case *ssa.TypeAssert:
				track(x, depth+1)
			case *ssa.Extract:
				track(x, depth+1)
			case *ssa.UnOp:
				track(x, depth+1)
			case *ssa.Store:
				if al, isAl := x.Addr.(*ssa.Alloc); isAl && x.Val == v {
					// a local variable cell: what is done with the cell
					for _, r2 := range *al.Referrers() {
						switch y := r2.(type) {
						case *ssa.MakeClosure:
							uses = append(uses, y)
						case *ssa.UnOp:
							track(y, depth+1)
						}
					}
				} else if x.Val == v {
					uses = append(uses, x)
				}
			case ssa.Instruction:
				uses = append(uses, x) // call / go / defer argument, closure binding, send, map update, ...
			}
		}
	}
	track(e, 0)
	for _, u := range uses {
		if u.Parent() != ret.Parent() {
			continue
		}
		if u.Block() == ret.Block() && instrIndex(u) < instrIndex(ret) {
			return true
		}
		// reached from the use without the error being produced afresh on the way (a later loop iteration is another error)
		def, _ := e.(ssa.Instruction)
		if ex, isEx := e.(*ssa.Extract); isEx {
			def, _ = ex.Tuple.(ssa.Instruction)
		}
		if pathAvoiding(ret.Parent(), u, func(x ssa.Instruction) bool { return x == ret }, func(x ssa.Instruction) bool { return def != nil && x == def }) != nil {
			return true
		}
	}
	return false
}

// isSelfView: v is the receiver p itself (converted), directly or through a small conversion helper that returns its own
// receiver (`func (t *adapter) stream() *serverStream { return (*serverStream)(t) }`).
func isSelfView(v ssa.Value, p *ssa.Parameter) bool {
	if origin(v) == ssa.Value(p) {
		return true
	}
	call, ok := stripConv(v).(*ssa.Call)
	if !ok {
		return false
	}
	h := helperCallee(call)
	if h == nil || len(h.Params) != 1 || len(call.Call.Args) != 1 || origin(call.Call.Args[0]) != ssa.Value(p) {
		return false
	}
	okAll, n := true, 0
	forEachReturnValue(h, 0, func(rv ssa.Value, at ssa.Instruction) {
		n++
		if stripConv(rv) != ssa.Value(h.Params[0]) {
			okAll = false
		}
	})
	return okAll && n > 0
}

// unusedCallErrors (part of the error-discipline rule): a call that yields (values..., error) whose values are used while its
// error is never looked at. The blank identifier and a never-read variable are the same thing here: the failure of that call
// goes unnoticed and the (zero) values are used as if it had succeeded.
func unusedCallErrors(c *Ctx, rule string) {
	w := c.W
	n := 0
	for _, fn := range w.Funcs {
		if isGenericTemplate(fn) || fn.Synthetic != "" {
			continue
		}
		allInstrsLocal(fn, func(in ssa.Instruction) {
			call, ok := in.(*ssa.Call)
			if !ok {
				return
			}
			tup, isT := call.Type().(*types.Tuple)
			if !isT || tup.Len() < 2 || !isErrorType(tup.At(tup.Len()-1).Type()) {
				return
			}
			n++
			usedVal, usedErr := false, false
			for _, r := range *call.Referrers() {
				ex, isEx := r.(*ssa.Extract)
				if !isEx {
					continue
				}
				live := false
				for _, rr := range *ex.Referrers() {
					switch y := rr.(type) {
					case *ssa.DebugRef:
					case *ssa.Store:
						// kept in a local variable cell (a named result, a captured variable): live only if the cell can be
						// read before it is overwritten
						al, isAl := y.Addr.(*ssa.Alloc)
						if !isAl || y.Val != ssa.Value(ex) {
							live = true
							continue
						}
						isRead := func(x ssa.Instruction) bool {
							switch z := x.(type) {
							case *ssa.UnOp:
								return z.X == ssa.Value(al)
							case *ssa.MakeClosure:
								for _, b := range z.Bindings {
									if b == ssa.Value(al) {
										return true
									}
								}
							case *ssa.Call:
								for _, a := range z.Call.Args {
									if a == ssa.Value(al) {
										return true
									}
								}
							}
							return false
						}
						isOverwrite := func(x ssa.Instruction) bool {
							st, isSt := x.(*ssa.Store)
							return isSt && st.Addr == ssa.Value(al) && x != ssa.Instruction(y)
						}
						if allocEscapesToClosure(al) || pathAvoiding(fn, y, isRead, isOverwrite) != nil {
							live = true
						}
					default:
						live = true
					}
				}
				if !live {
					continue
				}
				if ex.Index == tup.Len()-1 {
					usedErr = true
				} else {
					usedVal = true
				}
			}
			key := fmt.Sprintf("%s: error of %s looked at", w.Short(fn), calleeDescShort(call))
			if usedVal && !usedErr {
				if why, ok := ignoredCallErrors[calleeDescShort(call)]; ok {
					c.exception(rule, key, w.At(call), "frozen exception: "+why)
					return
				}
				c.fail(rule, key, w.At(call), "the values this call returns are used but its error is never examined: when the call fails the zero values are used as if it had succeeded (nil dereference, or an operation on a stream that was never opened)")
				return
			}
			c.ok(rule, key, w.At(call), "error examined, or the whole result discarded")
		})
	}
	c.floor(rule, n, 10, "calls returning values and an error")
}

// ignoredCallErrors: callees whose error is deliberately not examined while the value is used.
var ignoredCallErrors = map[string]string{}

func calleeDescShort(call *ssa.Call) string {
	n := calleeName(call)
	if i := strings.LastIndex(n, "/"); i >= 0 {
		n = n[i+1:]
	}
	return n
}

// allocEscapesToClosure: the variable cell is captured by a function literal (it may be read at any time).
func allocEscapesToClosure(al *ssa.Alloc) bool {
	for _, r := range *al.Referrers() {
		if _, ok := r.(*ssa.MakeClosure); ok {
			return true
		}
	}
	return false
}

// derefBeforeErrorCheck (part of the error-discipline rule): the pointer / interface a call returns together with an error
// is dereferenced only where that error is known to be nil. (`in, err := stream.Recv(); if in.StreamId …` before the error
// test is a nil dereference exactly when the call fails — a peer that hangs up at the right moment crashes the process.)
func derefBeforeErrorCheck(c *Ctx, rule string) {
	w := c.W
	n := 0
	for _, fn := range w.Funcs {
		if isGenericTemplate(fn) || fn.Synthetic != "" {
			continue
		}
		allInstrsLocal(fn, func(in ssa.Instruction) {
			call, ok := in.(*ssa.Call)
			if !ok {
				return
			}
			tup, isT := call.Type().(*types.Tuple)
			if !isT || tup.Len() < 2 || !isErrorType(tup.At(tup.Len()-1).Type()) {
				return
			}
			var errEx *ssa.Extract
			var vals []*ssa.Extract
			for _, r := range *call.Referrers() {
				if ex, isEx := r.(*ssa.Extract); isEx {
					if ex.Index == tup.Len()-1 {
						errEx = ex
					} else {
						switch ex.Type().Underlying().(type) {
						case *types.Pointer, *types.Interface:
							vals = append(vals, ex)
						}
					}
				}
			}
			if errEx == nil || len(vals) == 0 {
				return
			}
			for _, v := range vals {
				var derefs []ssa.Instruction
				var track func(x ssa.Value, depth int)
				seen := map[ssa.Value]bool{}
				track = func(x ssa.Value, depth int) {
					if x == nil || seen[x] || depth > 4 || x.Referrers() == nil {
						return
					}
					seen[x] = true
					for _, r := range *x.Referrers() {
						switch y := r.(type) {
						case *ssa.FieldAddr:
							if y.X == x {
								derefs = append(derefs, y)
							}
						case *ssa.UnOp:
							if y.X == x && y.Op == token.MUL {
								if _, isAl := x.(*ssa.Alloc); isAl {
									track(y, depth+1) // reload of a variable cell
								} else {
									derefs = append(derefs, y)
								}
							}
						case *ssa.Store:
							if al, isAl := y.Addr.(*ssa.Alloc); isAl && y.Val == x {
								track(al, depth+1)
							}
						case *ssa.Call:
							if y.Call.IsInvoke() && y.Call.Value == x {
								derefs = append(derefs, y)
							}
						case *ssa.ChangeType:
							track(y, depth+1)
						case *ssa.Phi:
							track(y, depth+1)
						}
					}
				}
				track(v, 0)
				for _, d := range derefs {
					if d.Parent() != fn {
						continue
					}
					n++
					okNil := false
					for _, f := range factsAt(d) {
						x, op, y, isCmp := cmpFact(f)
						if isCmp && op == token.EQL && isNilConst(y) && (stripConv(x) == ssa.Value(errEx) || origin(x) == ssa.Value(errEx)) {
							okNil = true
						}
						// a nil test of the value itself is as good
						if isCmp && op == token.NEQ && isNilConst(y) && (stripConv(x) == ssa.Value(v) || origin(x) == ssa.Value(v)) {
							okNil = true
						}
					}
					key := fmt.Sprintf("%s: result of %s used after its error test", w.Short(fn), calleeDescShort(call))
					if okNil {
						c.ok(rule, key, w.At(d), "dereferenced under err == nil")
					} else {
						c.fail(rule, key, w.At(d), "the value returned by "+calleeDescShort(call)+" is dereferenced on a path where its error has not been found nil: when the call fails the value is nil and the process crashes (for a carrier receive: whenever the peer hangs up at that moment)")
					}
				}
			}
		})
	}
	c.floor(rule, n, 5, "dereferences of values returned together with an error")
}

// ruleCodecFidelity (C01.12): the application's message is what was sent, byte for byte — as far as the codec calls go.
func ruleCodecFidelity(c *Ctx, rule string) {
	c.rule(rule, "codec fidelity: both receive methods decode exactly the bytes the reassembly returned into the caller's message with the plain protobuf decoder (no option that drops or tolerates content: DiscardUnknown, AllowPartial, Merge), and both send methods encode the caller's message with the protobuf encoder and hand exactly those bytes to the sender")
	w := c.W
	a := w.Anchors()
	// no decoding option that loses content is ever switched on in the package (options may live in a package-level variable)
	var lossy ssa.Instruction
	for _, fn := range append(append([]*ssa.Function{}, w.Funcs...), w.SRoot.Func("init")) {
		if fn == nil || isGenericTemplate(fn) {
			continue
		}
		allInstrsLocal(fn, func(in ssa.Instruction) {
			st, ok := in.(*ssa.Store)
			if !ok || !isConstBool(st.Val, true) {
				return
			}
			fa, isFA := st.Addr.(*ssa.FieldAddr)
			if !isFA {
				return
			}
			tn := typeNameOf(fa.X.Type())
			fname := fieldName(fa.X.Type(), fa.Field)
			if (tn == "proto.UnmarshalOptions" || tn == "proto.MarshalOptions" || tn == "UnmarshalOptions" || tn == "MarshalOptions") && (fname == "DiscardUnknown" || fname == "AllowPartial" || fname == "Merge") {
				lossy = in
			}
		})
	}
	at := "-"
	if lossy != nil {
		at = w.At(lossy)
	}
	c.check(lossy == nil, rule, "no lossy codec option is enabled", at, "no DiscardUnknown / AllowPartial / Merge set to true", "a protobuf codec option that drops or tolerates content is switched on: fields the receiving schema does not know are stripped from (or incomplete messages accepted as) the application's message, so a pass-through receiver no longer forwards what was sent")
	n := 0
	for _, side := range []struct {
		name       string
		recv, read *ssa.Function
		send       *ssa.Function
	}{{"client", a.ClientRecv, a.ClientRead, a.ClientSend}, {"server", a.ServerRecv, a.ServerRead, a.ServerSend}} {
		if !c.need(rule, side.name+" receive method", side.recv) || !c.need(rule, side.name+" send method", side.send) {
			continue
		}
		n++
		okDec := false
		var decCall *ssa.Call
		// (through a decode helper shared by both receive methods: its parameters stand for this method's arguments)
		w.instrsThroughHelpers(side.recv, func(in ssa.Instruction) {
			call, ok := in.(*ssa.Call)
			if !ok {
				return
			}
			cn := calleeName(call)
			if cn != "google.golang.org/protobuf/proto.Unmarshal" && cn != "(google.golang.org/protobuf/proto.UnmarshalOptions).Unmarshal" {
				return
			}
			args := call.Call.Args
			if cn != "google.golang.org/protobuf/proto.Unmarshal" {
				args = args[1:]
			}
			if len(args) != 2 {
				return
			}
			// data = first result of the read; message = the caller's parameter
			dataOK := false
			if ex, isEx := origin(args[0]).(*ssa.Extract); isEx && ex.Index == 0 {
				if rc, isC := ex.Tuple.(*ssa.Call); isC && (staticCallee(rc) == side.read || w.ownedBy(staticCallee(rc), side.recv) || staticCallee(rc) != nil) {
					dataOK = true
				}
			}
			msgOK := false
			if ta, isTA := stripConv(args[1]).(*ssa.TypeAssert); isTA && origin(ta.X) == ssa.Value(paramAt(side.recv, 1)) {
				msgOK = true
			}
			if dataOK && msgOK {
				okDec = true
				decCall = call
			}
		})
		// ... on every path that reports success: a receive method returns the decoder's own result, a provably non-nil
		// error, or nil only behind a decode that succeeded (an "empty payload, nothing to decode" shortcut leaves the
		// caller's message as it was and reports it as received)
		if decCall != nil && side.recv.Signature.Results().Len() == 1 {
			c.checkReportsTruth(rule, side.recv, decCall, "the decoder's result", "nil only after a successful decode", "the receive method returns nil on a path that did not decode the received bytes into the caller's message: the application is handed whatever the message value held before as if it had been received", "the receive method returns %s, which may be nil, on a path that did not decode the received bytes")
		}
		c.check(okDec, rule, w.Short(side.recv)+": decodes the reassembled bytes into the caller's message", posOf(w, side.recv), "proto.Unmarshal(data, m)", "the receive method does not decode exactly the bytes the read returned into the message the caller passed")
		okEnc := false
		var enc *ssa.Call
		allInstrs(side.send, func(in ssa.Instruction) {
			call, ok := in.(*ssa.Call)
			if !ok {
				return
			}
			cn := calleeName(call)
			if cn == "google.golang.org/protobuf/proto.Marshal" || cn == "(google.golang.org/protobuf/proto.MarshalOptions).Marshal" {
				enc = call
			}
		})
		if enc != nil {
			for _, s := range c.senderSendSites() {
				if !w.ownedBy(s.Parent(), side.send) && s.Parent() != side.send {
					continue
				}
				for _, arg := range s.Common().Args {
					if ex, isEx := origin(arg).(*ssa.Extract); isEx && ex.Tuple == ssa.Value(enc) && ex.Index == 0 {
						okEnc = true
					}
				}
			}
		}
		c.check(okEnc, rule, w.Short(side.send)+": sends exactly the encoded message", posOf(w, side.send), "sender.send(proto.Marshal(m))", "the send method does not hand the bytes of proto.Marshal(m) unchanged to the sender")
	}
	c.floor(rule, n, 2, "send/receive method pairs")
}

// ruleHeadersSettledByFirstData (C02.15): Header() answers no later than the first response message.
func ruleHeadersSettledByFirstData(c *Ctx, rule string) {
	c.rule(rule, "headers settled by the first data: in the client's per-stream accept method every path on which a data frame is handed to the receiver has closed the headers signal (or found it closed already: the got-headers flag tested true) — the protocol lets a server omit response_headers when there are none, so without this Header() blocks until the RPC ends although response messages are already being delivered")
	w := c.W
	a := w.Anchors()
	if !c.need(rule, "ClientAccept", a.ClientAccept) {
		return
	}
	sig, ok := c.headersSignalField()
	if !ok {
		c.fail(rule, "headers signal", "-", "cannot infer the headers-signal channel of the client stream")
		return
	}
	acc := a.ClientAccept
	var accepts []ssa.Instruction
	allInstrs(acc, func(in ssa.Instruction) {
		if ci, isC := in.(*ssa.Call); isC && ci.Call.IsInvoke() && ci.Call.Method.Name() == w.mName("accept") {
			accepts = append(accepts, in)
		}
	})
	c.floor(rule, len(accepts), 1, "hand-overs of data frames to the receiver")
	flagTrue := func(pred, sc *ssa.BasicBlock) bool {
		ef, has := edgeFact(pred, sc)
		if !has {
			return false
		}
		nf := normFact(ef)
		if fr, _, isF := loadedField(origin(nf.Cond)); isF && a.CS != nil && fr.Type == a.CS.Obj().Name() && nf.True {
			if bt, isB := nf.Cond.Type().Underlying().(*types.Basic); isB && bt.Kind() == types.Bool {
				// the flag that guards the close of the signal: stored true next to a close of the signal somewhere
				return c.flagGuardsSignal(fr, sig)
			}
		}
		return false
	}
	var settles func(fn *ssa.Function, depth int) bool
	isSettle := func(in ssa.Instruction, depth int) bool {
		call, isC := in.(*ssa.Call)
		if !isC {
			return false
		}
		if calleeName(call) == "builtin.close" {
			if fr, _, isF := loadedField(call.Call.Args[0]); isF && fr == sig {
				return true
			}
		}
		if h := helperCallee(call); h != nil && depth < 2 && inlinedCallee(call) == nil {
			return settles(h, depth+1)
		}
		return false
	}
	settles = func(fn *ssa.Function, depth int) bool {
		isExit := func(in ssa.Instruction) bool { _, isR := in.(*ssa.Return); return isR && in.Parent() == fn }
		return pathAvoidingE(fn, nil, isExit, func(in ssa.Instruction) bool { return isSettle(in, depth) }, flagTrue) == nil
	}
	for i, ac := range accepts {
		esc := pathAvoidingE(acc, nil, func(in ssa.Instruction) bool { return in == ac }, func(in ssa.Instruction) bool { return isSettle(in, 0) }, flagTrue)
		c.check(esc == nil, rule, fmt.Sprintf("%s: data hand-over #%d happens with the headers settled", w.Short(acc), i+1), w.At(ac), "every path passes close("+sig.Field+") or finds it closed", "a data frame reaches the receiver on a path that has neither closed the headers signal nor found it closed: when the server sent no response_headers frame (legal when there are no headers) Header() blocks until the RPC ends, although messages are being delivered")
	}
}

// flagGuardsSignal: the bool field is the once-guard of the signal's close: some function stores true into it and closes the
// signal in the same region.
func (c *Ctx) flagGuardsSignal(flag, sig FieldRef) bool {
	for _, fn := range c.W.Funcs {
		if isGenericTemplate(fn) {
			continue
		}
		if len(closesOfField(fn, sig)) == 0 {
			continue
		}
		for _, st := range storesToField(fn, flag) {
			if isConstBool(st.Val, true) {
				return true
			}
		}
	}
	return false
}

// ruleNothingAfterCloseDecision (C13.13): once the finishing function has claimed the headers and the close frame, the
// stream's send method emits nothing more.
func ruleNothingAfterCloseDecision(c *Ctx, rule string) {
	c.rule(rule, "nothing after the close decision: the finishing function marks the headers as sent and the stream as closed under the write mutex but emits both frames from a goroutine it starts; the server's send method therefore reaches its header emit and the sender only after testing, under that mutex, that the stream is not closed — otherwise a handler that sends after its context ended (client cancel, deadline) skips the headers it believes sent and puts a response message on the wire before the headers frame, or after the close frame")
	w := c.W
	a := w.Anchors()
	lf := w.Locks()
	if !c.need(rule, "ServerSend", a.ServerSend) || !c.need(rule, "ServerFinish", a.ServerFinish) {
		return
	}
	// the closed flag: the once-guard of the close_stream emit
	var closed FieldRef
	found := false
	for _, e := range c.emitSeq() {
		if e.Kind != "ServerToClient_CloseStream" || e.Send == nil || !w.ownedBy(e.Fn, a.ServerFinish) {
			continue
		}
		if pt := c.spawnPointOf(e); pt != nil {
			if fl, ok := c.findOnceFlag(pt, a.SS); ok {
				closed, found = fl, true
			}
		}
	}
	if !found {
		c.fail(rule, "closed flag of the server stream", posOf(w, a.ServerFinish), "cannot infer the flag that guards the close_stream emit")
		return
	}
	n := 0
	for _, s := range c.senderSendSites() {
		if s.Parent() != a.ServerSend && !w.ownedBy(s.Parent(), a.ServerSend) {
			continue
		}
		n++
		in := s.(ssa.Instruction)
		ld := fieldFlagFact(in, closed, false)
		okLock := ld != nil && len(perStreamLocks(intersect(lf.MustAt(ld), lf.MustAt(in)), a.SS)) > 0
		c.check(ld != nil && okLock, rule, w.Short(a.ServerSend)+": hands data to the sender only while the stream is not closed", w.At(in), "under "+closed.String()+" == false, tested in the same critical section", "the send method reaches the sender without having tested "+closed.String()+" (under the write mutex): after the finishing function has claimed the headers and the close frame (client cancel, deadline) a late SendMsg skips the headers and emits a response message before the headers frame, or after close_stream")
	}
	c.floor(rule, n, 1, "hand-overs to the sender in the server's send method")
}

// ruleNoSendAfterFailedSend (C13.14): a message that could not be sent completely is the last thing the stream sends.
func ruleNoSendAfterFailedSend(c *Ctx, rule string) {
	c.rule(rule, "after a response message could not be sent completely (its message frame and part of its continuations may be on the wire) no further message is put on that stream: in the server send method the call into the sender is reached only with a sticky error field tested nil under the write mutex, and that field is set on every path on which the sender returned an error")
	w := c.W
	a := w.Anchors()
	lf := w.Locks()
	n := 0
	for _, s := range c.senderSendSites() {
		fn := s.Parent()
		rn := recvNamed(fn)
		if rn == nil || a.SS == nil || rn.Obj() != a.SS.Obj() {
			continue
		}
		n++
		name := w.Short(fn)
		call, isCall := s.(*ssa.Call)
		if !isCall {
			c.fail(rule, name+": sender called synchronously", w.At(s), "the sender is not called with a plain call: its result cannot be recorded")
			continue
		}
		// (1) the sticky field
		var sticky FieldRef
		found := false
		for _, f := range factsAt(call) {
			x, op, y, ok := cmpFact(f)
			if !ok || op != token.EQL || !isNilConst(y) {
				continue
			}
			if fr, _, isF := loadedField(x); isF && fr.Type == rn.Obj().Name() && isErrorType(x.Type()) {
				if ld, isI := stripConv(x).(ssa.Instruction); isI && len(perStreamLocks(lf.MustAt(ld), rn)) > 0 {
					sticky, found = fr, true
				}
			}
		}
		if !found {
			c.fail(rule, name+": earlier send failure refuses this send", w.At(call), "the call into the sender is not dominated by a nil test (under the write mutex) of an error field of the stream: after a send that failed part way, a later SendMsg puts a new message frame behind the incomplete message")
			continue
		}
		c.ok(rule, name+": earlier send failure refuses this send", w.At(call), "dominated by "+sticky.String()+" == nil")
		// (2) set on every failing path
		isSet := func(in ssa.Instruction) bool {
			st, ok := in.(*ssa.Store)
			if !ok {
				return false
			}
			fr, _, isF := fieldOfAddr(st.Addr)
			if !isF || fr != sticky {
				return false
			}
			if isErrorOfCall(st.Val, call) {
				return true
			}
			nn, _ := nonNilError(st.Val, st, 0)
			return nn
		}
		nilEdge := func(pred, succ *ssa.BasicBlock) bool {
			ef, has := edgeFact(pred, succ)
			if !has {
				return false
			}
			x, op, y, ok := cmpFact(normFact(ef))
			return ok && op == token.EQL && isNilConst(y) && isErrorOfCall(x, call)
		}
		esc := pathAvoidingE(regionRoot(fn), call, isExit, isSet, nilEdge)
		c.check(esc == nil, rule, name+": a failed send is remembered", w.At(call), "every path on which the sender's error is not known nil stores it in "+sticky.String(), "the error of a failed send is not stored in "+sticky.String()+" on every failing path: the next SendMsg is not refused")
	}
	c.floor(rule, n, 1, "server send method")
}

// ruleSendReportsTruth (C01.16 / C16.9): SendMsg reports success only for a message it handed to the sender successfully.
func ruleSendReportsTruth(c *Ctx, rule string) {
	c.rule(rule, "a send method reports success only for a message that was handed to the sender and accepted by it: every return of the client's and the server's SendMsg yields the sender's own result, a provably non-nil error, or nil on a path that passed the sender call with its result known nil — a refused, oversized, unmarshalable or failed message is never reported as sent")
	w := c.W
	a := w.Anchors()
	n := 0
	for _, s := range c.senderSendSites() {
		fn := s.Parent()
		rn := recvNamed(fn)
		if rn == nil || !((a.CS != nil && rn.Obj() == a.CS.Obj()) || (a.SS != nil && rn.Obj() == a.SS.Obj())) {
			continue
		}
		call, isCall := s.(*ssa.Call)
		if !isCall {
			continue
		}
		root := regionRoot(fn)
		res := root.Signature.Results()
		if res.Len() != 1 || !isErrorType(res.At(0).Type()) {
			continue
		}
		n++
		c.checkReportsTruth(rule, root, call, "the sender's result", "nil only after the sender accepted the message", "the send method returns nil on a path that did not hand the message to the sender (or did not find the sender's result nil): the application is told a message was sent that never reached the wire — the peer's sequence is short although this side saw success", "the send method returns %s, which may be nil, on a path other than the successful send: a message that was not sent may be reported as sent")
	}
	c.floor(rule, n, 2, "send methods (client, server)")
}

// ruleSetHeaderOnlyRecords (C02.16): SetHeader accumulates, it never sends; setting headers after they went out is refused.
func ruleSetHeaderOnlyRecords(c *Ctx, rule string) {
	c.rule(rule, "SetHeader only records: no response_headers emit is reachable from the server stream's SetHeader (constant flag arguments of the helpers it calls are honoured), so headers set in several calls all go out together; and on the path where the headers were already sent the header-setting methods return a non-nil error instead of dropping the metadata silently")
	w := c.W
	a := w.Anchors()
	if a.SS == nil {
		c.fail(rule, "server stream type", "-", "not found")
		return
	}
	isEmit := func(in ssa.Instruction) bool {
		for _, e := range c.emitSeq() {
			if e.Kind == "ServerToClient_ResponseHeaders" && e.Send != nil && ssa.Instruction(e.Send) == in {
				return true
			}
		}
		return false
	}
	var reaches func(fn *ssa.Function, bind map[*ssa.Parameter]bool, depth int) bool
	reaches = func(fn *ssa.Function, bind map[*ssa.Parameter]bool, depth int) bool {
		if fn == nil || fn.Blocks == nil || depth > 4 {
			return false
		}
		cut := func(pred, succ *ssa.BasicBlock) bool {
			ef, has := edgeFact(pred, succ)
			if !has {
				return false
			}
			nf := normFact(ef)
			if p, ok := stripConv(nf.Cond).(*ssa.Parameter); ok {
				if v, known := bind[p]; known && v != nf.True {
					return true
				}
			}
			// the flag as seen inside a single-use helper or a function literal: the parameter / captured variable it stands for
			if p, ok := origin(nf.Cond).(*ssa.Parameter); ok {
				if v, known := bind[p]; known && v != nf.True {
					return true
				}
			}
			return false
		}
		target := func(in ssa.Instruction) bool {
			if isEmit(in) {
				return true
			}
			ci, ok := in.(ssa.CallInstruction)
			if !ok {
				return false
			}
			if _, isGo := in.(*ssa.Go); isGo {
				return false
			}
			// function literals handed to a helper (`st.withWriteLock(func() error { … })`) run as part of the call
			for _, arg := range ci.Common().Args {
				if lit := funcValueTarget(stripConv(arg)); lit != nil && lit.Blocks != nil && w.inRoot(lit) && lit != fn {
					if reaches(lit, bind, depth+1) {
						return true
					}
				}
			}
			g := staticCallee(ci)
			if g == nil || g.Blocks == nil || !w.inRoot(g) || g == fn || inlinedCallee(in) != nil {
				return false
			}
			nb := map[*ssa.Parameter]bool{}
			for k, v := range bind {
				nb[k] = v
			}
			for i, p := range g.Params {
				if i < len(ci.Common().Args) {
					arg := stripConv(ci.Common().Args[i])
					if isConstBool(arg, true) {
						nb[p] = true
					} else if isConstBool(arg, false) {
						nb[p] = false
					} else if q, isP := origin(arg).(*ssa.Parameter); isP {
						if v, known := bind[q]; known {
							nb[p] = v
						}
					}
				}
			}
			return reaches(g, nb, depth+1)
		}
		return pathAvoidingE(fn, nil, target, nil, cut) != nil
	}
	set, send := w.methodFn(a.SS, "SetHeader"), w.methodFn(a.SS, "SendHeader")
	if set == nil || send == nil {
		c.fail(rule, "SetHeader / SendHeader", "-", "not found")
		return
	}
	// self-check of the reachability: SendHeader does reach the emit
	c.check(reaches(send, map[*ssa.Parameter]bool{}, 0), rule, "recogniser: SendHeader reaches the headers emit", posOf(w, send), "reachable", "the response_headers emit is not found from SendHeader: the rule for SetHeader would pass vacuously")
	c.check(!reaches(set, map[*ssa.Parameter]bool{}, 0), rule, w.Short(set)+": never sends", posOf(w, set), "no response_headers emit reachable", "SetHeader can reach the response_headers emit: the first SetHeader sends the headers at once and every later SetHeader of the handler is refused ('already sent') — the caller does not see the headers the handler set")
	// refusal is an error
	var flag FieldRef
	hasFlag := false
	if a.HeadersLocked != nil {
		for _, f := range boolFields(a.SS) {
			for _, st := range storesToField(a.HeadersLocked, f) {
				if isConstBool(st.Val, true) {
					flag, hasFlag = f, true
				}
			}
		}
	}
	if !hasFlag {
		c.fail(rule, "headers-sent flag", "-", "cannot infer it from the header-emitting helper")
		return
	}
	n := 0
	seen := map[*ssa.Function]bool{}
	var scan func(fn *ssa.Function, depth int)
	scan = func(fn *ssa.Function, depth int) {
		if fn == nil || seen[fn] || fn.Blocks == nil || depth > 3 {
			return
		}
		seen[fn] = true
		res := fn.Signature.Results()
		if res.Len() == 1 && isErrorType(res.At(0).Type()) {
			forEachReturnValue(fn, 0, func(v ssa.Value, at ssa.Instruction) {
				if fieldFlagFact(at, flag, true) == nil {
					return
				}
				n++
				nn, _ := nonNilErrorPhiAware(v, at)
				c.check(nn, rule, fmt.Sprintf("%s: refusal in block %d is an error", w.Short(fn), at.Block().Index), w.At(at), "non-nil error under "+flag.Field, "with the headers already sent the method returns "+desc(v)+", which may be nil: metadata the handler sets too late is dropped without the handler being told")
			})
		}
		allInstrsLocal(fn, func(in ssa.Instruction) {
			if ci, ok := in.(*ssa.Call); ok {
				if g := staticCallee(ci); g != nil && w.inRoot(g) && recvNamed(g) != nil && recvNamed(g).Obj() == a.SS.Obj() {
					scan(g, depth+1)
				}
				for _, arg := range ci.Call.Args {
					if lit := funcValueTarget(stripConv(arg)); lit != nil && w.inRoot(lit) && lit.Parent() != nil {
						scan(lit, depth+1)
					}
				}
			}
		})
	}
	scan(set, 0)
	scan(send, 0)
	c.floor(rule, n, 1, "refusal returns of the header-setting methods")
}

// checkReportsTruth: every return of root (an error-returning method) yields the result of `call` itself, a provably
// non-nil error, or nil on a path that passed `call` with its result known nil.
func (c *Ctx) checkReportsTruth(rule string, root *ssa.Function, call *ssa.Call, okOwn, okNil, whyNil, whyMaybe string) {
	w := c.W
	name := w.Short(root)
	knownNonNil := func(v ssa.Value, at ssa.Instruction) bool {
		if nn, _ := nonNilErrorPhiAware(v, at); nn {
			return true
		}
		if nn, _ := nonNilError(origin(v), at, 0); nn {
			return true
		}
		// a sticky error field tested non-nil on the way (another load of the same field, under the same mutex)
		if fr, _, isF := loadedField(v); isF {
			for _, f := range factsAt(at) {
				if x, op, y, ok := cmpFact(f); ok && op == token.NEQ && isNilConst(y) {
					if fr2, _, isF2 := loadedField(x); isF2 && fr2 == fr {
						return true
					}
				}
			}
		}
		return false
	}
	forEachReturnValue(root, 0, func(v ssa.Value, at ssa.Instruction) {
		if !isNilConst(v) && !isErrorOfCall(v, call) && knownNonNil(v, at) {
			// known non-nil as a whole (`if err := helper(); err != nil { return err }`): no need to look inside the helper
			c.ok(rule, fmt.Sprintf("%s: result in block %d (%s)", name, at.Block().Index, shortDesc(v)), w.At(at), "provably non-nil error")
			return
		}
		for _, vc := range valueCases(v, 3) {
			leaf := vc.Val
			key := fmt.Sprintf("%s: result in block %d (%s)", name, at.Block().Index, shortDesc(leaf))
			if isErrorOfCall(leaf, call) {
				// the sender's own result; where it is returned on the branch that found it nil, that is the success path
				c.ok(rule, key, w.At(at), okOwn)
				continue
			}
			if isNilConst(leaf) {
				sent := false
				for _, f := range append(append([]EdgeFact{}, vc.Facts...), factsAt(at)...) {
					if x, op, y, ok := cmpFact(f); ok && op == token.EQL && isNilConst(y) && isErrorOfCall(x, call) {
						sent = true
					}
				}
				c.check(sent && dominates(call, at), rule, key, w.At(at), okNil, whyNil)
				continue
			}
			nonNil := knownNonNil(leaf, at)
			for _, f := range vc.Facts { // tested non-nil inside the helper that returned it
				if x, op, y, ok := cmpFact(f); ok && op == token.NEQ && isNilConst(y) && (stripConv(x) == stripConv(leaf) || origin(x) == origin(leaf)) {
					nonNil = true
				}
			}
			if li, isI := stripConv(leaf).(ssa.Instruction); isI && !nonNil && li.Parent() != at.Parent() {
				// judged where the helper returns it
				nRet, allNN := 0, true
				for _, ret := range returnsOf(li.Parent()) {
					for _, r := range ret.Results {
						if stripConv(r) == stripConv(leaf) {
							nRet++
							if !knownNonNil(leaf, ret) {
								allNN = false
							}
						}
					}
				}
				if nRet > 0 && allNN {
					nonNil = true
				}
			}
			c.check(nonNil, rule, key, w.At(at), "provably non-nil error", fmt.Sprintf(whyMaybe, desc(leaf)))
		}
	})
}
