package main

// locks.go: lockset analysis (F2). For every instruction of every root-package function: the set
// of locks that MUST be held and that MAY be held when it executes. Lock identity = declaring
// struct type + field name (the usual approximation). Deferred calls are simulated in LIFO order
// at every `rundefers`; interprocedural entry sets are the intersection (must) / union (may) over
// all resolved call sites, iterated to a fixpoint. `go` sites contribute the empty set.

import (
	"go/ast"
	"go/token"
	"sort"
	"strings"

	"golang.org/x/tools/go/ssa"
)

type LockSet map[string]bool // "Type.field" (exclusive) or "Type.field:R" (read side)

func (s LockSet) clone() LockSet {
	o := LockSet{}
	for k := range s {
		o[k] = true
	}
	return o
}
func (s LockSet) list() []string {
	var o []string
	for k := range s {
		o = append(o, k)
	}
	sort.Strings(o)
	return o
}
func (s LockSet) String() string { return "{" + strings.Join(s.list(), ", ") + "}" }
func (s LockSet) has(l string) bool {
	return s[l]
}

// holds: lock l held exclusively, or (when readOK) at least on the read side.
func (s LockSet) holds(l string, readOK bool) bool {
	if s[l] {
		return true
	}
	return readOK && s[l+":R"]
}
func intersect(a, b LockSet) LockSet {
	o := LockSet{}
	for k := range a {
		if b[k] {
			o[k] = true
		}
	}
	return o
}
func union(a, b LockSet) LockSet {
	o := a.clone()
	for k := range b {
		o[k] = true
	}
	return o
}
func equalSets(a, b LockSet) bool {
	if len(a) != len(b) {
		return false
	}
	for k := range a {
		if !b[k] {
			return false
		}
	}
	return true
}

type lockOp struct {
	kind string // "lock","unlock","rlock","runlock","wait"
	id   string
}

// lockOpOf classifies a call as a lock operation.
func lockOpOf(c ssa.CallInstruction) (lockOp, bool) {
	n := calleeName(c)
	var kind string
	switch n {
	case "(*sync.Mutex).Lock", "(*sync.RWMutex).Lock":
		kind = "lock"
	case "(*sync.Mutex).Unlock", "(*sync.RWMutex).Unlock":
		kind = "unlock"
	case "(*sync.RWMutex).RLock":
		kind = "rlock"
	case "(*sync.RWMutex).RUnlock":
		kind = "runlock"
	case "(*sync.Mutex).TryLock", "(*sync.RWMutex).TryLock", "(*sync.RWMutex).TryRLock":
		kind = "trylock"
	default:
		return lockOp{}, false
	}
	args := c.Common().Args
	if len(args) == 0 {
		return lockOp{}, false
	}
	return lockOp{kind, lockIDOf(args[0])}, true
}

// lockIDOf names the mutex whose address is v.
func lockIDOf(v ssa.Value) string {
	if fr, _, ok := fieldOfAddr(v); ok {
		return fr.String()
	}
	// load of a pointer-typed field holding a *Mutex, or a sync.Locker in cond.L
	if fr, _, ok := loadedField(v); ok {
		return fr.String()
	}
	return "?" + desc(v)
}

type deferRec struct {
	d *ssa.Defer
}

type intraState struct {
	must   LockSet // relative to function entry
	may    LockSet
	defers []*ssa.Defer
	top    bool // unvisited
}

type LockFacts struct {
	w *World
	// relative (intra-procedural) sets before each instruction
	relMust map[ssa.Instruction]LockSet
	relMay  map[ssa.Instruction]LockSet
	// for deferred calls: sets at the time the deferred call actually runs
	deferMust map[*ssa.Defer]LockSet
	deferMay  map[*ssa.Defer]LockSet
	deferRuns map[*ssa.Defer]bool
	EntryMust map[*ssa.Function]LockSet
	EntryMay  map[*ssa.Function]LockSet
	Rounds    int
	// lock-order edges held -> acquired, with a witness
	Order map[[2]string]string
}

func (w *World) Locks() *LockFacts {
	if w.locks != nil {
		return w.locks
	}
	lf := &LockFacts{w: w,
		relMust: map[ssa.Instruction]LockSet{}, relMay: map[ssa.Instruction]LockSet{},
		deferMust: map[*ssa.Defer]LockSet{}, deferMay: map[*ssa.Defer]LockSet{}, deferRuns: map[*ssa.Defer]bool{},
		EntryMust: map[*ssa.Function]LockSet{}, EntryMay: map[*ssa.Function]LockSet{},
		Order: map[[2]string]string{},
	}
	for _, fn := range w.Funcs {
		lf.intra(fn)
	}
	lf.inter()
	lf.order()
	w.locks = lf
	return lf
}

func applyLockOp(op lockOp, must, may LockSet) {
	switch op.kind {
	case "lock":
		must[op.id] = true
		may[op.id] = true
	case "rlock":
		must[op.id+":R"] = true
		may[op.id+":R"] = true
	case "unlock":
		delete(must, op.id)
		delete(may, op.id)
	case "runlock":
		delete(must, op.id+":R")
		delete(may, op.id+":R")
	case "trylock":
		may[op.id] = true
	}
}

func (lf *LockFacts) intra(fn *ssa.Function) {
	if len(fn.Blocks) == 0 {
		return
	}
	in := make([]*intraState, len(fn.Blocks))
	for i := range in {
		in[i] = &intraState{top: true}
	}
	in[0] = &intraState{must: LockSet{}, may: LockSet{}}
	work := []*ssa.BasicBlock{fn.Blocks[0]}
	inWork := map[*ssa.BasicBlock]bool{fn.Blocks[0]: true}
	iter := 0
	for len(work) > 0 && iter < 10000 {
		iter++
		b := work[0]
		work = work[1:]
		inWork[b] = false
		st := in[b.Index]
		must, may := st.must.clone(), st.may.clone()
		defers := append([]*ssa.Defer(nil), st.defers...)
		for _, ins := range b.Instrs {
			lf.relMust[ins] = must.clone()
			lf.relMay[ins] = may.clone()
			switch x := ins.(type) {
			case *ssa.Defer:
				defers = append(defers, x)
			case *ssa.RunDefers:
				for i := len(defers) - 1; i >= 0; i-- {
					d := defers[i]
					// record state at execution
					if old, ok := lf.deferMust[d]; ok && lf.deferRuns[d] {
						lf.deferMust[d] = intersect(old, must)
						lf.deferMay[d] = union(lf.deferMay[d], may)
					} else {
						lf.deferMust[d] = must.clone()
						lf.deferMay[d] = may.clone()
						lf.deferRuns[d] = true
					}
					if op, ok := lockOpOf(d); ok {
						applyLockOp(op, must, may)
					}
				}
			case *ssa.Call:
				if op, ok := lockOpOf(x); ok {
					applyLockOp(op, must, may)
				}
			}
		}
		for _, s := range b.Succs {
			t := in[s.Index]
			changed := false
			if t.top {
				t.top = false
				t.must, t.may = must.clone(), may.clone()
				t.defers = append([]*ssa.Defer(nil), defers...)
				changed = true
			} else {
				nm := intersect(t.must, must)
				ny := union(t.may, may)
				// defers: common prefix
				nd := t.defers
				k := 0
				for k < len(nd) && k < len(defers) && nd[k] == defers[k] {
					k++
				}
				if !equalSets(nm, t.must) || !equalSets(ny, t.may) || k != len(nd) {
					t.must, t.may, t.defers = nm, ny, append([]*ssa.Defer(nil), nd[:k]...)
					changed = true
				}
			}
			if changed && !inWork[s] {
				inWork[s] = true
				work = append(work, s)
			}
		}
	}
}

// isEntryPoint: callable from outside the package's own call sites (application goroutines).
func (lf *LockFacts) isEntryPoint(fn *ssa.Function) bool {
	if fn.Parent() != nil {
		return false
	}
	return ast.IsExported(fn.Name()) || fn.Name() == "init"
}

// relAtSite returns the relative sets at a call site, accounting for deferred execution.
func (lf *LockFacts) relAtSite(site ssa.CallInstruction) (LockSet, LockSet, bool) {
	switch x := site.(type) {
	case *ssa.Go:
		return LockSet{}, LockSet{}, true
	case *ssa.Defer:
		if !lf.deferRuns[x] {
			return nil, nil, false
		}
		return lf.deferMust[x], lf.deferMay[x], true
	}
	m, ok := lf.relMust[site]
	if !ok {
		return nil, nil, false
	}
	return m, lf.relMay[site], true
}

func (lf *LockFacts) inter() {
	w := lf.w
	// initial: must = TOP (nil) for everything
	type siteInfo struct {
		caller *ssa.Function
		site   ssa.CallInstruction
	}
	sites := map[*ssa.Function][]siteInfo{}
	for _, fn := range w.Funcs {
		if isGenericTemplate(fn) {
			continue
		}
		allInstrsLocal(fn, func(in ssa.Instruction) {
			c, ok := in.(ssa.CallInstruction)
			if !ok {
				return
			}
			for _, callee := range w.rootCalleesThroughWrappers(c) {
				sites[callee] = append(sites[callee], siteInfo{fn, c})
			}
		})
	}
	top := map[*ssa.Function]bool{}
	for _, fn := range w.Funcs {
		lf.EntryMay[fn] = LockSet{}
		if lf.isEntryPoint(fn) || len(sites[fn]) == 0 {
			lf.EntryMust[fn] = LockSet{}
		} else {
			top[fn] = true
		}
	}
	for round := 0; round < 50; round++ {
		lf.Rounds = round + 1
		changed := false
		for _, fn := range w.Funcs {
			ss := sites[fn]
			if len(ss) == 0 {
				continue
			}
			var must LockSet
			mustTop := true
			if lf.isEntryPoint(fn) {
				must, mustTop = LockSet{}, false
			}
			may := LockSet{}
			for _, s := range ss {
				rm, ry, ok := lf.relAtSite(s.site)
				if !ok {
					continue // unreachable site
				}
				if _, isGo := s.site.(*ssa.Go); isGo {
					must, mustTop = LockSet{}, false
					continue
				}
				if top[s.caller] {
					// caller still TOP: contributes TOP to must; its may is unknown yet
					may = union(may, ry)
					continue
				}
				cm := union(lf.EntryMust[s.caller], rm)
				// locks released relative to entry cannot be expressed; rel sets only add.
				if mustTop {
					must, mustTop = cm, false
				} else {
					must = intersect(must, cm)
				}
				may = union(may, union(lf.EntryMay[s.caller], ry))
			}
			if !mustTop {
				if top[fn] || !equalSets(lf.EntryMust[fn], must) {
					lf.EntryMust[fn] = must
					delete(top, fn)
					changed = true
				}
			}
			if !equalSets(lf.EntryMay[fn], may) {
				lf.EntryMay[fn] = may
				changed = true
			}
		}
		if !changed {
			break
		}
	}
	for fn := range top {
		// only reachable from TOP callers (dead or recursive): treat as empty
		lf.EntryMust[fn] = LockSet{}
	}
}

// rootCalleesThroughWrappers resolves bound-method / thunk wrappers to the declared method.
func (w *World) rootCalleesThroughWrappers(c ssa.CallInstruction) []*ssa.Function {
	var out []*ssa.Function
	seen := map[*ssa.Function]bool{}
	add := func(f *ssa.Function) {
		if !seen[f] {
			seen[f] = true
			out = append(out, f)
		}
	}
	var cands []*ssa.Function
	if f := staticCallee(c); f != nil {
		cands = append(cands, f)
		// closures handed to library functions that invoke them synchronously
		if calleeName(c) == "(*sync.Once).Do" {
			for _, a := range c.Common().Args {
				if mc, ok := a.(*ssa.MakeClosure); ok {
					if cf, ok := mc.Fn.(*ssa.Function); ok {
						cands = append(cands, cf)
					}
				}
			}
		}
	} else if n := w.CG.Nodes[c.Parent()]; n != nil {
		for _, e := range n.Out {
			if e.Site == c && e.Callee != nil && e.Callee.Func != nil {
				cands = append(cands, e.Callee.Func)
			}
		}
	}
	// A carrier wrapper never wraps itself: calls through its embedded stream go to the raw gRPC stream,
	// not back into a wrapper (type-based call graphs cannot see that).
	fromWrapper := false
	if p := c.Parent(); p.Signature.Recv() != nil && w.isCarrierType(p.Signature.Recv().Type()) && c.Common().IsInvoke() {
		if _, base, ok := loadedField(c.Common().Value); ok && len(p.Params) > 0 && stripConv(base) == ssa.Value(p.Params[0]) {
			fromWrapper = true
		}
	}
	for _, f := range cands {
		if fromWrapper && f.Signature.Recv() != nil && w.isCarrierType(f.Signature.Recv().Type()) {
			continue
		}
		if f.Synthetic != "" && f.Blocks != nil && !w.inRoot(f) {
			// wrapper: follow its single static call
			allInstrsLocal(f, func(in ssa.Instruction) {
				if cc, ok := in.(ssa.CallInstruction); ok {
					if g := staticCallee(cc); g != nil && w.inRoot(g) && g.Blocks != nil {
						add(g)
					}
				}
			})
			continue
		}
		if w.inRoot(f) && f.Blocks != nil {
			add(f)
		}
	}
	sort.Slice(out, func(i, j int) bool { return out[i].String() < out[j].String() })
	return out
}

// MustAt / MayAt: absolute sets when the instruction executes (for Defer: when the deferred call runs).
func (lf *LockFacts) MustAt(in ssa.Instruction) LockSet {
	fn := in.Parent()
	if d, ok := in.(*ssa.Defer); ok && lf.deferRuns[d] {
		return union(lf.EntryMust[fn], lf.deferMust[d])
	}
	return union(lf.EntryMust[fn], lf.relMust[in])
}
func (lf *LockFacts) MayAt(in ssa.Instruction) LockSet {
	fn := in.Parent()
	if d, ok := in.(*ssa.Defer); ok && lf.deferRuns[d] {
		return union(lf.EntryMay[fn], lf.deferMay[d])
	}
	return union(lf.EntryMay[fn], lf.relMay[in])
}

func (lf *LockFacts) order() {
	w := lf.w
	for _, fn := range w.Funcs {
		if isGenericTemplate(fn) {
			continue
		}
		allInstrsLocal(fn, func(in ssa.Instruction) {
			c, ok := in.(ssa.CallInstruction)
			if !ok {
				return
			}
			op, ok := lockOpOf(c)
			if !ok || (op.kind != "lock" && op.kind != "rlock") {
				return
			}
			if _, isGo := in.(*ssa.Go); isGo {
				return
			}
			for h := range lf.MayAt(in) {
				h = strings.TrimSuffix(h, ":R")
				if h == op.id {
					continue
				}
				k := [2]string{h, op.id}
				if _, ok := lf.Order[k]; !ok {
					lf.Order[k] = w.Short(fn) + " @" + w.At(in)
				}
			}
		})
	}
}

var _ = token.NoPos
