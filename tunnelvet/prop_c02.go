package main

func init() {
	register("C02", &propDef{
		Run: func(c *Ctx) {
			ruleStatusFlow(c, "C02.1")
			ruleOutcomeLatched(c, "C02.1b")
			ruleInvokeReportsOutcome(c, "C02.11")
			ruleSingleOutcome(c, "C02.2")
			rulePublishBeforeWake(c, "C02.3")
			ruleHeaderPublication(c, "C02.4")
			ruleHeadersBeforeData(c, "C02.5")
			ruleHeadersOnce(c, "C02.5b")
			ruleMetadataAccumulation(c, "C02.6")
			ruleNilMapWrite(c, "C02.7")
			ruleStringTaint(c, "C02.8")
			ruleLookAhead(c, "C02.9")
			ruleInvokeShape(c, "C02.9b")
			ruleWatcher(c, "C02.10")
			ruleErrorDiscipline(c, "C02.12")
			ruleTransportStreamDelegates(c, "C02.13")
			ruleCloseSendAfterFinish(c, "C02.14")
			ruleHeadersSettledByFirstData(c, "C02.15")
			ruleSetHeaderOnlyRecords(c, "C02.16")
		},
		Explain:    "Static necessary conditions of exact status/metadata delivery: value flow of the handler's error into close_stream and of the received status/trailers into the client's terminal marker (with the nil/context-error mapping table); first-writer-wins marker with all publication dominated by the CAS success edge; publish-before-wake ordering in the client finishing function; header publication before its signal and once-guarded; headers no later than the first message; Join accumulation and whole-map/whole-slice converters; request metadata = outgoing metadata + every credentials pair, installed unconditionally on the server; no possibly-nil map written; metadata values reaching a proto3 string without validation (known finding F-4). All paths; no bound on inputs or schedules.",
		Assume:     []string{"status.FromError/FromProto/Proto/Err and metadata.Join/Copy behave as documented", "protobuf round trip preserves status details and metadata"},
		NotDecided: []string{"equality of arbitrary status details/metadata after the proto round trip", "relative timing of Header() against frame delivery beyond the ordering facts"},
	})
	register("C07", &propDef{
		Run: func(c *Ctx) {
			ruleWatcher(c, "C07.1")
			c.rule("C07.2", "context errors map to gRPC codes: nil -> io.EOF, context.DeadlineExceeded -> codes.DeadlineExceeded, context.Canceled -> codes.Canceled, anything else unchanged")
			if c.need("C07.2", "ClientFinish", c.W.Anchors().ClientFinish) {
				c.checkFinishMapping("C07.2")
			}
			ruleCancelOnce(c, "C07.3")
			ruleServerCancel(c, "C07.4", "C07.7")
			ruleSingleOutcome(c, "C07.5")
			ruleLateFramesInert(c, "C07.6")
			ruleClientIDs(c, "C07.8a", "C07.8b", "C07.8")
			ruleContextChain(c, "C07.9")
			ruleHeaderPublication(c, "C07.10")
			ruleLookAhead(c, "C07.11")
			ruleCloseSafety(c, "C07.12")
			ruleMetadataAccumulation(c, "C07.13")
			ruleCancelDoesNotWait(c, "C07.14")
			ruleRejectedIDsRecorded(c, "C07.15")
			ruleContextErrorsAsStatus(c, "C07.16")
		},
		Explain:    "Static necessary conditions of per-RPC cancellation: a watcher on the stream's own context calls cancel-stream with that context's error on every successfully created stream; the code mapping table; the cancel frame is emitted only by the CAS winner, from its own goroutine, with the local receiver cancelled; the server's cancel case reaches the stream context cancel on every path, and that cancel precedes the write mutex (no loop/handler deadlock); single outcome by CAS; late frames for disposed ids are inert on both ends.",
		Assume:     []string{"context cancellation semantics", "atomic.Pointer CAS semantics"},
		NotDecided: []string{"'once the tunnel has delivered the notice' (transport progress)", "the outcome of races as observed by the caller beyond single assignment"},
	})
}
