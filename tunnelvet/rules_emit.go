package main

// rules_emit.go: rules over the F1 emit-site table (shared by C01, C11, C13).

import (
	"fmt"
	"go/token"
	"go/types"
	"strings"

	"golang.org/x/tools/go/ssa"
)

func topFn(fn *ssa.Function) *ssa.Function {
	for fn.Parent() != nil {
		fn = fn.Parent()
	}
	return fn
}

// tableInsert finds the MapUpdate into the given stream table in fn.
func tableInsert(fn *ssa.Function, table FieldRef) *ssa.MapUpdate {
	var out *ssa.MapUpdate
	if fn == nil {
		return nil
	}
	allInstrs(fn, func(in ssa.Instruction) {
		if mu, ok := in.(*ssa.MapUpdate); ok {
			if fr, _, ok := loadedField(mu.Map); ok && fr == table {
				out = mu
			}
		}
	})
	return out
}

// idFieldOf infers the stream-id field: the field of the freshly built stream object that receives the
// same value that is used as the table key at registration.
func idFieldOf(fn *ssa.Function, table FieldRef) (FieldRef, bool) {
	mu := tableInsert(fn, table)
	if mu == nil {
		return FieldRef{}, false
	}
	obj, ok := origin(mu.Value).(*ssa.Alloc)
	if !ok {
		return FieldRef{}, false
	}
	key := origin(mu.Key)
	for name, v := range storesInto(obj) {
		if origin(v) == key {
			return FieldRef{typeNameOf(obj.Type()), name}, true
		}
	}
	return FieldRef{}, false
}

func (c *Ctx) streamIDFields() (cs, ss FieldRef, ok bool) {
	a := c.W.Anchors()
	cs, ok1 := idFieldOf(a.Allocate, a.ChStreams)
	ss, ok2 := idFieldOf(a.Create, a.SvStreams)
	return cs, ss, ok1 && ok2
}

func isReceiverOrBound(v ssa.Value) bool {
	v = origin(v)
	if p, ok := v.(*ssa.Parameter); ok {
		fn := p.Parent()
		return fn.Signature.Recv() != nil && len(fn.Params) > 0 && fn.Params[0] == p
	}
	return false
}

// classifyStreamID explains where an emitted StreamId comes from.
func (c *Ctx) classifyStreamID(e *EmitSite) (string, bool) {
	w := c.W
	a := w.Anchors()
	if e.StreamID == nil {
		return "no StreamId set (zero)", false
	}
	if k, ok := constInt(e.StreamID); ok {
		if k == -1 && e.Kind == "ServerToClient_Settings" {
			return "constant -1 (settings)", true
		}
		return fmt.Sprintf("constant %d", k), false
	}
	if msg := w.staleGoCapture(e.StreamID); msg != "" {
		return "a loop variable shared between iterations: " + msg + " — the goroutine can read the id of a LATER frame, so the frame is attributed to another RPC", false
	}
	csID, ssID, _ := c.streamIDFields()
	v := origin(e.StreamID)
	// (a) load of the id field of the stream the method is running on / just allocated
	if fr, base, ok := loadedField(v); ok && (fr == csID || fr == ssID) {
		if isReceiverOrBound(base) {
			return "id field of the method's own stream (" + fr.String() + ")", true
		}
		if ex, ok := origin(base).(*ssa.Extract); ok {
			if call, ok := ex.Tuple.(*ssa.Call); ok && staticCallee(call) == a.Allocate && a.Allocate != nil {
				return "id field of the stream just returned by the allocation function", true
			}
		}
		return "id field " + fr.String() + " of some other stream value " + desc(base), false
	}
	// (b) same value as the table key in the enclosing creation/allocation function
	var top *ssa.Function
	if w.ownedBy(e.Fn, a.Allocate) {
		top = a.Allocate
	} else if w.ownedBy(e.Fn, a.Create) {
		top = a.Create
	}
	if top != nil {
		table := a.ChStreams
		if top == a.Create {
			table = a.SvStreams
		}
		if mu := tableInsert(top, table); mu != nil && origin(mu.Key) == v {
			return "captured value identical to the table key / id field of the stream being created", true
		}
	}
	// (c) the id of the frame just received (rejection reply), possibly handed to a helper with one call site
	if arg, _ := w.throughSoleCallSite(v); arg != nil {
		v = origin(arg)
	}
	if fr, base, ok := loadedField(v); ok && fr.Field == "StreamId" {
		if ex, ok := origin(base).(*ssa.Extract); ok {
			if call, ok := ex.Tuple.(*ssa.Call); ok {
				if k, ok := w.carrierOp(call); ok && k == "carrier-recv" {
					if e.Kind == "ServerToClient_CloseStream" {
						return "id of the frame just received (rejection reply)", true
					}
					return "id of the frame just received, but the frame is not a rejection close_stream", false
				}
			}
		}
	}
	return "unrecognised origin " + desc(e.StreamID), false
}

// realEmitSites: literal frames that reach a carrier send.
func (c *Ctx) realEmitSites() []*EmitSite {
	var out []*EmitSite
	for _, e := range c.W.EmitSites() {
		if e.Alloc.Comment != "complit" {
			continue
		}
		out = append(out, e)
	}
	return out
}

func emitKey(w *World, e *EmitSite) string {
	k := e.Kind
	if k == "" {
		k = "<no frame>"
	}
	return fmt.Sprintf("emit %s in %s", k, w.Short(e.Fn))
}

// ruleFrameKindFloor: every frame kind of the protocol has at least one emit site, every literal reaches a send.
func ruleFrameKindFloor(c *Ctx, rule string) {
	c.rule(rule, "every frame literal reaches a carrier send and every one of the protocol's frame kinds has an emit site (instance floor for the emit-site rules)")
	w := c.W
	have := map[string]int{}
	for _, e := range c.emitSeq() {
		have[e.Kind]++
		c.check(e.Send != nil && e.Kind != "", rule, emitKey(w, e)+": reaches a send", w.At(e.Alloc),
			"frame literal is passed to a carrier send", "frame literal has no oneof wrapper or is not passed directly to a carrier Send (unrecognised emit shape)")
	}
	kinds := w.FrameKinds()
	for _, k := range kinds {
		c.check(have[k] >= 1, rule, "frame kind "+k+" has an emit site", "-", fmt.Sprintf("%d emit site(s)", have[k]),
			"no emit site found for this frame kind: the protocol cannot be spoken completely, or the emit was rewritten in an unrecognised shape")
	}
	c.floor(rule, len(kinds), 12, "protocol frame kinds (generated oneof wrappers)")
}

// ruleEmitIDs (C01.6 emit side, C13.1).
func ruleEmitIDs(c *Ctx, rule string) {
	c.rule(rule, "every emitted frame carries the id of the stream it belongs to: the stream's own id field, the captured value that is also the table key, the id of the frame being rejected, or -1 for settings")
	w := c.W
	_, _, ok := c.streamIDFields()
	c.check(ok, rule, "stream id fields inferred on both ends", "-", "id field = field of the new stream object that receives the table key", "could not infer which field of the stream objects holds the stream id (table insert or construction rewritten)")
	n := 0
	for _, e := range c.emitSeq() {
		n++
		why, ok := c.classifyStreamID(e)
		c.check(ok, rule, emitKey(w, e)+": StreamId origin", w.At(e.Alloc), why, "StreamId is "+why+": a frame could be attributed to a different RPC")
	}
	c.floor(rule, n, 14, "emit sites")
}

// ruleSettingsEmit (C11.2, C13.2).
func ruleSettingsEmit(c *Ctx, rule string) {
	c.rule(rule, "settings is emitted only when the client advertised negotiation, exactly once per tunnel (single non-loop spawn before the receive loop), with id -1, the local supported revisions and the window constant")
	w := c.W
	a := w.Anchors()
	var sites []*EmitSite
	for _, e := range c.emitSeq() {
		if e.Kind == "ServerToClient_Settings" {
			sites = append(sites, e)
		}
	}
	c.floor(rule, len(sites), 1, "settings emit sites")
	c.check(len(sites) <= 1, rule, "exactly one settings emit site", "-", "one site", fmt.Sprintf("%d settings emit sites: settings could be sent more than once", len(sites)))
	if !c.need(rule, "ServerLoop", a.ServerLoop) {
		return
	}
	for _, e := range sites {
		key := emitKey(w, e)
		// located in (a closure of) the server loop function, before the loop
		top := a.ServerLoop
		c.check(w.ownedBy(e.Fn, a.ServerLoop), rule, key+": in the serve function", w.At(e.Alloc), "emitted from the serve prologue", "settings emitted from "+w.Short(topFn(e.Fn))+", not from the serve prologue")
		var point ssa.Instruction = e.Send
		if e.Fn != top {
			// closure / spawned method / helper: its spawn or call site in the serve function
			point = w.liftTo(e.Send, top)
		}
		if point == nil {
			c.fail(rule, key+": spawn site", w.At(e.Alloc), "cannot find where the settings closure is started")
			continue
		}
		c.check(!inLoop(point.Block()), rule, key+": not in a loop", w.At(point), "single spawn, outside any loop", "settings is emitted inside a loop: may be sent more than once")
		// precedes the loop's Recv
		var recv ssa.Instruction
		for _, ef := range w.directEffects(top).Effects {
			if ef.Kind == "carrier-recv" && inLoop(ef.Instr.Block()) {
				recv = ef.Instr
			}
		}
		if recv != nil {
			c.check(pathAvoiding(top, nil, func(in ssa.Instruction) bool { return in == recv }, func(in ssa.Instruction) bool { return in == point }) != nil && !reaches(recv, point),
				rule, key+": before the receive loop", w.At(point), "the emit is started before the loop and cannot be reached again from it", "settings emit is reachable from inside the receive loop")
		}
		// guarded by the negotiated flag: a bool field of Sv
		guarded := ""
		for _, f := range boolFactsAt(point) {
			if fr, _, ok := loadedField(f.V); ok && a.Sv != nil && fr.Type == a.Sv.Obj().Name() && f.True {
				guarded = fr.String()
			}
		}
		c.check(guarded != "", rule, key+": guarded by the client-accepts-settings flag", w.At(point), "control-dependent on "+guarded+" == true", "settings emit is not control-dependent on a negotiation flag of the tunnel server: a revision-zero client would receive a settings frame")
		if guarded != "" {
			// the flag must come from the negotiate-header detection (checked in C11.1); here: it is immutable
			_ = guarded
		}
		// payload
		if v, ok := e.Payload["Settings.InitialWindowSize"]; ok {
			k, isC := constInt(v)
			c.check(isC && k == 65536, rule, key+": advertises the window constant", w.At(e.Alloc), "InitialWindowSize = 65536", "InitialWindowSize is "+desc(v)+", expected the 65536 window constant")
		} else {
			c.fail(rule, key+": advertises the window constant", w.At(e.Alloc), "settings carries no InitialWindowSize")
		}
		if v, ok := e.Payload["Settings.SupportedProtocolRevisions"]; ok {
			call, isCall := origin(v).(*ssa.Call)
			good := false
			if isCall {
				if w.isRoleCall(call, "supportedRevisions") {
					good = true
				}
			}
			c.check(good, rule, key+": carries the supported revisions", w.At(e.Alloc), "SupportedProtocolRevisions = "+desc(v), "SupportedProtocolRevisions is "+desc(v)+", expected the result of the options' supported-revisions function")
		} else {
			c.fail(rule, key+": carries the supported revisions", w.At(e.Alloc), "settings carries no SupportedProtocolRevisions")
		}
	}
}

// ruleEnvelopeShape (C01.2 closure half, C13.3): in each send callback the `first` branch builds the
// message kind with Size = size parameter, Data = data parameter; the other branch the continuation.
func ruleEnvelopeShape(c *Ctx, rule string) {
	c.rule(rule, "in every send callback the first-chunk branch builds the message frame with Size = the total-size parameter and Data = the data parameter, and the other branch builds the continuation frame with the data parameter")
	w := c.W
	msgKinds := map[string]string{"ClientToServer_RequestMessage": "RequestMessage", "ServerToClient_ResponseMessage": "ResponseMessage"}
	contKinds := map[string]string{"ClientToServer_MoreRequestData": "MoreRequestData", "ServerToClient_MoreResponseData": "MoreResponseData"}
	n := 0
	paramIdx := func(fn *ssa.Function, v ssa.Value) int {
		v = stripConv(v)
		for i, p := range fn.Params {
			if p == v {
				return i
			}
		}
		return -1
	}
	for _, e := range c.emitSeq() {
		fld, isMsg := msgKinds[e.Kind]
		cfld, isCont := contKinds[e.Kind]
		if !isMsg && !isCont {
			continue
		}
		n++
		key := emitKey(w, e)
		fn := e.Fn
		sig := fn.Signature
		// callback signature (data []byte, totalSize uint32, first bool)
		if sig.Params().Len() != 3 || e.Send == nil {
			c.fail(rule, key+": callback shape", w.At(e.Alloc), "data frame is not emitted from a (data, size, first) send callback: unrecognised shape")
			continue
		}
		off := 0 // a method used as callback (method value): its receiver comes first
		if sig.Recv() != nil {
			off = 1
		}
		if len(fn.Params) != 3+off {
			c.fail(rule, key+": callback shape", w.At(e.Alloc), "data frame is not emitted from a (data, size, first) send callback: unrecognised shape")
			continue
		}
		firstP := fn.Params[2+off]
		var pol *bool
		for _, f := range boolFactsAt(e.At()) {
			if f.V == firstP {
				t := f.True
				pol = &t
			}
		}
		if isMsg {
			c.check(pol != nil && *pol, rule, key+": on the first-chunk branch", w.At(e.Alloc), "message frame built only when first == true", "message (envelope) frame is not control-dependent on first == true")
			c.check(paramIdx(fn, e.Payload[fld+".Size"]) == 1+off, rule, key+": Size = total size parameter", w.At(e.Alloc), "Size = "+desc(e.Payload[fld+".Size"]), "envelope Size is "+desc(e.Payload[fld+".Size"])+", expected the callback's total-size parameter")
			c.check(paramIdx(fn, e.Payload[fld+".Data"]) == off, rule, key+": Data = data parameter", w.At(e.Alloc), "Data = "+desc(e.Payload[fld+".Data"]), "envelope Data is "+desc(e.Payload[fld+".Data"])+", expected the callback's data parameter unchanged")
		} else {
			c.check(pol != nil && !*pol, rule, key+": on the continuation branch", w.At(e.Alloc), "continuation frame built only when first == false", "continuation frame is not control-dependent on first == false")
			c.check(paramIdx(fn, e.Payload[cfld]) == off, rule, key+": data = data parameter", w.At(e.Alloc), "payload = "+desc(e.Payload[cfld]), "continuation payload is "+desc(e.Payload[cfld])+", expected the callback's data parameter unchanged")
		}
		// the send's result is returned (errors are not swallowed)
		if call, ok := e.Send.(*ssa.Call); ok {
			ret := false
			for _, r := range *call.Referrers() {
				if _, ok := r.(*ssa.Return); ok {
					ret = true
				}
			}
			c.check(ret, rule, key+": send error returned", w.At(e.Send), "result of the carrier send is returned to the sender loop", "the carrier send's error is not returned by the callback: a failed chunk would be treated as sent")
		}
	}
	c.floor(rule, n, 4, "data-frame emit sites")
}

// senderSendSites: call sites of the sender interface's send method.
func (c *Ctx) senderSendSites() []ssa.CallInstruction {
	var out []ssa.CallInstruction
	for _, fn := range c.W.Funcs {
		if isGenericTemplate(fn) {
			continue
		}
		allInstrs(fn, func(in ssa.Instruction) {
			if call, ok := in.(ssa.CallInstruction); ok && call.Common().IsInvoke() && call.Common().Method.Name() == c.W.mName("send") {
				if _, ok := call.Common().Value.Type().Underlying().(*types.Interface); ok {
					out = append(out, call)
				}
			}
		})
	}
	return out
}

// perStreamLocks returns the must-held locks at `in` that are fields of the given stream type.
func perStreamLocks(ls LockSet, nt *types.Named) []string {
	var out []string
	if nt == nil {
		return nil
	}
	for _, l := range ls.list() {
		if strings.HasPrefix(l, nt.Obj().Name()+".") && !strings.HasSuffix(l, ":R") {
			out = append(out, l)
		}
	}
	return out
}

// ruleContiguity (C13.4).
func ruleContiguity(c *Ctx, rule string) {
	c.rule(rule, "all chunks of one message are emitted inside one critical section of a per-stream write mutex, and every other emitter of header, half-close or close frames for that stream holds the same mutex when it emits or when it decides to emit")
	w := c.W
	a := w.Anchors()
	lf := w.Locks()
	writeLock := map[string]string{} // stream type -> lock
	sites := c.senderSendSites()
	for _, s := range sites {
		rn := recvNamed(s.Parent())
		if rn == nil {
			c.fail(rule, "sender.send called from "+w.Short(s.Parent()), w.At(s), "the sender is invoked from a function that is not a stream method; cannot determine the per-stream write mutex")
			continue
		}
		locks := perStreamLocks(lf.MustAt(s), rn)
		key := "sender.send call in " + w.Short(s.Parent()) + ": per-stream write mutex held"
		if len(locks) == 0 {
			c.fail(rule, key, w.At(s), "no mutex of "+rn.Obj().Name()+" is held across the call that emits all chunks of a message; must-lockset = "+lf.MustAt(s).String())
			continue
		}
		c.ok(rule, key, w.At(s), "held: "+strings.Join(locks, ", "))
		if prev, ok := writeLock[rn.Obj().Name()]; ok && prev != locks[0] {
			c.fail(rule, key, w.At(s), "different send sites of the same stream type hold different mutexes: "+prev+" vs "+locks[0])
		}
		writeLock[rn.Obj().Name()] = locks[0]
	}
	c.floor(rule, len(sites), 2, "call sites of the sender's send method")
	// chunk emission inside send implementations is synchronous (no `go` between send() and the callback)
	for _, impl := range c.senderImpls() {
		spawn := false
		allInstrs(impl, func(in ssa.Instruction) {
			if _, ok := in.(*ssa.Go); ok {
				spawn = true
			}
		})
		c.check(!spawn, rule, w.Short(impl)+": chunks emitted synchronously", w.Pos(impl.Pos()), "no goroutine spawned inside the sender", "the sender spawns a goroutine: chunks may be emitted outside the caller's critical section")
	}
	// other emitters
	ordered := map[string]bool{"ServerToClient_ResponseHeaders": true, "ClientToServer_HalfClose": true, "ServerToClient_CloseStream": true}
	n := 0
	for _, e := range c.emitSeq() {
		if !ordered[e.Kind] || e.Send == nil {
			continue
		}
		rn := recvNamed(e.Fn)
		if rn == nil || (a.CS != nil && rn.Obj() != a.CS.Obj() && a.SS != nil && rn.Obj() != a.SS.Obj()) {
			// rejection reply from the serve loop: the stream never existed, nothing to interleave with
			if c.isRejectionEmit(e) {
				c.exception(rule, emitKey(w, e)+": ordered with data chunks", w.At(e.Alloc), "rejection reply for a stream that was never created: no data frames of that stream exist to interleave with")
				continue
			}
			c.fail(rule, emitKey(w, e)+": ordered with data chunks", w.At(e.Alloc), "emitter is not a method of a stream type; cannot relate it to the stream's write mutex")
			continue
		}
		n++
		wl := writeLock[rn.Obj().Name()]
		key := emitKey(w, e) + ": ordered with data chunks"
		if wl == "" {
			c.fail(rule, key, w.At(e.Alloc), "no per-stream write mutex established for "+rn.Obj().Name())
			continue
		}
		if lf.MustAt(e.Send).has(wl) {
			c.ok(rule, key, w.At(e.Send), "emitted with "+wl+" held")
			continue
		}
		// decision under lock: the closure (or the closure that calls it) is spawned with the lock held
		decided := false
		var up func(fn *ssa.Function, depth int) bool
		up = func(fn *ssa.Function, depth int) bool {
			if !w.isSubordinate(fn) || depth > 3 {
				return false
			}
			sites := w.callSitesOf(fn)
			if len(sites) == 0 {
				return false
			}
			for _, s := range sites {
				if _, isGo := s.(*ssa.Go); isGo && lf.relMust[s] != nil && union(lf.EntryMust[s.Parent()], lf.relMust[s]).has(wl) {
					continue
				}
				if w.isSubordinate(s.Parent()) && up(s.Parent(), depth+1) {
					continue
				}
				return false
			}
			return true
		}
		decided = up(e.Fn, 0)
		c.check(decided, rule, key, w.At(e.Send), "decided and spawned with "+wl+" held", "emitted without "+wl+" and not spawned from inside its critical section: the frame can land between an envelope and its continuations")
	}
	c.floor(rule, n, 4, "header/half-close/close emit sites of stream methods")
}

// senderImpls: the `send` methods of types implementing the sender interface.
// senderCores: for each sender implementation, the function that holds its chunk loop (the send method itself, or the
// private helper the loop was split off into).
func (c *Ctx) senderCores() []*ssa.Function {
	var out []*ssa.Function
	for _, fn := range c.senderImpls() {
		out = append(out, c.W.coreWith(fn, func(in ssa.Instruction) bool {
			// the dynamic call of the send callback field
			call, ok := in.(*ssa.Call)
			if !ok || staticCallee(call) != nil || call.Call.IsInvoke() {
				return false
			}
			if _, isB := call.Call.Value.(*ssa.Builtin); isB {
				return false
			}
			_, _, isField := loadedField(call.Call.Value)
			return isField && call.Call.Signature().Results().Len() == 1
		}))
	}
	return out
}

func (c *Ctx) senderImpls() []*ssa.Function {
	var out []*ssa.Function
	for _, fn := range c.W.Funcs {
		if fn.Parent() == nil && fn.Name() == c.W.mName("send") && fn.Signature.Recv() != nil && !isGenericTemplate(fn) {
			out = append(out, fn)
		}
	}
	return out
}

// onceGuardedByFlag checks the A7 once-guard typestate for an effect point inside a critical section.
// point: instruction in fn (emit send, go spawn, or helper call). lock: must be held at point.
func (c *Ctx) onceGuardedByFlag(rule, key string, point ssa.Instruction, flag FieldRef, lock string) bool {
	w := c.W
	lf := w.Locks()
	fn := point.Parent()
	if lock != "" && !lf.MustAt(point).has(lock) {
		c.fail(rule, key, w.At(point), "the effect is not inside the critical section of "+lock+" (must-lockset "+lf.MustAt(point).String()+")")
		return false
	}
	load := fieldFlagFact(point, flag, false)
	if load == nil {
		c.fail(rule, key, w.At(point), "no dominating test establishes "+flag.String()+" == false before the effect")
		return false
	}
	if lock != "" && !lf.MustAt(load).has(lock) {
		c.fail(rule, key, w.At(load), "the flag "+flag.String()+" is tested outside the critical section of "+lock)
		return false
	}
	ok, why := flagSetAround(fn, point, load, flag)
	if !ok {
		c.fail(rule, key, w.At(point), flag.String()+": "+why)
		return false
	}
	// no store resets the flag to false anywhere
	for _, f := range w.Funcs {
		for _, st := range storesToField(f, flag) {
			if !isConstBool(st.Val, true) {
				c.fail(rule, key, w.At(st), "the once-flag "+flag.String()+" is written with a value other than true in "+w.Short(f))
				return false
			}
		}
	}
	c.ok(rule, key, w.At(point), "tested false at "+w.At(load)+" under "+lock+"; "+why)
	return true
}

// findOnceFlag tries every bool field of the stream type as the once-flag for the effect point.
func (c *Ctx) findOnceFlag(point ssa.Instruction, nt *types.Named) (FieldRef, bool) {
	for _, f := range boolFields(nt) {
		if fieldFlagFact(point, f, false) != nil {
			return f, true
		}
	}
	return FieldRef{}, false
}

// spawnPointOf: for an emit inside a `go` closure, the go statement in the parent; otherwise the send itself.
func (c *Ctx) spawnPointOf(e *EmitSite) ssa.Instruction {
	if !c.W.isSubordinate(e.Fn) {
		return e.Send
	}
	if e.Fn.Parent() == nil {
		// method or helper used at exactly one place (e.g. started with `go` by the finishing function)
		return c.W.soleSite(e.Fn)
	}
	for _, s := range c.W.callSitesOf(e.Fn) {
		if s.Parent() == e.Fn.Parent() {
			return s
		}
	}
	return nil
}

// ruleHalfCloseOnce (C13.6).
func ruleHalfCloseOnce(c *Ctx, rule string) {
	c.rule(rule, "half_close is emitted at most once per stream: the emit is inside the write mutex, dominated by a test that the half-closed flag is false, and the flag is set before the mutex is released")
	w := c.W
	a := w.Anchors()
	n := 0
	for _, e := range c.emitSeq() {
		if e.Kind != "ClientToServer_HalfClose" || e.Send == nil {
			continue
		}
		n++
		key := emitKey(w, e) + ": once-guard"
		flag, ok := c.findOnceFlag(e.Send, a.CS)
		if !ok {
			c.fail(rule, key, w.At(e.Send), "no bool field of the client stream is tested false on the way to the half_close emit")
			continue
		}
		locks := perStreamLocks(w.Locks().MustAt(e.Send), a.CS)
		lock := ""
		if len(locks) > 0 {
			lock = locks[0]
		} else {
			c.fail(rule, key, w.At(e.Send), "half_close emitted with no client-stream mutex held")
			continue
		}
		c.onceGuardedByFlag(rule, key, e.Send, flag, lock)
	}
	c.floor(rule, n, 1, "half_close emit sites")
}

// halfClosedFlag: the once-flag of the half_close emit (used by C13.10).
func (c *Ctx) halfClosedFlag() (FieldRef, bool) {
	a := c.W.Anchors()
	for _, e := range c.emitSeq() {
		if e.Kind == "ClientToServer_HalfClose" && e.Send != nil {
			return c.findOnceFlag(e.Send, a.CS)
		}
	}
	return FieldRef{}, false
}

// ruleNoDataAfterHalfClose (C13.10).
func ruleNoDataAfterHalfClose(c *Ctx, rule string) {
	c.rule(rule, "no request data after half-close: the client send method calls into the sender only after testing, under the write mutex, that the half-closed flag is false")
	w := c.W
	a := w.Anchors()
	flag, ok := c.halfClosedFlag()
	if !ok {
		c.fail(rule, "half-closed flag", "-", "cannot infer the half-closed flag from the half_close emit site")
		return
	}
	n := 0
	for _, s := range c.senderSendSites() {
		rn := recvNamed(s.Parent())
		if rn == nil || a.CS == nil || rn.Obj() != a.CS.Obj() {
			continue
		}
		n++
		key := "sender.send call in " + w.Short(s.Parent()) + ": half-closed tested"
		load := fieldFlagFact(s, flag, false)
		if load == nil {
			c.fail(rule, key, w.At(s), "the call into the sender is not dominated by a test that "+flag.String()+" is false: SendMsg after CloseSend puts request data after half_close on the wire")
			continue
		}
		lf := w.Locks()
		shared := intersect(lf.MustAt(load), lf.MustAt(s))
		c.check(len(perStreamLocks(shared, a.CS)) > 0, rule, key, w.At(s), "tested at "+w.At(load)+" in the same critical section "+shared.String(), "flag test and send are not in one critical section")
	}
	c.floor(rule, n, 1, "client-side sender.send call sites")
}

// casSuccessFact: `in` is dominated by the success edge of a CompareAndSwap(nil, x) on field fr —
// directly, or through a call to a function whose boolean result is true only on that edge.
func (c *Ctx) casGuard(in ssa.Instruction, marker FieldRef, depth int) (bool, string) {
	for _, f := range boolFactsAt(in) {
		call, ok := f.V.(*ssa.Call)
		if !ok || !f.True {
			continue
		}
		n := calleeName(call)
		if strings.HasSuffix(n, ".CompareAndSwap") {
			if fr, _, ok := fieldOfAddr(call.Call.Args[0]); ok && fr == marker && isNilConst(call.Call.Args[1]) {
				return true, "success edge of CompareAndSwap(nil, …) on " + marker.String() + " at " + c.W.At(call)
			}
		}
		if callee := staticCallee(call); callee != nil && c.W.inRoot(callee) && depth < 2 {
			if ok, why := c.returnsTrueOnlyAfterCAS(callee, marker, depth+1); ok {
				return true, "true result of " + c.W.Short(callee) + ", which returns true only on the " + why
			}
		}
	}
	return false, ""
}

// returnsTrueOnlyAfterCAS: every `true` the function can return is produced under the CAS success edge.
func (c *Ctx) returnsTrueOnlyAfterCAS(fn *ssa.Function, marker FieldRef, depth int) (bool, string) {
	if fn.Signature.Results().Len() != 1 {
		return false, ""
	}
	okAll, seen, why := true, 0, ""
	checkVal := func(v ssa.Value, at ssa.Instruction) {
		if isConstBool(v, false) {
			return
		}
		seen++
		g, w := c.casGuard(at, marker, depth)
		if !g {
			okAll = false
		} else {
			why = w
		}
	}
	allInstrs(fn, func(in ssa.Instruction) {
		switch x := in.(type) {
		case *ssa.Return:
			v := x.Results[0]
			if u, ok := v.(*ssa.UnOp); ok && u.Op == token.MUL {
				if a, ok := u.X.(*ssa.Alloc); ok {
					// spilled result: check every store
					for _, r := range *a.Referrers() {
						if st, ok := r.(*ssa.Store); ok && st.Addr == a {
							checkVal(st.Val, st)
						}
					}
					return
				}
			}
			checkVal(v, x)
		}
	})
	return okAll && seen > 0, why
}

// ruleCancelOnce (C07.3, C13.7).
func ruleCancelOnce(c *Ctx, rule string) {
	c.rule(rule, "the cancel frame is emitted only by the caller that won the finish CAS (at most once per stream), from its own goroutine, and the receiver is cancelled on the same path")
	w := c.W
	a := w.Anchors()
	n := 0
	for _, e := range c.emitSeq() {
		if e.Kind != "ClientToServer_Cancel" || e.Send == nil {
			continue
		}
		n++
		key := emitKey(w, e)
		pt := c.spawnPointOf(e)
		if pt == nil {
			c.fail(rule, key+": spawn", w.At(e.Alloc), "cannot find where the cancel emit is started")
			continue
		}
		_, isGo := pt.(*ssa.Go)
		c.check(isGo, rule, key+": sent from its own goroutine", w.At(pt), "go statement", "the cancel frame is sent synchronously: cancellation would wait for the carrier (and, from the receive loop, could deadlock the tunnel)")
		ok, why := c.casGuard(pt, a.CSDone, 0)
		c.check(ok, rule, key+": CAS-once", w.At(pt), why, "the cancel emit is not dominated by the success edge of the finish CAS: a stream that already completed (or was already cancelled) would emit cancel again")
		c.check(!inLoop(pt.Block()), rule, key+": not in a loop", w.At(pt), "single emit", "cancel emit inside a loop")
		// receiver cancel on the same path
		rc := callsIn(pt.Parent(), func(ci ssa.CallInstruction) bool {
			return ci.Common().IsInvoke() && ci.Common().Method.Name() == w.mName("cancel")
		})
		found := false
		for _, r := range rc {
			if g, _ := c.casGuard(r, a.CSDone, 0); g {
				found = true
			}
		}
		c.check(found, rule, key+": receiver cancelled", w.At(pt), "receiver.cancel() on the CAS-winner path", "the cancel-stream path does not cancel the local receiver: a blocked local reader is not released")
	}
	c.floor(rule, n, 1, "cancel emit sites")
}

// ruleHeadersOnce (C13.5).
func ruleHeadersOnce(c *Ctx, rule string) {
	c.rule(rule, "response_headers is emitted at most once per stream: every emit site is once-guarded by the headers-sent flag under the stream's write mutex")
	w := c.W
	a := w.Anchors()
	lf := w.Locks()
	n := 0
	for _, e := range c.emitSeq() {
		if e.Kind != "ServerToClient_ResponseHeaders" || e.Send == nil {
			continue
		}
		n++
		key := emitKey(w, e) + ": once-guard"
		if !w.isSubordinate(e.Fn) {
			// helper form: every caller tests the flag false; the helper sets it on all paths
			sites := w.callSitesOf(e.Fn)
			if _, local := c.findOnceFlag(e.Send, a.SS); local || len(sites) == 0 {
				// emit directly in an API method
				flag, ok := c.findOnceFlag(e.Send, a.SS)
				if !ok {
					c.fail(rule, key, w.At(e.Send), "no bool field of the server stream is tested false on the way to the response_headers emit")
					continue
				}
				locks := perStreamLocks(lf.MustAt(e.Send), a.SS)
				if len(locks) == 0 {
					c.fail(rule, key, w.At(e.Send), "response_headers emitted with no server-stream mutex held")
					continue
				}
				c.onceGuardedByFlag(rule, key, e.Send, flag, locks[0])
				continue
			}
			// flag = bool field set true in the helper on every path
			var flag FieldRef
			found := false
			for _, f := range boolFields(a.SS) {
				isSet := func(in ssa.Instruction) bool {
					st, ok := in.(*ssa.Store)
					if !ok {
						return false
					}
					r, _, ok := fieldOfAddr(st.Addr)
					return ok && r == f && isConstBool(st.Val, true)
				}
				if len(storesToField(e.Fn, f)) > 0 && pathAvoiding(e.Fn, nil, isExit, isSet) == nil {
					flag, found = f, true
				}
			}
			if !found {
				c.fail(rule, key, w.At(e.Send), "the header-emitting helper "+w.Short(e.Fn)+" does not set a headers-sent flag on every path")
				continue
			}
			locks := perStreamLocks(lf.MustAt(e.Send), a.SS)
			if len(locks) == 0 {
				c.fail(rule, key, w.At(e.Send), "response_headers emitted with no server-stream mutex held (helper entry lockset "+lf.EntryMust[e.Fn].String()+")")
				continue
			}
			all := true
			for _, s := range sites {
				load := fieldFlagFact(s, flag, false)
				if load == nil {
					c.fail(rule, key, w.At(s), "call of "+w.Short(e.Fn)+" in "+w.Short(s.Parent())+" is not dominated by a test that "+flag.String()+" is false")
					all = false
					continue
				}
				if !lf.MustAt(load).has(locks[0]) {
					c.fail(rule, key, w.At(load), flag.String()+" tested outside "+locks[0])
					all = false
				}
			}
			if all {
				c.ok(rule, key, w.At(e.Send), fmt.Sprintf("helper sets %s on every path; all %d callers test it false under %s", flag, len(sites), locks[0]))
			}
			continue
		}
		// closure form: guarded by a captured copy of !flag, decided under the lock in the parent
		var capLoad *ssa.UnOp
		var flag FieldRef
		parent := e.Fn.Parent()
		if sp := c.spawnPointOf(e); sp != nil {
			parent = sp.Parent() // function literal, or method started by the finishing function
		}
		for _, f := range boolFactsAt(e.Send) {
			if u, ok := f.V.(*ssa.UnOp); ok && u.Op == token.MUL && !f.True {
				if r, _, ok := fieldOfAddr(u.X); ok && a.SS != nil && r.Type == a.SS.Obj().Name() && (u.Parent() == parent || regionRoot(u.Parent()) == parent) {
					capLoad, flag = u, r
				}
			}
		}
		if capLoad == nil {
			c.fail(rule, key, w.At(e.Send), "the emit in the finish goroutine is not guarded by a captured headers-not-yet-sent decision taken in the parent")
			continue
		}
		locks := perStreamLocks(lf.MustAt(capLoad), a.SS)
		if len(locks) == 0 {
			c.fail(rule, key, w.At(capLoad), "the headers-not-yet-sent decision is taken with no server-stream mutex held")
			continue
		}
		// in the parent, on the path where the flag was false, it is set to true before exit
		setOK := false
		for _, st := range storesToField(parent, flag) {
			if isConstBool(st.Val, true) && lf.MustAt(st).has(locks[0]) {
				// the store must be control-dependent on the same decision, or unconditional
				if l := fieldFlagFact(st, flag, false); l == capLoad || l == nil {
					if l == capLoad || dominates(capLoad, st) {
						setOK = true
					}
				}
			}
		}
		c.check(setOK, rule, key, w.At(e.Send), "decision "+flag.String()+"==false taken at "+w.At(capLoad)+" under "+locks[0]+" and the flag is set there", "the parent does not set "+flag.String()+" under "+locks[0]+" after deciding to send headers: they can be sent twice")
	}
	c.floor(rule, n, 2, "response_headers emit sites")
}

// ruleHeadersBeforeData (C02.5).
func ruleHeadersBeforeData(c *Ctx, rule string) {
	c.rule(rule, "headers no later than the first response message: in the server send method the call into the sender is reached only with the headers-sent flag true (tested true, or the header-emitting helper was called)")
	w := c.W
	a := w.Anchors()
	n := 0
	for _, s := range c.senderSendSites() {
		rn := recvNamed(s.Parent())
		if rn == nil || a.SS == nil || rn.Obj() != a.SS.Obj() {
			continue
		}
		n++
		fn := s.Parent()
		key := "sender.send call in " + w.Short(fn) + ": headers sent first"
		// every path from entry to s passes: a call to the header helper, or the true edge of a bool flag of SS.
		isHelper := func(in ssa.Instruction) bool {
			if ci, ok := in.(ssa.CallInstruction); ok {
				if f := staticCallee(ci); f != nil && f == a.HeadersLocked {
					return true
				}
				// or an inline response_headers emit
				for _, e := range c.emitSeq() {
					if e.Kind == "ServerToClient_ResponseHeaders" && e.Send == in {
						return true
					}
				}
			}
			return false
		}
		// paths avoiding the helper must come through a "flag == true" edge: implement by cutting at helper
		// calls and checking that any remaining path to s goes through a block dominated by flag==true...
		// Simplification that covers if/else shapes: find the flag test; the false edge must lead to the helper.
		root := regionRoot(fn) // the sender may be called from a single-use helper of the send method (`return st.sendDataLocked(b)`)
		bad := pathAvoiding(root, nil, func(in ssa.Instruction) bool { return in == s }, func(in ssa.Instruction) bool {
			if isHelper(in) {
				return true
			}
			// entering a block through the true edge of a flag test also cuts
			return false
		})
		if bad == nil {
			c.ok(rule, key, w.At(s), "every path to the sender passes the header emit")
			continue
		}
		// allow the bypass only via the true edge of an SS bool flag (the test may sit in a helper such as
		// ensureHeadersSentLocked: edges inside virtually inlined helpers are cut the same way)
		okBypass := false
		var flagName string
		flagTrueEdge := func(pred, sc *ssa.BasicBlock) bool {
			ef, has := edgeFact(pred, sc)
			if !has {
				return false
			}
			nf := normFact(ef)
			if fr, _, isF := loadedField(origin(nf.Cond)); isF && fr.Type == a.SS.Obj().Name() && nf.True {
				if bt, isB := nf.Cond.Type().Underlying().(*types.Basic); isB && bt.Kind() == types.Bool {
					flagName = fr.String()
					return true
				}
			}
			return false
		}
		if pathAvoidingE(root, nil, func(in ssa.Instruction) bool { return in == s }, isHelper, flagTrueEdge) == nil && flagName != "" {
			okBypass = true
		}
		for _, b := range fn.Blocks {
			ifi, ok := b.Instrs[len(b.Instrs)-1].(*ssa.If)
			if !ok {
				continue
			}
			f := normFact(EdgeFact{ifi.Cond, true})
			v := origin(f.Cond)
			fr, _, isF := loadedField(v)
			if !isF || fr.Type != a.SS.Obj().Name() {
				continue
			}
			// edge on which flag is false
			falseSucc := b.Succs[1]
			if !f.True {
				falseSucc = b.Succs[0]
			}
			// from falseSucc, every path to s passes the helper
			first := falseSucc.Instrs[0]
			reach := pathAvoiding(fn, nil, func(in ssa.Instruction) bool { return false }, nil)
			_ = reach
			esc := false
			if first == s {
				esc = true
			} else if !isHelper(first) {
				if pathAvoiding(fn, first, func(in ssa.Instruction) bool { return in == s }, isHelper) != nil {
					esc = true
				}
			}
			if !esc && dominates(ifi, s) {
				okBypass, flagName = true, fr.String()
			}
		}
		c.check(okBypass, rule, key, w.At(s), "sender reached either after the header emit or with "+flagName+" already true", "a path reaches the sender without the headers having been emitted and without the headers-sent flag being true: the first response message can precede response_headers")
	}
	c.floor(rule, n, 1, "server-side sender.send call sites")
}

// ruleCloseOnce (C13.8): close_stream exactly once per accepted stream.
func ruleCloseOnce(c *Ctx, rule string) {
	c.rule(rule, "close_stream exactly once per accepted stream: the emit is once-guarded by the closed flag under the write mutex (at most once), the dispatch function defers the finishing function before anything that can return or panic, and every successful creation spawns the dispatch function (at least once)")
	w := c.W
	a := w.Anchors()
	if !c.need(rule, "ServerFinish", a.ServerFinish) || !c.need(rule, "Dispatch", a.Dispatch) || !c.need(rule, "Create", a.Create) {
		return
	}
	n := 0
	for _, e := range c.emitSeq() {
		if e.Kind != "ServerToClient_CloseStream" || e.Send == nil || !w.ownedBy(e.Fn, a.ServerFinish) {
			continue
		}
		n++
		key := emitKey(w, e) + ": once-guard"
		pt := c.spawnPointOf(e)
		if pt == nil {
			c.fail(rule, key, w.At(e.Alloc), "cannot find the point at which the close emit is started")
			continue
		}
		flag, ok := c.findOnceFlag(pt, a.SS)
		if !ok {
			c.fail(rule, key, w.At(pt), "no bool field of the server stream is tested false before the close_stream emit is started: a stream finished twice (handler return racing with cancel) would emit two close frames")
			continue
		}
		locks := perStreamLocks(w.Locks().MustAt(pt), a.SS)
		if len(locks) == 0 {
			c.fail(rule, key, w.At(pt), "close_stream emit started with no server-stream mutex held")
			continue
		}
		c.onceGuardedByFlag(rule, key, pt, flag, locks[0])
		// ... for EVERY outcome: the start of the emit does not depend on what the error is (a stream finished with
		// context.Canceled by the handler's own doing still owes the client its close frame)
		onOutcome := ""
		for _, f := range factsAt(pt) {
			x, op, y, isCmp := cmpFact(f)
			if !isCmp {
				continue
			}
			if (isErrorType(x.Type()) || isErrorType(y.Type())) && !(isNilConst(x) || isNilConst(y)) {
				onOutcome = desc(x) + " " + op.String() + " " + desc(y)
			}
		}
		for _, bf := range boolFactsAt(pt) {
			if call, isC := bf.V.(*ssa.Call); isC && (calleeName(call) == "errors.Is" || calleeName(call) == "errors.As") {
				onOutcome = calleeName(call) + "(…) == " + fmt.Sprint(bf.True)
			}
		}
		c.check(onOutcome == "", rule, emitKey(w, e)+": emitted whatever the outcome", w.At(pt), "not conditional on the error", "the close_stream emit is started only when "+onOutcome+": for the other outcomes the server finishes the RPC without telling the client, which keeps its table entry, its watcher goroutine and a blocked reader until its own context ends")
		// inside the closure the close emit is unconditional
		if w.isSubordinate(e.Fn) {
			c.check(pathAvoiding(e.Fn, nil, isExit, func(in ssa.Instruction) bool { return in == e.Send }) == nil, rule, emitKey(w, e)+": unconditional inside the goroutine", w.At(e.Send), "every path of the goroutine sends close_stream", "a path through the finish goroutine skips the close_stream emit")
		}
	}
	c.floor(rule, n, 1, "close_stream emit sites in the finishing function")
	// at least once: dispatch defers finish first
	var deferInstr *ssa.Defer
	allInstrs(a.Dispatch, func(in ssa.Instruction) {
		d, ok := in.(*ssa.Defer)
		if !ok || deferInstr != nil {
			return
		}
		for _, callee := range w.rootCalleesThroughWrappers(d) {
			if callee == a.ServerFinish {
				deferInstr = d
				return
			}
			// deferred closure that calls finish on every path
			isFin := func(x ssa.Instruction) bool {
				ci, ok := x.(ssa.CallInstruction)
				return ok && staticCallee(ci) == a.ServerFinish
			}
			if callee.Parent() == a.Dispatch && pathAvoiding(callee, nil, isExit, isFin) == nil {
				deferInstr = d
			}
		}
	})
	key := w.Short(a.Dispatch) + ": finishing function deferred first"
	if deferInstr == nil {
		c.fail(rule, key, w.Pos(a.Dispatch.Pos()), "the dispatch function does not defer a call that reaches the finishing function on every path: a returning or panicking handler would leave the stream without close_stream")
	} else {
		// nothing before the defer can return, panic or call out
		early := false
		var what string
		for _, b := range a.Dispatch.Blocks {
			for _, in := range b.Instrs {
				if in == deferInstr {
					goto done
				}
				switch x := in.(type) {
				case *ssa.Call:
					early, what = true, "call "+calleeDesc(w, x)
				case *ssa.Go, *ssa.Return, *ssa.Panic, *ssa.If:
					early, what = true, fmt.Sprintf("%T", x)
				}
			}
			if b.Index == 0 {
				// defer must be in the entry block
				early, what = true, "defer is not in the entry block"
			}
		}
	done:
		c.check(!early, rule, key, w.At(deferInstr), "deferred in the entry block before any call, branch or spawn", "something precedes the deferred finish: "+what)
	}
	// every successful creation spawns dispatch
	ins := tableInsert(a.Create, a.SvStreams)
	if ins == nil {
		c.fail(rule, w.Short(a.Create)+": spawn after insert", "-", "no table insert found")
		return
	}
	isSpawn := func(in ssa.Instruction) bool {
		g, ok := in.(*ssa.Go)
		if !ok {
			return false
		}
		for _, f := range w.rootCalleesThroughWrappers(g) {
			if f == a.Dispatch {
				return true
			}
		}
		return false
	}
	c.check(pathAvoiding(a.Create, ins, isExit, isSpawn) == nil, rule, w.Short(a.Create)+": every registered stream is dispatched", w.At(ins), "every path from the table insert to a return passes `go dispatch`", "a path registers the stream but never spawns the dispatch function: no handler, no close_stream")
	spawns := callsIn(a.Create, func(ci ssa.CallInstruction) bool { return isSpawn(ci) })
	c.check(len(spawns) == 1 && !inLoop(spawns[0].Block()), rule, w.Short(a.Create)+": exactly one dispatch spawn", w.At(ins), "one `go dispatch`, not in a loop", fmt.Sprintf("%d dispatch spawn sites (or in a loop): a stream could be handled twice", len(spawns)))
}

// ruleRejectClose (C13.9): exactly one close_stream per stream-level rejection.
func ruleRejectClose(c *Ctx, rule string) {
	c.rule(rule, "every stream-level rejection is answered by exactly one close_stream carrying the rejected frame's id and the rejection status, sent from its own goroutine")
	w := c.W
	a := w.Anchors()
	if !c.need(rule, "ServerLoop", a.ServerLoop) || !c.need(rule, "Create", a.Create) {
		return
	}
	n := 0
	for _, e := range c.emitSeq() {
		if e.Kind != "ServerToClient_CloseStream" || !c.isRejectionEmit(e) || e.Send == nil {
			continue
		}
		n++
		key := emitKey(w, e)
		pt := c.spawnPointOf(e)
		if e.Fn.Parent() == nil {
			// helper method: its single call site in the serve loop
			for _, s := range w.callSitesOf(e.Fn) {
				pt = s
			}
		}
		if pt == nil {
			c.fail(rule, key+": spawn", w.At(e.Alloc), "cannot find spawn point")
			continue
		}
		_, isGo := pt.(*ssa.Go)
		c.check(isGo, rule, key+": off the receive loop", w.At(pt), "go statement", "rejection reply is sent inline from the receive loop")
		// dominated by: create's err != nil and ok == true
		var createCall *ssa.Call
		allInstrs(a.ServerLoop, func(in ssa.Instruction) {
			if call, ok := in.(*ssa.Call); ok && staticCallee(call) == a.Create {
				createCall = call
			}
		})
		if createCall == nil {
			c.fail(rule, key+": follows creation", w.At(pt), "no call of the creation function in the serve loop")
			continue
		}
		errNonNil, okTrue := false, false
		for _, f := range factsAt(pt) {
			if x, op, y, ok := cmpFact(f); ok && op == token.NEQ {
				for _, pair := range [][2]ssa.Value{{x, y}, {y, x}} {
					if ex, ok := origin(pair[0]).(*ssa.Extract); ok && ex.Tuple == createCall && ex.Index == 1 && isNilConst(pair[1]) {
						errNonNil = true
					}
				}
			}
			nf := normFact(f)
			if ex, ok := origin(nf.Cond).(*ssa.Extract); ok && ex.Tuple == createCall && ex.Index == 0 && nf.True {
				okTrue = true
			}
		}
		c.check(errNonNil && okTrue, rule, key+": only for stream-level rejections", w.At(pt), "dominated by err != nil and ok == true of the creation call", "the rejection reply is not control-dependent on (ok == true, err != nil) of the creation function")
		// inside closure: exactly one send, not in loop, status derived from that err
		sends := 0
		for _, ef := range w.directEffects(e.Fn).Effects {
			if ef.Kind == "carrier-send" {
				sends++
			}
		}
		c.check(sends == 1 && !inLoop(e.Send.Block()), rule, key+": exactly one frame", w.At(e.Send), "one send, not in a loop", fmt.Sprintf("%d sends in the rejection goroutine", sends))
		st := e.Payload["CloseStream.Status"]
		good := false
		if errArg, ok := statusProtoOfError(st); ok && w.staleGoCapture(errArg) == "" {
			ev := origin(errArg)
			if arg, _ := w.throughSoleCallSite(ev); arg != nil {
				ev = origin(arg)
			}
			if ex, isEx := ev.(*ssa.Extract); isEx && ex.Tuple == ssa.Value(createCall) && ex.Index == 1 {
				good = true
			}
		}
		c.check(good, rule, key+": carries the rejection status", w.At(e.Alloc), "Status = "+desc(st), "the close_stream Status is "+desc(st)+", expected status.FromError(<creation error>).Proto()")
		// every iteration that rejects reaches the spawn: the true/non-nil edge leads to pt without bypass
	}
	c.floor(rule, n, 1, "rejection close_stream emit sites")
}

// isRejectionEmit: a close_stream emitted from the serve loop's own closure, or from a helper whose only
// call sites are in the serve loop (the stream was never created).
func (c *Ctx) isRejectionEmit(e *EmitSite) bool {
	a := c.W.Anchors()
	if a.ServerLoop == nil {
		return false
	}
	w := c.W
	if w.ownedBy(e.Fn, a.ServerLoop) {
		return true
	}
	if e.Fn.Parent() != nil || e.Fn == a.ServerFinish || w.ownedBy(e.Fn, a.ServerFinish) {
		return false
	}
	sites := c.W.callSitesOf(e.Fn)
	if len(sites) == 0 {
		return false
	}
	for _, s := range sites {
		if s.Parent() != a.ServerLoop {
			return false
		}
	}
	return true
}

func extractOf(call *ssa.Call, idx int) ssa.Value {
	for _, r := range *call.Referrers() {
		if ex, ok := r.(*ssa.Extract); ok && ex.Index == idx {
			return ex
		}
	}
	return nil
}
