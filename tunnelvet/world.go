package main

// world.go: loading /repo's current working tree into typed AST + SSA + call graph.
// Nothing here executes grpctunnel code; everything is derived from source.

import (
	"fmt"
	"go/token"
	"go/types"
	"os"
	"path/filepath"
	"sort"
	"strings"

	"golang.org/x/tools/go/callgraph"
	"golang.org/x/tools/go/callgraph/cha"
	"golang.org/x/tools/go/callgraph/vta"
	"golang.org/x/tools/go/packages"
	"golang.org/x/tools/go/ssa"
	"golang.org/x/tools/go/ssa/ssautil"
)

const rootPath = "github.com/jhump/grpctunnel"
const pbPath = "github.com/jhump/grpctunnel/tunnelpb"

// World is the resolved program all rules work on.
type World struct {
	Repo      string
	GOARCH    string
	Tags      string
	Fset      *token.FileSet
	Pkgs      []*packages.Package
	Root      *packages.Package
	PB        *packages.Package
	Prog      *ssa.Program
	SRoot     *ssa.Package
	Funcs     []*ssa.Function // every function whose body comes from the root package (incl. closures, instantiations)
	byName    map[string][]*ssa.Function
	CG        *callgraph.Graph
	NPkgs     int
	NAllFn    int
	NEdges    int
	anchors   *Anchors
	roles     *Roles
	locks     *LockFacts
	effCache  map[*ssa.Function]*FuncEffects
	known     map[*ssa.Function]bool
	privCache map[*ssa.Function]bool
}

// LoadError means the check could not run at all (exit 2).
type LoadError struct{ msg string }

func (e *LoadError) Error() string { return e.msg }

func loadWorld(repo, goarch, tags string) (*World, error) {
	env := os.Environ()
	env = append(env, "GOWORK=off")
	if goarch != "" {
		env = append(env, "GOARCH="+goarch)
	}
	cfg := &packages.Config{
		Mode:  packages.LoadSyntax,
		Dir:   repo,
		Tests: false,
		Env:   env,
	}
	if tags != "" {
		cfg.BuildFlags = []string{"-tags=" + tags}
	}
	pkgs, err := packages.Load(cfg, "./...")
	if err != nil {
		return nil, &LoadError{"go/packages: " + err.Error()}
	}
	if len(pkgs) < 2 {
		return nil, &LoadError{fmt.Sprintf("expected >= 2 packages under %s, loaded %d", repo, len(pkgs))}
	}
	w := &World{Repo: repo, GOARCH: goarch, Tags: tags, Pkgs: pkgs, NPkgs: len(pkgs), byName: map[string][]*ssa.Function{}, effCache: map[*ssa.Function]*FuncEffects{}, privCache: map[*ssa.Function]bool{}}
	var errs []string
	for _, p := range pkgs {
		for _, e := range p.Errors {
			errs = append(errs, e.Error())
		}
		if p.PkgPath == rootPath {
			w.Root = p
		}
		if p.PkgPath == pbPath {
			w.PB = p
		}
	}
	if len(errs) > 0 {
		return nil, &LoadError{"type-check/load errors: " + strings.Join(errs, "; ")}
	}
	if w.Root == nil || w.PB == nil {
		return nil, &LoadError{"root package or tunnelpb not found"}
	}
	w.Fset = w.Root.Fset
	computeUniqueEmbedding(w.Root.Types)
	prog, _ := ssautil.Packages(pkgs, ssa.InstantiateGenerics)
	prog.Build()
	w.Prog = prog
	w.SRoot = prog.Package(w.Root.Types)
	if w.SRoot == nil {
		return nil, &LoadError{"no SSA for root package"}
	}
	all := ssautil.AllFunctions(prog)
	w.NAllFn = len(all)
	for fn := range all {
		if w.inRoot(fn) && fn.Blocks != nil {
			w.Funcs = append(w.Funcs, fn)
		}
	}
	sort.Slice(w.Funcs, func(i, j int) bool {
		a, b := w.Funcs[i], w.Funcs[j]
		if a.Pos() != b.Pos() {
			return a.Pos() < b.Pos()
		}
		return a.String() < b.String()
	})
	for _, fn := range w.Funcs {
		n := w.Short(fn)
		w.byName[n] = append(w.byName[n], fn)
	}
	w.CG = vta.CallGraph(all, cha.CallGraph(prog))
	for _, n := range w.CG.Nodes {
		w.NEdges += len(n.Out)
	}
	return w, nil
}

// inRoot reports whether fn's body is declared in the root package.
func (w *World) inRoot(fn *ssa.Function) bool {
	f := fn
	for f.Parent() != nil {
		f = f.Parent()
	}
	if f.Origin() != nil {
		f = f.Origin()
	}
	if f.Pkg != nil {
		return f.Pkg == w.SRoot
	}
	// wrappers/thunks: look at the object
	if obj := f.Object(); obj != nil && obj.Pkg() != nil {
		return obj.Pkg().Path() == rootPath && f.Synthetic == ""
	}
	return false
}

// Short gives a stable, package-path-free name such as "(*tunnelChannel).newStream$1".
// Instantiations of generics collapse onto the generic's name.
func (w *World) Short(fn *ssa.Function) string {
	if fn == nil {
		return "<nil>"
	}
	if fn.Parent() != nil {
		// closure: parent name + $n
		s := fn.Name()
		if i := strings.LastIndex(s, "$"); i >= 0 {
			return w.Short(fn.Parent()) + s[i:]
		}
		return w.Short(fn.Parent()) + "$" + s
	}
	f := fn
	if f.Origin() != nil {
		f = f.Origin()
	}
	s := f.String()
	s = strings.ReplaceAll(s, rootPath+"/tunnelpb.", "tunnelpb.")
	s = strings.ReplaceAll(s, rootPath+".", "")
	return s
}

func (w *World) Pos(p token.Pos) string {
	if !p.IsValid() {
		return "-"
	}
	pos := w.Fset.Position(p)
	rel, err := filepath.Rel(w.Repo, pos.Filename)
	if err != nil || strings.HasPrefix(rel, "..") {
		rel = pos.Filename
	}
	return fmt.Sprintf("%s:%d", rel, pos.Line)
}

func (w *World) Line(p token.Pos) int {
	if !p.IsValid() {
		return 0
	}
	return w.Fset.Position(p).Line
}

// FuncsNamed returns all SSA functions (instantiations included) with the short name.
func (w *World) FuncsNamed(name string) []*ssa.Function { return w.byName[name] }

// Func returns one representative (for generics: any instantiation with a body).
func (w *World) Func(name string) *ssa.Function {
	fs := w.byName[name]
	if len(fs) == 0 {
		return nil
	}
	// prefer instantiated bodies over the generic template
	for _, f := range fs {
		if len(f.TypeArgs()) > 0 {
			return f
		}
	}
	return fs[0]
}

// rootNamed looks up a named type of the root package.
func (w *World) rootNamed(name string) *types.Named {
	obj := w.Root.Types.Scope().Lookup(name)
	if obj == nil {
		return nil
	}
	n, _ := obj.Type().(*types.Named)
	return n
}

// instrPos finds a usable position for an instruction (own position, else nearest in block, else function).
func (w *World) instrPos(in ssa.Instruction) token.Pos {
	if in == nil {
		return token.NoPos
	}
	if p := in.Pos(); p.IsValid() {
		return p
	}
	if v, ok := in.(ssa.Value); ok {
		_ = v
	}
	// operands
	var ops []*ssa.Value
	for _, op := range in.Operands(ops) {
		if *op != nil {
			if p := (*op).Pos(); p.IsValid() {
				return p
			}
		}
	}
	b := in.Block()
	idx := -1
	for i, x := range b.Instrs {
		if x == in {
			idx = i
			break
		}
	}
	for i := idx - 1; i >= 0; i-- {
		if p := b.Instrs[i].Pos(); p.IsValid() {
			return p
		}
	}
	for i := idx + 1; i >= 0 && i < len(b.Instrs); i++ {
		if p := b.Instrs[i].Pos(); p.IsValid() {
			return p
		}
	}
	return in.Parent().Pos()
}

func (w *World) At(in ssa.Instruction) string { return w.Pos(w.instrPos(in)) }

// isGenericTemplate: a generic function body that is not an instantiation (we analyse instantiations).
func isGenericTemplate(fn *ssa.Function) bool {
	f := fn
	for f.Parent() != nil {
		f = f.Parent()
	}
	return f.TypeParams().Len() > 0 && len(f.TypeArgs()) == 0
}
