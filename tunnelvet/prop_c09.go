package main

func init() {
	register("C09", &propDef{
		Run: func(c *Ctx) {
			rulePanicAudit(c, "C09.1")
			ruleExhaustiveSwitches(c, "C09.2")
			ruleErrorSplit(c, "C09.3")
			ruleReceiverBound(c, "C09.4")
			ruleReassembly(c, "C09.4b")
			ruleSettingsValidation(c, "C09.5")
			ruleCloseSafety(c, "C09.6")
			ruleNoSelfDeadlock(c, "C09.7")
			ruleLateFramesInert(c, "C09.8")
			ruleLoopExitsTearDown(c, "C09.9")
			ruleSingleDispatch(c, "C09.10")
			ruleServerCancel(c, "C09.11a", "C09.11")
			ruleConstants(c, "C09.12")
			ruleLockBalance(c, "C09.13")
			ruleEveryFrameKindHandled(c, "C09.14")
			ruleBrokenStreamEndsRPC(c, "C09.15")
			ruleErrorDiscipline(c, "C09.16")
			ruleRejectedIDsRecorded(c, "C09.17")
			ruleRegistryPairing(c, "C09.18")
			ruleContextChain(c, "C09.19")
		},
		Explain:    "Static necessary conditions of robustness against a hostile peer: every index, slice, non-comma-ok type assertion and dereference of an optional protocol sub-message in functions that handle peer-controlled data is guarded by a dominating fact; every frame type switch has a default (and the accept switches a nil arm); each violation class has its documented outcome (stream-level vs tunnel-level split); bounded buffering (receiver bound and reassembly overrun checks); every settings input leads to close(awaitSettings) or the channel close; every close(ch) is once-guarded and the plain receiver's send-vs-close protocol holds; no function re-acquires a mutex it may already hold (self-deadlock on the receive loop).",
		Assume:     []string{"after unmarshal, oneof wrapper payloads are non-nil while other message-typed fields may be nil", "proto getters not used; direct field access modelled"},
		NotDecided: []string{"heap growth", "zero-length data frames are free under flow control, so queue length in frames is unbounded (observation O-1; the statement bounds data)", "uint32 window wrap on absurd updates (O-4)"},
	})
}
