package main

// report.go: obligations, known findings, evidence and replay files.

import (
	"encoding/json"
	"fmt"
	"math/rand"
	"os"
	"path/filepath"
	"sort"
	"strings"
)

type Obligation struct {
	Rule   string `json:"rule"`
	Key    string `json:"construct"`
	Pos    string `json:"pos"`
	Status string `json:"status"` // discharged | violated | exception | known-finding
	Msg    string `json:"detail"`
	Config string `json:"config,omitempty"`
}

type Ctx struct {
	W     *World
	Prop  string
	Obls  []*Obligation
	Rules map[string]string // rule id -> one-line statement
	order []string
	seen  map[string]bool
}

func newCtx(w *World, prop string) *Ctx {
	return &Ctx{W: w, Prop: prop, Rules: map[string]string{}, seen: map[string]bool{}}
}

func (c *Ctx) rule(id, statement string) {
	if _, ok := c.Rules[id]; !ok {
		c.order = append(c.order, id)
	}
	c.Rules[id] = statement
}

func (c *Ctx) add(rule, key, pos, status, msg string) {
	// de-duplicate (generic instantiations report the same source construct twice)
	k := rule + "|" + key + "|" + pos + "|" + status
	if c.seen[k] {
		return
	}
	c.seen[k] = true
	c.Obls = append(c.Obls, &Obligation{Rule: rule, Key: key, Pos: pos, Status: status, Msg: msg})
}

func (c *Ctx) ok(rule, key, pos, msg string)   { c.add(rule, key, pos, "discharged", msg) }
func (c *Ctx) fail(rule, key, pos, msg string) { c.add(rule, key, pos, "violated", msg) }
func (c *Ctx) exception(rule, key, pos, msg string) {
	c.add(rule, key, pos, "exception", msg)
}

// check records one obligation.
func (c *Ctx) check(cond bool, rule, key, pos, okMsg, failMsg string) bool {
	if cond {
		c.ok(rule, key, pos, okMsg)
	} else {
		c.fail(rule, key, pos, failMsg)
	}
	return cond
}

// floor: a rule must have matched at least min instances, otherwise it would pass vacuously.
func (c *Ctx) floor(rule string, n, min int, what string) {
	key := "instance floor: " + what
	if n >= min {
		c.ok(rule, key, "-", fmt.Sprintf("%d instance(s) found (floor %d)", n, min))
	} else {
		c.fail(rule, key, "-", fmt.Sprintf("only %d instance(s) of %s found, expected at least %d: the rule would pass vacuously (construct removed, renamed beyond recognition, or rewritten in an unrecognised shape)", n, what, min))
	}
}

func (c *Ctx) countRule(rule string) int {
	n := 0
	for _, o := range c.Obls {
		if o.Rule == rule {
			n++
		}
	}
	return n
}

// ---------- known findings ----------

type KnownFinding struct {
	Property string `json:"property"`
	Rule     string `json:"rule"`
	Key      string `json:"construct"`
	What     string `json:"what"`
	Status   string `json:"status"` // known | fixed
	Commit   string `json:"commit,omitempty"`
	Ref      string `json:"ref,omitempty"`
}

func loadKnown(path string) ([]KnownFinding, error) {
	b, err := os.ReadFile(path)
	if err != nil {
		if os.IsNotExist(err) {
			return nil, nil
		}
		return nil, err
	}
	var f struct {
		Findings []KnownFinding `json:"findings"`
	}
	if err := json.Unmarshal(b, &f); err != nil {
		return nil, err
	}
	return f.Findings, nil
}

// ---------- evidence ----------

type RuleSummary struct {
	Rule         string `json:"rule"`
	Statement    string `json:"statement"`
	Obligations  int    `json:"obligations"`
	Discharged   int    `json:"discharged"`
	ByException  int    `json:"by_exception"`
	KnownFinding int    `json:"known_finding"`
	Violated     int    `json:"violated"`
}

type runResult struct {
	Prop       string
	Tier       string
	Seed       int64
	Obls       []*Obligation
	Rules      map[string]string
	RuleOrder  []string
	Configs    []map[string]any
	Wall       float64
	Selftest   []map[string]any
	Violations []*Obligation
	Known      []*Obligation
	Assume     []string
	Explain    string
	NotDecided []string
}

func writeEvidence(verifDir string, r *runResult, w *World) error {
	sums := map[string]*RuleSummary{}
	var order []string
	for _, id := range r.RuleOrder {
		sums[id] = &RuleSummary{Rule: id, Statement: r.Rules[id]}
		order = append(order, id)
	}
	distinct := map[string]bool{}
	nDis, nExc, nKnown, nViol := 0, 0, 0, 0
	for _, o := range r.Obls {
		s := sums[o.Rule]
		if s == nil {
			s = &RuleSummary{Rule: o.Rule, Statement: r.Rules[o.Rule]}
			sums[o.Rule] = s
			order = append(order, o.Rule)
		}
		s.Obligations++
		switch o.Status {
		case "discharged":
			s.Discharged++
			nDis++
		case "exception":
			s.ByException++
			nExc++
		case "known-finding":
			s.KnownFinding++
			nKnown++
		case "violated":
			s.Violated++
			nViol++
		}
		if o.Pos != "-" && o.Pos != "" {
			distinct[o.Rule+"|"+o.Pos+"|"+o.Key] = true
		}
	}
	var rs []*RuleSummary
	for _, id := range order {
		rs = append(rs, sums[id])
	}
	// samples: seed-chosen subset, always including every non-discharged obligation
	rng := rand.New(rand.NewSource(r.Seed))
	idx := rng.Perm(len(r.Obls))
	var samples []any
	for _, o := range r.Obls {
		if o.Status != "discharged" {
			samples = append(samples, o)
		}
	}
	for _, i := range idx {
		if len(samples) >= 40 {
			break
		}
		if r.Obls[i].Status == "discharged" {
			samples = append(samples, r.Obls[i])
		}
	}
	cov := map[string]any{
		"explanation":         r.Explain,
		"evaluations":         len(r.Obls),
		"distinct_nontrivial": len(distinct),
		"rule":                "one obligation per (rule, construct) enumerated from the current tree by the analyser; distinct_nontrivial counts obligations bound to a distinct concrete source construct (file:line + construct key); instance-floor obligations are not counted as non-trivial",
		"obligations":         len(r.Obls),
		"discharged":          nDis,
		"by_exception":        nExc,
		"known_findings":      nKnown,
		"violated":            nViol,
		"rules":               rs,
		"samples":             samples,
		"configurations":      r.Configs,
		"checker_cmd":         fmt.Sprintf("./check %s %s", r.Prop, r.Tier),
		"trusted_base": []string{
			"go/types, go/packages, go/ssa (x/tools v0.50.0) and the go1.26.8 toolchain used to load the tree",
			"VTA call graph (over-approximation) for dynamic calls; lock identity = struct type + field",
			"summaries of external callees (grpc, protobuf, sync, context, metadata, strconv) built into the rules",
			"frozen exception tables in the rule sources (each one named construct with a reason)",
		},
		"not_decided": r.NotDecided,
		"exhaustive":  true,
	}
	if w != nil {
		cov["analysed"] = map[string]any{
			"packages":        w.NPkgs,
			"root_functions":  len(w.Funcs),
			"all_functions":   w.NAllFn,
			"callgraph_edges": w.NEdges,
			"lockset_rounds":  w.Locks().Rounds,
			"go_toolchain":    "go1.26.8",
			"x_tools":         "v0.50.0",
		}
	}
	if r.Selftest != nil {
		cov["checker_self_validation"] = r.Selftest
	}
	ev := map[string]any{
		"property_id": r.Prop,
		"tier":        r.Tier,
		"seed":        r.Seed,
		"level":       "other",
		"coverage":    cov,
		"assumptions": r.Assume,
		"wall_s":      r.Wall,
		"violations":  nViol,
	}
	b, err := json.MarshalIndent(ev, "", " ")
	if err != nil {
		return err
	}
	dir := filepath.Join(verifDir, "evidence")
	if err := os.MkdirAll(dir, 0o755); err != nil {
		return err
	}
	return os.WriteFile(filepath.Join(dir, r.Prop+".json"), append(b, '\n'), 0o644)
}

func writeReplay(verifDir, prop string, k int, o *Obligation, statement string) (string, error) {
	dir := filepath.Join(verifDir, "evidence", "replay")
	if err := os.MkdirAll(dir, 0o755); err != nil {
		return "", err
	}
	rel := filepath.Join("evidence", "replay", fmt.Sprintf("%s-%d.json", prop, k))
	b, _ := json.MarshalIndent(map[string]any{
		"property":  prop,
		"rule":      o.Rule,
		"statement": statement,
		"construct": o.Key,
		"pos":       o.Pos,
		"detail":    o.Msg,
		"config":    o.Config,
		"how_to":    fmt.Sprintf("./check %s --explain %s   (re-runs rule %s on the current tree and prints the obligations for this construct)", prop, rel, o.Rule),
	}, "", " ")
	return rel, os.WriteFile(filepath.Join(verifDir, rel), append(b, '\n'), 0o644)
}

func cleanReplays(verifDir, prop string) {
	m, _ := filepath.Glob(filepath.Join(verifDir, "evidence", "replay", prop+"-*.json"))
	for _, f := range m {
		os.Remove(f)
	}
}

func sortObls(obls []*Obligation) {
	sort.SliceStable(obls, func(i, j int) bool {
		a, b := obls[i], obls[j]
		if a.Rule != b.Rule {
			return ruleLess(a.Rule, b.Rule)
		}
		if a.Pos != b.Pos {
			return posLess(a.Pos, b.Pos)
		}
		return a.Key < b.Key
	})
}

func ruleLess(a, b string) bool {
	pa, na := splitRule(a)
	pb, nb := splitRule(b)
	if pa != pb {
		return pa < pb
	}
	return na < nb
}

func splitRule(r string) (string, int) {
	i := strings.Index(r, ".")
	if i < 0 {
		return r, 0
	}
	n := 0
	fmt.Sscanf(r[i+1:], "%d", &n)
	return r[:i], n
}

func posLess(a, b string) bool {
	fa, la := splitPos(a)
	fb, lb := splitPos(b)
	if fa != fb {
		return fa < fb
	}
	return la < lb
}

func splitPos(p string) (string, int) {
	i := strings.LastIndex(p, ":")
	if i < 0 {
		return p, 0
	}
	n := 0
	fmt.Sscanf(p[i+1:], "%d", &n)
	return p[:i], n
}
