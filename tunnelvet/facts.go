package main

// facts.go: F1 emit-site table, F3 field-access table, F6 spawn table.

import (
	"go/token"
	"go/types"
	"sort"
	"strings"

	"golang.org/x/tools/go/ssa"
)

// ---------- F1: emit sites ----------

type EmitSite struct {
	Fn       *ssa.Function
	Alloc    *ssa.Alloc          // the frame literal
	Send     ssa.CallInstruction // the carrier send it reaches
	Dir      string              // "C2S" | "S2C"
	Kind     string              // oneof wrapper type name, e.g. "ClientToServer_NewStream"
	StreamID ssa.Value           // value stored in StreamId
	Wrapper  *ssa.Alloc          // the oneof wrapper literal
	Payload  map[string]ssa.Value
	InGo     bool                         // the enclosing function is only spawned by `go`
	Bind     map[*ssa.Parameter]ssa.Value // literal built by a constructor helper: its parameters at this call site
	Via      *ssa.Call                    // the constructor call (nil for literals written at the send)
	Decided  ssa.Instruction              // where the kind is decided when one literal gets its Frame in the arms of an if/switch (nil: at the send)
}

// At: the instruction whose dominating branch conditions select this frame kind.
func (e *EmitSite) At() ssa.Instruction {
	if e.Decided != nil {
		return e.Decided
	}
	return e.Send
}

func (w *World) pbNamed(t types.Type) (string, bool) {
	n := namedOf(t)
	if n == nil || n.Obj().Pkg() == nil || n.Obj().Pkg().Path() != pbPath {
		return "", false
	}
	return n.Obj().Name(), true
}

// storesInto returns field name -> stored value for a composite literal allocation.
func storesInto(a *ssa.Alloc) map[string]ssa.Value {
	out := map[string]ssa.Value{}
	for _, r := range *a.Referrers() {
		fa, ok := r.(*ssa.FieldAddr)
		if !ok || fa.X != a {
			continue
		}
		name := fieldName(a.Type(), fa.Field)
		for _, r2 := range *fa.Referrers() {
			if st, ok := r2.(*ssa.Store); ok && st.Addr == fa {
				out[name] = st.Val
			}
		}
	}
	return out
}

// FrameKinds enumerates the generated oneof wrapper types of both frame messages.
func (w *World) FrameKinds() []string {
	var out []string
	sc := w.PB.Types.Scope()
	for _, n := range sc.Names() {
		if strings.HasPrefix(n, "ClientToServer_") || strings.HasPrefix(n, "ServerToClient_") {
			if tn, ok := sc.Lookup(n).(*types.TypeName); ok {
				if _, isStruct := tn.Type().Underlying().(*types.Struct); isStruct {
					out = append(out, n)
				}
			}
		}
	}
	sort.Strings(out)
	return out
}

func (w *World) EmitSites() []*EmitSite {
	var out []*EmitSite
	for _, fn := range w.Funcs {
		if isGenericTemplate(fn) {
			continue
		}
		allInstrsLocal(fn, func(in ssa.Instruction) {
			a, ok := in.(*ssa.Alloc)
			if !ok {
				return
			}
			name, ok := w.pbNamed(a.Type())
			if !ok || (name != "ClientToServer" && name != "ServerToClient") {
				return
			}
			es := &EmitSite{Fn: fn, Alloc: a, Payload: map[string]ssa.Value{}}
			if name == "ClientToServer" {
				es.Dir = "C2S"
			} else {
				es.Dir = "S2C"
			}
			st := storesInto(a)
			es.StreamID = st["StreamId"]
			fill := func(es *EmitSite, fv ssa.Value) {
				if wa, ok := stripConv(fv).(*ssa.Alloc); ok {
					es.Wrapper = wa
					if k, ok := w.pbNamed(wa.Type()); ok {
						es.Kind = k
					}
					for k, v := range storesInto(wa) {
						es.Payload[k] = v
						// one more level for message-typed payloads (NewStream, MessageData, CloseStream, Settings)
						if pa, ok := stripConv(v).(*ssa.Alloc); ok {
							for k2, v2 := range storesInto(pa) {
								es.Payload[k+"."+k2] = v2
							}
						}
					}
				}
			}
			// the carrier send the literal reaches
			for _, r := range *a.Referrers() {
				if c, ok := r.(ssa.CallInstruction); ok {
					if k, ok := w.carrierOp(c); ok && k == "carrier-send" {
						es.Send = c
					}
				}
			}
			// one literal whose Frame is assigned in the arms of an if/switch (`msg := &ServerToClient{StreamId: id}; if first
			// { msg.Frame = … } else { msg.Frame = … }; Send(msg)`): one emit site per arm
			var frameStores []*ssa.Store
			for _, r := range *a.Referrers() {
				if fa, ok := r.(*ssa.FieldAddr); ok && fa.X == ssa.Value(a) && fieldName(a.Type(), fa.Field) == "Frame" {
					for _, r2 := range *fa.Referrers() {
						if s2, ok := r2.(*ssa.Store); ok && s2.Addr == ssa.Value(fa) {
							frameStores = append(frameStores, s2)
						}
					}
				}
			}
			if len(frameStores) > 1 {
				sort.Slice(frameStores, func(i, j int) bool { return frameStores[i].Pos() < frameStores[j].Pos() })
				for _, fs := range frameStores {
					cp := *es
					cp.Payload = map[string]ssa.Value{}
					cp.Decided = fs
					fill(&cp, fs.Val)
					out = append(out, &cp)
				}
				return
			}
			if fv, ok := st["Frame"]; ok {
				fill(es, fv)
			}
			out = append(out, es)
		})
	}
	// literals returned by a constructor helper: one emit site per call site whose result reaches a send
	var inst []*EmitSite
	for _, es := range out {
		if es.Send != nil {
			continue
		}
		returned := false
		allInstrsLocal(es.Fn, func(in ssa.Instruction) {
			if ret, ok := in.(*ssa.Return); ok {
				for _, r := range ret.Results {
					if stripConv(r) == ssa.Value(es.Alloc) {
						returned = true
					}
				}
			}
		})
		if !returned || es.Fn.Parent() != nil {
			continue
		}
		for _, site := range w.callSitesOf(es.Fn) {
			call, ok := site.(*ssa.Call)
			if !ok || staticCallee(call) == nil {
				continue
			}
			var send ssa.CallInstruction
			for _, r := range *call.Referrers() {
				if ci, ok := r.(ssa.CallInstruction); ok {
					if k, ok := w.carrierOp(ci); ok && k == "carrier-send" {
						send = ci
					}
				}
			}
			if send == nil {
				continue
			}
			cp := *es
			cp.Fn = call.Parent()
			cp.Send = send
			cp.Via = call
			cp.Bind = map[*ssa.Parameter]ssa.Value{}
			for i, p := range es.Fn.Params {
				if i < len(call.Call.Args) {
					cp.Bind[p] = call.Call.Args[i]
				}
			}
			// the oneof wrapper (and with it the frame kind and payload) may be an argument of the constructor
			if cp.Wrapper == nil {
				if fv, ok := storesInto(es.Alloc)["Frame"]; ok {
					if p, isP := stripConv(fv).(*ssa.Parameter); isP {
						if arg, bound := cp.Bind[p]; bound {
							if wa, isA := stripConv(arg).(*ssa.Alloc); isA {
								cp.Wrapper = wa
								cp.Payload = map[string]ssa.Value{}
								if k, okK := w.pbNamed(wa.Type()); okK {
									cp.Kind = k
								}
								for k, v := range storesInto(wa) {
									cp.Payload[k] = v
									if pa, okP := stripConv(v).(*ssa.Alloc); okP {
										for k2, v2 := range storesInto(pa) {
											cp.Payload[k+"."+k2] = v2
										}
									}
								}
							}
						}
					}
				}
			}
			inst = append(inst, &cp)
			es.Via = call // mark the template as instantiated
		}
	}
	var final []*EmitSite
	for _, es := range out {
		if es.Send == nil && es.Via != nil {
			continue // replaced by its instantiations
		}
		final = append(final, es)
	}
	final = append(final, inst...)
	out = final
	sort.SliceStable(out, func(i, j int) bool {
		if out[i].Alloc.Pos() != out[j].Alloc.Pos() {
			return out[i].Alloc.Pos() < out[j].Alloc.Pos()
		}
		return out[i].Send != nil && out[j].Send != nil && out[i].Send.Pos() < out[j].Send.Pos()
	})
	return out
}

// ---------- F6: spawns ----------

type Spawn struct {
	Fn      *ssa.Function
	Go      *ssa.Go
	Callees []*ssa.Function
}

func (w *World) Spawns() []*Spawn {
	var out []*Spawn
	for _, fn := range w.Funcs {
		if isGenericTemplate(fn) {
			continue
		}
		allInstrsLocal(fn, func(in ssa.Instruction) {
			if g, ok := in.(*ssa.Go); ok {
				out = append(out, &Spawn{fn, g, w.rootCalleesThroughWrappers(g)})
			}
		})
	}
	sort.Slice(out, func(i, j int) bool { return out[i].Go.Pos() < out[j].Go.Pos() })
	return out
}

// ---------- F3: field accesses ----------

type FieldAccess struct {
	Field   FieldRef
	Write   bool
	Kind    string // load, store, addr-escape, map-update, map-delete, sync-op, method-on-content
	Instr   ssa.Instruction
	Fn      *ssa.Function
	Base    ssa.Value
	Constr  bool // access through the freshly allocated object in its allocating function
	Comment string
}

func isSyncType(t types.Type) bool {
	n := namedOf(t)
	if n == nil || n.Obj().Pkg() == nil {
		return false
	}
	p := n.Obj().Pkg().Path()
	return p == "sync" || p == "sync/atomic"
}

// freshAlloc: base is an object allocated in this function (composite literal / new) and the access
// happens in that same function.
func freshAlloc(base ssa.Value) bool {
	base = origin(base)
	if a, ok := base.(*ssa.Alloc); ok {
		return a.Heap || true
	}
	return false
}

func (w *World) FieldAccesses() []*FieldAccess {
	var out []*FieldAccess
	rootStruct := func(t types.Type) bool {
		n := namedOf(t)
		return n != nil && n.Obj().Pkg() != nil && n.Obj().Pkg().Path() == rootPath
	}
	for _, fn := range w.Funcs {
		if isGenericTemplate(fn) {
			continue
		}
		allInstrsLocal(fn, func(in ssa.Instruction) {
			switch x := in.(type) {
			case *ssa.FieldAddr:
				if !rootStruct(x.X.Type()) {
					return
				}
				fr := mkFieldRef(x.X.Type(), x.Field)
				ft := structOf(x.X.Type()).Field(x.Field).Type()
				if _, uniq := uniqueEmbedding[typeNameOf(ft)]; uniq {
					return // a uniquely embedded sub-struct: its fields are recorded as the outer struct's
				}
				constr := freshAlloc(x.X)
				if outer, isOuter := x.X.(*ssa.FieldAddr); isOuter {
					if _, uniq := uniqueEmbedding[typeNameOf(x.X.Type())]; uniq {
						constr = freshAlloc(outer.X)
					}
				}
				for _, r := range *x.Referrers() {
					fa := &FieldAccess{Field: fr, Instr: r, Fn: fn, Base: x.X, Constr: constr}
					switch y := r.(type) {
					case *ssa.Store:
						if y.Addr == x {
							fa.Write, fa.Kind = true, "store"
						} else {
							fa.Write, fa.Kind = true, "addr-escape"
						}
					case *ssa.UnOp:
						fa.Kind = "load"
						out = append(out, fa)
						// content accesses through the loaded value (maps, lists)
						out = append(out, w.contentAccesses(fr, y, fn, x.X, constr)...)
						continue
					case *ssa.DebugRef:
						continue
					case ssa.CallInstruction:
						if isSyncType(ft) {
							fa.Kind = "sync-op"
						} else if _, isStruct := ft.Underlying().(*types.Struct); isStruct && rootStruct(ft) && staticCallee(y) != nil && w.inRoot(staticCallee(y)) {
							// method of a helper type of this package called on the nested value: what it does to the
							// nested value's own fields is recorded for those fields
							fa.Kind = "nested-method"
						} else {
							fa.Write, fa.Kind = true, "addr-escape"
						}
					case *ssa.FieldAddr, *ssa.IndexAddr:
						// nested struct/array field: treat by how the nested address is used
						fa.Kind = "nested"
						if nestedWritten(y.(ssa.Value)) {
							fa.Write = true
						}
					case *ssa.MakeClosure:
						fa.Write, fa.Kind = true, "addr-escape"
					default:
						if isSyncType(ft) {
							fa.Kind = "sync-op"
						} else {
							fa.Write, fa.Kind = true, "addr-escape"
						}
					}
					out = append(out, fa)
				}
			case *ssa.Field:
				if !rootStruct(x.X.Type()) {
					return
				}
				fr := mkFieldRef(x.X.Type(), x.Field)
				out = append(out, &FieldAccess{Field: fr, Kind: "load", Instr: x, Fn: fn, Base: x.X})
			}
		})
	}
	sort.SliceStable(out, func(i, j int) bool {
		pi, pj := w.instrPos(out[i].Instr), w.instrPos(out[j].Instr)
		return pi < pj
	})
	return out
}

func nestedWritten(v ssa.Value) bool {
	refs := v.Referrers()
	if refs == nil {
		return false
	}
	for _, r := range *refs {
		switch y := r.(type) {
		case *ssa.Store:
			return true
		case *ssa.UnOp:
		case *ssa.FieldAddr:
			if nestedWritten(y) {
				return true
			}
		case *ssa.IndexAddr:
			if nestedWritten(y) {
				return true
			}
		case ssa.CallInstruction:
			if !isSyncType(derefType(v.Type())) {
				return true
			}
		default:
			return true
		}
	}
	return false
}

func derefType(t types.Type) types.Type {
	if p, ok := types.Unalias(t).Underlying().(*types.Pointer); ok {
		return p.Elem()
	}
	return t
}

// contentAccesses: uses of a loaded map/pointer field value that read or write what it refers to.
func (w *World) contentAccesses(fr FieldRef, load *ssa.UnOp, fn *ssa.Function, base ssa.Value, constr bool) []*FieldAccess {
	var out []*FieldAccess
	if load.Op != token.MUL {
		return nil
	}
	t := types.Unalias(load.Type()).Underlying()
	_, isMap := t.(*types.Map)
	_, isPtr := t.(*types.Pointer)
	if _, isSlice := t.(*types.Slice); isSlice {
		// element accesses through the loaded slice header: the backing array is shared with the field
		var walk func(addr ssa.Value, depth int)
		walk = func(addr ssa.Value, depth int) {
			if depth > 4 || addr.Referrers() == nil {
				return
			}
			for _, r := range *addr.Referrers() {
				switch y := r.(type) {
				case *ssa.UnOp:
					if y.Op == token.MUL {
						out = append(out, &FieldAccess{Field: fr, Kind: "elem-load", Instr: y, Fn: fn, Base: base, Constr: constr})
					}
				case *ssa.Store:
					if y.Addr == addr {
						out = append(out, &FieldAccess{Field: fr, Write: true, Kind: "elem-store", Instr: y, Fn: fn, Base: base, Constr: constr})
					}
				case *ssa.FieldAddr:
					walk(y, depth+1)
				case *ssa.IndexAddr:
					walk(y, depth+1)
				}
			}
		}
		for _, r := range *load.Referrers() {
			if ia, ok := r.(*ssa.IndexAddr); ok && ia.X == ssa.Value(load) {
				walk(ia, 0)
			}
		}
		return out
	}
	if !isMap && !isPtr {
		return nil
	}
	for _, r := range *load.Referrers() {
		switch y := r.(type) {
		case *ssa.MapUpdate:
			if y.Map == load {
				out = append(out, &FieldAccess{Field: fr, Write: true, Kind: "map-update", Instr: r, Fn: fn, Base: base, Constr: constr})
			}
		case *ssa.Lookup:
			out = append(out, &FieldAccess{Field: fr, Kind: "map-lookup", Instr: r, Fn: fn, Base: base, Constr: constr})
		case *ssa.Range:
			out = append(out, &FieldAccess{Field: fr, Kind: "map-range", Instr: r, Fn: fn, Base: base, Constr: constr})
		case ssa.CallInstruction:
			if calleeName(y) == "builtin.delete" {
				out = append(out, &FieldAccess{Field: fr, Write: true, Kind: "map-delete", Instr: r, Fn: fn, Base: base, Constr: constr})
			} else if isPtr {
				// method call on pointed-to external object (e.g. *list.List): content access
				if nt := namedOf(load.Type()); nt != nil && nt.Obj().Pkg() != nil && nt.Obj().Pkg().Path() == "container/list" {
					args := y.Common().Args
					if len(args) > 0 && args[0] == load {
						out = append(out, &FieldAccess{Field: fr, Write: true, Kind: "method-on-content:" + calleeName(y), Instr: r, Fn: fn, Base: base, Constr: constr})
					}
				}
			}
		}
	}
	return out
}
