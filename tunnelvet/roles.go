package main

// roles.go: role-based resolution of the unexported helpers and fields that rules refer to, so that a
// behaviour-preserving rename does not make a rule lose its subject. Every role falls back to the
// name it has on the pinned tree when the structural criterion does not single out a construct.

import (
	"go/token"
	"go/types"
	"strings"

	"golang.org/x/tools/go/ssa"
)

type Roles struct {
	// functions (origin functions for generics)
	ToProto, FromProto                                    *ssa.Function
	NewSenderFC, NewSenderPlain                           *ssa.Function
	NewReceiverFC, NewReceiverPlain                       *ssa.Function
	ServeTunnel, NewTunnelChannel                         *ssa.Function
	NewReverseChannel                                     *ssa.Function
	InSlice, SupportedRevisions                           *ssa.Function
	OpenTunnel, OpenReverseTunnel                         *ssa.Function
	Unregister                                            *ssa.Function
	RegAdd, RegRemove, RegPick, RegReady, RegWait, RegAll *ssa.Function
	ForKey                                                *ssa.Function // reverseChannelsForKey
	AddInstance, IsClosing, IsClosed                      *ssa.Function
	// interface method names
	Send, Accept, Dequeue, Close, Cancel string
	// types
	Registry *types.Named
	// field names
	RegChans, RegIdx, RegAvail                  string
	RTSState, RTSInstances                      string
	TSHReverse, TSHByKey, TSHAffinity           string
	TSHOnConnect, TSHOnDisconnect               string
	StreamCtx, StreamCh, StreamCarrier          string // per stream type the names may differ; these are CS's; SS's in SSCtx
	SSCtx                                       string
	HeadersTargets, TrailersTargets             string
	ChUseRevision, ChSettings, ChTunnelMetadata string
	ChAwaitSettings                             string
	DisableFlag                                 string
	How                                         map[string]string
}

func (w *World) origFn(f *ssa.Function) *ssa.Function {
	if f != nil && f.Origin() != nil {
		return f.Origin()
	}
	return f
}

// sameFn compares functions modulo generic instantiation.
func (w *World) sameFn(a, b *ssa.Function) bool {
	return a != nil && b != nil && w.origFn(a) == w.origFn(b)
}

func typeIs(t types.Type, pkgSuffix, name string) bool {
	t = types.Unalias(t)
	if p, ok := t.(*types.Pointer); ok {
		t = types.Unalias(p.Elem())
	}
	n, ok := t.(*types.Named)
	if !ok || n.Obj().Pkg() == nil {
		return false
	}
	return n.Obj().Name() == name && strings.HasSuffix(n.Obj().Pkg().Path(), pkgSuffix)
}

func (w *World) Roles() *Roles {
	if w.roles != nil {
		return w.roles
	}
	a := w.Anchors()
	r := &Roles{How: map[string]string{}}
	w.roles = r
	byName := func(n string) *ssa.Function {
		for _, f := range w.Funcs {
			if f.Parent() == nil && w.origFn(f).Name() == n {
				return w.origFn(f)
			}
		}
		return nil
	}
	// top-level (non-closure) origin functions of the root package
	var tops []*ssa.Function
	seen := map[*ssa.Function]bool{}
	for _, f := range w.Funcs {
		if f.Parent() != nil {
			continue
		}
		o := w.origFn(f)
		if !seen[o] {
			seen[o] = true
			tops = append(tops, o)
		}
	}
	sigOf := func(f *ssa.Function) (params, results []types.Type) {
		s := f.Signature
		for i := 0; i < s.Params().Len(); i++ {
			params = append(params, s.Params().At(i).Type())
		}
		for i := 0; i < s.Results().Len(); i++ {
			results = append(results, s.Results().At(i).Type())
		}
		return
	}
	pick := func(role, fallback string, pred func(f *ssa.Function) bool) *ssa.Function {
		var found []*ssa.Function
		for _, f := range tops {
			if pred(f) {
				found = append(found, f)
			}
		}
		if len(found) == 1 {
			r.How[role] = "by role"
			return found[0]
		}
		if f := byName(fallback); f != nil {
			r.How[role] = "by name (fallback)"
			return f
		}
		r.How[role] = "unresolved"
		return nil
	}
	r.ToProto = pick("ToProto", "toProto", func(f *ssa.Function) bool {
		p, q := sigOf(f)
		return f.Signature.Recv() == nil && len(p) == 1 && len(q) == 1 && typeIs(p[0], "grpc/metadata", "MD") && typeIs(q[0], "tunnelpb", "Metadata")
	})
	r.FromProto = pick("FromProto", "fromProto", func(f *ssa.Function) bool {
		p, q := sigOf(f)
		return f.Signature.Recv() == nil && len(p) == 1 && len(q) == 1 && typeIs(q[0], "grpc/metadata", "MD") && typeIs(p[0], "tunnelpb", "Metadata")
	})
	isCB := func(t types.Type) bool {
		s, ok := t.Underlying().(*types.Signature)
		return ok && s.Params().Len() == 3 && s.Results().Len() == 1
	}
	isIface := func(t types.Type) bool { _, ok := t.Underlying().(*types.Interface); return ok }
	r.NewSenderFC = pick("NewSenderFC", "newSender", func(f *ssa.Function) bool {
		p, q := sigOf(f)
		return f.Signature.Recv() == nil && len(p) == 3 && len(q) == 1 && isIface(q[0]) && isCB(p[2]) && strings.HasSuffix(types.TypeString(p[0], nil), "context.Context")
	})
	r.NewSenderPlain = pick("NewSenderPlain", "newSenderWithoutFlowControl", func(f *ssa.Function) bool {
		p, q := sigOf(f)
		return f.Signature.Recv() == nil && len(p) == 1 && len(q) == 1 && isIface(q[0]) && isCB(p[0])
	})
	r.NewReceiverFC = pick("NewReceiverFC", "newReceiver", func(f *ssa.Function) bool {
		p, q := sigOf(f)
		if f.Signature.Recv() != nil || f.TypeParams().Len() != 1 || len(p) != 3 || len(q) != 1 {
			return false
		}
		b, ok := p[2].Underlying().(*types.Basic)
		return ok && b.Kind() == types.Uint32
	})
	r.NewReceiverPlain = pick("NewReceiverPlain", "newReceiverWithoutFlowControl", func(f *ssa.Function) bool {
		p, q := sigOf(f)
		return f.Signature.Recv() == nil && f.TypeParams().Len() == 1 && len(p) == 1 && len(q) == 1 && strings.HasSuffix(types.TypeString(p[0], nil), "context.Context")
	})
	allocates := func(f *ssa.Function, nt *types.Named) bool {
		if nt == nil {
			return false
		}
		found := false
		allInstrsLocal(f, func(in ssa.Instruction) {
			if al, ok := in.(*ssa.Alloc); ok && al.Comment == "complit" {
				if n := namedOf(al.Type()); n != nil && n.Obj() == nt.Obj() {
					found = true
				}
			}
		})
		return found
	}
	// the endpoint's literal may have been moved into a constructor used at one place by the function that plays the role
	// (serveTunnel -> newTunnelServer): the role belongs to the outermost plain function of that chain
	climbCtor := func(fn *ssa.Function) *ssa.Function {
		for i := 0; fn != nil && i < 3; i++ {
			if obj := fn.Object(); obj == nil || obj.Exported() || fn.Signature.Recv() != nil {
				break
			}
			sites := w.callSitesOf(fn)
			if len(sites) != 1 {
				break
			}
			call, isCall := sites[0].(*ssa.Call)
			if !isCall || staticCallee(call) == nil {
				break
			}
			up := w.origFn(call.Parent())
			if up.Parent() != nil || up.Signature.Recv() != nil || up.Object() == nil || up.Object().Exported() {
				break
			}
			fn = up
		}
		return fn
	}
	r.ServeTunnel = climbCtor(pick("ServeTunnel", "serveTunnel", func(f *ssa.Function) bool { return f.Signature.Recv() == nil && allocates(f, a.Sv) }))
	r.NewTunnelChannel = climbCtor(pick("NewTunnelChannel", "newTunnelChannel", func(f *ssa.Function) bool { return f.Signature.Recv() == nil && allocates(f, a.Ch) }))
	callsFn := func(f, callee *ssa.Function) bool {
		if callee == nil {
			return false
		}
		found := false
		allInstrsLocal(f, func(in ssa.Instruction) {
			if ci, ok := in.(ssa.CallInstruction); ok && w.sameFn(staticCallee(ci), callee) {
				found = true
			}
		})
		return found
	}
	paramNamed := func(f *ssa.Function, suffix string) bool {
		p, _ := sigOf(f)
		for _, t := range p {
			if strings.HasSuffix(types.TypeString(t, nil), suffix) {
				return true
			}
		}
		return false
	}
	r.NewReverseChannel = pick("NewReverseChannel", "newReverseChannel", func(f *ssa.Function) bool {
		return f.Signature.Recv() == nil && callsFn(f, r.NewTunnelChannel) && paramNamed(f, "TunnelService_OpenReverseTunnelServer")
	})
	r.InSlice = pick("InSlice", "inSlice", func(f *ssa.Function) bool {
		p, q := sigOf(f)
		if f.Signature.Recv() != nil || f.TypeParams().Len() == 0 || len(p) != 2 || len(q) != 1 {
			return false
		}
		b, ok := q[0].Underlying().(*types.Basic)
		return ok && b.Kind() == types.Bool
	})
	r.SupportedRevisions = pick("SupportedRevisions", "supportedRevisions", func(f *ssa.Function) bool {
		p, q := sigOf(f)
		if f.Signature.Recv() == nil || len(p) != 0 || len(q) != 1 {
			return false
		}
		s, ok := q[0].Underlying().(*types.Slice)
		return ok && typeIs(s.Elem(), "tunnelpb", "ProtocolRevision")
	})
	tsh := w.rootNamed("TunnelServiceHandler")
	rts := w.rootNamed("ReverseTunnelServer")
	isMethodOf := func(f *ssa.Function, nt *types.Named) bool {
		if nt == nil || f.Signature.Recv() == nil {
			return false
		}
		n := namedOf(f.Signature.Recv().Type())
		return n != nil && n.Obj() == nt.Obj()
	}
	r.OpenTunnel = pick("OpenTunnel", "openTunnel", func(f *ssa.Function) bool {
		return isMethodOf(f, tsh) && paramNamed(f, "TunnelService_OpenTunnelServer") && callsFn(f, r.ServeTunnel)
	})
	r.OpenReverseTunnel = pick("OpenReverseTunnel", "openReverseTunnel", func(f *ssa.Function) bool {
		return isMethodOf(f, tsh) && paramNamed(f, "TunnelService_OpenReverseTunnelServer") && callsFn(f, r.NewReverseChannel)
	})
	// unregister: the bound method handed to NewReverseChannel as its last argument
	if r.OpenReverseTunnel != nil && r.NewReverseChannel != nil {
		allInstrsLocal(r.OpenReverseTunnel, func(in ssa.Instruction) {
			if call, ok := in.(*ssa.Call); ok && w.sameFn(staticCallee(call), r.NewReverseChannel) {
				if mc, ok := call.Call.Args[len(call.Call.Args)-1].(*ssa.MakeClosure); ok {
					if bf, ok := mc.Fn.(*ssa.Function); ok {
						allInstrsLocal(bf, func(x ssa.Instruction) {
							if ci, ok := x.(ssa.CallInstruction); ok {
								if g := staticCallee(ci); g != nil && w.inRoot(g) {
									r.Unregister = g
									r.How["Unregister"] = "by role"
								}
							}
						})
					}
				}
			}
		})
	}
	if r.Unregister == nil {
		r.Unregister = byName("unregister")
		r.How["Unregister"] = "by name (fallback)"
	}
	// registry type: struct with a mutex, a chan struct{}, a slice and an int
	r.RegChans, r.RegIdx, r.RegAvail = "chans", "idx", "avail"
	for _, nt := range w.rootStructs() {
		st := nt.Underlying().(*types.Struct)
		var ch, sl, ix, mu string
		for i := 0; i < st.NumFields(); i++ {
			ft := st.Field(i).Type()
			switch u := ft.Underlying().(type) {
			case *types.Chan:
				ch = st.Field(i).Name()
			case *types.Slice:
				sl = st.Field(i).Name()
			case *types.Basic:
				if u.Kind() == types.Int {
					ix = st.Field(i).Name()
				}
			}
			if typeIs(ft, "sync", "Mutex") {
				mu = st.Field(i).Name()
			}
		}
		if ch != "" && sl != "" && ix != "" && mu != "" && st.NumFields() == 4 {
			r.Registry = nt
			r.RegChans, r.RegIdx, r.RegAvail = sl, ix, ch
			r.How["Registry"] = "by structure (mutex, latch chan, slice, cursor)"
		}
	}
	if r.Registry == nil {
		r.Registry = w.rootNamed("reverseChannels")
		r.How["Registry"] = "by name (fallback)"
	}
	regMethod := func(role, fallback string, pred func(f *ssa.Function) bool) *ssa.Function {
		var found []*ssa.Function
		for _, f := range tops {
			if isMethodOf(f, r.Registry) && pred(f) {
				found = append(found, f)
			}
		}
		if len(found) == 1 {
			r.How[role] = "by role"
			return found[0]
		}
		for _, f := range tops {
			if isMethodOf(f, r.Registry) && f.Name() == fallback {
				r.How[role] = "by name (fallback)"
				return f
			}
		}
		return nil
	}
	storesField := func(f *ssa.Function, field string) bool {
		if r.Registry == nil {
			return false
		}
		return len(storesToField(f, FieldRef{r.Registry.Obj().Name(), field})) > 0
	}
	r.RegAdd = regMethod("RegAdd", "add", func(f *ssa.Function) bool {
		_, q := sigOf(f)
		return len(q) == 0 && storesField(f, r.RegChans)
	})
	r.RegRemove = regMethod("RegRemove", "remove", func(f *ssa.Function) bool {
		_, q := sigOf(f)
		return len(q) == 2 && storesField(f, r.RegChans)
	})
	r.RegPick = regMethod("RegPick", "pick", func(f *ssa.Function) bool {
		_, q := sigOf(f)
		return len(q) == 1 && strings.HasSuffix(types.TypeString(q[0], nil), "grpc.ClientConnInterface")
	})
	r.RegReady = regMethod("RegReady", "ready", func(f *ssa.Function) bool {
		p, q := sigOf(f)
		if len(p) != 0 || len(q) != 1 {
			return false
		}
		b, ok := q[0].Underlying().(*types.Basic)
		return ok && b.Kind() == types.Bool
	})
	r.RegWait = regMethod("RegWait", "waitForReady", func(f *ssa.Function) bool {
		p, _ := sigOf(f)
		return len(p) == 1 && strings.HasSuffix(types.TypeString(p[0], nil), "context.Context")
	})
	r.RegAll = regMethod("RegAll", "allChans", func(f *ssa.Function) bool {
		_, q := sigOf(f)
		if len(q) != 1 {
			return false
		}
		_, ok := q[0].Underlying().(*types.Slice)
		return ok
	})
	r.ForKey = pick("ForKey", "reverseChannelsForKey", func(f *ssa.Function) bool {
		p, q := sigOf(f)
		if !isMethodOf(f, tsh) || len(p) != 1 || len(q) != 1 || r.Registry == nil {
			return false
		}
		n := namedOf(q[0])
		return n != nil && n.Obj() == r.Registry.Obj()
	})
	// ReverseTunnelServer
	r.RTSState, r.RTSInstances = "state", "instances"
	if rts != nil {
		st := rts.Underlying().(*types.Struct)
		for i := 0; i < st.NumFields(); i++ {
			ft := st.Field(i).Type()
			if n, ok := types.Unalias(ft).(*types.Named); ok && n.Obj().Pkg() != nil && n.Obj().Pkg().Path() == rootPath {
				if b, ok := n.Underlying().(*types.Basic); ok && b.Info()&types.IsInteger != 0 {
					r.RTSState = st.Field(i).Name()
				}
			}
			if m, ok := ft.Underlying().(*types.Map); ok {
				if _, isStruct := m.Elem().Underlying().(*types.Struct); isStruct {
					r.RTSInstances = st.Field(i).Name()
				}
			}
		}
	}
	callsNamedFn := func(f *ssa.Function, name string) bool { return len(callsNamed(f, name)) > 0 }
	r.AddInstance = pick("AddInstance", "addInstance", func(f *ssa.Function) bool {
		return isMethodOf(f, rts) && !token.IsExported(f.Name()) && callsNamedFn(f, "(*sync.WaitGroup).Add")
	})
	stateCmp := func(f *ssa.Function, k int64) bool {
		ok := false
		forEachReturnValue(f, 0, func(v ssa.Value, at ssa.Instruction) {
			if b, isB := v.(*ssa.BinOp); isB && b.Op == token.GEQ && rts != nil && isFieldLoad(b.X, FieldRef{rts.Obj().Name(), r.RTSState}) {
				if c, isC := constInt(b.Y); isC && c == k {
					ok = true
				}
			}
		})
		return ok
	}
	r.IsClosing = pick("IsClosing", "isClosing", func(f *ssa.Function) bool {
		return isMethodOf(f, rts) && f.Signature.Results().Len() == 1 && f.Signature.Params().Len() == 0 && stateCmp(f, 1)
	})
	r.IsClosed = pick("IsClosed", "isClosed", func(f *ssa.Function) bool {
		return isMethodOf(f, rts) && f.Signature.Results().Len() == 1 && f.Signature.Params().Len() == 0 && stateCmp(f, 2)
	})
	// TunnelServiceHandler fields
	r.TSHReverse, r.TSHByKey, r.TSHAffinity = "reverse", "reverseByKey", "affinityKey"
	r.TSHOnConnect, r.TSHOnDisconnect = "onReverseTunnelConnect", "onReverseTunnelDisconnect"
	if tsh != nil && r.Registry != nil {
		var cbs []string
		// (fields of a uniquely embedded sub-struct — the handler's settings grouped into a config struct — count as the
		// handler's own, under their flattened names)
		for _, ff := range flatFields(tsh) {
			ft, fname := ff.Type, ff.Name
			if n := namedOf(ft); n != nil && n.Obj() == r.Registry.Obj() {
				if _, isPtr := types.Unalias(ft).(*types.Pointer); isPtr {
					r.TSHReverse = fname
				}
			}
			if m, ok := ft.Underlying().(*types.Map); ok {
				if n := namedOf(m.Elem()); n != nil && n.Obj() == r.Registry.Obj() {
					r.TSHByKey = fname
				}
			}
			if s, ok := ft.Underlying().(*types.Signature); ok && s.Params().Len() == 1 && strings.HasSuffix(types.TypeString(s.Params().At(0).Type(), nil), "TunnelChannel") {
				if s.Results().Len() == 1 {
					r.TSHAffinity = fname
				} else if s.Results().Len() == 0 {
					cbs = append(cbs, fname)
				}
			}
		}
		// connect = called directly, disconnect = deferred in the reverse-open function
		if len(cbs) == 2 && r.OpenReverseTunnel != nil {
			allInstrsLocal(r.OpenReverseTunnel, func(in ssa.Instruction) {
				switch x := in.(type) {
				case *ssa.Defer:
					if fr, _, ok := loadedField(x.Call.Value); ok && (fr.Field == cbs[0] || fr.Field == cbs[1]) {
						r.TSHOnDisconnect = fr.Field
					}
				case *ssa.Call:
					if staticCallee(x) == nil && !x.Call.IsInvoke() {
						if fr, _, ok := loadedField(x.Call.Value); ok && (fr.Field == cbs[0] || fr.Field == cbs[1]) {
							r.TSHOnConnect = fr.Field
						}
					}
				}
			})
		}
	}
	// stream fields
	fieldOfType := func(nt *types.Named, pred func(t types.Type) bool, fallback string) string {
		if nt == nil {
			return fallback
		}
		st := nt.Underlying().(*types.Struct)
		var found []string
		for i := 0; i < st.NumFields(); i++ {
			if pred(st.Field(i).Type()) {
				found = append(found, st.Field(i).Name())
			}
		}
		if len(found) == 1 {
			return found[0]
		}
		return fallback
	}
	isCtxT := func(t types.Type) bool { return strings.HasSuffix(types.TypeString(t, nil), "context.Context") }
	r.StreamCtx = fieldOfType(a.CS, isCtxT, "ctx")
	r.SSCtx = fieldOfType(a.SS, isCtxT, "ctx")
	r.StreamCh = fieldOfType(a.CS, func(t types.Type) bool { n := namedOf(t); return a.Ch != nil && n != nil && n.Obj() == a.Ch.Obj() }, "ch")
	r.StreamCarrier = fieldOfType(a.CS, func(t types.Type) bool { return w.isCarrierType(t) }, "stream")
	// targets: the []*metadata.MD field stored through in the client finishing function is the trailers one
	r.HeadersTargets, r.TrailersTargets = "headersTargets", "trailersTargets"
	if a.CS != nil {
		st := a.CS.Underlying().(*types.Struct)
		var tg []string
		for i := 0; i < st.NumFields(); i++ {
			if s, ok := st.Field(i).Type().Underlying().(*types.Slice); ok {
				if p, ok := s.Elem().Underlying().(*types.Pointer); ok && typeIs(p.Elem(), "grpc/metadata", "MD") {
					tg = append(tg, st.Field(i).Name())
				}
			}
		}
		if len(tg) == 2 && a.ClientFinish != nil {
			for k, name := range tg {
				used := false
				allInstrsLocal(a.ClientFinish, func(in ssa.Instruction) {
					if fa, ok := in.(*ssa.FieldAddr); ok && fieldName(fa.X.Type(), fa.Field) == name {
						used = true
					}
				})
				if used {
					r.TrailersTargets, r.HeadersTargets = name, tg[1-k]
				}
			}
		}
	}
	// channel fields by type
	r.ChUseRevision = fieldOfType(a.Ch, func(t types.Type) bool { return typeIs(t, "tunnelpb", "ProtocolRevision") }, "useRevision")
	r.ChSettings = fieldOfType(a.Ch, func(t types.Type) bool { return typeIs(t, "tunnelpb", "Settings") }, "settings")
	r.ChTunnelMetadata = fieldOfType(a.Ch, func(t types.Type) bool { return typeIs(t, "grpc/metadata", "MD") }, "tunnelMetadata")
	r.ChAwaitSettings = "awaitSettings"
	if a.ClientLoop != nil && a.Ch != nil {
		allInstrsLocal(a.ClientLoop, func(in ssa.Instruction) {
			if call, ok := in.(*ssa.Call); ok && calleeName(call) == "builtin.close" {
				if fr, _, ok := loadedField(call.Call.Args[0]); ok && fr.Type == a.Ch.Obj().Name() {
					r.ChAwaitSettings = fr.Field
				}
			}
		})
	}
	r.DisableFlag = "disableFlowControl"
	if r.SupportedRevisions != nil {
		allInstrsLocal(r.SupportedRevisions, func(in ssa.Instruction) {
			if ifi, ok := in.(*ssa.If); ok {
				if fr, _, ok := loadedField(normFact(EdgeFact{ifi.Cond, true}).Cond); ok {
					r.DisableFlag = fr.Field
				}
			}
		})
	}
	// interface method names by signature
	r.Send, r.Accept, r.Dequeue, r.Close, r.Cancel = "send", "accept", "dequeue", "close", "cancel"
	if a.CS != nil {
		st := a.CS.Underlying().(*types.Struct)
		for i := 0; i < st.NumFields(); i++ {
			it, ok := st.Field(i).Type().Underlying().(*types.Interface)
			if !ok {
				continue
			}
			var zeroArg []string
			for k := 0; k < it.NumMethods(); k++ {
				m := it.Method(k)
				s := m.Type().(*types.Signature)
				switch {
				case s.Params().Len() == 1 && s.Results().Len() == 1 && types.TypeString(s.Params().At(0).Type(), nil) == "[]byte":
					r.Send = m.Name()
				case s.Params().Len() == 0 && s.Results().Len() == 2:
					r.Dequeue = m.Name()
				case s.Params().Len() == 1 && s.Results().Len() == 1 && types.TypeString(s.Results().At(0).Type(), nil) == "error" && types.TypeString(s.Params().At(0).Type(), nil) != "[]byte":
					r.Accept = m.Name()
				case s.Params().Len() == 0 && s.Results().Len() == 0:
					zeroArg = append(zeroArg, m.Name())
				}
			}
			// of the two zero-arg methods, cancel is the one whose flow-controlled implementation empties the queue
			if len(zeroArg) == 2 {
				for k, name := range zeroArg {
					for _, f := range w.Funcs {
						if f.Parent() == nil && f.Name() == name && f.Signature.Recv() != nil && len(listCalls(f, "Init")) > 0 {
							r.Cancel, r.Close = name, zeroArg[1-k]
						}
					}
				}
			}
		}
	}
	return r
}

// isNewReceiverFC etc.: predicates on a callee, modulo instantiation.
func (w *World) isRole(f *ssa.Function, role *ssa.Function) bool { return w.sameFn(f, role) }

// mName maps the pinned tree's interface method names to the current ones (resolved by signature).
func (w *World) mName(legacy string) string {
	r := w.Roles()
	switch legacy {
	case "send":
		return r.Send
	case "accept":
		return r.Accept
	case "dequeue":
		return r.Dequeue
	case "close":
		return r.Close
	case "cancel":
		return r.Cancel
	}
	return legacy
}

// roleFunc maps the pinned tree's name of an unexported helper to the function that plays that role now.
func (w *World) roleFunc(legacy string) *ssa.Function {
	r := w.Roles()
	var f *ssa.Function
	switch legacy {
	case "toProto":
		f = r.ToProto
	case "fromProto":
		f = r.FromProto
	case "newSender":
		f = r.NewSenderFC
	case "newSenderWithoutFlowControl":
		f = r.NewSenderPlain
	case "newReceiver":
		f = r.NewReceiverFC
	case "newReceiverWithoutFlowControl":
		f = r.NewReceiverPlain
	case "serveTunnel":
		f = r.ServeTunnel
	case "newTunnelChannel":
		f = r.NewTunnelChannel
	case "newReverseChannel":
		f = r.NewReverseChannel
	case "inSlice":
		f = r.InSlice
	case "supportedRevisions":
		f = r.SupportedRevisions
	case "(*TunnelServiceHandler).openTunnel":
		f = r.OpenTunnel
	case "(*TunnelServiceHandler).openReverseTunnel":
		f = r.OpenReverseTunnel
	case "(*TunnelServiceHandler).unregister":
		f = r.Unregister
	case "(*TunnelServiceHandler).reverseChannelsForKey":
		f = r.ForKey
	case "(*reverseChannels).add":
		f = r.RegAdd
	case "(*reverseChannels).remove":
		f = r.RegRemove
	case "(*reverseChannels).pick":
		f = r.RegPick
	case "(*reverseChannels).ready":
		f = r.RegReady
	case "(*reverseChannels).waitForReady":
		f = r.RegWait
	case "(*ReverseTunnelServer).addInstance":
		f = r.AddInstance
	case "(*ReverseTunnelServer).isClosing":
		f = r.IsClosing
	case "(*pendingChannel).Start":
		// the Start method of the type implementing the exported PendingChannel interface
		if o := w.Root.Types.Scope().Lookup("PendingChannel"); o != nil {
			if it, ok := o.Type().Underlying().(*types.Interface); ok {
				for _, nt := range w.rootStructs() {
					if types.Implements(types.NewPointer(nt), it) {
						f = w.methodFn(nt, "Start")
					}
				}
			}
		}
	case "(multiChannel).Invoke", "(multiChannel).NewStream":
		// the pooled channel: the root struct type (with func-typed fields) implementing ReverseClientConnInterface
		if o := w.Root.Types.Scope().Lookup("ReverseClientConnInterface"); o != nil {
			if it, ok := o.Type().Underlying().(*types.Interface); ok {
				for _, nt := range w.rootStructs() {
					if types.Implements(nt, it) || types.Implements(types.NewPointer(nt), it) {
						f = w.methodFn(nt, strings.TrimPrefix(legacy, "(multiChannel)."))
					}
				}
			}
		}
	}
	if f != nil {
		// prefer an analysable body (instantiation) registered under the same origin
		for _, g := range w.Funcs {
			if g.Parent() == nil && w.sameFn(g, f) && !isGenericTemplate(g) {
				return g
			}
		}
		return f
	}
	return w.Func(legacy)
}

// isRoleCall: the call's static callee plays the given (legacy-named) role.
func (w *World) isRoleCall(c ssa.CallInstruction, legacy string) bool {
	f := staticCallee(c)
	return f != nil && w.sameFn(f, w.roleFunc(legacy))
}

// isConvOf: v == <converter role>(X.<...>.<field>) ; returns the argument's root and field chain.
func (w *World) convArg(v ssa.Value, legacy string) (ssa.Value, []string, bool) {
	call, ok := origin(v).(*ssa.Call)
	if !ok || !w.isRoleCall(call, legacy) || len(call.Call.Args) != 1 {
		return nil, nil, false
	}
	root, chain := fieldChain(call.Call.Args[0])
	return root, chain, true
}

// isConvOfField: v == conv(<something>.<field>)
func (w *World) isConvOfField(v ssa.Value, legacy, field string) bool {
	_, chain, ok := w.convArg(v, legacy)
	return ok && len(chain) >= 1 && chain[len(chain)-1] == field
}

// accessorKey: the context-key type an exported accessor reads (ctx.Value(K{})).
func (w *World) accessorKey(accessor string) string {
	fn := w.Func(accessor)
	if fn == nil {
		return ""
	}
	out := ""
	allInstrsLocal(fn, func(in ssa.Instruction) {
		call, ok := in.(*ssa.Call)
		if !ok || !call.Call.IsInvoke() || call.Call.Method.Name() != "Value" || len(call.Call.Args) != 1 {
			return
		}
		if mi, ok := call.Call.Args[0].(*ssa.MakeInterface); ok {
			if n := namedOf(mi.X.Type()); n != nil && n.Obj().Pkg() != nil && n.Obj().Pkg().Path() == rootPath {
				out = n.Obj().Name()
			}
		}
	})
	if out == "" {
		// the lookup may be delegated to a helper shared by the accessors, which receives the key as an argument
		allInstrsLocal(fn, func(in ssa.Instruction) {
			call, ok := in.(*ssa.Call)
			if !ok || call.Call.IsInvoke() {
				return
			}
			g := staticCallee(call)
			if g == nil || g.Blocks == nil || !w.inRoot(g) {
				return
			}
			for _, a := range call.Call.Args {
				if mi, ok := a.(*ssa.MakeInterface); ok {
					if n := namedOf(mi.X.Type()); n != nil && n.Obj().Pkg() != nil && n.Obj().Pkg().Path() == rootPath {
						if _, isStruct := n.Underlying().(*types.Struct); isStruct {
							out = n.Obj().Name()
						}
					}
				}
			}
		})
	}
	return out
}

// wrapperMutexes: for a carrier wrapper type, the mutex its send-side methods hold and the one its receive-side
// methods hold (by use; the two must differ).
func (w *World) wrapperMutexes(nt *types.Named) (send, recv string) {
	lf := w.Locks()
	cnt := map[string]map[string]int{"send": {}, "recv": {}}
	for _, fn := range w.Funcs {
		if fn.Parent() != nil || recvNamed(fn) == nil || recvNamed(fn).Obj() != nt.Obj() {
			continue
		}
		for _, e := range w.directEffects(fn).Effects {
			side := ""
			switch e.Kind {
			case "carrier-send", "carrier-closesend":
				side = "send"
			case "carrier-recv":
				side = "recv"
			default:
				continue
			}
			for l := range lf.MustAt(e.Instr) {
				if strings.HasPrefix(l, nt.Obj().Name()+".") {
					cnt[side][l]++
				}
			}
		}
	}
	best := func(m map[string]int) string {
		b, n := "", 0
		for l, k := range m {
			if k > n || (k == n && l < b) {
				b, n = l, k
			}
		}
		return b
	}
	return best(cnt["send"]), best(cnt["recv"])
}

// isWrapperAlloc: v is a freshly built carrier wrapper of the root package.
func (w *World) isWrapperAlloc(v ssa.Value) bool {
	al, ok := stripConv(v).(*ssa.Alloc)
	if !ok {
		return false
	}
	n := namedOf(al.Type())
	return n != nil && n.Obj().Pkg() != nil && n.Obj().Pkg().Path() == rootPath && w.isCarrierType(types.NewPointer(n))
}
