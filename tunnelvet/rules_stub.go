package main
