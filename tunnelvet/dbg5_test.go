package main

import (
	"fmt"
	"os"
	"testing"

	"golang.org/x/tools/go/ssa"
)

func TestDbg5(t *testing.T) {
	repo := os.Getenv("DBG_REPO")
	if repo == "" {
		t.Skip()
	}
	w, _ := loadWorld(repo, "", "")
	w.Anchors()
	w.Roles()
	crossWorld = w
	for _, f := range w.Funcs {
		if f.Name() == "returnCredit" {
			fmt.Println(w.Short(f), "known:", w.knownFns()[f], "private:", w.isPrivateHelper(f), "sole:", w.soleSite(f) != nil, "typeargs", len(f.TypeArgs()), "tmpl", isGenericTemplate(f), "sites", len(w.callSitesOf(f)), "synthetic", f.Synthetic)
			for _, s := range w.callSitesOf(f) {
				fmt.Printf("   site %T in %s static=%v same=%v\n", s, w.Short(s.Parent()), staticCallee(s) == f, w.sameFn(staticCallee(s), f))
			}
			allInstrsLocal(f, func(in ssa.Instruction) {
				if ret, ok := in.(*ssa.Return); ok {
					nn, why := nonNilError(ret.Results[1], ret, 0)
					fmt.Println("  ret", desc(ret.Results[0]), "|", desc(ret.Results[1]), nn, why)
				}
			})
		}
		if f.Name() == "send" && recvNamed(f) != nil && recvNamed(f).Obj().Name() == "defaultSender" {
			allInstrsLocal(f, func(in ssa.Instruction) {
				if ex, ok := in.(*ssa.Extract); ok {
					fmt.Println("  extract", ex.Index, "->", fmt.Sprintf("%T", origin(ex)), desc(ex))
				}
			})
		}
	}
}
