package main

// rules_c09.go: panic-site audit on peer-controlled data (C09.1), exhaustive frame classification (C09.2),
// settings validation (C09.5), close/send-on-closed-channel safety (C09.6).

import (
	"fmt"
	"go/ast"
	"go/token"
	"go/types"
	"strings"

	"golang.org/x/tools/go/ssa"
)

// lenFacts: what is known about len(x) at `at`: returns minimum length proven (>= n).
func minLenAt(x ssa.Value, at ssa.Instruction) int64 {
	min := int64(0)
	isLenOfX := func(v ssa.Value) bool {
		call, ok := v.(*ssa.Call)
		if !ok || calleeName(call) != "builtin.len" {
			return false
		}
		a := call.Call.Args[0]
		return a == x || (origin(a) == origin(x)) || desc(a) == desc(x)
	}
	for _, f := range factsAt(at) {
		p, op, q, ok := cmpFact(f)
		if !ok {
			continue
		}
		var k int64
		var isK bool
		if isLenOfX(p) {
			k, isK = constInt(q)
		} else if isLenOfX(q) {
			k, isK = constInt(p)
			op = flipCmp(op)
		} else {
			continue
		}
		if !isK {
			continue
		}
		var m int64
		switch op {
		case token.GTR:
			m = k + 1
		case token.GEQ:
			m = k
		case token.EQL:
			m = k
		case token.NEQ:
			if k == 0 {
				m = 1
			}
		}
		if m > min {
			min = m
		}
	}
	return min
}

// indexSafe decides 0 <= idx < len(x) for an IndexAddr/Index/Lookup-on-string.
func indexSafe(x, idx ssa.Value, at ssa.Instruction) (bool, string) {
	// fixed-size array
	if arr, ok := derefType(x.Type()).Underlying().(*types.Array); ok {
		if k, isK := constInt(idx); isK && k >= 0 && k < arr.Len() {
			return true, "constant index into a fixed-size array"
		}
	}
	// dominating idx < len(x) with idx a non-negative induction value
	for _, f := range factsAt(at) {
		p, op, q, ok := cmpFact(f)
		if !ok {
			continue
		}
		if p == idx && op == token.LSS {
			if call, isC := q.(*ssa.Call); isC && calleeName(call) == "builtin.len" && (call.Call.Args[0] == x || desc(call.Call.Args[0]) == desc(x)) {
				if nonNegative(idx, 0) {
					return true, "index < len(x) on the dominating loop condition"
				}
			}
		}
	}
	if k, isK := constInt(idx); isK && k >= 0 {
		if m := minLenAt(x, at); m > k {
			return true, fmt.Sprintf("len >= %d established before constant index %d", m, k)
		}
		return false, fmt.Sprintf("constant index %d with no dominating fact len(%s) > %d", k, desc(x), k)
	}
	// len(x) - k
	if b, ok := idx.(*ssa.BinOp); ok && b.Op == token.SUB {
		if call, isC := b.X.(*ssa.Call); isC && calleeName(call) == "builtin.len" && (call.Call.Args[0] == x || desc(call.Call.Args[0]) == desc(x)) {
			if k, isK := constInt(b.Y); isK && k >= 1 {
				if m := minLenAt(x, at); m >= k {
					return true, fmt.Sprintf("len >= %d established before index len-%d", m, k)
				}
				return false, fmt.Sprintf("index len(%s)-%d with no dominating fact len >= %d", desc(x), k, k)
			}
		}
	}
	if inRangeViaHelper(x, idx, at) {
		return true, "index returned by a helper that yields -1 (excluded here) or an index below len of the same slice"
	}
	return false, "index " + desc(idx) + " into " + desc(x) + " is not provably in range"
}

// inRangeViaHelper: idx is the result of a private helper ("index of …") each of whose returns yields either a negative
// constant that the facts at `at` exclude, or a value that is, at that return, a non-negative index below len of the same
// slice expression. (The slice is assumed unchanged between the helper's return and the use: both sit in one critical
// section of the lock that guards the slice, which the lockset rules check.)
func inRangeViaHelper(x, idx ssa.Value, at ssa.Instruction) bool {
	var call *ssa.Call
	switch v := idx.(type) {
	case *ssa.Call:
		call = v
	case *ssa.Extract:
		call, _ = v.Tuple.(*ssa.Call)
	}
	if call == nil || crossWorld == nil {
		return false
	}
	// slices.Index / slices.IndexFunc on the same slice: -1 or an index below its length
	h := staticCallee(call)
	stdIndex := false
	if h != nil && h.Pkg != nil && h.Pkg.Pkg.Path() == "slices" && (strings.HasPrefix(h.Name(), "Index")) && len(call.Call.Args) >= 1 && desc(call.Call.Args[0]) == desc(x) {
		stdIndex = true
	} else if h != nil && h.Origin() != nil && h.Origin().Pkg != nil && h.Origin().Pkg.Pkg.Path() == "slices" && strings.HasPrefix(h.Origin().Name(), "Index") && len(call.Call.Args) >= 1 && desc(call.Call.Args[0]) == desc(x) {
		stdIndex = true
	}
	if !stdIndex && (h == nil || !crossWorld.isPrivateHelper(h)) {
		return false
	}
	excluded := func(k int64) bool {
		for _, f := range factsAt(at) {
			p, op, q, ok := cmpFact(f)
			if !ok || stripConv(p) != idx {
				continue
			}
			c, isK := constInt(q)
			if !isK {
				continue
			}
			switch op {
			case token.NEQ:
				if c == k {
					return true
				}
			case token.GEQ:
				if c > k {
					return true
				}
			case token.GTR:
				if c >= k {
					return true
				}
			}
		}
		return false
	}
	if stdIndex {
		return excluded(-1)
	}
	okAll, n := true, 0
	ri := 0
	if ex, isEx := idx.(*ssa.Extract); isEx {
		ri = ex.Index
	}
	forEachReturnValue(h, ri, func(l ssa.Value, ret ssa.Instruction) {
		for _, leaf := range phiLeaves(l) {
			n++
			if k, isK := constInt(leaf); isK && k < 0 {
				if !excluded(k) {
					okAll = false
				}
				continue
			}
			good := false
			facts := factsAt(ret)
			// facts on the edges into a phi are not at the return; use the facts at the leaf's own definition too
			if in, isIn := l.(ssa.Instruction); isIn {
				facts = append(facts, factsAt(in)...)
			}
			for _, f := range facts {
				p, op, q, ok := cmpFact(f)
				if ok && p == l && op == token.LSS {
					if lc, isC := q.(*ssa.Call); isC && calleeName(lc) == "builtin.len" && desc(lc.Call.Args[0]) == desc(x) && nonNegative(l, 0) {
						good = true
					}
				}
			}
			if !good {
				okAll = false
			}
		}
	})
	return okAll && n > 0
}

func nonNegative(v ssa.Value, d int) bool {
	if d > 4 {
		return false
	}
	if k, ok := constInt(v); ok {
		return k >= 0
	}
	switch x := v.(type) {
	case *ssa.BinOp:
		if x.Op == token.ADD {
			if k, ok := constInt(x.Y); ok && k >= 1 {
				// phi starting at -1 (range index) or >= 0
				if phi, ok := x.X.(*ssa.Phi); ok {
					for _, e := range phi.Edges {
						if e == ssa.Value(x) {
							continue
						}
						if k2, ok := constInt(e); !ok || k2 < -1 {
							return false
						}
					}
					return true
				}
				return nonNegative(x.X, d+1)
			}
		}
	case *ssa.Phi:
		for _, e := range x.Edges {
			if b, ok := e.(*ssa.BinOp); ok && b.Op == token.ADD && b.X == ssa.Value(x) {
				continue
			}
			if !nonNegative(e, d+1) {
				return false
			}
		}
		return true
	}
	return false
}

// peerDataFuncs: functions that handle peer-controlled data.
func (c *Ctx) peerDataFuncs() map[*ssa.Function]string {
	w := c.W
	a := w.Anchors()
	out := map[*ssa.Function]string{}
	for _, loop := range []*ssa.Function{a.ClientLoop, a.ServerLoop} {
		if loop == nil {
			continue
		}
		for fn, p := range w.sameGoroutineReach(loop, nil) {
			if _, ok := out[fn]; !ok {
				out[fn] = p.chain(w)
			}
		}
	}
	for _, fn := range []*ssa.Function{a.ClientReasm, a.ServerReasm, a.ClientRead, a.ServerRead} {
		if fn == nil {
			continue
		}
		for g, p := range w.sameGoroutineReach(fn, nil) {
			if _, ok := out[g]; !ok {
				out[g] = p.chain(w)
			}
		}
	}
	// tunnel-opening negotiation reads peer headers
	for _, n := range []string{"(*pendingChannel).Start", "newReverseChannel", "(*TunnelServiceHandler).openTunnel", "(*ReverseTunnelServer).Serve"} {
		if fn := w.roleFunc(n); fn != nil {
			out[fn] = n
		}
	}
	return out
}

func isPBMessagePtr(w *World, t types.Type) (string, bool) {
	p, ok := types.Unalias(t).Underlying().(*types.Pointer)
	if !ok {
		return "", false
	}
	n, ok := types.Unalias(p.Elem()).(*types.Named)
	if !ok || n.Obj().Pkg() == nil {
		return "", false
	}
	if _, isStruct := n.Underlying().(*types.Struct); !isStruct {
		return "", false
	}
	path := n.Obj().Pkg().Path()
	if path == pbPath || strings.HasPrefix(path, "google.golang.org/genproto") {
		return n.Obj().Name(), true
	}
	return "", false
}

// optionalMessageLoad: v is a load of a message-typed field of a NON-wrapper protocol message (may be nil on the wire).
func optionalMessageLoad(w *World, v ssa.Value) (string, bool) {
	fr, base, ok := loadedField(origin(v))
	if !ok {
		return "", false
	}
	if _, isMsg := isPBMessagePtr(w, v.Type()); !isMsg {
		return "", false
	}
	owner, isPB := w.pbNamed(base.Type())
	if !isPB {
		return "", false
	}
	// oneof wrappers (ClientToServer_X / ServerToClient_X) always carry their payload after unmarshal
	if strings.HasPrefix(owner, "ClientToServer_") || strings.HasPrefix(owner, "ServerToClient_") {
		return "", false
	}
	return fr.String(), true
}

func guardedNonNil(v ssa.Value, at ssa.Instruction) bool {
	for _, f := range factsAt(at) {
		if x, op, y, ok := cmpFact(f); ok && op == token.NEQ && ((stripConv(x) == stripConv(v) && isNilConst(y)) || (stripConv(y) == stripConv(v) && isNilConst(x))) {
			return true
		}
	}
	return false
}

// rulePanicAudit (C09.1, C18.4).
func rulePanicAudit(c *Ctx, rule string) {
	c.rule(rule, "panic-site audit: in every function that handles peer-controlled data, each index, slice, non-comma-ok type assertion and dereference of an optional protocol sub-message is guarded by a dominating length / nil / type fact (or goes through a nil-tolerant callee)")
	w := c.W
	funcs := c.peerDataFuncs()
	nSites := 0
	for _, fn := range w.Funcs {
		chain, ok := funcs[fn]
		if !ok || isGenericTemplate(fn) {
			continue
		}
		_ = chain
		name := w.Short(fn)
		allInstrs(fn, func(in ssa.Instruction) {
			switch x := in.(type) {
			case *ssa.IndexAddr:
				if arr, isArr := derefType(x.X.Type()).Underlying().(*types.Array); isArr {
					if k, isK := constInt(x.Index); isK && k >= 0 && k < arr.Len() {
						return // compiler-generated packing of varargs / literals: trivially safe, not counted
					}
				}
				nSites++
				ok, why := indexSafe(x.X, x.Index, x)
				key := fmt.Sprintf("%s: index %s[%s]", name, shortDesc(x.X), shortDesc(x.Index))
				c.check(ok, rule, key, w.At(x), why, why+": a peer-chosen length makes this index panic and crash the process (reached via "+chain+")")
			case *ssa.Index:
				nSites++
				ok, why := indexSafe(x.X, x.Index, x)
				key := fmt.Sprintf("%s: index %s[%s]", name, shortDesc(x.X), shortDesc(x.Index))
				c.check(ok, rule, key, w.At(x), why, why+": a peer-chosen length makes this index panic (reached via "+chain+")")
			case *ssa.Lookup:
				if _, isStr := x.X.Type().Underlying().(*types.Basic); isStr {
					nSites++
					ok, why := indexSafe(x.X, x.Index, x)
					key := fmt.Sprintf("%s: string index %s[%s]", name, shortDesc(x.X), shortDesc(x.Index))
					c.check(ok, rule, key, w.At(x), why, why+": an empty or short peer-supplied string makes this index panic (reached via "+chain+")")
				}
			case *ssa.BinOp:
				// integer division / remainder: the divisor is provably non-zero (a non-zero constant on every alternative, or
				// tested != 0 / > 0 on the way)
				if x.Op != token.QUO && x.Op != token.REM {
					return
				}
				if bt, isB := x.Type().Underlying().(*types.Basic); !isB || bt.Info()&types.IsInteger == 0 {
					return
				}
				nSites++
				ok, why := nonZeroDivisor(x.Y, x)
				key := fmt.Sprintf("%s: division by %s", name, shortDesc(x.Y))
				c.check(ok, rule, key, w.At(x), why, why+": an integer division by zero panics and crashes the process (reached via "+chain+")")
			case *ssa.Slice:
				if x.Low == nil && x.High == nil {
					return
				}
				nSites++
				key := fmt.Sprintf("%s: slice %s", name, shortDesc(x))
				ok, why := sliceSafe(x)
				c.check(ok, rule, key, w.At(x), why, why+" (reached via "+chain+")")
			case *ssa.TypeAssert:
				if x.CommaOk {
					return
				}
				nSites++
				key := fmt.Sprintf("%s: type assertion %s", name, shortDesc(x))
				// accepted: the queue's own element type (only accept() enqueues), and application-supplied message values
				if call, ok := x.X.(*ssa.Call); ok && calleeName(call) == "(*container/list.List).Remove" {
					c.exception(rule, key, w.At(x), "the queue only ever holds values of the receiver's own type parameter (single enqueue site in accept)")
					return
				}
				if strings.HasSuffix(types.TypeString(x.AssertedType, nil), "proto.Message") {
					c.exception(rule, key, w.At(x), "asserts the application's own message value (not peer data); a non-proto message is an application programming error")
					return
				}
				c.fail(rule, key, w.At(x), "non-comma-ok type assertion on a value that can come from the peer: a frame of another kind panics (reached via "+chain+")")
			case *ssa.FieldAddr:
				if src, isOpt := optionalMessageLoad(w, x.X); isOpt {
					nSites++
					key := fmt.Sprintf("%s: dereference of optional %s", name, src)
					c.check(guardedNonNil(x.X, x), rule, key, w.At(x), "guarded by != nil", "the optional sub-message "+src+" may be absent on the wire (nil after unmarshal) and is dereferenced without a nil check: a frame without it crashes the process (reached via "+chain+")")
				}
			case *ssa.Call:
				// optional sub-messages handed to root functions: the callee must tolerate nil
				callee := staticCallee(x)
				if callee == nil || !w.inRoot(callee) {
					return
				}
				for i, arg := range x.Call.Args {
					src, isOpt := optionalMessageLoad(w, arg)
					if !isOpt || i >= len(callee.Params) {
						continue
					}
					nSites++
					p := callee.Params[i]
					okT := true
					var bad ssa.Instruction
					for _, r := range *p.Referrers() {
						switch y := r.(type) {
						case *ssa.FieldAddr:
							if !guardedNonNil(p, y) {
								okT, bad = false, y
							}
						case *ssa.UnOp:
							if y.Op == token.MUL && !guardedNonNil(p, y) {
								okT, bad = false, y
							}
						}
					}
					key := fmt.Sprintf("%s: optional %s passed to %s", name, src, w.Short(callee))
					if okT {
						c.ok(rule, key, w.At(x), w.Short(callee)+" checks its parameter for nil before every dereference")
					} else {
						c.fail(rule, key, w.At(bad), w.Short(callee)+" dereferences its parameter without a nil check, but it receives the optional sub-message "+src+", which is nil when the peer omits it: the process crashes")
					}
				}
			}
		})
	}
	c.floor(rule, nSites, 12, "panic-capable sites in peer-data functions")
	c.floor(rule, len(funcs), 30, "functions handling peer-controlled data")
}

func indexHasPos(x *ssa.IndexAddr) bool { return x.Pos().IsValid() }

func shortDesc(v ssa.Value) string {
	d := desc(v)
	d = strings.ReplaceAll(d, "github.com/jhump/grpctunnel/tunnelpb.", "tunnelpb.")
	d = strings.ReplaceAll(d, "github.com/jhump/grpctunnel.", "")
	d = strings.ReplaceAll(d, "google.golang.org/grpc/", "")
	if len(d) > 90 {
		d = d[:87] + "..."
	}
	return d
}

func sliceSafe(x *ssa.Slice) (bool, string) {
	// x[lo:hi] on strings/slices: need lo <= hi <= len(x); accepted shapes: [:len-k] and [k:] with len >= k; arrays [:]
	if _, ok := derefType(x.X.Type()).Underlying().(*types.Array); ok {
		return true, "slice of a fixed-size array"
	}
	check := func(v ssa.Value) (bool, string) {
		if v == nil {
			return true, ""
		}
		if k, ok := constInt(v); ok {
			if k == 0 {
				return true, ""
			}
			if m := minLenAt(x.X, x); m >= k {
				return true, ""
			}
			return false, fmt.Sprintf("bound %d with no dominating fact len >= %d", k, k)
		}
		if b, ok := v.(*ssa.BinOp); ok && b.Op == token.SUB {
			if call, isC := b.X.(*ssa.Call); isC && calleeName(call) == "builtin.len" && (call.Call.Args[0] == x.X || desc(call.Call.Args[0]) == desc(x.X)) {
				if k, isK := constInt(b.Y); isK && k >= 0 {
					if m := minLenAt(x.X, x); m >= k {
						return true, ""
					}
					return false, fmt.Sprintf("bound len-%d with no dominating fact len >= %d", k, k)
				}
			}
		}
		// v < len(x) on a dominating (loop) condition, or v = w + 1 with w < len(x)
		lt := func(u ssa.Value) bool {
			for _, f := range factsAt(x) {
				p, op, q, ok := cmpFact(f)
				if ok && p == u && op == token.LSS {
					if call, isC := q.(*ssa.Call); isC && calleeName(call) == "builtin.len" && (call.Call.Args[0] == x.X || desc(call.Call.Args[0]) == desc(x.X)) {
						return true
					}
				}
			}
			return false
		}
		if lt(v) && nonNegative(v, 0) {
			return true, ""
		}
		if inRangeViaHelper(x.X, v, x) {
			return true, ""
		}
		if b, ok := v.(*ssa.BinOp); ok && b.Op == token.ADD {
			if k, isK := constInt(b.Y); isK && k == 1 && ((lt(b.X) && nonNegative(b.X, 0)) || inRangeViaHelper(x.X, b.X, x)) {
				return true, ""
			}
		}
		// clamp-established bounds (senders): n <= len(x)
		b := minBounds(v, 0)
		for _, want := range lenOfDesc(x.X) {
			if b[want] {
				return true, ""
			}
		}
		return false, "bound " + desc(v) + " is not provably <= len"
	}
	if ok, why := check(x.Low); !ok {
		return false, "slice low " + why
	}
	if ok, why := check(x.High); !ok {
		return false, "slice high " + why
	}
	return true, "slice bounds established by dominating length facts"
}

// ruleExhaustiveSwitches (C09.2): AST-level.
func ruleExhaustiveSwitches(c *Ctx, rule string) {
	c.rule(rule, "exhaustive classification: every type switch over a protocol frame has a default arm (unknown kinds produce a defined outcome), and the two per-stream accept switches also handle the nil frame")
	w := c.W
	info := w.Root.TypesInfo
	n := 0
	for _, f := range w.Root.Syntax {
		ast.Inspect(f, func(nd ast.Node) bool {
			ts, ok := nd.(*ast.TypeSwitchStmt)
			if !ok {
				return true
			}
			var x ast.Expr
			switch a := ts.Assign.(type) {
			case *ast.AssignStmt:
				x = a.Rhs[0].(*ast.TypeAssertExpr).X
			case *ast.ExprStmt:
				x = a.X.(*ast.TypeAssertExpr).X
			}
			t := info.TypeOf(x)
			if t == nil {
				return true
			}
			ts2 := types.TypeString(types.Unalias(t), nil)
			if !strings.Contains(ts2, "tunnelpb.isClientToServer_Frame") && !strings.Contains(ts2, "tunnelpb.isServerToClient_Frame") {
				return true
			}
			n++
			hasDefault, hasNil := false, false
			var kinds []string
			for _, cl := range ts.Body.List {
				cc := cl.(*ast.CaseClause)
				if cc.List == nil {
					hasDefault = true
				}
				for _, e := range cc.List {
					if id, ok := e.(*ast.Ident); ok && id.Name == "nil" {
						hasNil = true
					} else {
						kinds = append(kinds, types.ExprString(e))
					}
				}
			}
			// enclosing function name
			fnName := enclosingFunc(f, ts.Pos())
			key := "type switch over a frame in " + fnName
			c.check(hasDefault, rule, key+": default arm", w.Pos(ts.Pos()), fmt.Sprintf("arms %v + default", kinds), "this frame type switch has no default arm: a frame kind it does not list (unknown or from a newer peer) falls through silently")
			if a := w.Anchors(); (a.ClientAccept != nil && fnName == a.ClientAccept.Name()) || (a.ServerAccept != nil && fnName == a.ServerAccept.Name()) {
				c.check(hasNil, rule, key+": nil frame handled", w.Pos(ts.Pos()), "case nil", "the accept switch does not handle a nil frame (a message whose oneof is unset or unknown): it would be handed to the receiver as data")
			}
			return true
		})
	}
	c.floor(rule, n, 3, "frame type switches (accept, reassembly, measure; some may be written as if/else chains)")
	// the accept functions handle the nil frame whichever way the classification is written (type switch with case nil,
	// or an explicit frame == nil test)
	a := w.Anchors()
	for _, acc := range []*ssa.Function{a.ClientAccept, a.ServerAccept} {
		if acc == nil || len(acc.Params) < 2 {
			continue
		}
		frameP := acc.Params[1]
		nilTest := false
		allInstrs(acc, func(in ssa.Instruction) {
			switch x := in.(type) {
			case *ssa.BinOp:
				if (x.Op == token.EQL || x.Op == token.NEQ) && isNilConst(x.Y) && origin(x.X) == ssa.Value(frameP) {
					nilTest = true
				}
			case *ssa.TypeAssert:
				// `case nil` of a type switch is compiled to a comparison with nil as well; nothing else to do
			}
		})
		c.check(nilTest, rule, w.Short(acc)+": nil frame tested", w.Pos(acc.Pos()), "frame == nil is tested", "the accept function never tests for a nil frame (a message whose oneof is unset or unknown): it would be handed to the receiver as data and panic the reader")
	}
}

func enclosingFunc(f *ast.File, pos token.Pos) string {
	name := "?"
	for _, d := range f.Decls {
		if fd, ok := d.(*ast.FuncDecl); ok && fd.Pos() <= pos && pos <= fd.End() {
			name = fd.Name.Name
		}
	}
	return name
}

// ruleSettingsValidation (C09.5 / C11.3).
func ruleSettingsValidation(c *Ctx, rule string) {
	c.rule(rule, "settings validation: every path from the client loop's entry reaches either close(awaitSettings) or the channel close before the loop or a return (no silent hang); the settings prologue runs only when the server advertised settings; wrong stream id, wrong first frame and no common revision each close the channel with an error")
	w := c.W
	a := w.Anchors()
	if !c.need(rule, "ClientLoop", a.ClientLoop) || !c.need(rule, "ChClose", a.ChClose) {
		return
	}
	fn := a.ClientLoop
	recv := c.loopRecv(fn)
	// awaitSettings: the chan field closed in the loop function
	var await FieldRef
	var closeAwait *ssa.Call
	allInstrs(fn, func(in ssa.Instruction) {
		if call, ok := in.(*ssa.Call); ok && calleeName(call) == "builtin.close" {
			if fr, _, ok := loadedField(call.Call.Args[0]); ok && fr.Type == a.Ch.Obj().Name() {
				await, closeAwait = fr, call
			}
		}
	})
	if closeAwait == nil {
		c.fail(rule, w.Short(fn)+": settings signal closed", posOf(w, fn), "the receive loop never closes the settings signal: Start() would wait for the context to end")
		return
	}
	isSig := func(in ssa.Instruction) bool {
		if in == ssa.Instruction(closeAwait) {
			return true
		}
		ci, ok := in.(ssa.CallInstruction)
		return ok && staticCallee(ci) == a.ChClose
	}
	esc := pathAvoiding(fn, nil, func(in ssa.Instruction) bool { return in == recv || isReturn(in) }, isSig)
	c.check(esc == nil, rule, w.Short(fn)+": no silent path", w.At(closeAwait), "every path to the loop or to a return passes close("+await.Field+") or the channel close", "a path through the settings prologue reaches the loop or returns without closing the settings signal or the channel: the constructor waits forever (Start hangs) on that settings input")
	c.check(!inLoop(closeAwait.Block()), rule, w.Short(fn)+": settings signal closed once", w.At(closeAwait), "not in a loop", "close of the settings signal inside a loop: second close panics")
	// prologue guarded by the server-sends-settings flag
	var first ssa.Instruction
	allInstrs(fn, func(in ssa.Instruction) { // incl. a prologue split off into a helper
		if ci, ok := in.(ssa.CallInstruction); ok && in != recv {
			if k, isOp := w.carrierOp(ci); isOp && k == "carrier-recv" {
				first = in
			}
		}
	})
	if first == nil {
		c.fail(rule, w.Short(fn)+": settings read", posOf(w, fn), "no settings Recv before the loop")
		return
	}
	g := false
	for _, f := range boolFactsAt(first) {
		if fr, _, ok := loadedField(f.V); ok && fr.Type == a.Ch.Obj().Name() && f.True {
			g = true
		}
	}
	c.check(g, rule, w.Short(fn)+": settings expected only when advertised", w.At(first), "dominated by the server-sends-settings flag", "the settings frame is awaited unconditionally: a revision-zero server never sends one, so the tunnel hangs or mis-parses the first frame")
	// the three malformed cases
	type cas struct {
		what  string
		found bool
	}
	cases := map[string]*cas{"bad stream id": {"StreamId != -1", false}, "wrong first frame": {"type assertion to settings failed", false}, "no common revision": {"supported == false", false}, "read failure": {"Recv error", false}}
	for _, call := range callsIn(fn, func(ci ssa.CallInstruction) bool { return staticCallee(ci) == a.ChClose }) {
		if recv != nil && dominates(recv, call) {
			continue
		}
		// every value the close can be called with (the prologue may return its errors to the loop function, which closes)
		for _, vc := range valueCases(call.Common().Args[1], 0) {
			good, _ := nonNilErrorPhiAware(vc.Val, nil)
			if len(vc.Facts) == 0 {
				good, _ = nonNilErrorPhiAware(call.Common().Args[1], call)
			}
			for _, f := range append(append([]EdgeFact{}, vc.Facts...), factsAt(call)...) {
				x, op, y, ok := cmpFact(f)
				if ok {
					if _, ch := fieldChain(x); len(ch) == 1 && ch[0] == "StreamId" {
						if k, isK := constInt(y); isK && k == -1 && op == token.NEQ {
							cases["bad stream id"].found = cases["bad stream id"].found || good
						}
					}
					if op == token.NEQ && isNilConst(y) {
						if ex, isEx := origin(x).(*ssa.Extract); isEx && ex.Index == 1 {
							cases["read failure"].found = cases["read failure"].found || good
						}
					}
				}
				nf := normFact(f)
				if ex, isEx := origin(nf.Cond).(*ssa.Extract); isEx && ex.Index == 1 && !nf.True {
					if _, isTA := ex.Tuple.(*ssa.TypeAssert); isTA {
						cases["wrong first frame"].found = cases["wrong first frame"].found || good
					}
				}
				if phi, isPhi := origin(nf.Cond).(*ssa.Phi); isPhi && !nf.True && phi.Comment == "supported" {
					cases["no common revision"].found = cases["no common revision"].found || good
				}
				if hc, isHC := origin(nf.Cond).(*ssa.Call); isHC && !nf.True {
					// the selection loop in a private helper that returns its loop-carried "found" flag
					if h := helperCallee(hc); h != nil {
						forEachReturnValue(h, 0, func(rv ssa.Value, at ssa.Instruction) {
							if phi, isPhi := rv.(*ssa.Phi); isPhi && inLoopPhi(phi) {
								cases["no common revision"].found = cases["no common revision"].found || good
							}
						})
					}
				}
			}
		}
	}
	for k, v := range cases {
		c.check(v.found, rule, w.Short(fn)+": "+k+" ends the tunnel with an error", posOf(w, fn), v.what+" -> channel close with a non-nil error", "the settings prologue does not close the channel with an error on "+k+" ("+v.what+")")
	}
}

// ruleCloseSafety (C09.6).
func ruleCloseSafety(c *Ctx, rule string) {
	c.rule(rule, "close/send-on-closed-channel safety: every close(ch) is once-guarded (flag under a mutex, CAS success edge, sync.Once, single non-loop site of a single-spawn function, or the registry latch typestate), and the plain receiver sends on its hand-off channel only under the ingest mutex after testing the closed signal, that channel being closed only under the same mutex after the closed signal")
	w := c.W
	a := w.Anchors()
	lf := w.Locks()
	n := 0
	for _, fn := range w.Funcs {
		if isGenericTemplate(fn) {
			continue
		}
		for _, call := range callsNamed(fn, "builtin.close") {
			n++
			fr, _, isF := loadedField(call.Common().Args[0])
			key := "close(" + desc(call.Common().Args[0]) + ") in " + w.Short(fn)
			if !isF {
				c.fail(rule, key, w.At(call), "closes a channel that is not a struct field: cannot establish a once-guard")
				continue
			}
			key = "close(" + fr.String() + ") in " + w.Short(fn)
			// the guard may sit at the close itself or, when the close lives in a helper used at exactly one place, at
			// that place (the helper's code belongs to its user)
			pts := w.usePoints(call)
			done := false
			for _, pt := range pts {
				// (a) CAS-once
				if g, why := c.casGuard(pt, a.CSDone, 0); g {
					if fl, ok := c.findOnceFlag(pt, a.CS); ok {
						c.ok(rule, key, w.At(call), "once: "+why+" and flag "+fl.String())
					} else {
						c.ok(rule, key, w.At(call), "once: "+why)
					}
					done = true
					break
				}
			}
			if done {
				continue
			}
			// (b) flag under mutex
			for _, pt := range pts {
				if nt := recvNamed(pt.Parent()); nt != nil {
					if fl, ok := c.findOnceFlag(pt, nt); ok {
						locks := perStreamLocks(lf.MustAt(pt), nt)
						if len(locks) > 0 {
							c.onceGuardedByFlag(rule, key, pt, fl, locks[0])
							done = true
							break
						}
					}
				}
			}
			if done {
				continue
			}
			// (c) sync.Once closure
			if w.onlyViaOnce(fn, 0) {
				c.ok(rule, key, w.At(call), "once: runs only inside a sync.Once.Do function")
				continue
			}
			// (d) single-spawn function, non-loop position (settings signal)
			if fn == a.ClientLoop && !inLoop(call.Block()) {
				sites := w.callSitesOf(fn)
				if len(sites) == 1 && !inLoop(sites[0].Block()) {
					c.ok(rule, key, w.At(call), "once: single non-loop close in the receive loop, which is spawned exactly once per channel (constructor)")
					continue
				}
			}
			// (e) latch typestate: close on len == 1 edge right after append, re-made on len == 0
			if rt, _ := regNames(w); fr.Type == rt {
				if c.latchCloseOK(call) {
					c.ok(rule, key, w.At(call), "once per arming: closed exactly on the 0 -> 1 transition under the registry mutex; re-made on the 1 -> 0 transition (C12.5)")
					continue
				}
			}
			c.fail(rule, key, w.At(call), "this close(ch) has no recognised once-guard: a second execution panics with 'close of closed channel' (which a peer can provoke by repeating a frame or by racing frames)")
		}
	}
	c.floor(rule, n, 6, "close(ch) sites")
	// several close sites of the same channel must be mutually exclusive: guarded by the same once-flag under the same lock
	type siteInfo struct {
		call ssa.CallInstruction
		flag FieldRef
		lock string
		ok   bool
	}
	byChan := map[FieldRef][]siteInfo{}
	for _, fn := range w.Funcs {
		if isGenericTemplate(fn) {
			continue
		}
		for _, call := range callsNamed(fn, "builtin.close") {
			fr, _, isF := loadedField(call.Common().Args[0])
			if !isF {
				continue
			}
			si := siteInfo{call: call}
			if nt := recvNamed(fn); nt != nil {
				if fl, ok := c.findOnceFlag(call, nt); ok {
					if locks := perStreamLocks(lf.MustAt(call), nt); len(locks) > 0 {
						si.flag, si.lock, si.ok = fl, locks[0], true
					}
				}
			}
			dup := false
			for _, o := range byChan[fr] {
				if o.call.Pos() == call.Pos() {
					dup = true // another instantiation of the same generic source
				}
			}
			if !dup {
				byChan[fr] = append(byChan[fr], si)
			}
		}
	}
	for fr, sites := range byChan {
		if len(sites) < 2 {
			continue
		}
		same := true
		for _, s := range sites {
			if !s.ok || s.flag != sites[0].flag || s.lock != sites[0].lock {
				same = false
			}
		}
		var where []string
		for _, s := range sites {
			where = append(where, w.Short(s.call.Parent())+" ("+w.At(s.call)+")")
		}
		c.check(same, rule, "close sites of "+fr.String()+" are mutually exclusive", w.At(sites[0].call), "all "+fmt.Sprint(len(sites))+" close sites test and set the same flag "+sites[0].flag.String()+" under "+sites[0].lock, "the channel "+fr.String()+" is closed at "+strings.Join(where, " and ")+" but these sites are not guarded by one common once-flag under one lock: when both run (e.g. a late frame after the stream finished) the second close panics with 'close of closed channel'")
	}
	// plain receiver hand-off protocol
	r := c.receivers()
	for _, fn := range r.pAccept {
		var send *ssa.Select
		allInstrs(fn, func(in ssa.Instruction) {
			if sel, ok := in.(*ssa.Select); ok && sel.Blocking {
				send = sel
			}
		})
		if send == nil {
			c.fail(rule, w.Short(fn)+": hand-off", posOf(w, fn), "no blocking hand-off select")
			continue
		}
		held := false
		for _, l := range lf.MustAt(send).list() {
			if strings.HasPrefix(l, r.plain.Obj().Name()+".") {
				held = true
			}
		}
		var closedF FieldRef
		for _, st := range send.States {
			if st.Dir == types.RecvOnly {
				closedF, _, _ = loadedField(st.Chan)
			}
		}
		// preceded by a non-blocking test of the closed signal that returns
		tested := mustPrecede(send, func(in ssa.Instruction) bool {
			if sel, ok := in.(*ssa.Select); ok && !sel.Blocking {
				for _, st := range sel.States {
					if fr, _, ok := loadedField(st.Chan); ok && fr == closedF {
						return true
					}
				}
			}
			return false
		}) != nil
		c.check(held && tested, rule, w.Short(fn)+": sends only under the ingest mutex after testing the closed signal", w.At(send), "mutex held; non-blocking closed test dominates the send", "the plain receiver's hand-off can send on a channel that close() has already closed (panic): the closed-signal test or the ingest mutex is missing")
	}
	for _, fn := range r.pClose {
		for _, af := range append([]*ssa.Function{fn}, fn.AnonFuncs...) {
			cls := callsNamed(af, "builtin.close")
			if len(cls) != 2 {
				continue
			}
			first, second := cls[0], cls[1]
			okOrder := dominates(first, second)
			heldSecond := false
			for _, l := range lf.MustAt(second).list() {
				if strings.HasPrefix(l, r.plain.Obj().Name()+".") {
					heldSecond = true
				}
			}
			heldFirst := false
			for _, l := range lf.MustAt(first).list() {
				if strings.HasPrefix(l, r.plain.Obj().Name()+".") {
					heldFirst = true
				}
			}
			c.check(okOrder && heldSecond && !heldFirst, rule, w.Short(fn)+": closed signal first (lock-free), data channel under the ingest mutex", w.At(second), "close(closed); lock; close(ch)", "the plain receiver's close does not follow signal-then-lock-then-close: either a blocked accept is never released (deadlock) or accept can send on the closed channel (panic)")
		}
	}
}

// latchCloseOK: close(avail) under the registry mutex, after the function's one append store, and exactly on the 0 -> 1
// transition: dominated by len(chans) == 1 measured after the append, or by len(chans) == 0 measured before it
// (`wasEmpty := len(c.chans) == 0; c.chans = append(…); if wasEmpty { close(c.avail) }`).
func (c *Ctx) latchCloseOK(call ssa.CallInstruction) bool {
	lf := c.W.Locks()
	regT, regMu := regNames(c.W)
	if !lf.MustAt(call).has(regMu) {
		return false
	}
	var app *ssa.Store
	nApp := 0
	for _, st := range storesToField(call.Parent(), FieldRef{regT, c.W.Roles().RegChans}) {
		nApp++
		if ac, ok := st.Val.(*ssa.Call); ok && calleeName(ac) == "builtin.append" {
			app = st
		}
	}
	if app == nil || nApp != 1 || !dominates(app, call) {
		return false
	}
	one := false
	for _, f := range factsAt(call) {
		x, op, y, ok := cmpFact(f)
		if !ok {
			continue
		}
		if lc, isC := x.(*ssa.Call); isC && calleeName(lc) == "builtin.len" {
			if fr, _, isF := loadedField(lc.Call.Args[0]); isF && fr.Field == c.W.Roles().RegChans {
				k, isK := constInt(y)
				if !isK || op != token.EQL {
					continue
				}
				if k == 1 && dominates(app, lc) {
					one = true
				}
				if k == 0 && dominates(lc, app) {
					one = true
				}
			}
		}
	}
	return one
}

// rulePanicAuditOf: C09.1 restricted to one function.
func rulePanicAuditOf(c *Ctx, rule string, fn *ssa.Function) {
	w := c.W
	if !c.need(rule, "function", fn) {
		return
	}
	name := w.Short(fn)
	n := 0
	allInstrs(fn, func(in ssa.Instruction) {
		switch x := in.(type) {
		case *ssa.IndexAddr:
			n++
			ok, why := indexSafe(x.X, x.Index, x)
			c.check(ok, rule, fmt.Sprintf("%s: index %s[%s]", name, shortDesc(x.X), shortDesc(x.Index)), w.At(x), why, why+": a header value of that shape panics the server's receive loop")
		case *ssa.Index:
			n++
			ok, why := indexSafe(x.X, x.Index, x)
			c.check(ok, rule, fmt.Sprintf("%s: index %s[%s]", name, shortDesc(x.X), shortDesc(x.Index)), w.At(x), why, why+": a short header value panics the server's receive loop")
		case *ssa.Lookup:
			if _, isStr := x.X.Type().Underlying().(*types.Basic); isStr {
				n++
				ok, why := indexSafe(x.X, x.Index, x)
				c.check(ok, rule, fmt.Sprintf("%s: string index %s[%s]", name, shortDesc(x.X), shortDesc(x.Index)), w.At(x), why, why+": a short header value panics the server's receive loop")
			}
		case *ssa.Slice:
			if x.Low == nil && x.High == nil {
				return
			}
			n++
			ok, why := sliceSafe(x)
			c.check(ok, rule, fmt.Sprintf("%s: slice %s", name, shortDesc(x)), w.At(x), why, why)
		}
	})
	c.floor(rule, n, 3, "index/slice sites in the parser")
}

func ruleTimeoutApplied(c *Ctx, rule string) {
	w := c.W
	a := w.Anchors()
	if !c.need(rule, "Create", a.Create) || !c.need(rule, "TimeoutParse", a.TimeoutParse) {
		return
	}
	n := 0
	allInstrs(a.Create, func(in ssa.Instruction) {
		call, ok := in.(*ssa.Call)
		if !ok || calleeName(call) != "context.WithTimeout" {
			return
		}
		n++
		ex, isEx := origin(call.Call.Args[1]).(*ssa.Extract)
		okD := false
		var pc *ssa.Call
		if isEx && ex.Index == 0 {
			pc, _ = ex.Tuple.(*ssa.Call)
			okD = pc != nil && staticCallee(pc) == a.TimeoutParse
		}
		c.check(okD, rule, w.Short(a.Create)+": WithTimeout receives the parsed duration", w.At(call), desc(call.Call.Args[1]), "WithTimeout is given "+desc(call.Call.Args[1])+", not the parser's result")
		if pc != nil {
			// parser fed with this frame's request headers
			d := desc(pc.Call.Args[0])
			c.check(w.isConvOfField(pc.Call.Args[0], "fromProto", "RequestHeaders"), rule, w.Short(a.Create)+": parser reads this request's headers", w.At(pc), d, "the parser is given "+d+", not this request's headers")
			g := false
			for _, f := range boolFactsAt(call) {
				if e2, ok := f.V.(*ssa.Extract); ok && e2.Tuple == ssa.Value(pc) && e2.Index == 1 && f.True {
					g = true
				}
			}
			c.check(g, rule, w.Short(a.Create)+": deadline applied only for a valid header", w.At(call), "dominated by ok == true", "WithTimeout is not dominated by the parser's ok result: a malformed header (duration 0) would expire the handler at once")
			// ... and for every valid header: between the parser call and WithTimeout no condition other than ok is tested
			// (a test of the parsed duration, e.g. ok && timeout > 0, leaves a well-formed "0S" without any deadline)
			before := map[ssa.Value]bool{}
			for _, f := range boolFactsAt(pc) {
				before[f.V] = true
			}
			extra := ""
			for _, f := range boolFactsAt(call) {
				if before[f.V] {
					continue
				}
				if e2, ok := f.V.(*ssa.Extract); ok && e2.Tuple == ssa.Value(pc) && e2.Index == 1 {
					continue
				}
				extra = desc(f.V)
			}
			c.check(extra == "", rule, w.Short(a.Create)+": deadline applied for every valid header", w.At(call), "the only condition between the parser and WithTimeout is its ok result", "WithTimeout is also conditional on "+extra+": some well-formed grpc-timeout values give the handler no deadline")
		}
	})
	c.floor(rule, n, 1, "WithTimeout sites in the creation function")
}

// nonZeroDivisor: every alternative of v is a non-zero constant, or a dominating test excludes zero.
func nonZeroDivisor(v ssa.Value, at ssa.Instruction) (bool, string) {
	all := true
	n := 0
	for _, leaf := range phiLeaves(stripConv(v)) {
		n++
		if k, isK := constInt(stripConv(leaf)); !isK || k == 0 {
			all = false
		}
	}
	if all && n > 0 {
		return true, "divisor is a non-zero constant on every alternative"
	}
	for _, f := range factsAt(at) {
		x, op, y, ok := cmpFact(f)
		if !ok || stripConv(x) != stripConv(v) {
			continue
		}
		if k, isK := constInt(y); isK && k == 0 && (op == token.NEQ || op == token.GTR) {
			return true, "divisor tested non-zero"
		}
	}
	// unit, ok := table[c] / unitOf(c), used only where ok holds, with every entry of the table a non-zero constant
	if ex, isEx := stripConv(v).(*ssa.Extract); isEx && ex.Index == 0 {
		okKnown := false
		for _, f := range boolFactsAt(at) {
			if e2, isE := f.V.(*ssa.Extract); isE && e2.Tuple == ex.Tuple && e2.Index == 1 && f.True {
				okKnown = true
			}
		}
		if okKnown {
			switch t := ex.Tuple.(type) {
			case *ssa.Lookup:
				if t.CommaOk {
					mk, _ := origin(t.X).(*ssa.MakeMap)
					if mk == nil && crossWorld != nil {
						mk = crossWorld.readOnlyGlobalMap(t.X)
					}
					if mk != nil {
						good, cnt := true, 0
						for _, r := range *mk.Referrers() {
							if mu, isMU := r.(*ssa.MapUpdate); isMU {
								cnt++
								if k, isK := constInt(mu.Value); !isK || k == 0 || (mu.Parent() == t.Parent() && !dominates(mu, t)) {
									good = false
								}
							}
						}
						if good && cnt > 0 {
							return true, "divisor is an entry of a constant table without zero entries, used under its ok result"
						}
					}
				}
			case *ssa.Call:
				if h := helperCallee(t); h != nil && h.Signature.Results().Len() == 2 {
					good, cnt := true, 0
					for _, ret := range returnsOf(h) {
						if len(ret.Results) != 2 {
							good = false
							continue
						}
						for _, okLeaf := range phiLeaves(ret.Results[1]) {
							if isConstBool(okLeaf, false) {
								continue
							}
							cnt++
							for _, leaf := range phiLeaves(ret.Results[0]) {
								if k, isK := constInt(stripConv(leaf)); !isK || k == 0 {
									good = false
								}
							}
						}
					}
					if good && cnt > 0 {
						return true, "divisor is a non-zero constant whenever the table function reports ok, and is used under ok"
					}
				}
			}
		}
	}
	return false, "the divisor " + shortDesc(v) + " is not provably non-zero (a table lookup without its ok result, a parsed value)"
}
