package main

// rules_ctx.go: context derivation (C04.5, C17.*), registry (C12.*, C14.5), GracefulStop (C10.6).

import (
	"fmt"
	"go/token"
	"go/types"
	"strings"

	"golang.org/x/tools/go/ssa"
)

var ctxDerivers = map[string]string{
	"context.WithValue":    "WithValue",
	"context.WithCancel":   "WithCancel",
	"context.WithTimeout":  "WithTimeout",
	"context.WithDeadline": "WithDeadline",
	"google.golang.org/grpc/metadata.NewIncomingContext":         "NewIncomingContext",
	"google.golang.org/grpc/metadata.AppendToOutgoingContext":    "AppendToOutgoingContext",
	"google.golang.org/grpc.NewContextWithServerTransportStream": "NewContextWithServerTransportStream",
}

type ctxStep struct {
	name string
	call *ssa.Call
}

// ctxChain walks a context value back through derivation calls. Phis are followed only if every
// edge leads (after its own steps) to the same parent value.
func ctxChain(v ssa.Value) ([]ctxStep, ssa.Value) {
	var steps []ctxStep
	for i := 0; i < 20; i++ {
		v = origin(v)
		if _, isPhi := v.(*ssa.Phi); !isPhi {
			// result of a private helper that derives the context: its returns are alternatives, like the edges of a phi
			if alts, ok := altEdges(v); ok {
				var parent ssa.Value
				var names []string
				var firstCall *ssa.Call
				okAlt := true
				for _, e := range alts {
					st, root := ctxChainOne(e)
					if st == nil {
						okAlt = false
						break
					}
					names = append(names, st.name)
					if firstCall == nil {
						firstCall = st.call
					}
					if parent == nil {
						parent = root
					} else if origin(parent) != origin(root) {
						okAlt = false
					}
				}
				if okAlt && parent != nil {
					steps = append(steps, ctxStep{strings.Join(sortedCopy(names), "|"), firstCall})
					v = parent
					continue
				}
			}
		}
		switch x := v.(type) {
		case *ssa.Extract:
			if call, ok := x.Tuple.(*ssa.Call); ok && x.Index == 0 {
				if n, ok := ctxDerivers[calleeName(call)]; ok {
					steps = append(steps, ctxStep{n, call})
					v = call.Call.Args[0]
					continue
				}
			}
			return steps, v
		case *ssa.Call:
			if n, ok := ctxDerivers[calleeName(x)]; ok {
				steps = append(steps, ctxStep{n, x})
				v = x.Call.Args[0]
				continue
			}
			return steps, v
		case *ssa.Phi:
			var parent ssa.Value
			var names []string
			var firstCall *ssa.Call
			okPhi := true
			for _, e := range x.Edges {
				st, root := ctxChainOne(e)
				if st == nil {
					okPhi = false
					break
				}
				names = append(names, st.name)
				if firstCall == nil {
					firstCall = st.call
				}
				if parent == nil {
					parent = root
				} else if origin(parent) != origin(root) {
					okPhi = false
				}
			}
			if !okPhi || parent == nil {
				return steps, v
			}
			steps = append(steps, ctxStep{strings.Join(sortedCopy(names), "|"), firstCall})
			v = parent
			continue
		case *ssa.UnOp:
			// load of a struct field holding a context: continue from what was stored at construction
			return steps, v
		default:
			return steps, v
		}
	}
	return steps, v
}

// ctxChainOne: exactly one derivation step.
func ctxChainOne(v ssa.Value) (*ctxStep, ssa.Value) {
	v = origin(v)
	var call *ssa.Call
	switch x := v.(type) {
	case *ssa.Extract:
		call, _ = x.Tuple.(*ssa.Call)
	case *ssa.Call:
		call = x
	}
	if call == nil {
		return nil, nil
	}
	n, ok := ctxDerivers[calleeName(call)]
	if !ok {
		return nil, nil
	}
	return &ctxStep{n, call}, call.Call.Args[0]
}

func stepNames(s []ctxStep) string {
	var n []string
	for _, x := range s {
		n = append(n, x.name)
	}
	return strings.Join(n, " <- ")
}

// ctxStoredInNewStream: values stored in the ctx field of the stream object built in fn (construction store
// and any later store through the same object), in program order.
func ctxStores(fn *ssa.Function, nt *types.Named) []*ssa.Store {
	var out []*ssa.Store
	for _, b := range fn.Blocks {
		for _, in := range b.Instrs {
			st, ok := in.(*ssa.Store)
			if !ok {
				continue
			}
			fa, ok := st.Addr.(*ssa.FieldAddr)
			if !ok {
				continue
			}
			n := namedOf(fa.X.Type())
			if n == nil || n.Obj() != nt.Obj() || !strings.HasSuffix(types.TypeString(structOf(fa.X.Type()).Field(fa.Field).Type(), nil), "context.Context") {
				continue
			}
			out = append(out, st)
		}
	}
	return out
}

// ruleContextChain (C04.5 / C17.1).
func ruleContextChain(c *Ctx, rule string) {
	c.rule(rule, "context derivation: the handler context derives, through context/metadata With* constructors only, from the server loop's cancellable root, itself WithValue(incoming tunnel metadata) of the carrier stream's context; it includes NewIncomingContext(request metadata) and a per-stream WithTimeout|WithCancel whose cancel is the stream's; the client stream context derives from the caller's context through WithCancel and carries the tunnel metadata and the channel; senders and receivers are built with the stream's own context")
	w := c.W
	a := w.Anchors()
	if !c.need(rule, "Create", a.Create) || !c.need(rule, "ServerLoop", a.ServerLoop) || !c.need(rule, "Allocate", a.Allocate) || !c.need(rule, "Dispatch", a.Dispatch) {
		return
	}
	// --- server stream ctx
	sts := ctxStores(a.Create, a.SS)
	if len(sts) == 0 {
		c.fail(rule, w.Short(a.Create)+": stream context stored", posOf(w, a.Create), "the creation function never stores a context in the stream")
		return
	}
	last := sts[len(sts)-1]
	// the last store may wrap a load of the field itself (str.ctx = f(str.ctx)): chain through the previous store
	var all []ctxStep
	cur := last.Val
	for i := len(sts) - 1; i >= 0; i-- {
		steps, root := ctxChain(cur)
		all = append(all, steps...)
		if fr, _, ok := loadedField(root); ok && fr.Type == a.SS.Obj().Name() && strings.HasSuffix(types.TypeString(root.Type(), nil), "context.Context") && i > 0 {
			cur = sts[i-1].Val
			continue
		}
		cur = root
		break
	}
	names := stepNames(all)
	want := "NewContextWithServerTransportStream <- WithCancel|WithTimeout <- NewIncomingContext"
	c.check(names == want && origin(cur) == ssa.Value(a.Create.Params[1]), rule, w.Short(a.Create)+": handler context chain", w.At(last), names+" <- ctx parameter", "the stream's context is built as ["+names+"] from "+desc(cur)+"; expected ["+want+"] from the creation function's ctx parameter (anything else loses the tunnel's cancellation, the request metadata, or the per-RPC deadline)")
	// the per-stream cancel belongs to that chain: checked by C14.3's pairing
	// WithTimeout duration = parser(headers of this frame)
	for _, s := range all {
		if strings.Contains(s.name, "WithTimeout") {
			// find the WithTimeout call among phi edges
			allInstrs(a.Create, func(in ssa.Instruction) {
				if call, ok := in.(*ssa.Call); ok && calleeName(call) == "context.WithTimeout" {
					d := desc(call.Call.Args[1])
					okD := a.TimeoutParse != nil && strings.Contains(d, a.TimeoutParse.Name()+"(") && strings.HasSuffix(d, "#0")
					c.check(okD, rule, w.Short(a.Create)+": deadline from the request's grpc-timeout", w.At(call), d, "WithTimeout uses "+d+", not the duration parsed from this request's headers")
					// guarded by the parser's ok result
					g := false
					for _, f := range boolFactsAt(call) {
						if ex, ok := f.V.(*ssa.Extract); ok && ex.Index == 1 && f.True {
							if pc, ok := ex.Tuple.(*ssa.Call); ok && staticCallee(pc) == a.TimeoutParse {
								g = true
							}
						}
					}
					c.check(g, rule, w.Short(a.Create)+": deadline only when the header is valid", w.At(call), "dominated by parser ok == true", "WithTimeout is applied although the parser did not report a valid header: a malformed grpc-timeout would shorten the deadline (to zero)")
				}
			})
		}
	}
	// server loop: Create's ctx argument
	allInstrs(a.ServerLoop, func(in ssa.Instruction) {
		call, ok := in.(*ssa.Call)
		if !ok || staticCallee(call) != a.Create {
			return
		}
		steps, root := ctxChain(call.Call.Args[1])
		n := stepNames(steps)
		rd := desc(root)
		okRoot := strings.HasSuffix(rd, ".stream.Context()")
		c.check(n == "WithCancel <- WithValue" && okRoot, rule, w.Short(a.ServerLoop)+": root context chain", w.At(call), n+" <- "+rd, "handlers' root context is ["+n+"] from "+rd+"; expected [WithCancel <- WithValue] from the carrier stream's Context(): handlers would lose the peer, interceptor values or the tunnel's cancellation")
		for _, s := range steps {
			if s.name == "WithValue" {
				kt := types.TypeString(s.call.Call.Args[1].Type(), shortQual)
				if mi, ok := s.call.Call.Args[1].(*ssa.MakeInterface); ok {
					kt = types.TypeString(mi.X.Type(), shortQual)
				}
				v := origin(s.call.Call.Args[2])
				c.check(strings.HasSuffix(kt, "."+w.accessorKey("TunnelMetadataFromIncomingContext")) && v == ssa.Value(a.ServerLoop.Params[1]), rule, w.Short(a.ServerLoop)+": incoming tunnel metadata attached", w.At(s.call), "WithValue("+kt+", tunnelMetadata)", "the root context stores "+desc(s.call.Call.Args[2])+" under key "+kt+"; expected the tunnel-opening metadata under the incoming-tunnel-metadata key")
			}
		}
	})
	// dispatch hands the stream's context to unary handlers
	allInstrs(a.Dispatch, func(in ssa.Instruction) {
		call, ok := in.(*ssa.Call)
		if !ok || staticCallee(call) != nil || call.Call.IsInvoke() {
			return
		}
		if fr, _, isF := loadedField(call.Call.Value); isF && fr.Field == "Handler" && fr.Type == "MethodDesc" && len(call.Call.Args) >= 2 {
			f2, _, ok2 := loadedField(call.Call.Args[1])
			c.check(ok2 && f2.Type == a.SS.Obj().Name() && f2.Field == w.Roles().SSCtx, rule, w.Short(a.Dispatch)+": unary handler receives the stream context", w.At(call), desc(call.Call.Args[1]), "the unary handler is invoked with "+desc(call.Call.Args[1])+" instead of the stream's context")
		}
	})
	for _, nt := range []*types.Named{a.SS, a.CS} {
		if m := w.methodFn(nt, "Context"); m != nil {
			ok := false
			forEachReturnValue(m, 0, func(v ssa.Value, at ssa.Instruction) {
				if fr, _, isF := loadedField(v); isF && strings.HasSuffix(types.TypeString(v.Type(), nil), "context.Context") && fr.Type == nt.Obj().Name() {
					ok = true
				}
			})
			c.check(ok, rule, w.Short(m)+": returns the stream context", posOf(w, m), "return st.ctx", "Context() does not return the stream's context field")
		}
	}
	// --- client stream ctx
	cst := ctxStores(a.Allocate, a.CS)
	if len(cst) == 0 {
		c.fail(rule, w.Short(a.Allocate)+": stream context stored", posOf(w, a.Allocate), "no store")
	} else {
		steps, root := ctxChain(cst[len(cst)-1].Val)
		n := stepNames(steps)
		c.check(n == "WithValue <- WithValue <- WithCancel" && origin(root) == ssa.Value(a.Allocate.Params[1]), rule, w.Short(a.Allocate)+": client stream context chain", w.At(cst[len(cst)-1]), n+" <- caller's ctx", "client stream context is ["+n+"] from "+desc(root)+"; expected [WithValue <- WithValue <- WithCancel] from the caller's context")
		keys := map[string]string{}
		keyVals := map[string]ssa.Value{}
		for _, s := range steps {
			if s.name == "WithValue" {
				kt := ""
				if mi, ok := s.call.Call.Args[1].(*ssa.MakeInterface); ok {
					kt = types.TypeString(mi.X.Type(), shortQual)
				}
				keys[kt] = desc(s.call.Call.Args[2])
				keyVals[kt] = s.call.Call.Args[2]
			}
		}
		chKey, mdKey := "grpctunnel."+w.accessorKey("TunnelChannelFromContext"), "grpctunnel."+w.accessorKey("TunnelMetadataFromOutgoingContext")
		c.check(keyVals[chKey] != nil && origin(keyVals[chKey]) == ssa.Value(a.Allocate.Params[0]), rule, w.Short(a.Allocate)+": context carries this channel", w.At(cst[len(cst)-1]), "WithValue(tunnelChannelContextKey{}, c)", "the value under the tunnel-channel key is "+keys["grpctunnel.tunnelChannelContextKey"]+", expected the channel the stream is created on")
		c.check(isRecvField(keyVals[mdKey], a.Allocate, w.Roles().ChTunnelMetadata), rule, w.Short(a.Allocate)+": context carries the tunnel's opening metadata", w.At(cst[len(cst)-1]), "WithValue(tunnelMetadataOutgoingContextKey{}, c.tunnelMetadata)", "the value under the outgoing-tunnel-metadata key is "+keys["grpctunnel.tunnelMetadataOutgoingContextKey"])
	}
	// --- senders / receivers get the stream's own context
	for _, side := range []struct {
		fn *ssa.Function
		nt *types.Named
	}{{a.Allocate, a.CS}, {a.Create, a.SS}} {
		st := ctxStores(side.fn, side.nt)
		if len(st) == 0 {
			continue
		}
		streamCtx := origin(st[0].Val)
		n := 0
		allInstrs(side.fn, func(in ssa.Instruction) {
			call, ok := in.(*ssa.Call)
			if !ok {
				return
			}
			f := staticCallee(call)
			if f == nil || !w.inRoot(f) || !(w.sameFn(f, w.roleFunc("newSender")) || w.sameFn(f, w.roleFunc("newSenderWithoutFlowControl")) || w.sameFn(f, w.roleFunc("newReceiver")) || w.sameFn(f, w.roleFunc("newReceiverWithoutFlowControl"))) {
				return
			}
			if len(call.Call.Args) == 0 || !strings.HasSuffix(types.TypeString(call.Call.Args[0].Type(), nil), "context.Context") {
				return
			}
			n++
			c.check(origin(call.Call.Args[0]) == streamCtx, rule, w.Short(side.fn)+": "+f.Name()+" bound to the stream's context", w.At(call), desc(call.Call.Args[0]), f.Name()+" is given "+desc(call.Call.Args[0])+" instead of the context stored in the stream: when the stream or tunnel ends only the stream's context is cancelled, so an operation blocked in it would never be released")
		})
		c.floor(rule, n, 2, "context-bound sender/receiver constructions in "+w.Short(side.fn))
	}
	// --- server watcher: unconditional, waits on the stream ctx, cancels the receiver
	var watcher *ssa.Go
	allInstrs(a.Dispatch, func(in ssa.Instruction) {
		g, ok := in.(*ssa.Go)
		if !ok {
			return
		}
		for _, f := range w.rootCalleesThroughWrappers(g) {
			hasWait, hasCancel := false, false
			allInstrs(f, func(x ssa.Instruction) {
				if u, ok := x.(*ssa.UnOp); ok && u.Op == token.ARROW {
					if call, ok := u.X.(*ssa.Call); ok && call.Call.IsInvoke() && call.Call.Method.Name() == "Done" {
						if fr, _, isF := loadedField(call.Call.Value); isF && fr.Field == w.Roles().SSCtx {
							hasWait = true
						}
					}
				}
				if ci, ok := x.(ssa.CallInstruction); ok && ci.Common().IsInvoke() && ci.Common().Method.Name() == w.mName("cancel") {
					hasCancel = true
				}
			})
			if hasWait && hasCancel {
				watcher = g
			}
		}
	})
	okW := watcher != nil
	if okW {
		// before any handler call, unconditionally
		allInstrs(a.Dispatch, func(in ssa.Instruction) {
			if call, ok := in.(*ssa.Call); ok && staticCallee(call) == nil && !call.Call.IsInvoke() {
				if fr, _, isF := loadedField(call.Call.Value); isF && fr.Field == "Handler" && !dominates(watcher, call) {
					okW = false
				}
			}
		})
	}
	c.check(okW, rule, w.Short(a.Dispatch)+": context watcher cancels the receiver for every RPC", posOf(w, a.Dispatch), "go { <-st.ctx.Done(); st.receiver.cancel() } dominates the handler invocation", "the dispatch function does not unconditionally start the goroutine that cancels the receiver when the stream context ends: a handler blocked in Recv is not woken when the RPC is cancelled, times out or the tunnel ends")
}

// ---------- registry ----------

// ruleRegistryPairing (C12.2 / C14.5).
func ruleRegistryPairing(c *Ctx, rule string) {
	c.rule(rule, "registry add => deferred remove: in the reverse-open function each add(ch, …) on a registry is followed, before the blocking wait, by a deferred remove(ch) of the same channel on the same registry, and the channel's deferred Close is registered before both")
	w := c.W
	fn := w.roleFunc("(*TunnelServiceHandler).openReverseTunnel")
	if fn == nil {
		c.fail(rule, "reverse-open function", "-", "not found")
		return
	}
	addF, rmF := w.roleFunc("(*reverseChannels).add"), w.roleFunc("(*reverseChannels).remove")
	if addF == nil || rmF == nil {
		c.fail(rule, "registry add/remove", "-", "not found")
		return
	}
	var adds []*ssa.Call
	var rms []*ssa.Defer
	var closeDef *ssa.Defer
	var wait ssa.Instruction
	allInstrs(fn, func(in ssa.Instruction) {
		switch x := in.(type) {
		case *ssa.Call:
			if w.sameFn(staticCallee(x), addF) {
				adds = append(adds, x)
			}
		case *ssa.Defer:
			if w.sameFn(staticCallee(x), rmF) {
				rms = append(rms, x)
			}
			if f := staticCallee(x); f != nil && f.Name() == "Close" {
				closeDef = x
			}
		case *ssa.UnOp:
			if x.Op == token.ARROW {
				wait = x
			}
		}
	})
	c.floor(rule, len(adds), 2, "registry add calls (global, per key)")
	for _, ad := range adds {
		paired := false
		for _, rm := range rms {
			if desc(rm.Call.Args[0]) == desc(ad.Call.Args[0]) && origin(rm.Call.Args[1]) == origin(ad.Call.Args[1]) && dominates(ad, rm) && (wait == nil || dominates(rm, wait)) {
				paired = true
			}
		}
		c.check(paired, rule, "add on "+desc(ad.Call.Args[0])+" paired with a deferred remove", w.At(ad), "defer remove(ch) on the same registry before the wait", "this registration has no deferred remove of the same channel on the same registry before the handler blocks: a closed or broken tunnel stays routable")
	}
	okClose := closeDef != nil
	for _, ad := range adds {
		if closeDef == nil || !dominates(closeDef, ad) {
			okClose = false
		}
	}
	c.check(okClose, rule, "channel Close deferred before registration", posOf(w, fn), "defer ch.Close() dominates both adds", "the channel's Close is not deferred before it is registered: a panic or early return leaves a registered, never-closed tunnel")
	c.check(wait != nil, rule, "handler waits for the channel to end", posOf(w, fn), "<-ch.Done()", "the reverse-open handler no longer waits for the channel's Done(): the tunnel would be torn down at once")
}

// ruleGracefulStopReturns (C10.6).
func ruleGracefulStopReturns(c *Ctx, rule string) {
	c.rule(rule, "every WaitGroup wait has a release edge: a function that waits for the Serve calls must itself (or through the stream-removal path under the closing predicate) end the registered tunnels")
	w := c.W
	n := 0
	for _, fn := range w.Funcs {
		for _, e := range w.directEffects(fn).Effects {
			if e.Kind != "wg-wait" {
				continue
			}
			n++
			top := topFn(fn)
			reach := w.sameGoroutineReach(top, nil)
			ends := false
			for g := range reach {
				for _, e2 := range w.directEffects(g).Effects {
					if e2.Kind == "carrier-closesend" {
						ends = true
					}
				}
			}
			if ends {
				c.ok(rule, w.Short(top)+": wg.Wait released by ending every instance", w.At(e.Instr), "the function half-closes every registered tunnel before waiting")
			} else {
				c.fail(rule, w.Short(top)+": wg.Wait with no release edge", w.At(e.Instr), "this function waits for every Serve call to return but nothing it does (and nothing the closing predicate triggers when the last RPC finishes) ends the registered tunnels: with an idle tunnel it blocks until the peer hangs up")
			}
		}
	}
	c.floor(rule, n, 2, "WaitGroup waits (Stop, GracefulStop)")
	// ... and the wait is performed on every path (an "already stopping" early return must wait too)
	for _, name := range []string{"Stop", "GracefulStop"} {
		fn := w.Func("(*ReverseTunnelServer)." + name)
		if fn == nil {
			c.fail(rule, name, "-", "not found")
			continue
		}
		okAll := false
		var deferred *ssa.Defer
		allInstrs(fn, func(in ssa.Instruction) {
			if d, ok := in.(*ssa.Defer); ok && calleeName(d) == "(*sync.WaitGroup).Wait" {
				deferred = d
			}
		})
		isWait := func(in ssa.Instruction) bool {
			ci, ok := in.(ssa.CallInstruction)
			if !ok || calleeName(ci) != "(*sync.WaitGroup).Wait" {
				return false
			}
			_, isD := in.(*ssa.Defer)
			return !isD
		}
		if deferred != nil {
			okAll = pathAvoiding(fn, nil, isExit, func(in ssa.Instruction) bool { return in == ssa.Instruction(deferred) }) == nil
		} else {
			okAll = pathAvoiding(fn, nil, isExit, isWait) == nil
		}
		c.check(okAll, rule, name+": waits for the Serve calls on every path", posOf(w, fn), "wg.Wait() on every path (deferred first, or before every return)", name+" has a return path that does not wait for the Serve calls (e.g. the 'already stopping' early return): a second or concurrent call returns while RPCs are in flight and Serve is still running")
		// ... and never before shutdown has begun: an explicit (non-deferred) wait is not followed by the store of the state
		stF := FieldRef{"ReverseTunnelServer", w.Roles().RTSState}
		early := false
		allInstrs(fn, func(in ssa.Instruction) {
			if !isWait(in) {
				return
			}
			for _, st := range storesToField(fn, stF) {
				if reaches(in, st) || (in.Block() == st.Block() && instrIndex(in) < instrIndex(st)) {
					early = true
				}
			}
		})
		c.check(!early, rule, name+": does not wait before shutdown has begun", posOf(w, fn), "the state is set before any explicit wg.Wait()", name+" waits for the Serve calls before it sets the state that refuses new RPCs / ends the tunnels: nothing ends them, so it blocks until the peers hang up, and meanwhile new RPCs are still accepted")
	}
}

var _ = fmt.Sprint

// isRecvField: v is a load of <receiver of fn>.<field>, possibly through a MakeInterface.
func isRecvField(v ssa.Value, fn *ssa.Function, field string) bool {
	if v == nil || fn == nil {
		return false
	}
	fr, base, ok := loadedField(origin(v))
	return ok && fr.Field == field && len(fn.Params) > 0 && origin(base) == ssa.Value(fn.Params[0])
}
