package main

import (
	"context"
	"sync"
	"testing"
	"time"

	"github.com/jhump/grpctunnel"
	"github.com/jhump/grpctunnel/tunnelpb"
	"google.golang.org/grpc"
	"google.golang.org/protobuf/types/known/wrapperspb"
)

// slowStub delays delivery of the first frame (settings) to the tunnel client's
// receive loop, and tells the test when that frame is in hand. It changes no
// semantics, it only widens the window.
type slowStub struct {
	tunnelpb.TunnelServiceClient
	got chan struct{}
}

type slowStream struct {
	tunnelpb.TunnelService_OpenTunnelClient
	once sync.Once
	got  chan struct{}
}

func (s *slowStub) OpenTunnel(ctx context.Context, opts ...grpc.CallOption) (tunnelpb.TunnelService_OpenTunnelClient, error) {
	st, err := s.TunnelServiceClient.OpenTunnel(ctx, opts...)
	if err != nil {
		return nil, err
	}
	return &slowStream{TunnelService_OpenTunnelClient: st, got: s.got}, nil
}

func (s *slowStream) Recv() (*tunnelpb.ServerToClient, error) {
	m, err := s.TunnelService_OpenTunnelClient.Recv()
	s.once.Do(func() {
		close(s.got)
		time.Sleep(100 * time.Millisecond)
	})
	return m, err
}

func TestSettingsRace(t *testing.T) {
	s := &svc{}
	h := grpctunnel.NewTunnelServiceHandler(grpctunnel.TunnelServiceHandlerOptions{})
	h.RegisterService(&desc, s)
	cc, stop := startServer(func(gs *grpc.Server) { tunnelpb.RegisterTunnelServiceServer(gs, h.Service()) })
	defer stop()
	stub := &slowStub{TunnelServiceClient: tunnelpb.NewTunnelServiceClient(cc), got: make(chan struct{})}
	ctx, cancel := context.WithCancel(context.Background())
	go func() {
		<-stub.got
		cancel() // the context that opened the tunnel is cancelled while Start is waiting for settings
	}()
	ch, err := grpctunnel.NewChannel(stub).Start(ctx)
	if err != nil {
		t.Fatal(err)
	}
	deadline := time.Now().Add(300 * time.Millisecond)
	n := 0
	for time.Now().Before(deadline) {
		var out wrapperspb.StringValue
		_ = ch.Invoke(context.Background(), "/t.Svc/U", &wrapperspb.StringValue{Value: "x"}, &out)
		n++
	}
	t.Logf("invokes attempted: %d, channel err: %v", n, ch.Err())
}
