package main

import (
	"context"
	"io"
	"sync"
	"testing"

	"github.com/jhump/grpctunnel"
	"github.com/jhump/grpctunnel/tunnelpb"
	"google.golang.org/grpc"
	"google.golang.org/grpc/metadata"
	"google.golang.org/protobuf/types/known/wrapperspb"
)

// F-2: read the grpc.Trailer target / Trailer() right after Recv returns EOF.
func TestTrailerRace(t *testing.T) {
	s := &svc{}
	h := grpctunnel.NewTunnelServiceHandler(grpctunnel.TunnelServiceHandlerOptions{})
	h.RegisterService(&desc, s)
	cc, stop := startServer(func(gs *grpc.Server) { tunnelpb.RegisterTunnelServiceServer(gs, h.Service()) })
	defer stop()
	ctx := context.Background()
	ch, err := grpctunnel.NewChannel(tunnelpb.NewTunnelServiceClient(cc)).Start(ctx)
	if err != nil {
		t.Fatal(err)
	}
	bidi := &grpc.StreamDesc{StreamName: "B", ClientStreams: true, ServerStreams: true}
	var wg sync.WaitGroup
	var mu sync.Mutex
	nilTr, total := 0, 0
	for g := 0; g < 8; g++ {
		wg.Add(1)
		go func() {
			defer wg.Done()
			for i := 0; i < 1500; i++ {
				var target metadata.MD
				st, err := ch.NewStream(ctx, bidi, "/t.Svc/B", grpc.Trailer(&target))
				if err != nil {
					t.Error(err)
					return
				}
				_ = st.CloseSend()
				var out wrapperspb.StringValue
				err = st.RecvMsg(&out)
				tr := st.Trailer()
				_ = len(target) // read of the call-option target after the terminal result
				mu.Lock()
				total++
				if err == io.EOF && tr == nil {
					nilTr++
				}
				mu.Unlock()
			}
		}()
	}
	wg.Wait()
	t.Logf("Trailer()==nil right after Recv returned EOF: %d / %d", nilTr, total)
}
