package main

import (
	"context"
	"fmt"
	"io"
	"net"
	"os"
	"sync"
	"time"

	"github.com/jhump/grpctunnel"
	"github.com/jhump/grpctunnel/tunnelpb"
	"google.golang.org/grpc"
	"google.golang.org/grpc/codes"
	"google.golang.org/grpc/credentials/insecure"
	"google.golang.org/grpc/metadata"
	"google.golang.org/grpc/status"
	"google.golang.org/protobuf/types/known/wrapperspb"
)

type svc struct {
	mu      sync.Mutex
	log     []string
	release chan struct{}
}

func (s *svc) logf(f string, a ...any) {
	s.mu.Lock()
	defer s.mu.Unlock()
	s.log = append(s.log, fmt.Sprintf(f, a...))
}

type svcIface interface{}

func unaryHandler(srv interface{}, ctx context.Context, dec func(interface{}) error, _ grpc.UnaryServerInterceptor) (interface{}, error) {
	s := srv.(*svc)
	var in wrapperspb.StringValue
	if err := dec(&in); err != nil {
		return nil, err
	}
	dl, ok := ctx.Deadline()
	s.logf("unary in=%q deadline=%v(%v) ctxErr=%v", in.Value, ok, time.Until(dl).Round(time.Millisecond), ctx.Err())
	switch in.Value {
	case "badheader":
		_ = grpc.SetHeader(ctx, metadata.Pairs("x-bin", string([]byte{0xff, 0xfe})))
	case "trailer":
		_ = grpc.SetTrailer(ctx, metadata.Pairs("t", "v"))
	}
	return &wrapperspb.StringValue{Value: "re:" + in.Value}, nil
}

func bidiHandler(srv interface{}, stream grpc.ServerStream) error {
	s := srv.(*svc)
	for i := 0; ; i++ {
		var in wrapperspb.StringValue
		err := stream.RecvMsg(&in)
		s.logf("bidi recv#%d val=%q err=%v ctxErr=%v", i, in.Value, err, stream.Context().Err())
		if err != nil {
			if err == io.EOF {
				return nil
			}
			return err
		}
		if in.Value == "echo" {
			if err := stream.SendMsg(&wrapperspb.StringValue{Value: "echo"}); err != nil {
				return err
			}
		}
		if i > 5 {
			return status.Error(codes.Internal, "too many")
		}
	}
}

var desc = grpc.ServiceDesc{
	ServiceName: "t.Svc",
	HandlerType: (*svcIface)(nil),
	Methods:     []grpc.MethodDesc{{MethodName: "U", Handler: unaryHandler}},
	Streams:     []grpc.StreamDesc{{StreamName: "B", Handler: bidiHandler, ClientStreams: true, ServerStreams: true}},
}

type creds struct{}

func (creds) GetRequestMetadata(context.Context, ...string) (map[string]string, error) {
	return map[string]string{"authorization": "x"}, nil
}
func (creds) RequireTransportSecurity() bool { return false }

// fake tunnel service that sends settings with an empty revision list
type emptySettingsSvc struct {
	tunnelpb.UnimplementedTunnelServiceServer
}

func (emptySettingsSvc) OpenTunnel(stream tunnelpb.TunnelService_OpenTunnelServer) error {
	_ = stream.SendHeader(metadata.Pairs("grpctunnel-negotiate", "on"))
	_ = stream.Send(&tunnelpb.ServerToClient{StreamId: -1, Frame: &tunnelpb.ServerToClient_Settings{Settings: &tunnelpb.Settings{}}})
	<-stream.Context().Done()
	return nil
}

func startServer(reg func(*grpc.Server)) (*grpc.ClientConn, func()) {
	l, err := net.Listen("tcp", "127.0.0.1:0")
	if err != nil {
		panic(err)
	}
	gs := grpc.NewServer()
	reg(gs)
	go gs.Serve(l)
	cc, err := grpc.NewClient(l.Addr().String(), grpc.WithTransportCredentials(insecure.NewCredentials()))
	if err != nil {
		panic(err)
	}
	return cc, func() { cc.Close(); gs.Stop() }
}

func main() {
	which := os.Args[1]
	s := &svc{}
	h := grpctunnel.NewTunnelServiceHandler(grpctunnel.TunnelServiceHandlerOptions{})
	h.RegisterService(&desc, s)
	cc, stop := startServer(func(gs *grpc.Server) { tunnelpb.RegisterTunnelServiceServer(gs, h.Service()) })
	defer stop()
	ctx := context.Background()
	ch, err := grpctunnel.NewChannel(tunnelpb.NewTunnelServiceClient(cc)).Start(ctx)
	if err != nil {
		panic(err)
	}
	bidi := &grpc.StreamDesc{StreamName: "B", ClientStreams: true, ServerStreams: true}
	dump := func() {
		time.Sleep(200 * time.Millisecond)
		s.mu.Lock()
		for _, l := range s.log {
			fmt.Println("  handler:", l)
		}
		s.mu.Unlock()
	}
	unary := func(ctx context.Context, v string, opts ...grpc.CallOption) (string, error) {
		var out wrapperspb.StringValue
		err := ch.Invoke(ctx, "/t.Svc/U", &wrapperspb.StringValue{Value: v}, &out, opts...)
		return out.Value, err
	}
	switch which {
	case "F1":
		// handler blocked in Recv when its deadline (from grpc-timeout header) expires
		c2 := metadata.AppendToOutgoingContext(ctx, "grpc-timeout", "100m")
		st, err := ch.NewStream(c2, bidi, "/t.Svc/B")
		fmt.Println("newstream err", err)
		_ = st.SendMsg(&wrapperspb.StringValue{Value: "first"})
		time.Sleep(500 * time.Millisecond)
		dump()
	case "F1b":
		// handler blocked in Recv when the tunnel is closed
		st, err := ch.NewStream(ctx, bidi, "/t.Svc/B")
		fmt.Println("newstream err", err)
		_ = st.SendMsg(&wrapperspb.StringValue{Value: "first"})
		time.Sleep(100 * time.Millisecond)
		ch.Close()
		time.Sleep(300 * time.Millisecond)
		dump()
	case "F2":
		nilTrailers, n := 0, 3000
		for i := 0; i < n; i++ {
			st, err := ch.NewStream(ctx, bidi, "/t.Svc/B")
			if err != nil {
				panic(err)
			}
			_ = st.CloseSend()
			var out wrapperspb.StringValue
			err = st.RecvMsg(&out)
			tr := st.Trailer()
			if err == io.EOF && tr == nil {
				nilTrailers++
			}
		}
		fmt.Printf("Trailer()==nil immediately after Recv returned EOF: %d / %d\n", nilTrailers, n)
	case "F3":
		func() {
			defer func() { fmt.Println("recovered:", recover()) }()
			_, err := unary(ctx, "x", grpc.PerRPCCredentials(creds{}))
			fmt.Println("unary err", err)
		}()
	case "F4":
		st, _ := ch.NewStream(ctx, bidi, "/t.Svc/B") // bystander
		_ = st.SendMsg(&wrapperspb.StringValue{Value: "echo"})
		var out wrapperspb.StringValue
		fmt.Println("bystander first recv:", st.RecvMsg(&out))
		_, err := unary(ctx, "badheader")
		fmt.Println("disturber err:", err)
		time.Sleep(200 * time.Millisecond)
		_ = st.SendMsg(&wrapperspb.StringValue{Value: "echo"})
		fmt.Println("bystander second recv:", st.RecvMsg(&out))
		select {
		case <-ch.Done():
			fmt.Println("channel done, err =", ch.Err())
		default:
			fmt.Println("channel still up")
		}
	case "F5":
		st, _ := ch.NewStream(ctx, bidi, "/t.Svc/B") // in-flight
		_ = st.SendMsg(&wrapperspb.StringValue{Value: "echo"})
		var out wrapperspb.StringValue
		fmt.Println("inflight first recv:", st.RecvMsg(&out))
		h.InitiateShutdown()
		_, err := unary(ctx, "late")
		fmt.Println("late RPC err:", err)
		time.Sleep(200 * time.Millisecond)
		_ = st.SendMsg(&wrapperspb.StringValue{Value: "echo"})
		fmt.Println("inflight second recv:", st.RecvMsg(&out))
		select {
		case <-ch.Done():
			fmt.Println("channel done, err =", ch.Err())
		default:
			fmt.Println("channel still up")
		}
	case "F6":
		var out wrapperspb.StringValue
		err := ch.Invoke(ctx, "", &wrapperspb.StringValue{}, &out)
		fmt.Println("invoke err", err)
		time.Sleep(300 * time.Millisecond)
	case "F8":
		cc2, stop2 := startServer(func(gs *grpc.Server) { tunnelpb.RegisterTunnelServiceServer(gs, emptySettingsSvc{}) })
		defer stop2()
		ch2, err := grpctunnel.NewChannel(tunnelpb.NewTunnelServiceClient(cc2)).Start(ctx)
		fmt.Println("start err:", err)
		if ch2 != nil {
			select {
			case <-ch2.Done():
				fmt.Println("channel done, err =", ch2.Err())
			case <-time.After(500 * time.Millisecond):
				fmt.Println("channel up (treated as revision zero)")
			}
		}
	case "F9":
		for _, v := range []string{"5S", "-1S", "+5S", "2562048H", "99999999H", "123456789n", "1 S", "5", "S"} {
			c2 := metadata.AppendToOutgoingContext(ctx, "grpc-timeout", v)
			_, err := unary(c2, "timeout="+v)
			fmt.Printf("grpc-timeout=%q -> err=%v\n", v, err)
		}
		dump()
	case "F10":
		st, _ := ch.NewStream(ctx, bidi, "/t.Svc/B")
		fmt.Println("CloseSend:", st.CloseSend())
		fmt.Println("SendMsg after CloseSend:", st.SendMsg(&wrapperspb.StringValue{Value: "after"}))
		dump()
	case "F7":
		rs := grpctunnel.NewReverseTunnelServer(tunnelpb.NewTunnelServiceClient(cc))
		rs.RegisterService(&desc, s)
		go rs.Serve(ctx)
		_ = h.AsChannel().WaitForReady(ctx)
		done := make(chan struct{})
		go func() { rs.GracefulStop(); close(done) }()
		select {
		case <-done:
			fmt.Println("GracefulStop returned")
		case <-time.After(2 * time.Second):
			fmt.Println("GracefulStop still blocked after 2s on an idle tunnel with zero RPCs in flight")
		}
	}
}
